"""Regenerates corpus/c02_discriminating.json: small knotted structures on which a plausible wrong MILP objective (level-0 reward
doubled, penalty without the factor k, factor k+1, factor k*k) has NO optimum that is optimal for the real objective.  Pure
enumeration from the definition; does not import the library.  Run: python3 tools_c02_corpus.py"""
import itertools
import json
import os
import sys

sys.path.insert(0, os.path.dirname(os.path.abspath(__file__)))


def main():
    os.environ.setdefault("RNAPOLIS_VERIF_NO_IMPORT", "1")
    from harness import gen2d
    import importlib.util
    spec = importlib.util.spec_from_file_location("c02core", os.path.join(os.path.dirname(os.path.abspath(__file__)), "harness", "c02_core.py"))
    core = importlib.util.module_from_spec(spec)
    spec.loader.exec_module(core)
    out = []
    per_variant = {q: 0 for q in range(4)}
    for k in (3, 4):
        for toks in gen2d.chord_diagrams(k):
            for v in itertools.product(range(1, 6), repeat=k):
                p = gen2d.thick(toks, list(v), gap=1)
                if not gen2d.is_knotted(p):
                    break
                which = core.discriminating_variants(core.regions_of_pairs(p))
                new = [q for q in which if per_variant[q] < 25]
                if new:
                    for q in new:
                        per_variant[q] += 1
                    out.append({"tokens": toks, "lengths": list(v), "pairs": p, "variants": which})
    # the variants that need longer stems: a second pass over odd lengths up to 9
    for k in (4,):
        for toks in gen2d.chord_diagrams(k):
            for v in itertools.product((1, 3, 5, 7, 9), repeat=k):
                if all(per_variant[q] >= 25 for q in (0, 2)):
                    break
                p = gen2d.thick(toks, list(v), gap=1)
                if not gen2d.is_knotted(p):
                    break
                which = core.discriminating_variants(core.regions_of_pairs(p))
                new = [q for q in which if q in (0, 2) and per_variant[q] < 25]
                if new:
                    for q in new:
                        per_variant[q] += 1
                    out.append({"tokens": toks, "lengths": list(v), "pairs": p, "variants": which})
    json.dump(out, open(os.path.join(os.path.dirname(os.path.abspath(__file__)), "corpus", "c02_discriminating.json"), "w"))
    print(len(out), per_variant)


if __name__ == "__main__":
    main()
