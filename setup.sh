#!/bin/bash
# Build the whole Coq development from files on disk (offline). Full .vo build.
set -e
cd "$(dirname "$0")"
export PYTHONPATH=/repo/src PYTHONDONTWRITEBYTECODE=1
mkdir -p build evidence
/venv/bin/python -m translator.run /repo /verif/coq/Gen > build/translator.json
cd coq
coq_makefile -f _CoqProject -o Makefile > /dev/null
timeout 3000 make -j16 2>&1 | tail -5
