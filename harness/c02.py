"""C02 — pseudoknot order assignment is a proper and optimal level assignment."""
import itertools

from . import gen2d, impl2d
from .c01 import bexpr, component_sizes
from .core import Err, Nat, lit

RUN_TARGETS = ["Run/R2D.vo"]
IMPORTS = "From RV Require Import Base.Val Model.Bpseq Run.R2D."
TRUSTED = ["oracle: CBC (the solver is not verified; its contract 'Optimal => feasible, integral, objective-maximal' is validated "
           "on every explored input by comparing the score of its answer with the verified exhaustive optimiser opt_score)",
           "float read-back varValue == 1 modelled as exact"]


def py_score(regs, levels):
    return sum((r[2] if k == 0 else -k * r[2]) for r, k in zip(regs, levels))


def py_opt(regs):
    """independent brute force: the score is additive over the connected groups of crossing stems, and in an optimal assignment
    a stem crossed by d others sits on a level <= d (at most d levels are taken by its neighbours, and moving it to a free lower
    level would raise the score), so every group is enumerated on its own with stem v ranging over levels 0..deg(v)"""
    n = len(regs)
    adj = [[False] * n for _ in range(n)]
    for i, j in itertools.combinations(range(n), 2):
        k, l, _ = regs[i]
        m, nn, _ = regs[j]
        if k < m < l < nn or m < k < nn < l:
            adj[i][j] = adj[j][i] = True
    seen, total = set(), 0
    for s0 in range(n):
        if s0 in seen:
            continue
        comp, todo = [], [s0]
        seen.add(s0)
        while todo:
            v = todo.pop()
            comp.append(v)
            for w in range(n):
                if adj[v][w] and w not in seen:
                    seen.add(w)
                    todo.append(w)
        comp.sort()
        size = len(comp)
        deg = {v: sum(1 for w in comp if adj[v][w]) for v in comp}
        best = [None]
        cur = {}

        def rec(t, sc):
            if t == size:
                if best[0] is None or sc > best[0]:
                    best[0] = sc
                return
            v = comp[t]
            for lv in range(deg[v] + 1):
                if all(not (adj[v][w] and cur.get(w) == lv) for w in comp[:t]):
                    cur[v] = lv
                    rec(t + 1, sc + (regs[v][2] if lv == 0 else -lv * regs[v][2]))
            cur.pop(v, None)
        rec(0, 0)
        total += best[0]
    return total, adj


from .c02_core import score_gap, discriminates, regions_of_pairs  # noqa: E402,F401


def structures(ctx):
    rng = ctx.rng
    # a fixed corpus first: 75 small knotted structures on which a plausible wrong objective (level-0 reward doubled, penalty
    # without the factor k, with k+1, with k*k) has no optimum that is optimal for the real one (tools_c02_corpus.py regenerates it)
    import json
    import os
    path = os.path.join(os.path.dirname(os.path.dirname(os.path.abspath(__file__))), "corpus", "c02_discriminating.json")
    for rec in json.load(open(path)):
        yield ("discriminating", rec["pairs"])
    for n in range(1, (8 if ctx.quick else 9) + 1):
        for p in gen2d.all_matchings(n):
            if n <= 6 or gen2d.is_knotted(p):
                yield ("exhaustive", p)
    for _ in range(5 if ctx.quick else 50):
        yield ("many-stems", gen2d.many_stems(rng, rng.randint(9, 13)))
    # every way k <= 4 stems can interleave (all chord diagrams), with unequal stem lengths: quick draws 4 length vectors per
    # diagram, thorough takes all of {1,2,3}^k for k <= 3 and {1,2}^4 plus 12 random vectors for k = 4
    for k in (2, 3, 4):
        for toks in gen2d.chord_diagrams(k):
            if ctx.quick:
                vecs = [[rng.randint(1, 3) for _ in range(k)] for _ in range(4)]
            elif k <= 3:
                vecs = [list(v) for v in itertools.product((1, 2, 3), repeat=k)]
            else:
                vecs = [list(v) for v in itertools.product((1, 2), repeat=k)] + [[rng.randint(1, 4) for _ in range(k)] for _ in range(12)]
            for v in vecs:
                p = gen2d.thick(toks, v, gap=rng.choice([0, 1, 1]))
                if gen2d.is_knotted(p):
                    yield ("diagram", p)
            # near-ties: among 24 (thorough 60) drawn length vectors up to 9 pairs per stem, the ones whose best and second-best
            # proper assignments score closest - where an objective that is off by a factor or a term picks the wrong one
            if k >= 3:
                scored = []
                for _ in range(40 if ctx.quick else 100):
                    v = [rng.randint(1, 9) for _ in range(k)]
                    p = gen2d.thick(toks, v, gap=1)
                    if not gen2d.is_knotted(p):
                        break
                    rg = regions_of_pairs(p)
                    g = score_gap(rg)
                    if g:
                        scored.append((0 if discriminates(rg) else 1, g, v, p))
                scored.sort(key=lambda t: t[1])
                chosen = [t for t in scored if t[0] == 0][:(4 if ctx.quick else 8)] + scored[:(3 if ctx.quick else 6)]
                seen_v = set()
                for _, g, v, p in chosen:
                    if tuple(v) not in seen_v:
                        seen_v.add(tuple(v))
                        yield ("near-tie", p)
    for _ in range(60 if ctx.quick else 400):
        k = rng.randint(3, 8 if ctx.quick else 9)
        p = gen2d.layout(rng, k, maxlen=rng.choice([2, 4, 6]), maxgap=rng.choice([0, 1, 2]))
        if gen2d.is_knotted(p):
            yield ("layout", p)


def run(ctx):
    ctx.coverage["rule"] = ("a fixed corpus of 75 structures that tell the objective from four plausible wrong ones + every pairing on <= N positions (N = 8 quick, 9 thorough; beyond 6 only knotted ones) + every interleaving of <= 4 stems (all chord diagrams) with drawn/enumerated stem lengths + random knotted layouts with 3-8 "
                            "(thorough 9) stems of unequal lengths. Non-trivial = conflict graph non-empty; distinct by pair array. "
                            "Counted separately: cases where FCFS is sub-optimal.")
    lp_expr, lp_exp, lp_case = [], [], []
    spec_expr, spec_exp, spec_case = [], [], []
    fcfs_subopt = 0
    no_solver_call = []
    for kind, pairs in structures(ctx):
        seq = gen2d.seq_for(ctx.rng, len(pairs))
        b = impl2d.mk(seq, pairs)
        sizes = component_sizes(b)
        if any(s > 8 for s in sizes):
            continue
        regs = impl2d.regions(b)
        if len(regs) > 9 and kind != "many-stems":
            continue
        knotted = bool(sizes)
        ctx.count(tuple(pairs), knotted, kind)
        be = bexpr(seq, pairs)
        rec = impl2d.Recording()
        res = impl2d.guarded(lambda: b.convert_to_dot_bracket(rec).structure)
        case = {"kind": kind, "sequence": seq, "pairs": pairs, "regions": regs, "dot_bracket": repr(res) if isinstance(res, Err) else res}
        if isinstance(res, Err):
            ctx.violation(f"convert_to_dot_bracket raised {res.kind}", {"case": case})
            continue
        if not knotted:
            if rec.calls != 0 or any(c not in "()." for c in res):
                ctx.violation("pseudoknot-free structure does not use round brackets only", {"case": case})
            continue
        if rec.lp is None:
            # the implementation did not consult the solver although stems cross: the model always does.  The spec checks below
            # still decide whether the answer is right; the disagreement itself is reported if they find nothing.
            no_solver_call.append(case)
            ones = None
        # the LP really built vs. the model's
        if rec.lp is not None:
          lp_expr.append(f"run_lp {be}")
          lp_exp.append(impl2d.lp_summary(rec.lp, len(regs)))
          lp_case.append(case)
          ones = impl2d.ones_of(rec.lp)
          lp_expr.append(f"run_feasible {be} {lit([(Nat(i), Nat(o)) for i, o in ones])}")
          lp_exp.append(True)
          lp_case.append(dict(case, solver_ones=ones))
          import pulp
          lp_expr.append(f"run_objective {be} {lit([(Nat(i), Nat(o)) for i, o in ones])}")
          lp_exp.append(int(round(pulp.value(rec.lp.objective))))
          lp_case.append(dict(case, solver_ones=ones))
        # spec: proper, optimal among all proper assignments, >= FCFS, stable
        levels = [gen2d.OPEN.index(res[r[0] - 1]) for r in regs]
        sc = py_score(regs, levels)
        opt, adj = py_opt(regs) if len(regs) <= 9 else (None, None)
        if opt is None:
            # many stems: brute force over the knotted ones only (the others sit on level 0 in every optimum)
            n_ = len(regs)
            adj = [[False] * n_ for _ in range(n_)]
            for i_, j_ in itertools.combinations(range(n_), 2):
                k_, l_, _ = regs[i_]
                m_, nn_, _ = regs[j_]
                if k_ < m_ < l_ < nn_ or m_ < k_ < nn_ < l_:
                    adj[i_][j_] = adj[j_][i_] = True
            knotted_ix = [i_ for i_ in range(n_) if any(adj[i_])]
            sub, _ = py_opt([regs[i_] for i_ in knotted_ix])
            opt = sub + sum(regs[i_][2] for i_ in range(n_) if i_ not in knotted_ix)
        case.update(levels=levels, score=sc, optimum=opt)
        fc = b.fcfs.structure
        fsc = py_score(regs, [gen2d.OPEN.index(fc[r[0] - 1]) for r in regs])
        if fsc < opt:
            fcfs_subopt += 1
        n = len(regs)
        improper = any(adj[i][j] and levels[i] == levels[j] for i in range(n) for j in range(i))
        movable = any(all(not (adj[i][j] and levels[j] == lv) for j in range(n)) for i in range(n) for lv in range(levels[i]))
        if improper:
            ctx.violation("crossing stems share a bracket level", {"case": case})
        elif sc != opt:
            ctx.violation("level assignment is not optimal", {"case": case, "fcfs_score": fsc})
        elif sc < fsc or movable:
            ctx.violation("result worse than FCFS or a stem could move to a lower level", {"case": case})
        if len(regs) <= (6 if ctx.quick else 8):
            spec_expr.append(f"run_optimal {be} {lit(res)}")
            spec_exp.append([True, opt, opt])
            spec_case.append(case)
        if kind == "layout" and len(ctx.coverage["samples"]) < 3:
            ctx.sample(case)
    ctx.coverage["fcfs_suboptimal_cases"] = fcfs_subopt
    if not ctx.model_ok:
        return
    bad, err = ctx.coq_mismatches("spec", IMPORTS, spec_expr, spec_exp, shard=60)
    if err:
        ctx.violation("spec cases failed to evaluate", {"error": err}, has_input=False)
    if bad:
        shown = ctx.coq_show(IMPORTS, [spec_expr[i] for i in bad[:5]])
        for n, i in enumerate(bad[:10]):
            ctx.violation("verified optimiser opt_score disagrees: answer improper or not optimal",
                          {"case": spec_case[i], "model [proper, score, opt_score]": shown[n] if n < len(shown) else None})
    bad, err = ctx.coq_mismatches("lp", IMPORTS, lp_expr, lp_exp, shard=150)
    if err:
        ctx.violation("LP correspondence cases failed to evaluate", {"error": err}, has_input=False)
    if bad:
        shown = ctx.coq_show(IMPORTS, [lp_expr[i] for i in bad[:5]])
        for n, i in enumerate(bad[:10]):
            ctx.violation("the MILP built by the code differs from the model's (or the solver's point is not feasible / objective differs)",
                          {"case": lp_case[i], "implementation": lp_exp[i], "model": shown[n] if n < len(shown) else None,
                           "correspondence": "Run.R2D." + lp_expr[i].split()[0]}, has_input=False)
    for case in no_solver_call[:3]:
        ctx.violation("the solver was not consulted although stems cross (the model always builds and solves the MILP)",
                      {"case": case, "correspondence": "Run.R2D.run_lp"}, has_input=False)
    ctx.coverage["knotted_cases_without_solver_call"] = len(no_solver_call)
    ctx.coverage["lp_compared"] = len(lp_expr) // 3
    ctx.coverage["opt_score_checked"] = len(spec_expr)
    ctx.coverage["exhaustive"] = True
    ctx.coverage["exhaustive_bound"] = "all pairings on <= %d positions" % (8 if ctx.quick else 9)
