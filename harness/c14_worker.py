"""Run in a fresh interpreter under a given PYTHONHASHSEED: prints one JSON line per job with a
digest of every output of the library for that input."""
import hashlib
import io
import json
import logging
import os
import sys
import tempfile

logging.disable(logging.CRITICAL)


def digest(x):
    if isinstance(x, bytes):
        return hashlib.sha256(x).hexdigest()[:20]
    return hashlib.sha256(x.encode()).hexdigest()[:20]


def job_2d(job):
    from rnapolis.common import BpSeq, Entry
    out = {}
    for rep in range(2):  # repeated in-process on fresh objects
        b = BpSeq([Entry(i + 1, c, p) for i, (c, p) in enumerate(zip(job["sequence"], job["pairs"]))])
        o = {"bpseq": str(b), "dot_bracket": b.dot_bracket.structure, "fcfs": b.fcfs.structure,
             "all_dot_brackets": "|".join(d.structure for d in b.all_dot_brackets),
             "elements": "|".join(str(x) for part in b.elements for x in part)}
        if rep == 0:
            out = o
        elif o != out:
            out["in_process_repeat_differs"] = "yes"
    return out


def job_3d(job):
    from rnapolis.annotator import extract_secondary_structure, write_csv, write_json, write_bpseq
    from rnapolis.parser import read_3d_structure
    from rnapolis.tertiary import Mapping2D3D
    out = None
    for rep in range(2):
        with open(job["path"]) as f:
            s3 = read_3d_structure(f, None)
        s2, dbs = extract_secondary_structure(s3, None, job.get("find_gaps", False), True)
        o = {}
        with tempfile.TemporaryDirectory() as d:
            write_json(os.path.join(d, "a.json"), s2)
            write_csv(os.path.join(d, "a.csv"), s2)
            o["json"] = digest(open(os.path.join(d, "a.json"), "rb").read())
            o["csv"] = digest(open(os.path.join(d, "a.csv"), "rb").read())
        o["bpseq"] = digest(s2.bpseq)
        o["dot_bracket"] = s2.dotBracket
        o["extended"] = s2.extendedDotBracket
        o["all_dot_brackets"] = "|".join(dbs)
        o["interactions"] = digest(repr(s2.baseInteractions))
        o["elements"] = digest("|".join(str(x) for part in (s2.stems, s2.singleStrands, s2.hairpins, s2.loops) for x in part))
        if job.get("write"):
            from rnapolis.parser_v2 import parse_cif_atoms, parse_pdb_atoms, write_cif, write_pdb
            txt = open(job["path"]).read()
            df = parse_pdb_atoms(txt) if job["path"].endswith(".pdb") else parse_cif_atoms(txt)
            o["written_pdb"] = digest(write_pdb(df) if not job["path"].endswith(".cif") else "")
            o["written_cif"] = digest(write_cif(df))
        if rep == 0:
            out = o
        elif o != out:
            out["in_process_repeat_differs"] = "yes"
    return out


def job_adapter(job):
    """the command-line adapter (external tool output imported onto a structure): CSV, JSON, BPSEQ and dot-bracket files"""
    import rnapolis.adapter as adapter
    out = None
    for rep in range(2):
        o = {}
        with tempfile.TemporaryDirectory() as d:
            argv = ["adapter", job["path"], "--external", job["external"], "--tool", job["tool"], "--csv", os.path.join(d, "a.csv"),
                    "--json", os.path.join(d, "a.json"), "--bpseq", os.path.join(d, "a.bpseq")] + (["-e"] if job.get("extended") else [])
            old = sys.argv
            sys.argv = argv
            import contextlib
            buf = io.StringIO()
            try:
                with contextlib.redirect_stdout(buf):
                    adapter.main()
            finally:
                sys.argv = old
            o["stdout"] = digest(buf.getvalue())
            for fn in ("a.csv", "a.json", "a.bpseq"):
                path = os.path.join(d, fn)
                o[fn] = digest(open(path, "rb").read()) if os.path.exists(path) else "absent"
        o["interactions"] = digest(repr(adapter.parse_fr3d_output(job["external"]))) if job["tool"] == "fr3d" else ""
        if rep == 0:
            out = o
        elif o != out:
            out["in_process_repeat_differs"] = "yes"
    return out


def job_tool(job):
    """any command-line tool of the package: stdout and the files it writes"""
    import contextlib
    import importlib
    mod = importlib.import_module(job["module"])
    out = None
    for rep in range(2):
        o = {}
        with tempfile.TemporaryDirectory() as d:
            argv = [job["module"]] + [a.replace("{d}", d) for a in job["argv"]]
            old = sys.argv
            sys.argv = argv
            buf = io.StringIO()
            try:
                with contextlib.redirect_stdout(buf):
                    mod.main()
            except SystemExit:
                pass
            finally:
                sys.argv = old
            o["stdout"] = digest(buf.getvalue())
            for fn in sorted(os.listdir(d)):
                o["file:" + fn] = digest(open(os.path.join(d, fn), "rb").read())
        if rep == 0:
            out = o
        elif o != out:
            out["in_process_repeat_differs"] = "yes"
    return out


def job_map(job):
    from rnapolis.common import BasePair, LeontisWesthof, Residue, Saenger
    from rnapolis.parser import read_3d_structure
    from rnapolis.tertiary import Mapping2D3D
    out = None
    for rep in range(2):
        with open(job["path"]) as f:
            s3 = read_3d_structure(f, None)
        R = s3.residues
        bps = [BasePair(Residue(R[i].label, R[i].auth), Residue(R[j].label, R[j].auth), LeontisWesthof[lw], None if sa is None else Saenger[sa])
               for i, j, lw, sa in job["pairs"]]
        m = Mapping2D3D(s3, bps, [], job.get("find_gaps", False))
        o = {"bpseq": str(m.bpseq), "dot_bracket": m.dot_bracket, "extended": m.extended_dot_bracket, "all_dot_brackets": "|".join(m.all_dot_brackets),
             "elements": "|".join(str(x) for part in m.bpseq.elements for x in part)}
        if rep == 0:
            out = o
        elif o != out:
            out["in_process_repeat_differs"] = "yes"
    return out


def main():
    jobs = json.load(open(sys.argv[1]))
    for job in jobs:
        try:
            r = job_2d(job) if job["type"] == "2d" else (job_map(job) if job["type"] == "map" else (job_adapter(job) if job["type"] == "adapter" else (job_tool(job) if job["type"] == "tool" else job_3d(job))))
        except Exception as e:  # noqa: BLE001
            r = {"error": f"{type(e).__name__}: {e}"}
        print(json.dumps({"id": job["id"], "out": r}), flush=True)


if __name__ == "__main__":
    main()
