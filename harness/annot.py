"""Shared harness for the annotation properties (C03, C04, C05, C11): runs rnapolis.annotator on in-memory structures with a
recording KD-tree, converts structures to Coq literals, and compares with Model.Annot."""
import math

import numpy as np

from . import geo
from .core import Err, Nat, Raw, lit

IMPORTS = "From RV Require Import Base.Val Base.PyStr Model.Geom Model.Annot Run.RGeo."

RELEVANT = None


def relevant_names():
    global RELEVANT
    if RELEVANT is None:
        from . import chem as T
        names = {"C1'", "N9", "N1", "N7", "N3", "C4", "O2", "C6", "C2"}
        for d in (T.BASE_ATOMS, T.BASE_DONORS, T.BASE_ACCEPTORS):
            for v in d.values():
                names.update(v)
        names.update(T.PHOSPHATE_ACCEPTORS)
        names.update(T.RIBOSE_ACCEPTORS)
        RELEVANT = names
    return RELEVANT


class Recorder:
    """stands in for scipy.spatial.KDTree inside rnapolis.annotator: same answers, but the iteration order of every
    query_pairs result is recorded (and handed to the model as its oracle)"""
    orders = []

    def __init__(self, data):
        from scipy.spatial import KDTree
        self.tree = KDTree(data)

    def query_pairs(self, r):
        res = list(self.tree.query_pairs(r))
        Recorder.orders.append((r, res))
        return res


def annotate(s3):
    """returns (pairs, bph, br, stackings, hbond_order, stacking_order) in residue indices"""
    import rnapolis.annotator as A
    saved = A.KDTree
    A.KDTree = Recorder
    Recorder.orders = []
    try:
        bp, bph, br = A.find_pairs(s3, None)
        o1 = Recorder.orders[0][1] if Recorder.orders else []
        Recorder.orders = []
        st = A.find_stackings(s3, None)
        o2 = Recorder.orders[0][1] if Recorder.orders else []
    finally:
        A.KDTree = saved
    index = {}
    for i, r in enumerate(s3.residues):
        index[(r.label, r.auth)] = i
    ix = lambda nt: index[(nt.label, nt.auth)]  # noqa: E731
    pairs = [[ix(p.nt1), ix(p.nt2), p.lw.value, None if p.saenger is None else p.saenger.value] for p in bp]
    bphs = [[ix(p.nt1), ix(p.nt2), int(p.bph.value[0])] for p in bph]
    brs = [[ix(p.nt1), ix(p.nt2), int(p.br.value[0])] for p in br]
    sts = [[ix(p.nt1), ix(p.nt2), p.topology.value] for p in st]
    return pairs, bphs, brs, sts, o1, o2, (bp, bph, br, st)


def res_lit(s3):
    names = relevant_names()
    items = []
    for r in s3.residues:
        atoms = "[" + "; ".join(f"({lit(a.name)}, ({lit(geo.to_int(a.x))}, {lit(geo.to_int(a.y))}, {lit(geo.to_int(a.z))}))" for a in r.atoms if a.name in names) + "]"
        ic = "None" if r.icode is None else f"(Some {lit(r.icode)})"
        items.append(f"mkres {lit(r.model)} {lit(r.chain)} {lit(r.number)} {ic} {lit(r.one_letter_name)} {atoms}")
    return "[" + "; ".join(items) + "]"


def order_lit(order):
    return "[" + "; ".join(f"({i}%nat, {j}%nat)" for i, j in order) + "]"


# atoms of a base that the base normal does not need: removing one of them leaves every decision defined
_SPARE = {"A": ["C2", "C5", "C6", "N6", "C8"], "G": ["C2", "N2", "C5", "C6", "O6", "C8"], "C": ["C2", "N3", "N4", "C5", "C6"],
          "U": ["C2", "N3", "O4", "C5", "C6"], "T": ["C2", "N3", "O4", "C5", "C6", "C7"]}


_TEMPLATES = {}


def _templates():
    """one complete residue per base letter (RNA from 1EHZ, DNA incl. thymine from 184D / 1JJP), taken from the corpus"""
    if _TEMPLATES:
        return _TEMPLATES
    from . import chem
    for name in ("1ehz-assembly-1.cif", "184D.cif", "1JJP.cif"):
        for r in geo.snapped(geo.load3d(name)).residues:
            L = r.one_letter_name
            want = chem.BASE_ATOMS.get(L)
            if want and (name, L) != ("", "") and all(r.find_atom(a) is not None for a in want) and chem.base_normal(r) is not None:
                _TEMPLATES.setdefault((L, r.name), r)
    return _TEMPLATES


def stack_placements(rng, n=10):
    """synthetic stackings at the thresholds: two complete bases of (usually different) letters with parallel normals, the second
    placed so that the TRUE centroid-to-centroid vector (all base heavy atoms of the oracle's own table) has length d and makes the
    angle theta with the normal, d and theta drawn just inside / just outside 6 A and 45 degrees"""
    import dataclasses
    from rnapolis.tertiary import Structure3D
    from . import chem
    by_letter = {}
    for (L, nm), r in _templates().items():
        by_letter.setdefault(L, []).append(r)
    letters = sorted(by_letter)
    residues = []
    for k in range(n):
        # letters uniformly (so that thymine and the DNA templates are as frequent as the RNA ones), then one of their templates
        ra = rng.choice(by_letter[rng.choice(letters)])
        rb = rng.choice(by_letter[rng.choice(letters)])
        if rng.random() < 0.25:
            rb = ra          # an ideal stack: the same base, exactly parallel (or exactly antiparallel) normals

        def cen(r):
            pts = [np.array(r.find_atom(a).coordinates, dtype=float) for a in chem.BASE_ATOMS[r.one_letter_name]]
            return sum(pts) / len(pts)
        na, nb = np.array(chem.base_normal(ra), dtype=float), np.array(chem.base_normal(rb), dtype=float)
        na, nb = na / np.linalg.norm(na), nb / np.linalg.norm(nb)
        if rng.random() < 0.5:
            nb_target = -na
        else:
            nb_target = na
        # rotation taking nb to nb_target
        v = np.cross(nb, nb_target)
        c = float(np.dot(nb, nb_target))
        if np.linalg.norm(v) < 1e-9:
            R = np.eye(3) if c > 0 else -np.eye(3) + 2 * np.outer(_perp(nb), _perp(nb))
        else:
            vx = np.array([[0, -v[2], v[1]], [v[2], 0, -v[0]], [-v[1], v[0], 0]])
            R = np.eye(3) + vx + vx @ vx * (1.0 / (1.0 + c))
        u = _perp(na)
        d = rng.choice([4.0, 5.0, 5.9, 6.1]) if rng.random() < 0.5 else rng.uniform(3.3, 6.5)
        theta = math.radians(rng.choice([44.0, 44.7, 45.3, 46.0]) if rng.random() < 0.6 else rng.choice([0.0, 20.0, 40.0, 43.0, 47.0, 50.0]))
        offset = d * (math.cos(theta) * na + math.sin(theta) * u) * rng.choice([1.0, -1.0])
        origin = np.array([60.0 * k, 0.0, 0.0])
        ca, cb = cen(ra), R @ cen(rb)

        def place(r, Rm, t, chain, number, icode=None, auth_number=None):
            lab = dataclasses.replace(r.auth, chain=chain, number=number if auth_number is None else auth_number, icode=icode) if r.auth is not None else None
            lbl = dataclasses.replace(r.label, chain=chain, number=number) if r.label is not None else None
            atoms = []
            for a in r.atoms:
                q = Rm @ np.array([a.x, a.y, a.z]) + t
                atoms.append(dataclasses.replace(a, x=geo.snap(float(q[0])), y=geo.snap(float(q[1])), z=geo.snap(float(q[2])), label=lbl, auth=lab))
            return dataclasses.replace(r, atoms=tuple(atoms), auth=lab, label=lbl)
        residues.append(place(ra, np.eye(3), origin - ca, "A", 2 * k + 1))
        residues.append(place(rb, R, origin + offset - cb, "A", 2 * k + 2))
    return Structure3D(residues)


def _rot_about(axis, ang):
    axis = axis / np.linalg.norm(axis)
    K = np.array([[0, -axis[2], axis[1]], [axis[2], 0, -axis[0]], [-axis[1], axis[0], 0]])
    return np.eye(3) + math.sin(ang) * K + (1 - math.cos(ang)) * (K @ K)


def _align(a, b):
    """rotation taking unit vector a to unit vector b"""
    v = np.cross(a, b)
    c = float(np.dot(a, b))
    if np.linalg.norm(v) < 1e-9:
        return np.eye(3) if c > 0 else _rot_about(_perp(a), math.pi)
    vx = np.array([[0, -v[2], v[1]], [v[2], 0, -v[0]], [-v[1], v[0], 0]])
    return np.eye(3) + vx + vx @ vx * (1.0 / (1.0 + c))


def pair_placements(rng, n=10, plan=None):
    """synthetic base-pair placements: two complete nucleotides with coplanar bases (normals parallel or antiparallel), the second
    turned about the common normal by a random angle and pushed in the plane from a random side until the closest base atoms
    are 2.6-3.4 A apart: every edge combination occurs, also two classes for one nucleotide pair through corner atoms"""
    import dataclasses
    from rnapolis.tertiary import Structure3D
    from . import chem
    by_letter = {}
    for (L, nm), r in _templates().items():
        by_letter.setdefault(L, []).append(r)
    letters = sorted(by_letter)
    residues = []
    for k in range(n if plan is None else len(plan)):
        ra = rng.choice(by_letter[rng.choice(letters)])
        rb = rng.choice(by_letter[rng.choice(letters)])
        if plan is not None:
            ra = by_letter[plan[k][0]][0]

        def base_pts(r, Rm=np.eye(3), t=np.zeros(3)):
            return [Rm @ np.array(r.find_atom(a).coordinates, dtype=float) + t for a in chem.BASE_ATOMS[r.one_letter_name]]
        na, nb = np.array(chem.base_normal(ra), dtype=float), np.array(chem.base_normal(rb), dtype=float)
        na, nb = na / np.linalg.norm(na), nb / np.linalg.norm(nb)
        R = _rot_about(na, rng.uniform(0, 2 * math.pi)) @ _align(nb, na if rng.random() < 0.5 else -na)
        if plan is not None or rng.random() < 0.35:
            # a symmetric dimer: the same nucleotide turned by 180 degrees about the base normal; its contacts come in mirrored
            # couples, so one nucleotide pair can carry two edge-disjoint classes (e.g. tSW and tWS through corner atoms)
            rb, nb = ra, na
            R = _rot_about(na, math.pi)
        pa = base_pts(ra)
        ca = sum(pa) / len(pa)
        pb0 = base_pts(rb, R)
        cb0 = sum(pb0) / len(pb0)
        u = _perp(na)
        w = np.cross(na, u)
        psi = rng.uniform(0, 2 * math.pi)
        direction = math.cos(psi) * u + math.sin(psi) * w
        if rb is ra and rng.random() < 0.8:
            # push towards a corner atom (an atom on two edges): its mirrored couple of contacts supports two classes at once
            corners = [a for a, e in chem.BASE_EDGES.get(ra.one_letter_name, {}).items() if len(e) == 2 and ra.find_atom(a) is not None and a in chem.BASE_ATOMS[ra.one_letter_name]]
            if corners:
                q = np.array(ra.find_atom(rng.choice(corners)).coordinates, dtype=float) - ca
                q = q - np.dot(q, na) * na
                if np.linalg.norm(q) > 1e-6:
                    direction = _rot_about(na, math.radians(rng.uniform(-25, 25))) @ (q / np.linalg.norm(q))
        target = rng.uniform(2.6, 3.4)
        if plan is not None:
            direction = math.cos(plan[k][1]) * u + math.sin(plan[k][1]) * w
            target = plan[k][2]

        def mind(D):
            t = ca + D * direction - cb0
            return min(float(np.linalg.norm(x - (y + t))) for x in pa for y in pb0)
        lo, hi = 0.0, 16.0
        for _ in range(40):          # the closest approach grows with D beyond the overlap region: bisect from outside
            mid = (lo + hi) / 2
            if mind(mid) < target:
                lo = mid
            else:
                hi = mid
        D = hi
        origin = np.array([60.0 * k, 0.0, 0.0])

        def place(r, Rm, t, chain, number, icode=None, auth_number=None):
            lab = dataclasses.replace(r.auth, chain=chain, number=number if auth_number is None else auth_number, icode=icode) if r.auth is not None else None
            lbl = dataclasses.replace(r.label, chain=chain, number=number) if r.label is not None else None
            atoms = []
            for a in r.atoms:
                q = Rm @ np.array([a.x, a.y, a.z]) + t
                atoms.append(dataclasses.replace(a, x=geo.snap(float(q[0])), y=geo.snap(float(q[1])), z=geo.snap(float(q[2])), label=lbl, auth=lab))
            return dataclasses.replace(r, atoms=tuple(atoms), auth=lab, label=lbl)
        if k % 3 == 2:
            # insertion-code siblings: the two partners share chain and author number and differ by insertion code only
            # (47A/47B of a tRNA variable arm); their label numbers stay distinct, as in a deposited file
            residues.append(place(ra, np.eye(3), origin - ca, "A", 2 * k + 1, "A", 2 * k + 1))
            residues.append(place(rb, R, origin + D * direction - cb0, "A", 2 * k + 2, "B", 2 * k + 1))
            continue
        residues.append(place(ra, np.eye(3), origin - ca, "A", 2 * k + 1))
        residues.append(place(rb, R, origin + D * direction - cb0, "B", 2 * k + 2))
    return Structure3D(residues)


def _perp(n):
    a = np.array([1.0, 0.0, 0.0]) if abs(n[0]) < 0.9 else np.array([0.0, 1.0, 0.0])
    u = np.cross(n, a)
    return u / np.linalg.norm(u)


def icode_runs(base):
    import dataclasses
    from rnapolis.tertiary import Structure3D
    res, seen = [], {}
    for r in base.residues:
        k = seen.get(r.auth.chain, 0)
        seen[r.auth.chain] = k + 1
        auth = dataclasses.replace(r.auth, number=10 + k // 3, icode=[None, "A", "B"][k % 3])
        atoms = tuple(dataclasses.replace(a, auth=auth, label=None) for a in r.atoms)
        res.append(dataclasses.replace(r, auth=auth, label=None, atoms=atoms))
    return Structure3D(res)


def structures(ctx, kinds=("corpus", "moved", "jitter", "reversed", "thin", "thin-base"), big=False):
    """yield (name, kind, Structure3D) with grid-snapped coordinates"""
    rng = ctx.rng
    files = ["1DFU_1_M-N.cif", "6INQ.cif", "4WTI_1_T-P.cif", "1HMH_1_E.cif", "1ehz-assembly-1.cif", "4qln.cif"]   # 4qln: an incomplete base as deposited, G Hoogsteen pairs through C8
    if big or not ctx.quick:
        files += ["1E7K_1_C.cif", "184D.cif", "488d.pdb"]
    if not ctx.quick:
        files += ["1JJP.cif", "1A1T_1_B.cif", "q-ugg-5k-salt_400-500ns_frame1065.pdb"]
    if "synthetic-pair" in kinds:
        for t in range(3 if ctx.quick else 25):
            yield f"synthetic-pair-{t}", "synthetic-pair", pair_placements(rng, 14)
        # symmetric dimers of every letter, pushed together from 24 (thorough: 72) directions: contacts come in mirrored couples
        plan = [(L, 2 * math.pi * d / (24 if ctx.quick else 72), tgt) for L in sorted({k[0] for k in _templates()})
                for d in range(24 if ctx.quick else 72) for tgt in ([2.9] if ctx.quick else [2.7, 3.0, 3.3])]
        for t in range(0, len(plan), 15):
            yield f"symmetric-dimers-{t // 15}", "synthetic-pair", pair_placements(rng, plan=plan[t:t + 15])
    if "synthetic-stack" in kinds:
        for t in range(4 if ctx.quick else 25):
            yield f"synthetic-stack-{t}", "synthetic-stack", stack_placements(rng, 16)
    for name in files:
        base = geo.snapped(geo.load3d(name))
        if "icode-runs" in kinds and all(r.auth is not None for r in base.residues):
            # neighbouring residues that differ ONLY by their insertion code (10, 10A, 10B, 11, 11A, ...): the residue order must
            # still be (chain, number, insertion code)
            yield name, "icode-runs", icode_runs(base)
        if "corpus" in kinds:
            yield name, "corpus", base
        if "moved" in kinds:
            R = geo.random_rotation(rng)
            t = np.array([rng.uniform(-200, 200) for _ in range(3)])
            yield name, "moved", geo.moved(base, R, t)
        if "jitter" in kinds:
            for sigma in ([0.1] if ctx.quick else [0.05, 0.15, 0.3]):
                yield name, f"jitter{sigma}", geo.jittered(base, rng, sigma)
        if "reversed" in kinds:
            from rnapolis.tertiary import Structure3D
            yield name, "reversed-order", Structure3D(list(reversed(base.residues)))
        if "thin" in kinds:
            drop_res = {i for i in range(len(base.residues)) if rng.random() < 0.15}
            drop_atoms = {"N7", "O2"} if rng.random() < 0.5 else {"C1'"}
            victim = rng.randrange(len(base.residues))
            yield name, "thinned", geo.rebuild(base, keep_res=lambda i, r: i not in drop_res,
                                                keep_atom=lambda r, a: not (a.name in drop_atoms and r is base.residues[victim]))
        if "thin-base" in kinds:
            # incomplete bases: every third residue loses one base atom that is not needed for its normal (centroids of incomplete
            # bases, contacts through the remaining atoms)
            gone = {}
            for i, r in enumerate(base.residues):
                spare = _SPARE.get(r.one_letter_name)
                if spare and i % 3 == rng.randrange(3):
                    gone[id(r)] = rng.choice(spare)
            yield name, "thin-base", geo.rebuild(base, keep_res=lambda i, r: True, keep_atom=lambda r, a: gone.get(id(r)) != a.name)
        if "base-only" in kinds:
            # backbone gone: every fourth residue keeps its base atoms and C1' only (a model built from bases, a residue whose sugar
            # and phosphate were not resolved); it still has a base normal, a glycosidic torsion partner atom and all its base contacts
            from . import chem
            off = rng.randrange(4)
            keep = {id(r): set(chem.BASE_ATOMS.get(r.one_letter_name, [])) | {"C1'"} for i, r in enumerate(base.residues) if i % 4 == off}
            yield name, "base-only", geo.rebuild(base, keep_res=lambda i, r: True, keep_atom=lambda r, a: id(r) not in keep or a.name in keep[id(r)])
