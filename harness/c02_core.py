"""Pure enumeration helpers for C02 (no import of the library under test)."""
import itertools


def score_gap(regs):
    """difference between the best and the second-best score over all proper assignments with levels <= degree (None if all
    proper assignments score the same): small gaps are where any slip in the objective shows"""
    n = len(regs)
    adj = [[False] * n for _ in range(n)]
    for i, j in itertools.combinations(range(n), 2):
        k, l, _ = regs[i]
        m, nn, _ = regs[j]
        if k < m < l < nn or m < k < nn < l:
            adj[i][j] = adj[j][i] = True
    deg = [sum(adj[i]) for i in range(n)]
    scores = set()
    cur = [0] * n

    def rec(i, sc):
        if i == n:
            scores.add(sc)
            return
        for lv in range(deg[i] + 1):
            if all(not (adj[i][j] and cur[j] == lv) for j in range(i)):
                cur[i] = lv
                rec(i + 1, sc + (regs[i][2] if lv == 0 else -lv * regs[i][2]))
    rec(0, 0)
    top = sorted(scores, reverse=True)[:2]
    return None if len(top) < 2 else top[0] - top[1]


def discriminating_variants(regs):
    """True when some plausible wrong objective (level-0 reward doubled, penalty without the factor k, factor k+1, factor k*k)
    has NO optimum that is optimal for the real objective: such a structure tells the objectives apart whatever the solver picks"""
    n = len(regs)
    adj = [[False] * n for _ in range(n)]
    for i, j in itertools.combinations(range(n), 2):
        k, l, _ = regs[i]
        m, nn, _ = regs[j]
        if k < m < l < nn or m < k < nn < l:
            adj[i][j] = adj[j][i] = True
    deg = [sum(adj[i]) for i in range(n)]
    true = lambda lv, ln: ln if lv == 0 else -lv * ln          # noqa: E731
    variants = [lambda lv, ln: 2 * ln if lv == 0 else -lv * ln, lambda lv, ln: ln if lv == 0 else -ln,
                lambda lv, ln: ln if lv == 0 else -(lv + 1) * ln, lambda lv, ln: ln if lv == 0 else -lv * lv * ln]
    best_true = [None]
    best_var = [[None, None] for _ in variants]        # per variant: (best variant score, best true score among its optima)
    cur = [0] * n

    def rec(i):
        if i == n:
            t = sum(true(cur[x], regs[x][2]) for x in range(n))
            if best_true[0] is None or t > best_true[0]:
                best_true[0] = t
            for q, f in enumerate(variants):
                v = sum(f(cur[x], regs[x][2]) for x in range(n))
                if best_var[q][0] is None or v > best_var[q][0]:
                    best_var[q] = [v, t]
                elif v == best_var[q][0]:
                    best_var[q][1] = max(best_var[q][1], t)
            return
        for lv in range(deg[i] + 1):
            if all(not (adj[i][j] and cur[j] == lv) for j in range(i)):
                cur[i] = lv
                rec(i + 1)
    rec(0)
    return [q for q, bv in enumerate(best_var) if bv[1] is not None and bv[1] < best_true[0]]


def discriminates(regs):
    return bool(discriminating_variants(regs))


def regions_of_pairs(p):
    """(first, last, length) of the maximal stacked runs of a pair array, by the definition (independent of the library)"""
    pairs = sorted((i + 1, j) for i, j in enumerate(p) if j > i + 1 - 0 and j != 0 and i + 1 < j)
    regs, used = [], set()
    for i, j in pairs:
        if (i, j) in used:
            continue
        ln = 0
        while (i + ln, j - ln) in set(pairs) and (i + ln, j - ln) not in used and i + ln < j - ln:
            used.add((i + ln, j - ln))
            ln += 1
        regs.append((i, j, ln))
    return regs


