"""C12 — secondary-structure objects are pure: queries and derivations never change them."""
import itertools

from . import gen2d, impl2d
from .c01 import bexpr, component_sizes
from .core import Err, Nat, lit

RUN_TARGETS = ["Run/R2D.vo", "Run/RObj.vo"]
IMPORTS = "From RV Require Import Base.Val Model.Bpseq Run.R2D Run.RObj."
TRUSTED = ["the answer of `dot_bracket` on a fresh object is an oracle of the heap model (the MILP is C02's subject); "
           "CBC is assumed deterministic for equal inputs (validated: fresh objects are solved again at every comparison)"]

OPS = ["str", "pairs", "sequence", "dot_bracket", "fcfs", "all_dot_brackets", "elements", "without_isolated", "without_pseudoknots"]
OPCODE = {op: i for i, op in enumerate(OPS)}


def content(b):
    return ("".join(e.sequence for e in b.entries), [e.pair for e in b.entries])


def answer(b, op):
    """observable answer of an operation, as plain data"""
    from .c07 import elements_v
    if op == "str":
        return str(b)
    if op == "pairs":
        return sorted(b.pairs.items())
    if op == "sequence":
        return b.sequence
    if op == "dot_bracket":
        return b.dot_bracket.structure
    if op == "fcfs":
        return b.fcfs.structure
    if op == "all_dot_brackets":
        return [d.structure for d in b.all_dot_brackets]
    if op == "elements":
        return elements_v(b.elements)
    if op == "without_isolated":
        return b.without_isolated()
    if op == "without_pseudoknots":
        return b.without_pseudoknots()
    raise KeyError(op)


def run_history(seq, pairs, hist):
    """returns (failure description or None, trace). Every answer is compared with the answer of a fresh
    copy of the receiver's ORIGINAL content; after every step every object's text is compared with its original."""
    objs = [impl2d.mk(seq, pairs)]
    orig = [content(objs[0])]
    run_history.last_orig = orig
    trace = []
    for recv, op in hist:
        recv = recv % len(objs)
        b = objs[recv]
        fresh = impl2d.mk(*orig[recv])
        try:
            got = answer(b, op)
            want = answer(fresh, op)
        except Exception as e:  # noqa: BLE001
            return f"{op} raised {type(e).__name__}", trace
        if op in ("without_isolated", "without_pseudoknots"):
            g, w = content(got), content(want)
            trace.append((recv, op, g))
            if g != w:
                return f"{op} on object {recv} answers differently from a fresh copy", trace
            objs.append(got)
            orig.append(w)
        else:
            trace.append((recv, op, got))
            if got != want:
                return f"{op} on object {recv} answers differently from a fresh copy", trace
        for k, o in enumerate(objs):
            if content(o) != orig[k] or str(o) != str(impl2d.mk(*orig[k])):
                return f"after {op} on object {recv}, the BPSEQ text of object {k} changed", trace
            if sorted(o.pairs.items()) != sorted(impl2d.mk(*orig[k]).pairs.items()):
                return f"after {op} on object {recv}, the pairs of object {k} changed", trace
    return None, trace


def shrink(seq, pairs, hist):
    cur = list(hist)
    changed = True
    while changed:
        changed = False
        for i in range(len(cur)):
            cand = cur[:i] + cur[i + 1:]
            if cand and run_history(seq, pairs, cand)[0]:
                cur = cand
                changed = True
                break
    return cur


def spec_derivations(seq, pairs):
    """without_pseudoknots = the pairs its own dot-bracket writes with round brackets; without_isolated = pairs of
    stems of length >= 2; sequence unchanged"""
    b = impl2d.mk(seq, pairs)
    db = b.dot_bracket.structure
    wp = content(b.without_pseudoknots())
    want = [0] * len(pairs)
    st = []
    for i, c in enumerate(db):
        if c == "(":
            st.append(i)
        elif c == ")":
            j = st.pop()
            want[j], want[i] = i + 1, j + 1
    if wp != (seq, want):
        return "without_pseudoknots is not the set of round-bracket pairs of the structure's dot-bracket", {"dot_bracket": db, "result": wp}
    b = impl2d.mk(seq, pairs)
    wi = content(b.without_isolated())
    want = list(pairs)
    for st_ in impl2d.stems_idx(impl2d.mk(seq, pairs)):
        if len(st_) == 1:
            i = st_[0]
            j = pairs[i - 1]
            want[i - 1] = 0
            want[j - 1] = 0
    if wi != (seq, want):
        return "without_isolated is not the set of pairs in stems of length >= 2", {"result": wi}
    return None, None


def run(ctx):
    ctx.coverage["rule"] = ("call sequences over the 9 public operations incl. calls on derived objects (receiver chosen among all objects so far): "
                            "all sequences of length <= 2 (thorough 3) on the original + random sequences of length <= 6 (thorough 8) on a fixed set of structures "
                            "(isolated pairs, pseudoknots, both). Non-trivial = contains without_isolated or without_pseudoknots before another query; distinct by (structure, history).")
    rng = ctx.rng
    structs = [("ACGUACGUACGU", [6, 5, 0, 0, 2, 1, 0, 12, 0, 0, 0, 8]),      # ((..)).(...)  the design witness
               ("ACGUACGUAC", [7, 6, 0, 9, 10, 2, 1, 0, 4, 5]),
               ("ACGUAC", [3, 4, 1, 2, 0, 0]),
               ("ACGUACGU", [8, 0, 5, 0, 3, 0, 0, 1]),
               ("ACGUACGUACGUAC", [8, 7, 10, 9, 12, 11, 2, 1, 4, 3, 6, 5, 0, 0])]
    while len(structs) < (14 if ctx.quick else 40):
        p = gen2d.layout(rng, rng.randint(1, 6), maxlen=rng.choice([1, 1, 2, 3]), maxgap=rng.choice([0, 1, 2]))
        s = gen2d.seq_for(rng, len(p))
        if any(x > 5 for x in component_sizes(impl2d.mk(s, p))) or len(p) > 40:
            continue
        structs.append((s, p))
    corr_expr, corr_exp, corr_case = [], [], []
    hist_expr, hist_exp, hist_case = [], [], []
    for seq, pairs in structs:
        why, detail = spec_derivations(seq, pairs)
        ctx.count(("spec", tuple(pairs)), True, "derivation-spec")
        if why:
            ctx.violation(why, {"case": {"sequence": seq, "pairs": pairs}, "detail": detail})
        b = impl2d.mk(seq, pairs)
        db = b.dot_bracket.structure
        be = bexpr(seq, pairs)
        corr_expr.append(f"run_without_isolated {be}")
        corr_exp.append([[i + 1, seq[i], p] for i, p in enumerate(content(impl2d.mk(seq, pairs).without_isolated())[1])])
        corr_case.append(({"sequence": seq, "pairs": pairs}, "without_isolated"))
        corr_expr.append(f"run_without_pk {be} {lit(db)}")
        corr_exp.append([[i + 1, seq[i], p] for i, p in enumerate(content(impl2d.mk(seq, pairs).without_pseudoknots())[1])])
        corr_case.append(({"sequence": seq, "pairs": pairs, "dot_bracket": db}, "without_pseudoknots"))
        hists = []
        L = 2 if ctx.quick else 3
        for n in range(1, L + 1):
            for h in itertools.product(OPS, repeat=n):
                hists.append([(0, op) for op in h])
        for _ in range(25 if ctx.quick else 150):
            n = rng.randint(3, 6 if ctx.quick else 8)
            hists.append([(rng.randint(0, 3), rng.choice(OPS + ["without_isolated", "without_pseudoknots", "str"])) for _ in range(n)])
        for h in hists:
            nontriv = any(op in ("without_isolated", "without_pseudoknots") for _, op in h[:-1])
            ctx.count((tuple(pairs), tuple(h)), nontriv, f"len{len(h)}")
            why, trace = run_history(seq, pairs, h)
            if why:
                hmin = shrink(seq, pairs, h)
                why2, trace2 = run_history(seq, pairs, hmin)
                ctx.violation(why2 or why, {"case": {"sequence": seq, "pairs": pairs}, "history": hmin, "trace": [list(map(repr, t)) for t in trace2]})
                break
            # the same history through the Coq heap model (str / pairs / fcfs / derivations observable there)
            if len(h) <= 6 and len(hist_expr) < (400 if ctx.quick else 4000) and (nontriv or rng.random() < 0.1):
                table = []
                for cs, cp in run_history.last_orig:
                    table.append(([Nat(x) for x in cp], impl2d.mk(cs, cp).dot_bracket.structure))
                hist_expr.append(f"run_history_t {lit(table)} {be} {lit([(Nat(r), Nat(OPCODE[op])) for r, op in h])}")
                hist_exp.append([_obs(op, t) for (_, op, t) in trace])
                hist_case.append({"sequence": seq, "pairs": pairs, "history": h})
        if len(ctx.coverage["samples"]) < 3:
            ctx.sample({"sequence": seq, "pairs": pairs, "history": hists[-1]})
    if not ctx.model_ok:
        return
    bad, err = ctx.coq_mismatches("corr", IMPORTS, corr_expr, corr_exp)
    if err:
        ctx.violation("correspondence cases failed to evaluate", {"error": err}, has_input=False)
    if bad:
        shown = ctx.coq_show(IMPORTS, [corr_expr[i] for i in bad[:5]])
        for n, i in enumerate(bad[:10]):
            case, what = corr_case[i]
            ctx.violation(f"model and implementation disagree on {what}", {"case": case, "implementation": corr_exp[i], "model": shown[n] if n < len(shown) else None,
                                                                          "correspondence": "Run.R2D.run_" + what}, has_input=False)
    bad, err = ctx.coq_mismatches("hist", IMPORTS, hist_expr, hist_exp, shard=100)
    if err:
        ctx.violation("history cases failed to evaluate", {"error": err}, has_input=False)
    if bad:
        shown = ctx.coq_show(IMPORTS, [hist_expr[i] for i in bad[:5]])
        for n, i in enumerate(bad[:10]):
            ctx.violation("heap model and implementation disagree on a call history", {"case": hist_case[i], "implementation": hist_exp[i],
                                                                                     "model": shown[n] if n < len(shown) else None, "correspondence": "Run.RObj.run_history"}, has_input=False)
    ctx.coverage["histories_through_heap_model"] = len(hist_expr)


def _obs(op, t):
    """what the heap model can observe of an answer: text for str, pair list, fcfs string, entries of derived objects; 0 for the rest"""
    if op == "str":
        return t
    if op == "pairs":
        return [list(x) for x in t]
    if op == "sequence":
        return t
    if op == "fcfs":
        return t
    if op in ("without_isolated", "without_pseudoknots"):
        return t[1]
    return 0
