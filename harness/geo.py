"""Shared helpers for geometric properties: grid snapping, rigid motions, corpus loading."""
import math
import os

import numpy as np

from .core import VERIF

GRID = 2 ** 20


def snap(x):
    """nearest multiple of 2^-20 (exactly representable: both worlds see the same number)"""
    return round(x * GRID) / GRID


def to_int(x):
    v = x * GRID
    assert v == int(v), "coordinate not on the grid"
    return int(v)


def rot_from_cayley(a, b, c):
    """exact-rational-friendly rotation (Cayley transform of a skew matrix)"""
    K = np.array([[0, -c, b], [c, 0, -a], [-b, a, 0]], dtype=float)
    I = np.eye(3)
    return (I - K) @ np.linalg.inv(I + K)


def random_rotation(rng):
    q = np.array([rng.gauss(0, 1) for _ in range(4)])
    q /= np.linalg.norm(q)
    w, x, y, z = q
    return np.array([[1 - 2 * (y * y + z * z), 2 * (x * y - z * w), 2 * (x * z + y * w)],
                     [2 * (x * y + z * w), 1 - 2 * (x * x + z * z), 2 * (y * z - x * w)],
                     [2 * (x * z - y * w), 2 * (y * z + x * w), 1 - 2 * (x * x + y * y)]])


def build_dihedral(l1, l2, l3, th1, th3, phi):
    """canonical placement used by the theorems (Proofs/TorsionR.v: q1..q4)"""
    p2 = np.array([0.0, 0.0, 0.0])
    p3 = np.array([0.0, 0.0, l2])
    p1 = np.array([l1 * math.sin(th1), 0.0, l1 * math.cos(th1)])
    p4 = np.array([l3 * math.sin(th3) * math.cos(phi), l3 * math.sin(th3) * math.sin(phi), l2 - l3 * math.cos(th3)])
    return p1, p2, p3, p4


def angdiff(a, b):
    d = (a - b) % (2 * math.pi)
    return min(d, 2 * math.pi - d)


def corpus(name):
    return os.path.join(VERIF, "corpus", name)


def load3d(name, model=None):
    from rnapolis.parser import read_3d_structure
    with open(corpus(name)) as f:
        return read_3d_structure(f, model)


def rebuild(s3, atom_fn=None, keep_res=None, keep_atom=None):
    """new Structure3D with atoms mapped through atom_fn(residue, atom) -> (x, y, z, occupancy) or None (drop)"""
    import dataclasses
    from rnapolis.tertiary import Structure3D
    residues = []
    for ri, res in enumerate(s3.residues):
        if keep_res is not None and not keep_res(ri, res):
            continue
        atoms = []
        for a in res.atoms:
            if keep_atom is not None and not keep_atom(res, a):
                continue
            if atom_fn is None:
                atoms.append(a)
            else:
                r = atom_fn(res, a)
                if r is None:
                    continue
                x, y, z, occ = r
                atoms.append(dataclasses.replace(a, x=x, y=y, z=z, occupancy=occ))
        residues.append(dataclasses.replace(res, atoms=tuple(atoms)))
    return Structure3D(residues)


def snapped(s3):
    return rebuild(s3, lambda res, a: (snap(a.x), snap(a.y), snap(a.z), a.occupancy))


def moved(s3, R, t, do_snap=True):
    def f(res, a):
        p = R @ np.array([a.x, a.y, a.z]) + t
        if do_snap:
            return (snap(float(p[0])), snap(float(p[1])), snap(float(p[2])), a.occupancy)
        return (float(p[0]), float(p[1]), float(p[2]), a.occupancy)
    return rebuild(s3, f)


def jittered(s3, rng, sigma):
    return rebuild(s3, lambda res, a: (snap(a.x + rng.gauss(0, sigma)), snap(a.y + rng.gauss(0, sigma)), snap(a.z + rng.gauss(0, sigma)), a.occupancy))
