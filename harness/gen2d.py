"""Generators of secondary structures (pair arrays, 1-based partner or 0)."""
import itertools
import string

SEQ = "ACGU"
OPEN = "([{<" + string.ascii_uppercase
CLOSE = ")]}>" + string.ascii_lowercase


def all_matchings(n):
    """every involution without fixed-point restriction: each position unpaired or paired once"""
    def rec(free):
        if not free:
            yield []
            return
        i = free[0]
        rest = free[1:]
        for m in rec(rest):
            yield m
        for k, j in enumerate(rest):
            for m in rec(rest[:k] + rest[k + 1:]):
                yield [(i, j)] + m
    for m in rec(list(range(1, n + 1))):
        p = [0] * n
        for i, j in m:
            p[i - 1] = j
            p[j - 1] = i
        yield p


def seq_for(rng, n):
    return "".join(rng.choice(SEQ) for _ in range(n))


def layout(rng, nstems, maxlen=4, maxgap=3, tokens=None, gap0=None):
    """random stem layout: a random interleaving of 5'/3' strand tokens (5' before 3' for each
    stem), stems of random length, random unpaired gaps (possibly 0) between strands."""
    if tokens is None:
        toks = []
        for s in range(nstems):
            toks += [s, s]
        rng.shuffle(toks)
    else:
        toks = tokens
    lens = [rng.randint(1, maxlen) for _ in range(nstems)]
    pos = 1
    seen = {}
    pairs = {}
    pos += rng.randint(0, maxgap) if gap0 is None else gap0
    for t in toks:
        if t not in seen:
            seen[t] = pos          # 5' strand occupies pos .. pos+len-1
            pos += lens[t]
        else:
            start5 = seen[t]
            # 3' strand occupies pos .. pos+len-1, mirrored
            for q in range(lens[t]):
                i = start5 + q
                j = pos + lens[t] - 1 - q
                pairs[i] = j
                pairs[j] = i
            pos += lens[t]
        pos += rng.randint(0, maxgap)
    n = pos - 1
    if n < 1:
        n = 1
    p = [pairs.get(i, 0) for i in range(1, n + 1)]
    # a hairpin of length 0 is representable (i pairs i+1); keep it: the library accepts it
    return p


def chord_diagrams(k):
    """every interleaving of the 5'/3' tokens of k stems, stems numbered by their 5' end (all chord diagrams on 2k points)"""
    def rec(open_, nxt, remaining):
        if remaining == 0 and not open_:
            yield []
            return
        if nxt < k:
            for rest in rec(open_ + [nxt], nxt + 1, remaining - 1):
                yield [nxt] + rest
        for i, s in enumerate(open_):
            for rest in rec(open_[:i] + open_[i + 1:], nxt, remaining - 1):
                yield [s] + rest
    yield from rec([], 0, 2 * k)


def thick(tokens, lens, gap=1):
    """the structure whose stems follow the chord diagram `tokens` with the given numbers of pairs; `gap` unpaired
    nucleotides between consecutive strands (so that stems never merge)"""
    pos = 1
    seen, pairs = {}, {}
    for t in tokens:
        if t not in seen:
            seen[t] = pos
        else:
            for q in range(lens[t]):
                pairs[seen[t] + q] = pos + lens[t] - 1 - q
        pos += lens[t] + gap
    n = pos - 1 - gap
    p = [0] * n
    for i, j in pairs.items():
        p[i - 1] = j
        p[j - 1] = i
    return p


def ladder(k, length=1, gap=0):
    """k mutually crossing stems"""
    toks = list(range(k)) + list(range(k))
    import random
    r = random.Random(0)
    pos = 1
    seen = {}
    pairs = {}
    for t in toks:
        if t not in seen:
            seen[t] = pos
        else:
            for q in range(length):
                i = seen[t] + q
                j = pos + length - 1 - q
                pairs[i] = j
                pairs[j] = i
        pos += length + gap
    n = pos - 1
    return [pairs.get(i, 0) for i in range(1, n + 1)]


def nested_then_knots(rng, n):
    """mostly nested structure with a few crossing stems"""
    return layout(rng, rng.randint(1, 8), maxlen=5, maxgap=4)


def is_knotted(p):
    ps = [(i + 1, j) for i, j in enumerate(p) if j > i + 1]
    for a, b in itertools.combinations(ps, 2):
        if a[0] < b[0] < a[1] < b[1] or b[0] < a[0] < b[1] < a[1]:
            return True
    return False


def random_balanced(rng, n, ntypes=30):
    """random balanced dot-bracket string over ntypes types (crossing between types allowed)"""
    s = ["."] * n
    free = list(range(n))
    rng.shuffle(free)
    k = rng.randint(0, n // 2)
    chosen = sorted(free[: 2 * k])
    # per type a well-nested word: assign positions to types, then within a type pair by stack
    types = {}
    for pos in chosen:
        types.setdefault(rng.randrange(ntypes), []).append(pos)
    for t, ps in types.items():
        if len(ps) % 2:
            ps = ps[:-1]
        # random Dyck word on these positions
        opens = 0
        rem = len(ps)
        for pos in ps:
            can_close = opens > 0
            must_close = opens == rem
            if must_close or (can_close and rng.random() < 0.5):
                s[pos] = CLOSE[t]
                opens -= 1
            else:
                s[pos] = OPEN[t]
                opens += 1
            rem -= 1
    return "".join(s)


def many_stems(rng, nhairpins, knot=True):
    """nhairpins plain hairpins followed by a small pseudoknot: many regions, tiny conflict graph"""
    p = []
    for _ in range(nhairpins):
        ln = rng.randint(1, 3)
        loop = rng.randint(3, 5)
        base = len(p)
        n = 2 * ln + loop
        blk = [0] * n
        for q in range(ln):
            blk[q] = base + n - q
            blk[n - 1 - q] = base + q + 1
        p += blk + [0] * rng.randint(0, 2)
    if knot:
        tail = layout(rng, rng.randint(2, 4), maxlen=3, maxgap=2)
        off = len(p)
        p += [x + off if x else 0 for x in tail]
    return p
