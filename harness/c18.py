"""C18 — torsion angles follow the IUPAC convention in both implementations."""
import math

import numpy as np

from . import geo
from .core import Err, lit

RUN_TARGETS = ["Run/RGeo.vo"]
IMPORTS = "From RV Require Import Base.Val Model.Geom Run.RGeo."
TRUSTED = ["oracle: libm atan2 (contract: atan2(K sin phi, K cos phi) = phi for K > 0, phi in (-pi, pi])",
           "floating-point rounding in numpy is not modelled: values compared with tolerance 1e-9 away from degenerate inputs",
           "axioms of the standard library's real numbers (ClassicalDedekindReals.sig_forall_dec, functional_extensionality_dep) as printed by Print Assumptions"]

TOL = 1e-9


IUPAC = {"alpha": [("O3'", -1), ("P", 0), ("O5'", 0), ("C5'", 0)], "beta": [("P", 0), ("O5'", 0), ("C5'", 0), ("C4'", 0)],
         "gamma": [("O5'", 0), ("C5'", 0), ("C4'", 0), ("C3'", 0)], "delta": [("C5'", 0), ("C4'", 0), ("C3'", 0), ("O3'", 0)],
         "epsilon": [("C4'", 0), ("C3'", 0), ("O3'", 0), ("P", 1)], "zeta": [("C3'", 0), ("O3'", 0), ("P", 1), ("O5'", 1)]}
PURINES, PYRIMIDINES = ("A", "G", "DA", "DG"), ("C", "U", "T", "DC", "DT")


def _iupac(p1, p2, p3, p4):
    """IUPAC dihedral: positive when, looking from p2 to p3, the far bond is rotated clockwise from the near one"""
    b0, b1, b2 = p1 - p2, p3 - p2, p4 - p3
    b1 = b1 / np.linalg.norm(b1)
    v = b0 - np.dot(b0, b1) * b1
    w = b2 - np.dot(b2, b1) * b1
    return math.atan2(np.dot(np.cross(b1, v), w), np.dot(v, w))


def _v2_tables(ctx, tor2):
    import warnings
    from rnapolis.parser_v2 import parse_cif_atoms
    from rnapolis.tertiary_v2 import Structure
    warnings.simplefilter("ignore")
    ref = geo.build_dihedral(1.5, 1.5, 1.5, math.radians(110), math.radians(110), math.radians(60))
    sign = 1.0 if geo.angdiff(tor2(*ref), math.radians(60)) < 1e-7 else -1.0
    n = 0
    for name in ["1E7K_1_C.cif", "184D.cif", "1DFU_1_M-N.cif"] + ([] if ctx.quick else ["4WTI_1_T-P.cif", "4qln.cif", "1ehz-assembly-1.cif", "1JJP.cif"]):
        try:
            st = Structure(parse_cif_atoms(open(geo.corpus(name)).read()))
            segments = st.connected_residues
            table = st.torsion_angles
        except Exception as e:  # noqa: BLE001
            ctx.violation(f"the torsion table of the table-level reader raised {type(e).__name__}: {e}", {"file": name})
            continue
        rows = {(r["chain_id"], r["residue_number"], r["insertion_code"]): r for _, r in table.iterrows()}
        for seg in segments:
            for i, res in enumerate(seg):
                row = rows.get((res.chain_id, res.residue_number, res.insertion_code))
                if row is None:
                    ctx.violation("a residue of a connected segment has no row in the torsion table", {"file": name, "residue": str(res)})
                    continue
                defs = dict(IUPAC)
                if res.residue_name in PURINES:
                    defs["chi"] = [("O4'", 0), ("C1'", 0), ("N9", 0), ("C4", 0)]
                elif res.residue_name in PYRIMIDINES:
                    defs["chi"] = [("O4'", 0), ("C1'", 0), ("N1", 0), ("C2", 0)]
                for angle, quad in defs.items():
                    pts = []
                    for atom, off in quad:
                        a = seg[i + off].find_atom(atom) if 0 <= i + off < len(seg) else None
                        pts.append(None if a is None else np.array(a.coordinates, dtype=float))
                    got = row.get(angle)
                    missing = got is None or (isinstance(got, float) and math.isnan(got))
                    if any(p is None for p in pts):
                        if not missing:
                            ctx.violation("the torsion table has a value although one of the four IUPAC atoms is absent", {"file": name, "residue": str(res), "angle": angle, "value": float(got)})
                        continue
                    want = sign * _iupac(*pts)
                    n += 1
                    ctx.count((name, str(res), angle, "v2-table"), True, "v2-table")
                    if missing or geo.angdiff(float(got), want) > 1e-6:
                        ctx.violation("an entry of the torsion table is not the torsion of its IUPAC atoms",
                                      {"file": name, "residue": str(res), "angle": angle, "atoms": [list(q) for q in quad], "table_degrees": None if missing else math.degrees(float(got)),
                                       "expected_degrees": math.degrees(want), "sign_convention_of_core": sign})
    return n


def run(ctx):
    from rnapolis.tertiary import calculate_torsion_angle_coords as tor1
    from rnapolis.tertiary_v2 import calculate_torsion_angle as tor2
    rng = ctx.rng
    ctx.coverage["rule"] = ("constructed dihedrals: phi on a grid over (-pi, pi] and random, bond lengths 0.8-2.5 A, bond angles 20-160 deg, random rigid motions, "
                            "reversed and mirrored copies; corpus: every backbone and chi torsion through both code paths. "
                            "Non-trivial = non-degenerate (both plane normals >= 1e-3); distinct by the coordinates.")
    cases = []
    phis = [math.pi * k / 12 for k in range(-11, 13)] + [rng.uniform(-math.pi, math.pi) for _ in range(150 if ctx.quick else 3000)]
    for phi in phis:
        l1, l2, l3 = (rng.uniform(0.8, 2.5) for _ in range(3))
        th1, th3 = (math.radians(rng.uniform(20, 160)) for _ in range(2))
        pts = geo.build_dihedral(l1, l2, l3, th1, th3, phi)
        R = geo.random_rotation(rng)
        t = np.array([rng.uniform(-500, 500) for _ in range(3)])
        pts = [R @ p + t for p in pts]
        cases.append((phi, pts))
    # boundary stream: the shortest bonds of the quantified range with |phi| near 0 and 180 degrees
    for phi_deg in (-179.0, -175.0, -170.0, 170.0, 175.0, 179.0, 180.0, -5.0, -1.0, 0.0, 1.0, 5.0):
        for lens in ((0.8, 0.8, 0.8), (0.95, 0.9, 0.85), (1.2, 0.8, 1.2), (2.5, 2.5, 2.5), (0.8, 2.5, 0.8)):
            for angs in ((60.0, 60.0), (90.0, 90.0), (120.0, 60.0), (20.0, 160.0)):
                pts = geo.build_dihedral(*lens, math.radians(angs[0]), math.radians(angs[1]), math.radians(phi_deg))
                R = geo.random_rotation(rng)
                t = np.array([rng.uniform(-50, 50) for _ in range(3)])
                cases.append((math.radians(phi_deg), [R @ p + t for p in pts]))
    v2_sign_cases = 0
    exprs, meta = [], []
    for phi, pts in cases:
        key = tuple(round(float(x), 9) for p in pts for x in p)
        ctx.count(key, True, "constructed")
        a1 = tor1(*pts)
        a2 = tor2(*pts)
        case = {"phi": phi, "points": [list(map(float, p)) for p in pts], "tertiary": a1, "tertiary_v2": a2}
        if geo.angdiff(a1, phi) > 1e-7:      # rotation by +-500 A translations costs some digits
            ctx.violation("tertiary.calculate_torsion_angle_coords does not return the constructed dihedral", {"case": case})
        if not (-math.pi - 1e-12 < a1 <= math.pi + 1e-12):
            ctx.violation("value outside (-pi, pi]", {"case": case})
        if geo.angdiff(a2, phi) > 1e-7:
            if geo.angdiff(a2, -phi) <= 1e-7 and ctx.known_finding("v2-sign", "tertiary_v2.calculate_torsion_angle returns minus the IUPAC dihedral (pinned by tests/test_v2.py::test_torsion_angle_calculation)"):
                v2_sign_cases += 1
            else:
                ctx.violation("tertiary_v2.calculate_torsion_angle does not return the constructed dihedral", {"case": case})
        # reversal keeps, mirroring negates (checked on tertiary.py, the IUPAC-conforming one)
        r = tor1(*pts[::-1])
        m = tor1(*[p * np.array([1.0, 1.0, -1.0]) for p in pts])
        if geo.angdiff(r, a1) > 1e-7 or geo.angdiff(m, -a1) > 1e-7:
            ctx.violation("reversal does not keep / mirroring does not negate the torsion", {"case": case, "reversed": r, "mirrored": m})
        # correspondence with the Coq cores on grid-snapped copies
        sp = [np.array([geo.snap(float(x)) for x in p]) for p in pts]
        ints = [[geo.to_int(float(x)) for x in p] for p in sp]
        exprs.append("run_torsion " + " ".join(f"(P {lit(a)} {lit(b)} {lit(c)})" for a, b, c in ints))
        meta.append((sp, case))
    ctx.sample({"phi": cases[0][0], "points": [list(map(float, p)) for p in cases[0][1]]})
    # corpus torsions through both code paths
    corpus_n = 0
    for name in ["1DFU_1_M-N.cif", "1E7K_1_C.cif", "6INQ.cif"] + ([] if ctx.quick else ["1ehz-assembly-1.cif", "184D.cif", "4WTI_1_T-P.cif"]):
        s3 = geo.load3d(name)
        quads = []
        for i, res in enumerate(s3.residues):
            names_chi = ["O4'", "C1'", "N9", "C4"] if res.one_letter_name.upper() in ("A", "G") else ["O4'", "C1'", "N1", "C2"]
            for q in (names_chi, ["P", "O5'", "C5'", "C4'"], ["O5'", "C5'", "C4'", "C3'"], ["C5'", "C4'", "C3'", "O3'"]):
                atoms = [res.find_atom(n) for n in q]
                if all(a is not None for a in atoms):
                    quads.append((res, q, [a.coordinates for a in atoms]))
        chis = []
        for res, q, pts in quads:
            corpus_n += 1
            ctx.count((name, res.full_name, tuple(q)), True, "corpus")
            a1, a2 = tor1(*pts), tor2(*pts)
            case = {"file": name, "residue": res.full_name, "atoms": q, "tertiary": a1, "tertiary_v2": a2}
            if geo.angdiff(a1, a2) > 1e-7:
                if geo.angdiff(a1, -a2) <= 1e-7 and ctx.known_finding("v2-sign", "tertiary_v2.calculate_torsion_angle returns minus the IUPAC dihedral (pinned by tests/test_v2.py::test_torsion_angle_calculation)"):
                    v2_sign_cases += 1
                else:
                    ctx.violation("the two torsion implementations disagree", {"case": case})
            if q[2] in ("N9", "N1"):
                if abs(res.chi - a1) > 1e-12:
                    ctx.violation("Residue3D.chi is not the torsion of its four atoms", {"case": case, "chi": res.chi})
                chis.append(math.degrees(a1))
            sp = [np.array([geo.snap(float(x)) for x in p]) for p in pts]
            exprs.append("run_torsion " + " ".join(f"(P {lit(geo.to_int(float(p[0])))} {lit(geo.to_int(float(p[1])))} {lit(geo.to_int(float(p[2])))})" for p in sp))
            meta.append((sp, case))
        # chi of A-form RNA is anti (about -160 degrees): the helical files must be dominated by anti
        if name in ("1DFU_1_M-N.cif", "6INQ.cif") and chis:
            anti = sum(1 for c in chis if c < -90 or c > 150)
            if anti < 0.7 * len(chis):
                ctx.violation("glycosidic chi of an A-form helix is not anti", {"file": name, "chi_degrees": chis})
            ctx.coverage.setdefault("chi_median_degrees", {})[name] = sorted(chis)[len(chis) // 2]
    # the table-level reader's torsion table (tertiary_v2.Structure.torsion_angles): every entry is the torsion of the IUPAC atoms
    # (alpha O3'(i-1)-P-O5'-C5', beta P-O5'-C5'-C4', gamma O5'-C5'-C4'-C3', delta C5'-C4'-C3'-O3', epsilon C4'-C3'-O3'-P(i+1),
    # zeta C3'-O3'-P(i+1)-O5'(i+1), chi O4'-C1'-N9-C4 / O4'-C1'-N1-C2), recomputed here from the named atoms with an own formula;
    # the sign convention is the one the core function shows on a constructed +60 degree quadruple (the known finding)
    table_n = _v2_tables(ctx, tor2)
    ctx.coverage["v2_table_entries_checked"] = table_n
    ctx.coverage["v2_sign_cases_matched_to_known_finding"] = v2_sign_cases
    ctx.coverage["corpus_torsions"] = corpus_n
    if not ctx.model_ok:
        return
    vals, err = ctx.coq_values("tor", IMPORTS, exprs)
    if err:
        ctx.violation("torsion cores failed to evaluate", {"error": err}, has_input=False)
        return
    ncmp = 0
    for (sp, case), v in zip(meta, vals):
        y1, x, y2, l2, n1, n2 = v
        a1, a2 = tor1(*sp), tor2(*sp)
        if n1 == 0 or n2 == 0:
            continue
        # plane normals in Angstrom^2: skip nearly degenerate cases (the property excludes them)
        if math.sqrt(n1) / geo.GRID ** 2 < 1e-3 or math.sqrt(n2) / geo.GRID ** 2 < 1e-3:
            continue
        ncmp += 1
        e1 = math.atan2(math.sqrt(l2) * y1, x)
        e2 = math.atan2(y2 / math.sqrt(l2), x)
        if geo.angdiff(a1, e1) > TOL:
            ctx.violation("model and tertiary.py disagree on a torsion", {"case": case, "model_atan2_args": [y1, x, l2], "model": e1, "implementation": a1,
                                                                           "correspondence": "Run.RGeo.run_torsion (v1 core)"}, has_input=False)
        if geo.angdiff(a2, e2) > TOL:
            ctx.violation("model and tertiary_v2.py disagree on a torsion", {"case": case, "model": e2, "implementation": a2,
                                                                              "correspondence": "Run.RGeo.run_torsion (v2 core)"}, has_input=False)
    ctx.coverage["cores_compared"] = ncmp
