"""C07 — structural elements decompose the secondary structure consistently."""
from . import gen2d, impl2d
from .c01 import bexpr, component_sizes
from .core import Err, Nat, lit

RUN_TARGETS = ["Run/R2D.vo"]
IMPORTS = "From RV Require Import Base.Val Model.Bpseq Run.R2D."
TRUSTED = ["the dot-bracket text used for the strands' structure slices is the one the implementation produced (passed to the model)"]


def strand_v(s):
    return [s.first, s.last, s.sequence, s.structure]


def elements_v(els):
    stems, singles, hairpins, loops = els
    return [[[strand_v(s.strand5p), strand_v(s.strand3p)] for s in stems],
            [[strand_v(s.strand), s.is5p, s.is3p] for s in singles],
            [strand_v(h.strand) for h in hairpins],
            [[strand_v(s) for s in l.strands] for l in loops]]


def spec(pairs, seq, db, els):
    """the property, decided directly; returns None or a description of what fails"""
    n = len(pairs)
    stems, singles, hairpins, loops = els
    P = {i + 1: p for i, p in enumerate(pairs) if p}
    # 1. stems partition the pairs into maximal stacked runs, strands mirrored
    seen = []
    for st in stems:
        a, b = st.strand5p, st.strand3p
        ln = a.last - a.first + 1
        if b.last - b.first + 1 != ln or ln < 1:
            return "stem strands differ in length"
        for t in range(ln):
            if P.get(a.first + t) != b.last - t:
                return "stem strands are not mirrored partners"
            seen.append((a.first + t, b.last - t))
        if P.get(a.first - 1) == b.last + 1 and a.first - 1 >= 1 and (a.first - 1) < (b.last + 1):
            return "stem is not maximal (extends outward)"
        if ln >= 1 and P.get(a.last + 1) == b.first - 1 and a.last + 1 < b.first - 1:
            return "stem is not maximal (extends inward)"
    allp = sorted((i, j) for i, j in P.items() if i < j)
    if sorted(seen) != allp:
        return "stems do not partition the base pairs"
    # 5. slices
    strands = []
    for st in stems:
        strands += [(st.strand5p, False), (st.strand3p, False)]
    for s in singles:
        strands.append((s.strand, False))
    for h in hairpins:
        strands.append((h.strand, False))
    for l in loops:
        for s in l.strands:
            strands.append((s, False))
    for s, _ in strands:
        if s.sequence != seq[s.first - 1:s.last] or s.structure != db[s.first - 1:s.last]:
            return "strand text is not the slice of sequence / dot-bracket"
    # 2. hairpins = pairs enclosing only unpaired nucleotides
    want = sorted((i, j) for i, j in allp if all(pairs[x - 1] == 0 for x in range(i + 1, j)))
    got = sorted((h.strand.first, h.strand.last) for h in hairpins)
    if want != got:
        return "hairpins are not exactly the pairs enclosing only unpaired nucleotides"
    # 3. loops
    for l in loops:
        ss = l.strands
        if len(ss) < 2:
            return "loop with fewer than two strands"
        for a, b in zip(ss, ss[1:] + ss[:1]):
            if P.get(a.last) != b.first:
                return "loop is not closed by base pairs between consecutive strand ends"
        for s in ss:
            if any(pairs[x - 1] != 0 for x in range(s.first + 1, s.last)):
                return "loop strand interior is paired"
    # 4. every unpaired nucleotide lies in the interior of exactly one single strand / hairpin / loop strand
    if allp:
        cover = [0] * (n + 2)
        for s in singles:
            lo = s.strand.first if s.is5p else s.strand.first + 1
            hi = s.strand.last if s.is3p else s.strand.last - 1
            for x in range(lo, hi + 1):
                cover[x] += 1
        for h in hairpins:
            for x in range(h.strand.first + 1, h.strand.last):
                cover[x] += 1
        for l in loops:
            for s in l.strands:
                for x in range(s.first + 1, s.last):
                    cover[x] += 1
        for x in range(1, n + 1):
            if pairs[x - 1] == 0 and cover[x] != 1:
                return f"unpaired nucleotide {x} is covered {cover[x]} times"
    return None


def cover_counts(pairs, els):
    """(k, number of reported strands with k in their interior) for every unpaired nucleotide, from the implementation's elements"""
    stems, singles, hairpins, loops = els
    n = len(pairs)
    cover = [0] * (n + 2)
    for s in singles:
        lo = s.strand.first if s.is5p else s.strand.first + 1
        hi = s.strand.last if s.is3p else s.strand.last - 1
        for x in range(max(lo, 0), min(hi, n) + 1):
            cover[x] += 1
    for h in hairpins:
        for x in range(h.strand.first + 1, min(h.strand.last, n + 1)):
            cover[x] += 1
    for l in loops:
        for s in l.strands:
            for x in range(s.first + 1, min(s.last, n + 1)):
                cover[x] += 1
    return [(x, cover[x]) for x in range(1, n + 1) if pairs[x - 1] == 0]


def run(ctx):
    ctx.coverage["rule"] = ("every pairing on <= N positions (N = 8 quick, 10 thorough) + random nested/knotted layouts up to 300 nt. "
                            "Non-trivial = has >= 1 stem; distinct by pair array; shapes counted (hairpin / bulge-internal / multiloop / knotted).")
    corr_expr, corr_exp, corr_case = [], [], []
    structs = []
    for n in range(1, (8 if ctx.quick else 10) + 1):
        for p in gen2d.all_matchings(n):
            structs.append(("exhaustive", p))
    for _ in range(200 if ctx.quick else 3000):
        p = gen2d.layout(ctx.rng, ctx.rng.randint(1, 9), maxlen=ctx.rng.choice([1, 2, 4, 7]), maxgap=ctx.rng.choice([0, 1, 2, 5]))
        if len(p) <= 300:
            structs.append(("layout", p))
    nopairs_known = 0
    for kind, pairs in structs:
        seq = gen2d.seq_for(ctx.rng, len(pairs))
        b = impl2d.mk(seq, pairs)
        if any(s > 8 for s in component_sizes(b)):
            continue
        els = impl2d.guarded(lambda: b.elements)
        case = {"kind": kind, "sequence": seq, "pairs": pairs}
        if isinstance(els, Err):
            ctx.violation(f"elements raised {els.kind}", {"case": case})
            continue
        db = b.dot_bracket.structure
        case["dot_bracket"] = db
        ev = elements_v(els)
        case["elements"] = [[str(x) for x in part] for part in els]
        shape = "none" if not any(pairs) else ("knotted" if gen2d.is_knotted(pairs) else ("multiloop" if any(len(l.strands) > 2 for l in els[3]) else ("internal" if els[3] else "hairpin")))
        ctx.count(tuple(pairs), any(pairs), shape)
        if not any(pairs):
            # known finding candidate: pair-free structure has no element covering its nucleotides
            if els != ([], [], [], []):
                pass
            if not ctx.known_finding("no-pairs", "structure without base pairs: elements returns four empty lists, so no single strand covers its unpaired nucleotides"):
                ctx.violation("pair-free structure: unpaired nucleotides are not covered by any element", {"case": case})
            nopairs_known += 1
        else:
            why = spec(pairs, seq, db, els)
            if why:
                ctx.violation(why, {"case": case})
        corr_expr.append(f"run_elements {bexpr(seq, pairs)} {lit(db)}")
        corr_exp.append(ev)
        corr_case.append(case)
        if any(pairs):
            corr_expr.append(f"run_cover_counts {bexpr(seq, pairs)} {lit(db)}")
            corr_exp.append([[Nat(x), Nat(c)] for x, c in cover_counts(pairs, els)])
            corr_case.append(dict(case, compared="times_covered of every unpaired nucleotide"))
        if kind == "layout" and len(ctx.coverage["samples"]) < 3 and els[3]:
            ctx.sample(case)
    if not ctx.model_ok:
        return
    bad, err = ctx.coq_mismatches("corr", IMPORTS, corr_expr, corr_exp, shard=200)
    if err:
        ctx.violation("correspondence cases failed to evaluate", {"error": err}, has_input=False)
    if bad:
        shown = ctx.coq_show(IMPORTS, [corr_expr[i] for i in bad[:5]])
        for n, i in enumerate(bad[:10]):
            ctx.violation("model and implementation disagree on elements",
                          {"case": corr_case[i], "model": shown[n] if n < len(shown) else None, "correspondence": "Run.R2D.run_elements"}, has_input=False)
    ctx.coverage["correspondence_cases"] = len(corr_expr)
    ctx.coverage["pair_free_cases"] = nopairs_known
    ctx.coverage["exhaustive"] = True
