"""C16 — the all-dot-brackets list is exactly the set of greedy-stable assignments."""
import itertools

from . import gen2d, impl2d
from .c01 import bexpr, component_sizes
from .core import Err, Nat, lit

RUN_TARGETS = ["Run/R2D.vo"]
IMPORTS = "From RV Require Import Base.Val Model.Bpseq Run.R2D."
TRUSTED = ["modelled: itertools.permutations/product, set de-duplication (compared as sorted lists)"]


def graph_shapes():
    """conflict graphs by shape, realised as ladders of crossing 1-pair stems: stems i, j cross iff their
    intervals interleave; built from interval models of paths, stars, cycles (C4 via chords), cliques"""
    out = []
    # clique K_k: k mutually crossing stems
    for k in (2, 3, 4, 5):
        out.append((f"clique{k}", gen2d.ladder(k, 1, 0)))
    # path P_k: stem t = (2t+1, 2t+4) crosses only t+1
    for k in (3, 4, 5, 6, 7, 8):
        n = 2 * k + 2
        p = [0] * n
        for t in range(k):
            a, b = 2 * t + 1, 2 * t + 4
            p[a - 1], p[b - 1] = b, a
        out.append((f"path{k}", p))
    # star: one long stem crossed by k short ones
    for k in (3, 4, 5, 6, 7):
        n = 2 * k + 2
        p = [0] * n
        p[0], p[k + 1 - 1 + 1] = k + 2, 1
        # centre (1, k+2); leaves (1+t, k+2+t) t=1..k
        p = [0] * (2 * k + 2)
        p[0] = k + 2
        p[k + 1] = 1
        for t in range(1, k + 1):
            a, b = 1 + t, k + 2 + t
            p[a - 1], p[b - 1] = b, a
        out.append((f"star{k}", p))
    # two independent components: two kissing pairs side by side
    p = [3, 4, 1, 2, 0, 8, 9, 6, 7]
    p = [0 if x == 0 else x for x in p]
    out.append(("two-components", p))
    return out


def stable_sets(regs):
    n = len(regs)
    adj = [[False] * n for _ in range(n)]
    for i, j in itertools.combinations(range(n), 2):
        k, l, _ = regs[i]
        m, nn, _ = regs[j]
        if k < m < l < nn or m < k < nn < l:
            adj[i][j] = adj[j][i] = True
    deg = [sum(a) for a in adj]
    out = []
    for ord_ in itertools.product(*[range(d + 1) for d in deg]):
        ok = all(not (adj[i][j] and ord_[i] == ord_[j]) for i in range(n) for j in range(i))
        ok = ok and all(any(adj[i][j] and ord_[j] == k for j in range(n)) for i in range(n) for k in range(ord_[i]))
        if ok:
            out.append(ord_)
    return out


def write(n, regs, ord_):
    s = ["."] * n
    for (j, k, ln), o in zip(regs, ord_):
        for t in range(ln):
            s[j - 1 + t] = gen2d.OPEN[o]
            s[k - 1 - t] = gen2d.CLOSE[o]
    return "".join(s)


def run(ctx):
    ctx.coverage["rule"] = ("every pairing on <= N positions (N = 8 quick, 9 thorough), random layouts whose groups of crossing stems have <= 6 "
                            "(thorough 8) members, and conflict graphs chosen by shape (cliques, paths up to 8 stems, stars up to 8 stems, two components). "
                            "Non-trivial = some group has >= 3 stems; distinct by pair array.")
    lim = 6 if ctx.quick else 8
    corr_expr, corr_exp, corr_case = [], [], []
    structs = []
    for n in range(1, (8 if ctx.quick else 9) + 1):
        for p in gen2d.all_matchings(n):
            if n <= 5 or gen2d.is_knotted(p):
                structs.append(("exhaustive", p))
    for name, p in graph_shapes():
        structs.append((name, p))
    for _ in range(60 if ctx.quick else 600):
        p = gen2d.layout(ctx.rng, ctx.rng.randint(2, 8), maxlen=ctx.rng.choice([1, 2, 3]), maxgap=ctx.rng.choice([0, 1, 2]))
        structs.append(("layout", p))
    for kind, pairs in structs:
        seq = gen2d.seq_for(ctx.rng, len(pairs))
        b = impl2d.mk(seq, pairs)
        sizes = component_sizes(b)
        # the shapes with a group of 7 or 8 stems (path7, path8, star6, star7) run in both tiers: the enumeration is factorial and a
        # bound on it shows only there; their sparse conflict graphs keep the oracle's search small (implementation against the search oracle only: the Coq model's factorial enumeration of these four does not finish within the case timeout)
        big_shape = kind in ("path7", "path8", "star6", "star7")
        if (any(s > lim for s in sizes) and not big_shape) or len(impl2d.regions(b)) > 10:
            continue
        ctx.count(tuple(pairs), any(s >= 3 for s in sizes), kind)
        regs = impl2d.regions(b)
        alls = impl2d.guarded(lambda: [d.structure for d in b.all_dot_brackets])
        case = {"kind": kind, "sequence": seq, "pairs": pairs, "regions": regs,
                "all_dot_brackets": repr(alls) if isinstance(alls, Err) else alls}
        if isinstance(alls, Err):
            ctx.violation(f"all_dot_brackets raised {alls.kind}", {"case": case})
            continue
        # spec (Python search oracle): exactly the greedy-stable assignments, no repetition
        expect = sorted({write(len(pairs), regs, o) for o in stable_sets(regs)})
        if len(set(alls)) != len(alls):
            ctx.violation("all_dot_brackets repeats a member", {"case": case})
        elif sorted(alls) != expect:
            ctx.violation("all_dot_brackets is not the set of greedy-stable assignments", {"case": case, "expected": expect})
        else:
            fc = b.fcfs.structure
            db = b.dot_bracket.structure if all(s <= 8 for s in sizes) else None
            if fc not in alls or (db is not None and db not in alls):
                ctx.violation("the list misses the FCFS or the optimal notation", {"case": case, "fcfs": fc, "optimal": db})
            if not sizes and (len(alls) != 1 or any(c not in "()." for c in alls[0])):
                ctx.violation("pseudoknot-free structure: list is not a single round-bracket string", {"case": case})
        be = bexpr(seq, pairs)
        # the Coq model (permutation-based) and the Coq characterisation (stable assignments) both equal the implementation's list
        if not big_shape:
            corr_expr.append(f"run_all_db {be}")
            corr_exp.append(alls)   # in order: the list is sorted since the C14 fix
            corr_case.append((case, "all_db"))
        if len(regs) <= 8 and not big_shape:
            corr_expr.append(f"run_stable_db {be}")
            corr_exp.append(sorted(alls))
            corr_case.append((case, "stable_db"))
        if kind not in ("exhaustive",) and len(ctx.coverage["samples"]) < 3 and len(alls) > 1:
            ctx.sample(case)
    if not ctx.model_ok:
        return
    bad, err = ctx.coq_mismatches("corr", IMPORTS, corr_expr, corr_exp, shard=120 if ctx.quick else 40, timeout=600 if ctx.quick else 2400)
    if err:
        ctx.violation("correspondence cases failed to evaluate", {"error": err}, has_input=False)
    if bad:
        shown = ctx.coq_show(IMPORTS, [corr_expr[i] for i in bad[:5]])
        for n, i in enumerate(bad[:10]):
            case, what = corr_case[i]
            if what == "stable_db":
                ctx.violation("the list is not the set of greedy-stable assignments (Coq characterisation AllDb.stable_db)",
                              {"case": case, "model": shown[n] if n < len(shown) else None})
            else:
                ctx.violation("model and implementation disagree on all_dot_brackets",
                              {"case": case, "model": shown[n] if n < len(shown) else None, "correspondence": "Run.R2D.run_all_db"}, has_input=False)
    ctx.coverage["correspondence_cases"] = len(corr_expr)
    ctx.coverage["exhaustive"] = True
