"""Shared machinery of ./check: translator run, Coq build, proof accounting, correspondence by
generated cases.v files evaluated with vm_compute, violation / known-finding reporting and the
evidence writer."""
import concurrent.futures
import fcntl
import hashlib
import json
import os
import random
import re
import subprocess
import sys
import time

VERIF = os.path.dirname(os.path.dirname(os.path.abspath(__file__)))
REPO = os.environ.get("VERIF_REPO", "/repo")
COQ = os.path.join(VERIF, "coq")
BUILD = os.path.join(VERIF, "build")
PY = "/venv/bin/python"

sys.path.insert(0, VERIF)

FORBIDDEN = re.compile(
    r"\b(Admitted|admit|Axiom|Axioms|Parameter|Parameters|Conjecture|Conjectures|Admit Obligations)\b"
    r"|Unset\s+Guard|bypass_check|type-in-type|impredicative-set|Unset\s+Universe\s+Checking|Unset\s+Positivity")


# ------------------------------------------------------------------ Coq literal printers

class Nat(int):
    """marks a Python int that must be printed as a Coq nat"""


class Raw(str):
    """Coq text passed through unchanged"""


class Err:
    def __init__(self, kind):
        self.kind = kind

    def __repr__(self):
        return f"Err({self.kind})"

    def __eq__(self, o):
        return isinstance(o, Err) and o.kind == self.kind

    def __hash__(self):
        return hash(("Err", self.kind))


def coq_str(s):
    b = s.encode("utf-8")
    if not all(32 <= c < 127 or c in (9, 10) for c in b):
        raise ValueError(f"string not printable ASCII: {s!r}")
    return '"' + s.replace('"', '""') + '"'


def lit(x):
    """typed Coq literal of a Python value (inputs of model entry points)"""
    if isinstance(x, Raw):
        return str(x)
    if isinstance(x, bool):
        return "true" if x else "false"
    if isinstance(x, Nat):
        if x > 20000:
            raise ValueError("nat literal too large")
        return f"{int(x)}%nat"
    if isinstance(x, int):
        return f"({x})%Z"
    if isinstance(x, str):
        return f"(L {coq_str(x)})"
    if isinstance(x, tuple):
        return "(" + ", ".join(lit(e) for e in x) + ")"
    if isinstance(x, list):
        return "[" + "; ".join(lit(e) for e in x) + "]"
    if x is None:
        return "None"
    raise TypeError(f"no Coq literal for {type(x)}")


def val(x):
    """Coq `val` literal of a Python value (expected outputs)"""
    if isinstance(x, Err):
        return f"(VE {coq_str(x.kind)})"
    if x is None:
        return "VN"
    if isinstance(x, bool):
        return f"(VZ {1 if x else 0})"
    if isinstance(x, int):
        return f"(VZ ({x}))"
    if isinstance(x, str):
        return f"(VS {coq_str(x)})"
    if isinstance(x, (list, tuple)):
        return "(VL [" + "; ".join(val(e) for e in x) + "])"
    raise TypeError(f"no val literal for {type(x)}")


# ------------------------------------------------------------------ the context of one check run

def _big_stack():
    """coqc parses multi-megabyte literals recursively: give it the largest stack the system allows"""
    import resource
    try:
        soft, hard = resource.getrlimit(resource.RLIMIT_STACK)
        resource.setrlimit(resource.RLIMIT_STACK, (hard, hard))
    except Exception:  # noqa: BLE001
        pass


class Ctx:
    def __init__(self, prop, tier, seed):
        self.prop = prop
        self.tier = tier
        self.seed = seed
        self.rng = random.Random(seed * 1000003 + int(prop[1:]))
        self.t0 = time.time()
        self.violations = []          # (what, replay_path, has_input)
        self.unexplained = []         # correspondence failures with no failing input
        self.known_printed = set()
        self.coverage = {"evaluations": 0, "distinct_nontrivial": 0, "samples": [], "rule": ""}
        self._distinct = set()
        self.hist = {}
        self.assumptions = []
        self.proof = {"ok": None, "theorems": [], "assumptions": {}, "error": None}
        self.translator = {}
        self.notes = []
        self.replay_dir = os.path.join(BUILD, "replay")
        os.makedirs(self.replay_dir, exist_ok=True)
        for fn in os.listdir(self.replay_dir):
            if fn.startswith(prop + "-"):
                os.remove(os.path.join(self.replay_dir, fn))
        self.known = load_known(prop)
        self.cases_dir = os.path.join(BUILD, "cases", prop)
        os.makedirs(self.cases_dir, exist_ok=True)
        self.quick = tier == "quick"

    # ---- accounting
    def count(self, case_key, nontrivial, kind=None):
        self.coverage["evaluations"] += 1
        if nontrivial:
            h = hashlib.sha1(repr(case_key).encode()).digest()[:10]
            self._distinct.add(h)
        if kind is not None:
            self.hist[kind] = self.hist.get(kind, 0) + 1

    def sample(self, s, limit=6):
        if len(self.coverage["samples"]) < limit:
            self.coverage["samples"].append(s)

    def note(self, s):
        self.notes.append(s)
        print(f"[{self.prop}] {s}", flush=True)

    # ---- reporting
    def known_finding(self, key, what):
        """True (and prints the KNOWN-FINDING line once) iff key is listed for this property."""
        if key in self.known:
            if key not in self.known_printed:
                self.known_printed.add(key)
                print(f"KNOWN-FINDING: property={self.prop} key={key} {what}", flush=True)
            return True
        return False

    def violation(self, what, replay, has_input=True):
        n = len(self.violations) + len(self.unexplained)
        path = os.path.join(self.replay_dir, f"{self.prop}-{n}.json")
        replay = dict(replay)
        replay.update({"property": self.prop, "what": what, "seed": self.seed, "tier": self.tier})
        if not has_input:
            replay["search"] = "no-failing-input-found"
        with open(path, "w") as f:
            json.dump(replay, f, indent=1, default=repr)
        if has_input:
            self.violations.append((what, path))
        else:
            self.unexplained.append((what, path))
        return path

    # ---- Coq evaluation of cases
    def coq_mismatches(self, tag, imports, run_exprs, expected, shard=300, timeout=600, extra_defs=""):
        """run_exprs[i]: Coq expression of type val; expected[i]: Python value (printed with val()).
        Returns (sorted list of indices whose model answer differs, error text or None)."""
        assert len(run_exprs) == len(expected)
        shards = []
        for s0 in range(0, len(run_exprs), shard):
            shards.append((s0, run_exprs[s0:s0 + shard], expected[s0:s0 + shard]))
        files = []
        for k, (s0, rs, es) in enumerate(shards):
            name = f"cases_{tag}_{k}"
            path = os.path.join(self.cases_dir, name + ".v")
            with open(path, "w") as f:
                f.write(f"From Coq Require Import String Ascii ZArith List QArith.\nImport ListNotations.\n{imports}\n{extra_defs}\n")
                f.write("Definition got : list val := [\n " + ";\n ".join(rs) + "].\n")
                f.write("Definition expected : list val := [\n " + ";\n ".join(val(e) for e in es) + "].\n")
                f.write("Eval vm_compute in (mismatches got expected).\n")
            files.append((s0, path))
        bad = []
        err = None

        def one(item):
            s0, path = item
            try:
                r = subprocess.run(["coqc", "-Q", COQ, "RV", "-w", "none", path], capture_output=True, text=True,
                                   timeout=timeout, cwd=self.cases_dir, preexec_fn=_big_stack)
            except subprocess.TimeoutExpired:
                r = subprocess.CompletedProcess([], 124, "", f"coqc timed out after {timeout} s")
            return s0, path, r

        with concurrent.futures.ThreadPoolExecutor(max_workers=min(14, max(1, len(files)))) as ex:
            for s0, path, r in ex.map(one, files):
                if r.returncode != 0:
                    err = (err or "") + f"{path}: {r.stderr[-2000:]}\n"
                    continue
                m = re.search(r"=\s*\[(.*?)\]\s*:\s*list nat", r.stdout, re.S)
                if not m:
                    err = (err or "") + f"{path}: unparsable output {r.stdout[-500:]}\n"
                    continue
                body = m.group(1).strip()
                if body:
                    for tok in body.split(";"):
                        bad.append(s0 + int(tok.strip().replace("%nat", "")))
        for _, path in files:
            for ext in (".vo", ".vok", ".vos", ".glob"):
                p = path[:-2] + ext
                if os.path.exists(p):
                    os.remove(p)
            aux = os.path.join(os.path.dirname(path), "." + os.path.basename(path)[:-2] + ".aux")
            if os.path.exists(aux):
                os.remove(aux)
        return sorted(bad), err

    def coq_values(self, tag, imports, exprs, shard=400, timeout=600):
        """exprs[i] : Coq expression of type list Z; returns the list of Python int lists (None on failure)."""
        import ast as _ast
        out = [None] * len(exprs)
        files = []
        for k, s0 in enumerate(range(0, len(exprs), shard)):
            path = os.path.join(self.cases_dir, f"values_{tag}_{k}.v")
            with open(path, "w") as f:
                f.write(f"From Coq Require Import String Ascii ZArith List QArith.\nImport ListNotations.\n{imports}\n")
                f.write("Definition vals : list (list Z) := [\n " + ";\n ".join(exprs[s0:s0 + shard]) + "].\n")
                f.write("Eval vm_compute in vals.\n")
            files.append((s0, path))

        def one(item):
            s0, path = item
            try:
                r = subprocess.run(["coqc", "-Q", COQ, "RV", "-w", "none", path], capture_output=True, text=True, timeout=timeout, cwd=self.cases_dir, preexec_fn=_big_stack)
            except subprocess.TimeoutExpired:
                r = subprocess.CompletedProcess([], 124, "", f"coqc timed out after {timeout} s")
            return s0, path, r

        err = None
        with concurrent.futures.ThreadPoolExecutor(max_workers=min(14, max(1, len(files)))) as ex:
            for s0, path, r in ex.map(one, files):
                if r.returncode != 0:
                    err = (err or "") + r.stderr[-1500:]
                    continue
                m = re.search(r"=\s*(\[.*\])\s*:\s*list \(list Z\)", r.stdout, re.S)
                if not m:
                    err = (err or "") + "unparsable: " + r.stdout[-300:]
                    continue
                txt = m.group(1).replace("%Z", "").replace(";", ",")
                vals = _ast.literal_eval(txt)
                for i, v in enumerate(vals):
                    out[s0 + i] = v
        for _, path in files:
            for ext in (".vo", ".vok", ".vos", ".glob"):
                p2 = path[:-2] + ext
                if os.path.exists(p2):
                    os.remove(p2)
            aux = os.path.join(os.path.dirname(path), "." + os.path.basename(path)[:-2] + ".aux")
            if os.path.exists(aux):
                os.remove(aux)
        return out, err

    def coq_show(self, imports, exprs, timeout=300, extra_defs=""):
        """Evaluate expressions and return Coq's printed answers (for replay files)."""
        path = os.path.join(self.cases_dir, "show.v")
        with open(path, "w") as f:
            f.write(f"From Coq Require Import String Ascii ZArith List QArith.\nImport ListNotations.\n{imports}\n{extra_defs}\n")
            for e in exprs:
                f.write(f"Eval vm_compute in ({e}).\n")
        try:
            r = subprocess.run(["coqc", "-Q", COQ, "RV", "-w", "none", path], capture_output=True, text=True,
                               timeout=timeout, cwd=self.cases_dir, preexec_fn=_big_stack)
        except subprocess.TimeoutExpired:
            r = subprocess.CompletedProcess([], 124, "", f"coqc timed out after {timeout} s")
        outs = [re.sub(r"\s+", " ", x).strip() for x in re.split(r"\n\s*=\s", "\n" + r.stdout)[1:]]
        if r.returncode != 0:
            outs.append("coqc failed: " + r.stderr[-1500:])
        return outs


def load_known(prop):
    keys = {}
    path = os.path.join(VERIF, "KNOWN_FINDINGS.txt")
    if os.path.exists(path):
        for line in open(path):
            line = line.strip()
            m = re.match(r"known:\s+property=(\S+)\s+key=(\S+)\s+(.*)", line)
            if m and m.group(1) == prop:
                keys[m.group(2)] = m.group(3)
    return keys


# ------------------------------------------------------------------ build steps

def gen_closure(start_files):
    """names of the coq/Gen modules in the transitive import closure of the given .v files (paths relative to coq/)"""
    seen, gens, todo = set(), set(), list(start_files)
    while todo:
        f = todo.pop()
        if f in seen:
            continue
        seen.add(f)
        path = os.path.join(COQ, f)
        if not os.path.exists(path):
            continue
        with open(path) as fh:
            txt = fh.read()
        for m in re.finditer(r"From RV Require (?:Import|Export)\s+(.*?)\.(?:\s|$)", txt, re.S):
            for name in m.group(1).split():
                parts = name.split(".")
                if len(parts) == 2:
                    if parts[0] == "Gen":
                        gens.add(parts[1])
                    todo.append(f"{parts[0]}/{parts[1]}.v")
    return gens


def run_translator(ctx):
    from translator import run as trun
    summary = trun.main(REPO, os.path.join(COQ, "Gen"))
    ctx.translator = summary
    return summary


def sh(cmd, timeout, cwd=None):
    try:
        r = subprocess.run(cmd, shell=True, capture_output=True, text=True, timeout=timeout, cwd=cwd)
        return r.returncode, r.stdout, r.stderr
    except subprocess.TimeoutExpired as e:
        return 124, e.stdout or "", (e.stderr or "") + "\nTIMEOUT"


def ensure_makefile():
    mk = os.path.join(COQ, "Makefile")
    proj = os.path.join(COQ, "_CoqProject")
    if not os.path.exists(mk) or os.path.getmtime(mk) < os.path.getmtime(proj):
        rc, out, err = sh("coq_makefile -f _CoqProject -o Makefile", 120, cwd=COQ)
        if rc != 0:
            raise RuntimeError("coq_makefile failed: " + err)


def make_targets(targets, timeout=1500, jobs=16):
    ensure_makefile()
    t = " ".join(targets)
    rc, _, _ = sh(f"make -q {t}", 120, cwd=COQ)
    if rc == 0:
        return 0, "", ""          # up to date: nothing is written
    if LOCK is not None:
        LOCK.writer()
    try:
        return sh(f"timeout {timeout} make -j{jobs} {t}", timeout + 30, cwd=COQ)
    finally:
        if LOCK is not None:
            LOCK.writer_done()


def scan_forbidden():
    hits = []
    for root, _, files in os.walk(COQ):
        for fn in files:
            if fn.endswith(".v"):
                p = os.path.join(root, fn)
                txt = open(p).read()
                # comments are scanned too: simpler and stricter
                for i, line in enumerate(txt.splitlines(), 1):
                    if FORBIDDEN.search(line):
                        hits.append(f"{os.path.relpath(p, COQ)}:{i}: {line.strip()[:120]}")
                    if re.match(r"\s*(Variable|Variables|Hypothesis|Hypotheses|Context)\b", line):
                        # allowed only inside a Section
                        pre = txt.split("\n")[: i - 1]
                        depth = sum(1 for l in pre if re.match(r"\s*Section\b", l)) - sum(1 for l in pre if re.match(r"\s*End\b", l))
                        if depth <= 0:
                            hits.append(f"{os.path.relpath(p, COQ)}:{i}: {line.strip()[:120]} (outside a Section)")
    return hits


def check_props(ctx, timeout=900):
    """Build the closure of Props/<prop>.v, then re-run coqc on it to measure, on this run,
    the theorems closed and what Print Assumptions reports."""
    prop = ctx.prop
    pfile = f"Props/{prop}.v"
    if not os.path.exists(os.path.join(COQ, pfile)):
        ctx.proof.update(ok=False, error=f"{pfile} missing")
        return
    src = open(os.path.join(COQ, pfile)).read()
    theorems = re.findall(r"^\s*(?:Theorem|Lemma|Corollary|Example)\s+(\w+)", src, re.M)
    deps = f"Props/{prop}.vo"
    rc, out, err = make_targets([deps], timeout=timeout)
    if rc != 0:
        # which file failed?
        m = re.findall(r'File "\./([^"]+)", line (\d+)', err)
        where = f"{m[-1][0]}:{m[-1][1]}" if m else "?"
        ctx.proof.update(ok=False, theorems=theorems, error=f"build of {deps} failed at {where}: " + err[-1500:], failed_at=where)
        return
    # always re-check the property file itself
    os.makedirs(os.path.join(BUILD, "props"), exist_ok=True)
    rc, out, err = sh(f"timeout {timeout} coqc -Q . RV -w none -o {BUILD}/props/{prop}.vo {pfile}", timeout + 30, cwd=COQ)
    if rc != 0:
        ctx.proof.update(ok=False, theorems=theorems, error="coqc " + pfile + ": " + err[-1500:], failed_at=pfile)
        return
    # parse Print Assumptions output blocks, in order
    blocks = re.split(r"(?=Closed under the global context|Axioms:)", out)
    assum = []
    for b in blocks:
        if b.startswith("Closed under the global context"):
            assum.append([])
        elif b.startswith("Axioms:"):
            names = re.findall(r"^([A-Za-z_][\w\.']*)\s*:", b[len("Axioms:"):], re.M)
            assum.append(sorted(set(names)))
    printed = re.findall(r"^\s*Print Assumptions\s+(\w+)", src, re.M)
    amap = {}
    for name, a in zip(printed, assum):
        amap[name] = a
    ctx.proof.update(ok=True, theorems=theorems, assumptions=amap)


def file_sha(path):
    return hashlib.sha256(open(path, "rb").read()).hexdigest()[:16]


# ------------------------------------------------------------------ evidence

def write_evidence(ctx, extra_trusted=None, checker_cmd=None):
    cov = ctx.coverage
    cov["distinct_nontrivial"] = len(ctx._distinct)
    th = ctx.proof.get("theorems", [])
    cov["obligations"] = len(th)
    cov["discharged"] = len(th) if ctx.proof.get("ok") else 0
    cov["theorems"] = th
    cov["print_assumptions"] = ctx.proof.get("assumptions", {})
    cov["checker_cmd"] = checker_cmd or f"cd /verif/coq && make Props/{ctx.prop}.vo && coqc -Q . RV Props/{ctx.prop}.v"
    axioms = sorted({a for v in ctx.proof.get("assumptions", {}).values() for a in v})
    tb = [
        "Coq 8.16.1 kernel incl. vm_compute (no native_compute)",
        "translator/*.py (Python ast -> coq/Gen/*.v), regenerated on this run",
        "correspondence: harness/*.py generating cases.v evaluated by coqc (val_eqb comparison)",
        "axioms reported by Print Assumptions: " + (", ".join(axioms) if axioms else "none (closed under the global context)"),
    ]
    cov["trusted_base"] = tb + (extra_trusted or [])
    cov["input_distribution"] = ctx.hist
    cov["translator_sites"] = {
        m: {"translated": [s["site"] for s in v["sites"] if s["status"] == "translated"],
            "fallback": [s for s in v["sites"] if s["status"] != "translated"]}
        for m, v in ctx.translator.items()}
    cov["gen_hashes"] = {fn: file_sha(os.path.join(COQ, "Gen", fn)) for fn in sorted(os.listdir(os.path.join(COQ, "Gen"))) if fn.endswith(".v")}
    if ctx.proof.get("error"):
        cov["proof_error"] = ctx.proof["error"][-800:]
    cov["notes"] = ctx.notes[-40:]
    ev = {
        "property_id": ctx.prop,
        "tier": ctx.tier,
        "seed": ctx.seed,
        "level": "proof",
        "coverage": cov,
        "assumptions": ctx.assumptions,
        "wall_s": round(time.time() - ctx.t0, 2),
        "violations": len(ctx.violations) + len(ctx.unexplained),
    }
    os.makedirs(os.path.join(VERIF, "evidence"), exist_ok=True)
    with open(os.path.join(VERIF, "evidence", f"{ctx.prop}.json"), "w") as f:
        json.dump(ev, f, indent=1, default=repr)


class Lock:
    """build mutex + readers/writer lock on the compiled files: builders serialise among themselves and take the
    writer side only when make has work to do; harness phases hold the reader side"""

    def __enter__(self):
        os.makedirs(BUILD, exist_ok=True)
        self.m = open(os.path.join(BUILD, ".build.lock"), "w")
        self.rw = open(os.path.join(BUILD, ".rw.lock"), "w")
        fcntl.flock(self.m, fcntl.LOCK_EX)
        self.state = "building"
        return self

    def writer(self):
        fcntl.flock(self.rw, fcntl.LOCK_EX)

    def writer_done(self):
        fcntl.flock(self.rw, fcntl.LOCK_UN)

    def share(self):
        fcntl.flock(self.rw, fcntl.LOCK_SH)
        fcntl.flock(self.m, fcntl.LOCK_UN)
        self.state = "shared"

    def __exit__(self, *a):
        for f in (self.rw, self.m):
            try:
                fcntl.flock(f, fcntl.LOCK_UN)
            except Exception:  # noqa: BLE001
                pass
            f.close()


LOCK = None
