"""C15 — both reader generations and both file formats agree on structure content."""
import math
import os
import warnings

from . import genatoms, geo
from .core import Err, lit, BUILD

RUN_TARGETS = ["Run/RIO.vo"]
IMPORTS = "From RV Require Import Base.Val Base.PyStr Run.RIO."
TRUSTED = ["pandas groupby ordering / NaN handling and the mmcif tokenizer are not modelled: differential only",
           "the residue-level reader lists residues in file order, the table-level reader in key order: compared as sorted lists"]


def corpus_table(name, rng):
    """records of a corpus structure (first model, as the residue-level reader sees it), renumbered order-preservingly"""
    s3 = geo.load3d(name)
    table = []
    chain_map = {}
    serial = 1
    offset = rng.choice([0, 0, -5, 100])
    for res in s3.residues:
        ch = chain_map.setdefault(res.chain, "ABCDEFGH"[len(chain_map) % 8])
        for a in res.atoms:
            nm = a.name
            if len(nm) > 4:
                continue
            table.append({"record_type": "ATOM", "name": nm, "altLoc": "", "resName": res.name[:3], "chainID": ch, "resSeq": res.number + offset,
                          "iCode": res.icode or "", "element": genatoms.element_of(nm), "charge": "", "occ100": 100, "het": False, "model": 1, "serial": serial,
                          "x1000": int(round(a.x * 1000)), "y1000": int(round(a.y * 1000)), "z1000": int(round(a.z * 1000)), "b100": 0})
            serial += 1
    return table


LINK_ATOMS = [("P", (0, 0, 0)), ("O5'", (1500, 500, 0)), ("C5'", (2500, 1500, 300)), ("C4'", (3800, 1200, 1000)), ("C3'", (5000, 800, 200)),
              ("O4'", (3600, 2600, 1500)), ("C1'", (4500, 3500, 1000))]


def link_table(rng):
    """one to three strands (chains) whose consecutive O3'(i)-P(i+1) distances straddle the 2.4 A connectivity threshold"""
    table, serial = [], 1
    for c, chain in enumerate("ABC"[:rng.randint(1, 3)]):
        n = rng.randint(3, 7)
        num = rng.choice([1, -3, 98])
        dna = rng.random() < 0.4   # a DNA strand: DA/DC/DG/DT carry the same glycosidic torsion atoms
        doubled = rng.random() < 0.4   # numbering 7, 7A, 8, 8A, ...: a number without and with an insertion code as backbone neighbours
        for i in range(n):
            base = rng.choice("ACGU")
            d = rng.choice([1500, 1600, 1600, 1900, 1950, 1970, 2000, 2200, 2350, 2390, 2399, 2401, 2410, 2450, 2600, 3000])
            atoms = list(LINK_ATOMS) + ([("N9", (5000, 4800, 1400)), ("C4", (6200, 5200, 1000))] if base in "AG" else [("N1", (5000, 4800, 1400)), ("C2", (6200, 5200, 1000))])
            atoms.append(("O3'", (14000 - d, 0, 0)))
            for nm, (x, y, z) in atoms:
                table.append({"record_type": "ATOM", "name": nm, "altLoc": "", "resName": ("D" + base.replace("U", "T")) if dna else base, "chainID": chain, "resSeq": (num + i // 2) if doubled else (num + i), "iCode": ("A" if doubled and i % 2 else ""), "element": genatoms.element_of(nm),
                              "charge": "", "occ100": 100, "het": False, "model": 1, "serial": serial, "x1000": 14000 * i + x, "y1000": y + 40000 * c, "z1000": z, "b100": 1000})
                serial += 1
    return table


def _grouping_cases(rng, kind, table, corr_expr, corr_exp, corr_case, ctx):
    """Model/Group2 against tertiary_v2.Structure on the PDB text of the table, as written and with its lines shuffled
    (residues interleaved: groupby must still collect every atom of a key); residues canonicalised to first-occurrence order."""
    from rnapolis.parser_v2 import parse_pdb_atoms
    from rnapolis.tertiary_v2 import Structure
    text = genatoms.emit_pdb(table)
    atom_lines = [ln for ln in text.split("\n") if ln.startswith(("ATOM", "HETATM"))]
    variants = [("as-written", atom_lines)]
    if len(atom_lines) <= 60:
        sh = list(atom_lines)
        rng.shuffle(sh)
        variants.append(("shuffled", sh))
    for vname, lines in variants:
        if not lines:
            continue
        try:
            st = Structure(parse_pdb_atoms("\n".join(lines) + "\n"))
            res = sorted(st.residues, key=lambda r: int(r.atoms.index[0]))
            groups = [[int(x) for x in r.atoms["serial"]] for r in res]
            by_chain = {}
            for r in st.residues:
                by_chain.setdefault(r.chain_id, []).append(r)
            segs = st.connected_residues
        except Exception as e:  # noqa: BLE001
            ctx.violation(f"the table-level reader raised {type(e).__name__}: {e}", {"kind": kind, "variant": vname, "file": "\n".join(lines)[:3000]})
            continue
        case = {"kind": kind, "variant": vname, "file": "\n".join(lines)[:3000]}
        corr_expr.append(f"run_residues_v2 {lit(lines)}")
        corr_exp.append(groups)
        corr_case.append((case, "residues"))
        ctx.coverage["grouping_cases"] = ctx.coverage.get("grouping_cases", 0) + 1
        for ch, rs in by_chain.items():
            rs = sorted(rs, key=lambda r: (r.residue_number, r.insertion_code or ""))
            links = [bool(a.is_connected(b)) for a, b in zip(rs, rs[1:])]
            pos = {id(r): i for i, r in enumerate(rs)}
            want = [[pos[id(r)] for r in seg] for seg in segs if seg and id(seg[0]) in pos]
            corr_expr.append(f"run_segments {lit(links)} {len(rs)}%nat")
            corr_exp.append(want)
            corr_case.append((dict(case, chain=ch, links=links), "segments"))
            ctx.coverage["segment_cases"] = ctx.coverage.get("segment_cases", 0) + 1


def v1_residues(path):
    from rnapolis.parser import read_3d_structure
    with open(path) as f:
        s3 = read_3d_structure(f)
    out = []
    for r in s3.residues:
        out.append(((r.chain, r.number, r.icode, r.name), sorted((a.name, round(a.x, 3), round(a.y, 3), round(a.z, 3)) for a in r.atoms)))
    return s3, out


def v2_residues(text, fmt):
    from rnapolis.parser_v2 import parse_cif_atoms, parse_pdb_atoms
    from rnapolis.tertiary_v2 import Structure
    s = Structure(parse_pdb_atoms(text) if fmt == "pdb" else parse_cif_atoms(text))
    out = []
    for r in s.residues:
        atoms = sorted((a.name, round(float(a.coordinates[0]), 3), round(float(a.coordinates[1]), 3), round(float(a.coordinates[2]), 3)) for a in r.atoms_list)
        out.append(((r.chain_id, r.residue_number, r.insertion_code, r.residue_name), atoms))
    return s, out


def run(ctx):
    warnings.simplefilter("ignore")
    rng = ctx.rng
    d = os.path.join(BUILD, "c15")
    os.makedirs(d, exist_ok=True)
    ctx.coverage["rule"] = ("single-model tables without alternate locations: generated (random identities incl. insertion codes, negative numbers, hetero groups) strands whose O3'-P distances straddle 2.4 A, and derived "
                            "from single-conformer corpus structures (order-preservingly renumbered), each serialised to PDB and to mmCIF by an independent emitter and read by "
                            "both reader generations. Non-trivial = >= 2 residues; distinct by table text.")
    tables = []
    for _ in range(25 if ctx.quick else 300):
        t = genatoms.gen_table(rng, nmodels=1, altlocs=False, charges=False)
        # unique atom names per residue and well separated atoms (no duplicate / clash filtering involved)
        seen, tt = set(), []
        for i, r in enumerate(t):
            k = (r["chainID"], r["resSeq"], r["iCode"], r["name"])
            if k in seen:
                continue
            seen.add(k)
            off = rng.choice([0, 0, -250000, -999999 + 130000, 600000])
            r["x1000"] = 3000 * (i % 40) + off
            r["y1000"] = 3000 * (i // 40) + rng.choice([0, -150000])
            r["b100"] = 1000
            tt.append(r)
        tables.append(("generated", tt))
    for _ in range(12 if ctx.quick else 120):
        tables.append(("links", link_table(rng)))
    for name in ["1DFU_1_M-N.cif", "6INQ.cif", "4WTI_1_T-P.cif", "1HMH_1_E.cif"] + ([] if ctx.quick else ["1E7K_1_C.cif", "184D.cif"]):
        tables.append((name, corpus_table(name, rng)))
    corr_expr, corr_exp, corr_case = [], [], []
    for kind, table in tables:
        if not table:
            continue
        _grouping_cases(rng, kind, table, corr_expr, corr_exp, corr_case, ctx)
        results = {}
        ok = True
        for fmt in ("pdb", "cif"):
            text = genatoms.emit_pdb(table) if fmt == "pdb" else genatoms.emit_cif(table)
            path = os.path.join(d, "t." + fmt)
            open(path, "w").write(text)
            try:
                s1, r1 = v1_residues(path)
                s2, r2 = v2_residues(text, fmt)
            except Exception as e:  # noqa: BLE001
                ctx.violation(f"a reader raised {type(e).__name__}: {e}", {"kind": kind, "format": fmt, "file": text[:3000]})
                ok = False
                continue
            results[fmt] = (s1, r1, s2, r2, text)
            ctx.count((kind, fmt, text), len(r1) >= 2, kind if kind in ("generated", "links") else "corpus")
            if sorted(r1, key=repr) != sorted(r2, key=repr):
                a, b = sorted(r1, key=repr), sorted(r2, key=repr)
                diff = next(((x, y) for x, y in zip(a, b) if x != y), (len(a), len(b)))
                ctx.violation("residue-level and table-level reader disagree on the residues/atoms", {"kind": kind, "format": fmt, "file": text[:3000], "first_difference": repr(diff)[:600]})
                ok = False
        if not ok or len(results) != 2:
            continue
        if sorted(results["pdb"][1], key=repr) != sorted(results["cif"][1], key=repr):
            ctx.violation("PDB and mmCIF serialisations of the same atoms are read differently", {"kind": kind, "pdb": results["pdb"][4][:2000]})
        # connectivity and glycosidic torsion magnitude, from either reader, either format
        for fmt in ("pdb", "cif"):
            s1, r1, s2, r2, text = results[fmt]
            v2 = {(r.chain_id, r.residue_number, r.insertion_code): r for r in s2.residues}
            rs = s1.residues
            for a, b in zip(rs, rs[1:]):
                ka, kb = (a.chain, a.number, a.icode), (b.chain, b.number, b.icode)
                if ka in v2 and kb in v2:
                    c1, c2 = bool(a.is_connected(b)), bool(v2[ka].is_connected(v2[kb]))
                    ctx.coverage["links_compared"] = ctx.coverage.get("links_compared", 0) + 1
                    ctx.coverage["links_connected"] = ctx.coverage.get("links_connected", 0) + int(c1)
                    o3, p = a.find_atom("O3'"), b.find_atom("P")
                    if o3 is not None and p is not None:
                        dist = math.dist((o3.x, o3.y, o3.z), (p.x, p.y, p.z))
                        if abs(dist - 2.4) < 1e-6:
                            continue
                        if c1 != (dist < 2.4):
                            ctx.violation("connectivity is not 'O3'-P below 2.4 A'", {"kind": kind, "residues": [a.full_name, b.full_name], "distance": dist, "connected": c1})
                    if c1 != c2:
                        ctx.violation("the two readers disagree on residue connectivity", {"kind": kind, "format": fmt, "residues": [a.full_name, b.full_name]})
            # connected segments and torsion rows of the table-level reader against the definition computed from the residue-level
            # reader's atoms: per chain, residues in (number, insertion code) order, cut where O3'-P is not below 2.4 A, runs of >= 2
            by_chain, undecided = {}, False
            for r in rs:
                by_chain.setdefault(r.chain, []).append(r)
            want_segments = set()
            for ch, lst in by_chain.items():
                lst = sorted(lst, key=lambda r: (r.number, r.icode or ""))
                cur = [lst[0]]
                for a, b in zip(lst, lst[1:]):
                    o3, p = a.find_atom("O3'"), b.find_atom("P")
                    gap = None if o3 is None or p is None else math.dist((o3.x, o3.y, o3.z), (p.x, p.y, p.z))
                    if gap is not None and abs(gap - 2.4) < 1e-6:
                        undecided = True
                    if gap is not None and gap < 2.4:
                        cur.append(b)
                    else:
                        if len(cur) > 1:
                            want_segments.add(tuple((x.chain, x.number, x.icode) for x in cur))
                        cur = [b]
                if len(cur) > 1:
                    want_segments.add(tuple((x.chain, x.number, x.icode) for x in cur))
            if not undecided and len({(r.chain, r.number, r.icode) for r in rs}) == len(rs):
                try:
                    got_segments = {tuple((x.chain_id, x.residue_number, x.insertion_code) for x in seg) for seg in s2.connected_residues}
                except Exception as e:  # noqa: BLE001
                    got_segments = None
                    ctx.violation(f"connected_residues raised {type(e).__name__}: {e}", {"kind": kind, "format": fmt, "file": text[:3000]})
                if got_segments is not None and got_segments != want_segments:
                    ctx.violation("the table-level reader's connected segments are not the runs of O3'-P-connected residues of each chain",
                                  {"kind": kind, "format": fmt, "file": text[:3000], "missing": sorted(map(repr, want_segments - got_segments))[:5],
                                   "spurious": sorted(map(repr, got_segments - want_segments))[:5]})
                ctx.coverage["segment_sets_compared"] = ctx.coverage.get("segment_sets_compared", 0) + 1
            try:
                tors = s2.torsion_angles
                chi2 = {(row["chain_id"], row["residue_number"], row["insertion_code"]): row["chi"] for _, row in tors.iterrows()}
            except Exception as e:  # noqa: BLE001
                chi2 = {}
                ctx.violation(f"torsion_angles of the table-level reader raised {type(e).__name__}: {e}", {"kind": kind, "format": fmt, "file": text[:3000]})
            for r in rs:
                k = (r.chain, r.number, r.icode)
                if k not in chi2:
                    continue  # the table has rows for the residues of connected segments only (compared above)
                c = chi2[k]
                has2 = c is not None and not (isinstance(c, float) and math.isnan(c))
                has1 = not math.isnan(r.chi)
                # the four atoms of the glycosidic torsion of a standard nucleotide, by its name
                four = {"A": ("O4'", "C1'", "N9", "C4"), "G": ("O4'", "C1'", "N9", "C4"), "DA": ("O4'", "C1'", "N9", "C4"), "DG": ("O4'", "C1'", "N9", "C4"),
                        "C": ("O4'", "C1'", "N1", "C2"), "U": ("O4'", "C1'", "N1", "C2"), "DC": ("O4'", "C1'", "N1", "C2"), "DT": ("O4'", "C1'", "N1", "C2")}.get(r.name)
                if four is not None:
                    defined = all(r.find_atom(nm) is not None for nm in four)
                    ctx.coverage["chi_presence_compared"] = ctx.coverage.get("chi_presence_compared", 0) + 1
                    if defined:
                        ctx.coverage["chi_defined_" + r.name] = ctx.coverage.get("chi_defined_" + r.name, 0) + 1
                    if has1 != defined or has2 != defined:
                        ctx.violation("a standard nucleotide has its four glycosidic-torsion atoms exactly when both readers report a chi value, and they do not",
                                      {"kind": kind, "format": fmt, "residue": r.full_name, "atoms_present": defined, "residue_level_reports": has1, "table_level_reports": has2, "file": text[:3000]})
                if has1 and has2:
                    ctx.coverage["chi_compared"] = ctx.coverage.get("chi_compared", 0) + 1
                    if abs(abs(float(c)) - abs(r.chi)) > 1e-6:
                        ctx.violation("glycosidic torsion magnitudes from the two readers differ", {"kind": kind, "residue": r.full_name, "v1": r.chi, "v2": float(c)})
        if len(ctx.coverage["samples"]) < 2:
            ctx.sample({"kind": kind, "residues": [list(x[0]) for x in results["pdb"][1][:4]]})
    if not ctx.model_ok:
        return
    bad, err = ctx.coq_mismatches("grp", IMPORTS, corr_expr, corr_exp, shard=40)
    if err:
        ctx.violation("grouping cases failed to evaluate", {"error": err}, has_input=False)
    if bad:
        shown = ctx.coq_show(IMPORTS, [corr_expr[i] for i in bad[:5]])
        for n, i in enumerate(bad[:10]):
            case, what = corr_case[i]
            ctx.violation(f"model and tertiary_v2 disagree on {what}", {"case": case, "implementation": corr_exp[i], "model": shown[n] if n < len(shown) else None,
                                                                         "correspondence": "Run.RIO." + corr_expr[i].split()[0]}, has_input=False)
