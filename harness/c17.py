"""C17 — clash detection equals the pairwise van-der-Waals definition."""
import csv
import math
import os
import re
import subprocess
from fractions import Fraction

from . import geo
from .core import Err, Nat, Raw, lit, BUILD, PY

RUN_TARGETS = ["Run/RGeo.vo"]
IMPORTS = "From RV Require Import Base.Val Base.PyStr Model.Geom Model.Clash Run.RGeo."
TRUSTED = ["oracle: scipy KDTree.query_pairs (contract: exactly the index pairs i<j within r) — validated by the O(n^2) enumeration on the model side",
           "floats: numpy norm and math.isclose are not modelled; pairs whose distance lies within 1e-6 of a threshold are excluded (counted)",
           "Residue3D.is_nucleotide is evaluated by the implementation and passed to the model as a flag"]

RADII = {"C": Fraction(3, 5), "N": Fraction(27, 50), "O": Fraction(53, 100), "P": Fraction(47, 50)}


def atoms_of(s3):
    out = []
    for ri, res in enumerate(s3.residues):
        nuc = bool(res.is_nucleotide)
        for a in res.atoms:
            out.append((ri, res, nuc, a))
    return out


def near_pairs(flat):
    """pairs whose distance is within 1e-6 of any threshold the 32 option sets can use"""
    out = set()
    n = len(flat)
    pts = [(geo.to_int(a.x), geo.to_int(a.y), geo.to_int(a.z)) for _, _, _, a in flat]
    thr = set()
    for x in RADII.values():
        for y in RADII.values():
            for mp in (0, Fraction(1, 2)):
                thr.add(float(x + y + mp))
    thr |= {2 * 0.94, 2 * 0.94 + 0.5}
    for i in range(n):
        xi, yi, zi = pts[i]
        for j in range(i + 1, n):
            dx, dy, dz = pts[j][0] - xi, pts[j][1] - yi, pts[j][2] - zi
            if abs(dx) > 3 * geo.GRID or abs(dy) > 3 * geo.GRID or abs(dz) > 3 * geo.GRID:
                continue
            d = math.sqrt(dx * dx + dy * dy + dz * dz) / geo.GRID
            if any(abs(d - t) < 1e-6 for t in thr):
                out.add((i, j))
    return out


def structure_cases(ctx):
    rng = ctx.rng
    small = ["1DFU_1_M-N.cif", "1HMH_1_E.cif", "6INQ.cif", "4WTI_1_T-P.cif"]
    if not ctx.quick:
        small += ["1E7K_1_C.cif", "184D.cif"]
    for name in small:
        s3 = geo.snapped(geo.load3d(name))
        yield (name, "corpus", s3)
        yield (name, "jitter", geo.jittered(s3, rng, rng.choice([0.05, 0.3, 0.8])))
        # partial occupancies: pairs of alternate conformers (sum 1), odd sums, explicit zero and absent
        def occ(res, a):
            r = rng.random()
            o = a.occupancy
            if r < 0.25:
                o = rng.choice([0.5, 0.45, 0.55, 0.3, 0.7, 1.0])
            elif r < 0.3:
                o = None
            elif r < 0.33:
                o = 0.0
            return (geo.snap(a.x + rng.gauss(0, 0.4)), geo.snap(a.y + rng.gauss(0, 0.4)), geo.snap(a.z + rng.gauss(0, 0.4)), o)
        yield (name, "occupancy", geo.rebuild(s3, occ))
        # insertion-code siblings: a copy of a residue with the same chain and number but insertion code A (or B after A),
        # shifted by 0.9 A so that the two residues clash: they are different residues for every option
        yield (name, "icode-siblings", icode_siblings(s3, rng))
        # one residue on its own, and one nucleotide beside a one-atom fragment (a water, an ion): clashes inside a residue are
        # clashes unless autoclashes are ignored, however few residues there are
        half = lambda res, a: (geo.snap(a.x * 0.7), geo.snap(a.y * 0.7), geo.snap(a.z * 0.7), 0.5)  # noqa: E731
        yield (name, "single-residue", geo.rebuild(s3, half, keep_res=lambda i, r: i == 0))
        yield (name, "single+fragment", geo.rebuild(s3, half, keep_res=lambda i, r: i in (0, 1), keep_atom=lambda r, a: r is s3.residues[0] or a.name == "O2'"))
        # planted close contacts: squeeze the structure
        k = rng.choice([0.55, 0.7])
        yield (name, "squeezed", geo.rebuild(s3, lambda res, a: (geo.snap(a.x * k), geo.snap(a.y * k), geo.snap(a.z * k), rng.choice([0.5, 0.5, 1.0, a.occupancy]))))


def icode_siblings(s3, rng):
    import dataclasses
    from rnapolis.tertiary import Structure3D
    residues = []
    picks = set(rng.sample(range(len(s3.residues)), min(4, len(s3.residues))))
    for i, r in enumerate(s3.residues):
        residues.append(r)
        if i in picks and r.auth is not None:
            ic = "A" if not r.auth.icode else chr(ord(r.auth.icode[0]) + 1)
            auth = dataclasses.replace(r.auth, icode=ic)
            occ = rng.choice([0.5, 1.0, 0.5])
            atoms = tuple(dataclasses.replace(a, x=geo.snap(a.x + 0.9), auth=auth, occupancy=occ) for a in r.atoms)
            residues.append(dataclasses.replace(r, auth=auth, atoms=atoms))
    return Structure3D(residues)


def run(ctx):
    from rnapolis.clashfinder import find_clashes
    ctx.coverage["rule"] = ("corpus structures (grid-snapped), jittered, squeezed (planted close contacts), with partial/absent/zero occupancies, with insertion-code siblings (same chain and number) in contact, a single residue alone and beside a one-atom fragment, each under all 32 "
                            "option combinations, against the O(n^2) enumeration of the Coq model; CLI text and CSV parsed. "
                            "Non-trivial = >= 1 candidate pair within the query radius; distinct by (structure, option set).")
    corr_expr, corr_exp, corr_case = [], [], []
    skipped_near = 0
    for name, kind, s3 in structure_cases(ctx):
        flat = atoms_of(s3)
        if len(flat) > 700:
            continue
        index = {id(a): i for i, (_, _, _, a) in enumerate(flat)}
        near = near_pairs(flat)
        skipped_near += len(near)
        if near:
            # move on: drop one atom of each undecided pair so that both worlds decide the same instance
            drop = {j for _, j in near}
            s3 = geo.rebuild(s3, keep_atom=lambda res, a: index.get(id(a)) not in drop)
            flat = atoms_of(s3)
            index = {id(a): i for i, (_, _, _, a) in enumerate(flat)}
            if near_pairs(flat):
                continue
        atoms_lit = "[" + "; ".join(
            f"mkatom {lit(Nat(ri))} {lit(nuc)} {lit(a.name)} {('None' if a.occupancy is None else '(Some ' + lit(int(round(a.occupancy * 100))) + ')')} "
            f"{lit(geo.to_int(a.x))} {lit(geo.to_int(a.y))} {lit(geo.to_int(a.z))}" for ri, _, nuc, a in flat) + "]"
        expected = []
        for n in range(32):
            o = [bool(n >> b & 1) for b in range(5)]
            try:
                res = find_clashes(s3.residues, o[0], o[1], o[2], o[3], o[4])
                pairs = sorted((min(index[id(ai)], index[id(aj)]), max(index[id(ai)], index[id(aj)])) for (ri, ai), (rj, aj), occ in res)
                if len(set(pairs)) != len(pairs):
                    ctx.violation("a clash is listed twice", {"structure": name, "kind": kind, "options": o})
                # reported occupancy sums are those of the atoms
                for (ri, ai), (rj, aj), occ in res:
                    if abs(occ - ((ai.occupancy or 1.0) + (aj.occupancy or 1.0))) > 1e-12:
                        ctx.violation("reported occupancy sum is not the sum of the two atoms' occupancies", {"structure": name, "kind": kind})
                expected.append([list(p) for p in pairs])
            except Exception as e:  # noqa: BLE001
                expected.append(Err(type(e).__name__))
            ctx.count((name, kind, n, len(flat)), True, kind)
        corr_expr.append(f"run_clashes_all {atoms_lit}")
        corr_exp.append(expected)
        corr_case.append({"structure": name, "kind": kind, "atoms": len(flat),
                          "clashes_per_option_set": [len(e) if not isinstance(e, Err) else repr(e) for e in expected]})
        if len(ctx.coverage["samples"]) < 3:
            ctx.sample(corr_case[-1])
    ctx.coverage["pairs_in_undecided_band_removed"] = skipped_near
    # ---- CLI report: maxima equal the maxima over the listed atom clashes; CSV lists the same clashes
    rep_expr, rep_exp, rep_case = [], [], []
    cli_runs = 0
    d = os.path.join(BUILD, "c17")
    os.makedirs(d, exist_ok=True)
    for name in ["1ehz-assembly-1.cif"] + ([] if ctx.quick else ["1JJP.cif", "2HY9.cif"]):
        for flags in (["--ignore-occupancy", "--enable-molprobity-mode"], ["--ignore-occupancy"], ["--ignore-occupancy", "--ignore-autoclashes", "--enable-molprobity-mode"], []):
            csvp = os.path.join(d, "out.csv")
            if os.path.exists(csvp):
                os.unlink(csvp)
            r = subprocess.run([PY, "-m", "rnapolis.clashfinder", geo.corpus(name), "--csv", csvp] + flags, capture_output=True, text=True,
                               env=dict(os.environ, PYTHONPATH="/repo/src", LOGLEVEL="CRITICAL"))
            cli_runs += 1
            ctx.count(("cli", name, tuple(flags)), True, "cli")
            why = check_report(r.stdout, csvp) or listing_vs_list(geo.corpus(name), flags, r.stdout, csvp)
            _report_cases(r.stdout, {"file": name, "flags": flags}, rep_expr, rep_exp, rep_case)
            if r.returncode != 0:
                why = why or f"clashfinder exited with {r.returncode}: {r.stderr[-300:]}"
            if why:
                ctx.violation(why, {"file": name, "flags": flags})
    # a synthetic two-chain file where the per-chain maximum is not the last clash
    synth = os.path.join(d, "synth.pdb")
    with open(synth, "w") as f:
        f.write("ATOM      1  P     A A   1       0.000   0.000   0.000  1.00  0.00           P\n"
                "ATOM      2  OP1   A A   1       5.000   0.000   0.000  0.50  0.00           O\n"
                "ATOM      3  P     A B   1       1.000   0.000   0.000  1.00  0.00           P\n"
                "ATOM      4  OP1   A B   1       5.800   0.000   0.000  0.50  0.00           O\n"
                "ATOM      5  P     A B   2      10.000   0.000   0.000  0.30  0.00           P\n"
                "ATOM      6  OP1   A A   2      10.800   0.000   0.000  0.30  0.00           O\n"
                "ATOM      7  P     A A   3      20.000   0.000   0.000  0.50  0.00           P\n"
                "ATOM      8  OP1   A A   3      20.600   0.000   0.000  0.50  0.00           O\n"
                "ATOM      9  P     A C   1      30.000   0.000   0.000  1.00  0.00           P\n"
                "ATOM     10  P     A C   2      30.900   0.000   0.000  1.00  0.00           P\nEND\n")
    # clashes in three chain pairs (A-A, A-B, C-C): the CSV must still list every clash exactly once
    csvs = os.path.join(d, "synth.csv")
    if os.path.exists(csvs):
        os.unlink(csvs)
    r = subprocess.run([PY, "-m", "rnapolis.clashfinder", synth, "--ignore-occupancy", "--csv", csvs], capture_output=True, text=True,
                       env=dict(os.environ, PYTHONPATH="/repo/src", LOGLEVEL="CRITICAL"))
    ctx.count(("cli", "synth"), True, "cli")
    why = check_report(r.stdout, csvs) or listing_vs_list(synth, ["--ignore-occupancy"], r.stdout, csvs)
    _report_cases(r.stdout, {"file": "synthetic two-chain file", "flags": ["--ignore-occupancy"]}, rep_expr, rep_exp, rep_case)
    if why or "A.A1" not in r.stdout:
        ctx.violation(why or "synthetic two-chain file: no report", {"file": open(synth).read(), "flags": ["--ignore-occupancy"], "stdout": r.stdout})
    ctx.coverage["cli_runs"] = cli_runs + 1
    if not ctx.model_ok:
        return
    bad, err = ctx.coq_mismatches("corr", IMPORTS, corr_expr, corr_exp, shard=1, timeout=1500)
    if err:
        ctx.violation("correspondence cases failed to evaluate", {"error": err}, has_input=False)
    for i in bad[:10]:
        ctx.violation("the clash list differs from the pairwise definition (Coq model, O(n^2))",
                      {"case": corr_case[i], "implementation_counts": corr_case[i]["clashes_per_option_set"], "correspondence": "Run.RGeo.run_clashes_all"})
    bad, err = ctx.coq_mismatches("rep", IMPORTS, rep_expr, rep_exp, shard=4, timeout=900)
    if err:
        ctx.violation("report cases failed to evaluate", {"error": err}, has_input=False)
    for i in bad[:10]:
        ctx.violation("the printed maxima differ from the model's running maxima over the listed clashes (Model.Clash.group_max)",
                      {"case": rep_case[i], "printed": rep_exp[i][:20], "correspondence": "Run.RGeo.run_group_max"}, has_input=False)
    ctx.coverage["report_aggregations_compared"] = len(rep_expr)
    ctx.coverage["structures_compared"] = len(corr_expr)
    ctx.coverage["option_sets"] = 32


def listing_vs_list(path, flags, stdout, csvp):
    """the printed listing and the CSV against the clash list itself: the same unordered pairs of (residue, atom name), each with its
    occupancy sum, each as often as the list holds it (grouping is a rearrangement: Props C17_grouped_listing)"""
    from collections import Counter
    from rnapolis.clashfinder import find_clashes
    from rnapolis.parser import read_3d_structure
    with open(path) as f:
        s3 = read_3d_structure(f, 1)
    res = find_clashes(s3.residues, "--ignore-occupancy" in flags, "--ignore-autoclashes" in flags, "--nucleic-acid-only" in flags,
                       "--require-same-atom-name" in flags, "--enable-molprobity-mode" in flags)
    want = Counter(tuple(sorted([(str(ri), ai.name), (str(rj), aj.name)])) + (round(float(occ), 9),) for (ri, ai), (rj, aj), occ in res)
    _, _, atoms = _parse_report(stdout)
    got = Counter(tuple(sorted([(a[1][1][0], a[2]), (a[1][1][1], a[3])])) + (round(a[4], 9),) for a in atoms)
    # the set() of one residue pair merges clashes of equally named atoms with equal occupancy sums (alternate locations): compare supports
    if set(got) != set(want):
        only_l, only_r = sorted(set(got) - set(want))[:3], sorted(set(want) - set(got))[:3]
        return f"the printed listing names clashes {only_l} that the clash list does not hold, and misses {only_r}"
    if csvp is not None and atoms and os.path.exists(csvp):
        rows = list(csv.reader(open(csvp)))[1:]
        gotc = {tuple(sorted([tuple(r[3].rsplit(" ", 1)), tuple(r[4].rsplit(" ", 1))])) + (round(float(r[5]), 9),) for r in rows}
        if gotc != set(want):
            return f"the CSV names clashes {sorted(gotc - set(want))[:3]} that the clash list does not hold, and misses {sorted(set(want) - gotc)[:3]}"
    return None


def _parse_report(stdout):
    chain_max, res_max, cur_chain, cur_res = {}, {}, None, None
    atoms = []
    for line in stdout.splitlines():
        m = re.match(r"Clashes found (?:in chain (\S+)|between chains (\S+) and (\S+)) with maximum occupancy sum equal to (\S+)", line)
        if m:
            cur_chain = (m.group(1), m.group(1)) if m.group(1) else (m.group(2), m.group(3))
            chain_max[cur_chain] = float(m.group(4))
            continue
        m = re.match(r"\s+Clashes found (?:in residue (\S+)|between residues (\S+) and (\S+)) with maximum occupancy sum equal to (\S+)", line)
        if m:
            cur_res = (cur_chain, (m.group(1), m.group(1)) if m.group(1) else (m.group(2), m.group(3)))
            res_max[cur_res] = float(m.group(4))
            continue
        m = re.match(r"\s+Clashes found between atoms (\S+) and (\S+) with occupancy sum of (\S+)", line)
        if m:
            atoms.append((cur_chain, cur_res, m.group(1), m.group(2), float(m.group(3))))
    return chain_max, res_max, atoms


def _report_cases(stdout, case, exprs, exps, cases):
    """the listed atom clashes (in print order) through Model.Clash.group_max, against the printed per-residue / per-chain maxima"""
    from fractions import Fraction
    chain_max, res_max, atoms = _parse_report(stdout)
    if not atoms or len(atoms) > 1500:
        return
    for which, keyof, printed in (("per-residue", lambda a: a[1], res_max), ("per-chain", lambda a: a[0], chain_max)):
        ids, items = {}, []
        for a in atoms:
            k = keyof(a)
            ids.setdefault(k, len(ids))
            fr = Fraction(a[4])
            items.append(f"(({ids[k]}%nat, {ids[k]}%nat), ({fr.numerator} # {fr.denominator})%Q)")
        want = []
        for k, i in ids.items():
            fr = Fraction(printed[k]) if k in printed else None
            want.append([i, i, fr.numerator, fr.denominator] if fr is not None else [i, i, None, None])
        exprs.append("run_group_max [" + "; ".join(items) + "]")
        exps.append(want)
        cases.append(dict(case, aggregation=which, listed_clashes=len(atoms), keys=len(ids)))


def check_report(stdout, csvp):
    chain_max, res_max, cur_chain, cur_res = {}, {}, None, None
    atoms = []
    for line in stdout.splitlines():
        m = re.match(r"Clashes found (?:in chain (\S+)|between chains (\S+) and (\S+)) with maximum occupancy sum equal to (\S+)", line)
        if m:
            cur_chain = (m.group(1), m.group(1)) if m.group(1) else (m.group(2), m.group(3))
            chain_max[cur_chain] = float(m.group(4))
            continue
        m = re.match(r"\s+Clashes found (?:in residue (\S+)|between residues (\S+) and (\S+)) with maximum occupancy sum equal to (\S+)", line)
        if m:
            cur_res = (cur_chain, (m.group(1), m.group(1)) if m.group(1) else (m.group(2), m.group(3)))
            res_max[cur_res] = float(m.group(4))
            continue
        m = re.match(r"\s+Clashes found between atoms (\S+) and (\S+) with occupancy sum of (\S+)", line)
        if m:
            atoms.append((cur_chain, cur_res, m.group(1), m.group(2), float(m.group(3))))
    for key, v in res_max.items():
        vals = [a[4] for a in atoms if a[1] == key]
        if not vals or abs(max(vals) - v) > 1e-9:
            return f"per-residue maximum {v} for {key[1]} is not the maximum over its listed atom clashes {sorted(set(vals))}"
    for key, v in chain_max.items():
        vals = [a[4] for a in atoms if a[0] == key]
        if not vals or abs(max(vals) - v) > 1e-9:
            return f"per-chain maximum {v} for chains {key} is not the maximum over its listed atom clashes {sorted(set(vals))}"
    if csvp is not None and atoms:
        if not os.path.exists(csvp):
            return "CSV was not written"
        rows = list(csv.reader(open(csvp)))[1:]
        got = sorted((r[3].split()[-1], r[4].split()[-1], float(r[5])) for r in rows)
        want = sorted((a[2], a[3], a[4]) for a in atoms)
        if got != want:
            return "CSV does not list the same clashes as the report"
    return None
