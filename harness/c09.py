"""C09 — PDB/mmCIF write-read round trips preserve every atom field."""
import math

from . import genatoms
from .core import Err, lit

RUN_TARGETS = ["Run/RIO.vo"]
IMPORTS = "From RV Require Import Base.Val Base.PyStr Run.RIO."
TRUSTED = ["oracles: pandas typing (to_numeric, categories, NaN), the mmcif library's tokenizer/writer, Python's format(x, '8.3f') on the float nearest to k/1000 "
           "(validated on every generated value incl. the width boundaries)",
           "decimals are compared as scaled integers (0.001 for coordinates, 0.01 for occupancy / B)"]

PDB_COLS = ["record_type", "serial", "name", "altLoc", "resName", "chainID", "resSeq", "iCode", "x", "y", "z", "occupancy", "tempFactor", "element", "charge", "model"]
CIF_MAP = {"record_type": "group_PDB", "serial": "id", "name": "auth_atom_id", "altLoc": "label_alt_id", "resName": "auth_comp_id", "chainID": "auth_asym_id",
           "resSeq": "auth_seq_id", "iCode": "pdbx_PDB_ins_code", "x": "Cartn_x", "y": "Cartn_y", "z": "Cartn_z", "occupancy": "occupancy",
           "tempFactor": "B_iso_or_equiv", "element": "type_symbol", "charge": "pdbx_formal_charge", "model": "pdbx_PDB_model_num"}


def isnan(v):
    import pandas as pd
    try:
        return v is None or pd.isna(v)
    except (TypeError, ValueError):
        return False


def canon_rows(df):
    """canonical records of a frame (either format): strings '' for missing, scaled ints for numbers, PDB charge notation"""
    fmt = df.attrs.get("format")
    out = []
    for _, row in df.iterrows():
        rec = []
        for c in PDB_COLS:
            v = row.get(c if fmt == "PDB" else CIF_MAP[c])
            if c in ("serial", "resSeq", "model"):
                rec.append(None if isnan(v) else int(v))
            elif c in ("x", "y", "z"):
                rec.append(None if isnan(v) else int(round(float(v) * 1000)))
            elif c in ("occupancy", "tempFactor"):
                rec.append(None if isnan(v) else int(round(float(v) * 100)))
            elif c == "charge":
                if isnan(v) or str(v) == "":
                    rec.append("")
                else:
                    s = str(v)
                    try:
                        k = int(float(s))
                        rec.append("" if k == 0 else f"{abs(k)}{'+' if k > 0 else '-'}")
                    except ValueError:
                        rec.append(s)
            else:
                rec.append("" if isnan(v) else str(v))
        out.append(rec)
    return out


def table_rows(table):
    return [[r["record_type"], r["serial"], r["name"], r["altLoc"], r["resName"], r["chainID"], r["resSeq"], r["iCode"], r["x1000"], r["y1000"], r["z1000"],
             r["occ100"], r["b100"], r["element"], r["charge"], r["model"]] for r in table]


def rec_lit(r):
    return ("(mkrec " + " ".join(lit(x) for x in [r[0], r[1], r[2], r[3], r[4], r[5], r[6], r[7], r[8], r[9], r[10], r[11], r[12], r[13], r[14], r[15]]) + ")")


def layout_violation(text):
    """80-column ATOM/HETATM/TER records; MODEL/ENDMDL around every model; a TER after every chain"""
    lines = text.split("\n")
    if lines[-1] == "":
        lines = lines[:-1]
    in_model = False
    chain = None
    seen_atoms = False
    for ln in lines:
        tag = ln[:6].strip()
        if tag in ("ATOM", "HETATM", "TER") and len(ln) != 80:
            return f"{tag} record is {len(ln)} columns wide"
        if tag == "MODEL":
            if in_model:
                return "MODEL inside a model"
            in_model, chain = True, None
        elif tag == "ENDMDL":
            if not in_model:
                return "ENDMDL without MODEL"
            if chain is not None:
                return "chain not closed by TER before ENDMDL"
            in_model = False
        elif tag in ("ATOM", "HETATM"):
            seen_atoms = True
            if not in_model:
                return "atom record outside MODEL/ENDMDL"
            c = ln[21]
            if chain is not None and c != chain:
                return "chain changes without TER"
            chain = c
        elif tag == "TER":
            if chain is None:
                return "TER without a preceding chain"
            if ln[21] != chain:
                return "TER names another chain"
            chain = None
        elif tag == "END":
            if in_model or chain is not None:
                return "END inside a model / open chain"
    if lines[-1].strip() != "END":
        return "file does not end with END"
    return None


def run(ctx):
    from rnapolis.parser_v2 import _format_pdb_atom_line, parse_cif_atoms, parse_pdb_atoms, write_cif, write_pdb
    rng = ctx.rng
    ctx.coverage["rule"] = ("generated atom tables within PDB limits (1-4 character names incl. primes and leading digits, 1-2 letter elements, negative numbers/coordinates, "
                            "charges, insertion codes, altlocs, several models and chains; values at the field-width boundaries), written by an independent emitter. "
                            "Non-trivial = a field at a width boundary or an optional field present; distinct by table text.")
    corr_expr, corr_exp, corr_case = [], [], []
    ntab = 60 if ctx.quick else 600
    for t in range(ntab):
        table = genatoms.gen_table(rng)
        rows = table_rows(table)
        nontriv = any(r["altLoc"] or r["iCode"] or r["charge"] or abs(r["x1000"]) >= 999999 or r["resSeq"] < 0 for r in table)
        text = genatoms.emit_pdb(table)
        ctx.count(text, nontriv, "table")
        case = {"pdb": text}
        # ---- reader vs model, and vs what was written
        try:
            df = parse_pdb_atoms(text)
            got = canon_rows(df)
        except Exception as e:  # noqa: BLE001
            ctx.violation(f"parse_pdb_atoms raised {type(e).__name__}", {"case": case})
            continue
        if got != rows:
            bad = next((a, b) for a, b in zip(got, rows) if a != b) if len(got) == len(rows) else (len(got), len(rows))
            ctx.violation("reading a PDB table does not return the fields as written", {"case": case, "first_difference (read, written)": bad})
        corr_expr.append(f"run_parse_pdb {lit(text.split(chr(10))[:-1])}")
        corr_exp.append(got)
        corr_case.append((case, "parse_pdb_atoms"))
        # ---- the four round trips
        cif_text = genatoms.emit_cif(table)
        try:
            dfc = parse_cif_atoms(cif_text)
            paths = {
                "PDB->PDB": lambda: canon_rows(parse_pdb_atoms(write_pdb(df))),
                "mmCIF->mmCIF": lambda: canon_rows(parse_cif_atoms(write_cif(dfc))),
                "PDB->mmCIF->PDB": lambda: canon_rows(parse_pdb_atoms(write_pdb(parse_cif_atoms(write_cif(df))))),
                "mmCIF->PDB->mmCIF": lambda: canon_rows(parse_cif_atoms(write_cif(parse_pdb_atoms(write_pdb(dfc))))),
            }
            if canon_rows(dfc) != rows:
                bad = next(((a, b) for a, b in zip(canon_rows(dfc), rows) if a != b), None)
                ctx.violation("reading an mmCIF table does not return the fields as written", {"case": {"cif": cif_text}, "first_difference (read, written)": bad})
            for name, f in paths.items():
                ctx.count((name, text), nontriv, name)
                try:
                    back = f()
                except Exception as e:  # noqa: BLE001
                    ctx.violation(f"round trip {name} raised {type(e).__name__}: {e}", {"case": case})
                    continue
                if back != rows:
                    bad = next(((a, b) for a, b in zip(back, rows) if a != b), (len(back), len(rows)))
                    ctx.violation(f"round trip {name} is not the identity on the atom fields", {"case": case, "cif": cif_text, "first_difference (after, before)": bad})
        except Exception as e:  # noqa: BLE001
            ctx.violation(f"mmCIF path raised {type(e).__name__}: {e}", {"case": {"cif": cif_text}})
        # ---- written PDB: layout + model of the record logic
        out = write_pdb(df)
        why = layout_violation(out)
        if why:
            ctx.violation("written PDB breaks the fixed layout: " + why, {"case": case, "written": out})
        corr_expr.append("run_write_pdb [" + "; ".join(rec_lit(r) for r in rows) + "]")
        corr_exp.append(out.split("\n")[:-1])
        corr_case.append((case, "write_pdb"))
        if t < 2:
            ctx.sample({"pdb": text[:800]})
    # ---- the line formatter on its own, incl. boundary values and odd charges
    for _ in range(300 if ctx.quick else 3000):
        r = genatoms.gen_table(rng, nmodels=1)[0]
        r["charge"] = rng.choice(["", "1+", "2-", "1", "-2", "0", "2", "+1", "1.0", "-1.0", "FE", "2+ "])
        r["serial"] = rng.choice([0, 1, 99999, rng.randint(1, 99999)])
        r["resSeq"] = rng.choice([-999, 9999, 0, rng.randint(-999, 9999)])
        r["x1000"] = rng.choice([-999999, 9999999, 0, 1, -1, 999, -999, 1000, rng.randint(-999999, 9999999)])
        r["occ100"] = rng.choice([0, 100, 50, -9999, 99999, rng.randint(0, 100)])
        d = {"record_name": r["record_type"], "serial": r["serial"], "name": r["name"], "altLoc": r["altLoc"], "resName": r["resName"], "chainID": r["chainID"],
             "resSeq": r["resSeq"], "iCode": r["iCode"], "x": r["x1000"] / 1000.0, "y": r["y1000"] / 1000.0, "z": r["z1000"] / 1000.0,
             "occupancy": r["occ100"] / 100.0, "tempFactor": r["b100"] / 100.0, "element": r["element"], "charge": r["charge"]}
        line = _format_pdb_atom_line(d)
        ctx.count(("line", line), True, "line")
        if len(line) != 80:
            ctx.violation("formatted atom line is not 80 columns", {"record": d, "line": line})
        row = table_rows([r])[0]
        corr_expr.append(f"run_format_line {rec_lit(row)}")
        corr_exp.append(line)
        corr_case.append(({"record": d}, "_format_pdb_atom_line"))
    if not ctx.model_ok:
        return
    bad, err = ctx.coq_mismatches("corr", IMPORTS, corr_expr, corr_exp, shard=60)
    if err:
        ctx.violation("correspondence cases failed to evaluate", {"error": err}, has_input=False)
    if bad:
        shown = ctx.coq_show(IMPORTS, [corr_expr[i] for i in bad[:4]])
        for n, i in enumerate(bad[:10]):
            case, what = corr_case[i]
            ctx.violation(f"model and implementation disagree on {what}", {"case": case, "implementation": corr_exp[i],
                                                                          "model": shown[n] if n < len(shown) else None, "correspondence": "Run.RIO"}, has_input=False)
    ctx.coverage["correspondence_cases"] = len(corr_expr)
