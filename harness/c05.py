"""C05 — annotation depends only on internal geometry and identity, not on presentation."""
import dataclasses
import math
import os

import numpy as np

from . import annot, genatoms, geo
from . import chem as T
from .core import Err, lit, BUILD

RUN_TARGETS = []
TRUSTED = ["floating point / KD-tree: metamorphic runs on the implementation; cases with a decision quantity within 1e-6 of its threshold are excluded by measuring margins",
           "the greedy choices depend on the iteration order of scipy's neighbour-pair set; rigid motion leaves the index pairs, hence that order, unchanged"]


def full(s3):
    """interaction lists and derived secondary structure, by residue identity (chain, number, icode)"""
    import rnapolis.annotator as A
    s2, dbs = A.extract_secondary_structure(s3, None, False, False)
    key = lambda nt: (nt.chain, nt.number, nt.icode)  # noqa: E731
    bi = s2.baseInteractions
    return {"pairs": [(key(p.nt1), key(p.nt2), p.lw.value, None if p.saenger is None else p.saenger.value) for p in bi.basePairs],
            "stackings": [(key(p.nt1), key(p.nt2), p.topology.value) for p in bi.stackings],
            "bph": [(key(p.nt1), key(p.nt2), p.bph.value) for p in bi.basePhosphateInteractions],
            "br": [(key(p.nt1), key(p.nt2), p.br.value) for p in bi.baseRiboseInteractions],
            "bpseq": s2.bpseq, "dot_bracket": s2.dotBracket, "extended": s2.extendedDotBracket}


def min_margin(s3):
    """smallest distance of any decision quantity from its threshold (Angstrom / degrees)"""
    from . import chem as T
    from rnapolis.tertiary import calculate_torsion_angle_coords as tor
    R = s3.residues
    m = [1.0]
    cand = []
    for ri, r in enumerate(R):
        acc = T.BASE_ACCEPTORS.get(r.one_letter_name, []) + T.RIBOSE_ACCEPTORS + T.PHOSPHATE_ACCEPTORS
        don = T.BASE_DONORS.get(r.one_letter_name, [])
        for nm in dict.fromkeys(acc + don):
            a = r.find_atom(nm)
            if a is not None:
                cand.append((ri, nm, a.coordinates, nm in acc))
    P = np.array([c[2] for c in cand]) if cand else np.zeros((0, 3))
    for x in range(len(cand)):
        d = np.linalg.norm(P[x + 1:] - P[x], axis=1)
        close = np.nonzero(d < 4.5)[0]
        for k in close:
            y = x + 1 + int(k)
            ri, ni, pi, ai = cand[x]
            rj, nj, pj, aj = cand[y]
            if ri == rj or ai == aj:
                continue
            m.append(abs(float(d[k]) - 4.0))
            if d[k] > 4.0:
                continue
            n1, n2 = T.base_normal(R[ri]), T.base_normal(R[rj])
            v = pi - pj
            if n1 is not None and n2 is not None and np.linalg.norm(v) > 0:
                for n in (n1, n2):
                    a = math.degrees(math.acos(max(-1.0, min(1.0, float(np.dot(n, v) / np.linalg.norm(v))))))
                    m += [abs(a - 50.0), abs(a - 130.0)]
            # torsions that classify: cis/trans and the BPh/BR ladder
            for (ra, rb) in ((R[ri], R[rj]),):
                c1a, c1b = ra.find_atom("C1'"), rb.find_atom("C1'")
                na = ra.find_atom("N9" if ra.one_letter_name in "AG" else "N1")
                nb = rb.find_atom("N9" if rb.one_letter_name in "AG" else "N1")
                if None not in (c1a, c1b, na, nb):
                    t = math.degrees(tor(c1a.coordinates, na.coordinates, nb.coordinates, c1b.coordinates))
                    m.append(abs(abs(t) - 90.0))
            dres, dname, dpos, apos = (R[rj], nj, pj, pi) if ai else (R[ri], ni, pi, pj)
            ladder = {("A", "N6"): ("N1", "C6"), ("G", "N2"): ("N3", "C2"), ("C", "N4"): ("N3", "C4")}
            ab = ladder.get((dres.one_letter_name, dname))
            if ab:
                a1, a2 = dres.find_atom(ab[0]), dres.find_atom(ab[1])
                if a1 is not None and a2 is not None:
                    t = math.degrees(tor(a1.coordinates, a2.coordinates, dpos, apos))
                    m.append(abs(abs(t) - 90.0))
    cent = []
    for i, r in enumerate(R):
        pts = [a.coordinates for nm in T.BASE_ATOMS.get(r.one_letter_name, []) for a in [r.find_atom(nm)] if a is not None]
        if pts and T.base_normal(r) is not None:
            cent.append((i, sum(pts) / len(pts), T.base_normal(r)))

    def ang(a, b):
        return math.degrees(math.acos(max(-1.0, min(1.0, float(np.dot(a, b) / np.linalg.norm(a) / np.linalg.norm(b))))))
    for x in range(len(cent)):
        for y in range(x + 1, len(cent)):
            d = float(np.linalg.norm(cent[x][1] - cent[y][1]))
            if d > 6.5:
                continue
            m.append(abs(d - 6.0))
            if d > 6.0 or d == 0:
                continue
            ni, nj = cent[x][2], cent[y][2]
            m.append(abs(min(ang(ni, nj), ang(-ni, nj)) - 35.0))
            v = cent[x][1] - cent[y][1]
            m.append(abs(min(ang(v, ni), ang(v, nj)) - 45.0))
            m.append(abs(float(np.dot(ni, nj))) * 10)
    return min(m)


def nudged(s3, rng, k=4):
    R = s3.residues
    cands = []
    for i, ri in enumerate(R):
        for dn in T.BASE_DONORS.get(ri.one_letter_name, []):
            da = ri.find_atom(dn)
            if da is None:
                continue
            for j, rj in enumerate(R):
                if i == j:
                    continue
                for an in T.BASE_ACCEPTORS.get(rj.one_letter_name, []) + T.RIBOSE_ACCEPTORS + T.PHOSPHATE_ACCEPTORS:
                    aa = rj.find_atom(an)
                    if aa is None:
                        continue
                    dist = float(np.linalg.norm(da.coordinates - aa.coordinates))
                    if 3.7 < dist < 4.3:
                        cands.append((i, dn, j, an, dist))
    if not cands:
        return None
    rng.shuffle(cands)
    moves, touched = {}, set()
    for i, dn, j, an, dist in cands:
        if (j, an) in touched or (i, dn) in touched or len(moves) >= k:
            continue
        touched.add((j, an))
        touched.add((i, dn))
        da, aa = R[i].find_atom(dn), R[j].find_atom(an)
        u = (aa.coordinates - da.coordinates) / dist
        target = 4.0 + rng.choice([-2e-4, 2e-4])
        moves[(id(R[j]), an)] = da.coordinates + target * u
    return geo.rebuild(s3, lambda res, a: ((geo.snap(float(moves[(id(res), a.name)][0])), geo.snap(float(moves[(id(res), a.name)][1])), geo.snap(float(moves[(id(res), a.name)][2])), a.occupancy)
                                             if (id(res), a.name) in moves else (a.x, a.y, a.z, a.occupancy)))


STANDARD = {"A", "C", "G", "U", "DA", "DC", "DG", "DT"}


def to_table(s3, het_every=0, alt_every=0):
    """the atoms as rows of an atom table; modified nucleotides are HETATM records, as the PDB writes them (and, with het_every = k,
    every k-th residue as well: the record type is presentation, both formats carry it and neither reader may drop a residue for it)"""
    t = []
    serial = 1
    for i_, r in enumerate(s3.residues):
        rt = "HETATM" if (r.name not in STANDARD or (het_every and i_ % het_every == 1)) else "ATOM"
        for a in r.atoms:
            if len(a.name) > 4 or len(r.name) > 3 or len(r.chain) != 1:
                return None
            row = {"record_type": rt, "name": a.name, "altLoc": "", "resName": r.name, "chainID": r.chain, "resSeq": r.number, "iCode": r.icode or "",
                   "element": genatoms.element_of(a.name), "charge": "", "occ100": 100, "het": False, "model": 1, "serial": serial,
                   "x1000": int(round(a.x * 1000)), "y1000": int(round(a.y * 1000)), "z1000": int(round(a.z * 1000)), "b100": 0}
            if alt_every and i_ % alt_every == 2:
                # two conformers, the second-listed one the more populated: a displaced copy A (0.30) before the atom itself as B (0.70)
                t.append(dict(row, altLoc="A", occ100=30, x1000=row["x1000"] + 3000))
                serial += 1
                row = dict(row, altLoc="B", occ100=70, serial=serial)
            t.append(row)
            serial += 1
    return t


def run(ctx):
    from rnapolis.parser import read_3d_structure
    from rnapolis.tertiary import Structure3D
    rng = ctx.rng
    d = os.path.join(BUILD, "c05")
    os.makedirs(d, exist_ok=True)
    ctx.coverage["rule"] = ("corpus structures, jittered copies, copies with incomplete bases and copies with a few contacts nudged to 4.0 +- 0.0002 A against: exact axis permutations / quarter turns (bit-exact), random proper rotations with translations up to "
                            "+-500 A, atoms shuffled inside residues, order-preserving renaming of chains and numbers, the same atoms written as PDB and as mmCIF. "
                            "Non-trivial = annotation non-empty and every decision of both copies at margin >= 1e-6; distinct by (structure, transformation).")
    files = ["1DFU_1_M-N.cif", "6INQ.cif", "4WTI_1_T-P.cif", "1HMH_1_E.cif", "1E7K_1_C.cif"] + ([] if ctx.quick else ["184D.cif", "1ehz-assembly-1.cif", "488d.pdb"])
    excluded = 0
    for name in files:
        bases = [("corpus", geo.snapped(geo.load3d(name)))]
        bases.append(("jitter", geo.jittered(bases[0][1], rng, 0.1)))
        # incomplete bases: every third residue loses one base atom its normal does not need (a centroid taken over the atoms
        # present must not start to depend on where the molecule sits)
        gone = {}
        for i_, r_ in enumerate(bases[0][1].residues):
            spare = annot._SPARE.get(r_.one_letter_name)
            if spare and i_ % 3 == 0:
                gone[id(r_)] = rng.choice(spare)
        bases.append(("thin-base", geo.rebuild(bases[0][1], keep_res=lambda i, r: True, keep_atom=lambda r, a: gone.get(id(r)) != a.name)))
        # decisions two ten-thousandths of an Angstrom from the 4.0 A contact threshold (far outside the 1e-6 band): a few acceptor
        # atoms are moved along the donor-acceptor line; any loss of precision that depends on where the molecule sits flips them
        nb = nudged(bases[0][1], rng)
        if nb is not None:
            bases.append(("nudged", nb))
        for bkind, base in bases:
            ref = full(base)
            mref = min_margin(base)
            nonempty = bool(ref["pairs"] or ref["stackings"])
            variants = []
            # (i) exact signed axis permutations with determinant +1
            for perm, signs in (((1, 2, 0), (1, 1, 1)), ((0, 2, 1), (1, 1, -1)), ((1, 0, 2), (-1, 1, 1))):
                Rm = np.zeros((3, 3))
                for row, (p, s) in enumerate(zip(perm, signs)):
                    Rm[row, p] = s
                if round(np.linalg.det(Rm)) != 1:
                    Rm[2] *= -1
                variants.append(("axis-permutation", geo.moved(base, Rm, np.array([0.0, 0.0, 0.0]), do_snap=False), None))
            # (ii) random rotations and translations
            for _ in range(2 if ctx.quick else 6):
                Rm = geo.random_rotation(rng)
                t = np.array([rng.uniform(-500, 500) for _ in range(3)])
                variants.append(("rigid-motion", geo.moved(base, Rm, t, do_snap=False), None))
            # (iii) atoms in another order inside residues
            def shuffled(s3):
                res = []
                for r in s3.residues:
                    atoms = list(r.atoms)
                    rng.shuffle(atoms)
                    res.append(dataclasses.replace(r, atoms=tuple(atoms)))
                return Structure3D(res)
            variants.append(("atom-order", shuffled(base), None))
            # (iv) order-preserving renaming
            chains = sorted({r.chain for r in base.residues})
            cmap = {c: "BDFHJLNPRT"[i] if len(chains) <= 10 else c for i, c in enumerate(chains)}
            shift = rng.choice([7, 100, -3])

            def rename(s3):
                res = []
                for r in s3.residues:
                    auth = dataclasses.replace(r.auth, chain=cmap[r.auth.chain], number=r.auth.number + shift) if r.auth is not None else None
                    label = None
                    atoms = tuple(dataclasses.replace(a, auth=auth, label=None) for a in r.atoms)
                    res.append(dataclasses.replace(r, auth=auth, label=label, atoms=atoms))
                return Structure3D(res)
            if all(r.auth is not None for r in base.residues) and all(c < d_ for c, d_ in zip(sorted(cmap.values()), sorted(cmap.values())[1:])):
                variants.append(("relabel", rename(base), lambda k: (cmap[k[0]], k[1] + shift, k[2])))
            for vkind, var, keymap in variants:
                try:
                    got = full(var)
                except Exception as e:  # noqa: BLE001
                    ctx.violation(f"annotation of a {vkind} copy raised {type(e).__name__}: {e}", {"structure": name, "base": bkind})
                    continue
                want = ref
                if keymap is not None:
                    want = {k: ([(keymap(x[0]), keymap(x[1])) + tuple(x[2:]) for x in v] if isinstance(v, list) else v) for k, v in ref.items()}
                    import re
                    strip = lambda txt: re.sub(r">strand_\S+", ">strand", txt)  # noqa: E731  (strand headers carry the chain name)
                    for k in ("dot_bracket", "extended"):
                        want[k], got[k] = strip(ref[k]), strip(got[k])
                m2 = min_margin(var)
                decided = min(mref, m2) >= 1e-6
                ctx.count((name, bkind, vkind, round(m2, 9)), nonempty and decided, vkind)
                if not decided:
                    excluded += 1
                    continue
                diff = [k for k in want if want[k] != got[k]]
                if diff:
                    ctx.violation(f"annotation changes under {vkind}: {diff}", {"structure": name, "base": bkind, "transformation": vkind,
                                                                                "before": {k: want[k] for k in diff}, "after": {k: got[k] for k in diff}, "min_margin": min(mref, m2)})
            # (v') rigid translation + serialisation: the moved atoms written as PDB / mmCIF (3 decimals) and read back
            for shift in ((-160.0, 0.0, 0.0), (-400.0, -400.0, -400.0), (350.0, -120.0, 900.0)):
                movedS = geo.rebuild(base, lambda res, a: (round(a.x + shift[0], 3), round(a.y + shift[1], 3), round(a.z + shift[2], 3), a.occupancy))
                tbl = to_table(movedS)
                if not tbl or any(abs(r["x1000"]) > 9000000 or abs(r["y1000"]) > 9000000 or abs(r["z1000"]) > 9000000 for r in tbl):
                    continue
                refm = full(movedS)
                mm = min_margin(movedS)
                for fmt in ("pdb", "cif"):
                    path = os.path.join(d, "m." + fmt)
                    open(path, "w").write(genatoms.emit_pdb(tbl) if fmt == "pdb" else genatoms.emit_cif(tbl))
                    try:
                        with open(path) as f:
                            s3f = read_3d_structure(f)
                        gotm = full(s3f)
                    except Exception as e:  # noqa: BLE001
                        ctx.violation(f"annotation of a translated copy written as {fmt} raised {type(e).__name__}: {e}", {"structure": name, "shift": shift})
                        continue
                    decided = min(mm, min_margin(s3f), mref) >= 1e-6
                    ctx.count((name, bkind, "moved+" + fmt, shift), nonempty and decided, "moved+" + fmt)
                    if not decided:
                        excluded += 1
                        continue
                    diff = [k for k in refm if refm[k] != gotm[k]]
                    diff0 = [k for k in ref if k not in ("bpseq",) and ref[k] != gotm[k]]
                    if diff or diff0:
                        ctx.violation(f"annotation changes when the translated atoms are supplied as {fmt}: {diff or diff0}",
                                      {"structure": name, "base": bkind, "shift": shift, "format": fmt,
                                       "in_memory": {k: refm[k] for k in (diff or diff0)}, "from_file": {k: gotm[k] for k in (diff or diff0)}})
            # (v) PDB vs mmCIF of the same atoms
            for het_every, alt_every in ((0, 0), (3, 0), (0, 4)):
                table = to_table(base, het_every, alt_every)
                if not table:
                    continue
                outs = {}
                for fmt in ("pdb", "cif"):
                    path = os.path.join(d, "t." + fmt)
                    open(path, "w").write(genatoms.emit_pdb(table) if fmt == "pdb" else genatoms.emit_cif(table))
                    with open(path) as f:
                        s3f = read_3d_structure(f)
                    outs[fmt] = (full(s3f), min_margin(s3f))
                decided = min(outs["pdb"][1], outs["cif"][1]) >= 1e-6
                ctx.count((name, bkind, "format", het_every, alt_every), nonempty and decided, "format+altloc" if alt_every else "format" if not het_every else "format+hetatm")
                if decided:
                    diff = [k for k in outs["pdb"][0] if outs["pdb"][0][k] != outs["cif"][0][k]]
                    if diff:
                        ctx.violation(f"annotation differs between the PDB and the mmCIF serialisation of the same atoms: {diff}",
                                      {"structure": name, "base": bkind, "hetatm_every": het_every, "altloc_every": alt_every, "pdb": {k: outs['pdb'][0][k] for k in diff}, "cif": {k: outs['cif'][0][k] for k in diff}})
                else:
                    excluded += 1
            if len(ctx.coverage["samples"]) < 2:
                ctx.sample({"structure": name, "base": bkind, "pairs": ref["pairs"][:3], "dot_bracket": ref["dot_bracket"], "min_margin": mref})
    ctx.coverage["cases_excluded_for_a_margin_below_1e-6"] = excluded
