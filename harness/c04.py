"""C04 — stacking annotation equals its geometric definition."""
import math

import numpy as np

from . import annot, geo
from . import chem as T
from .core import Err, lit

RUN_TARGETS = ["Run/RGeo.vo"]
IMPORTS = annot.IMPORTS
TRUSTED = ["oracles: scipy KDTree.query_pairs (set validated against the model's O(n^2) enumeration; order recorded and passed to the model)",
           "floating point is not modelled: decisions within 1e-6 of a threshold make the model answer 'Near' and the case is skipped (counted)",
           "reading of the statement (DESIGN.md C04): the centroid-to-centroid vector runs from the later to the earlier residue in structure order and "
           "'within 45 degrees of one of the normals' is the directed angle to n_i or n_j"]


def definition(s3):
    """the stackings by the geometric definition, from first principles (O(n^2)); returns (list, undecided?)"""
    from . import chem as T
    R = s3.residues
    cent = []
    for i, r in enumerate(R):
        pts = [np.array([a.x, a.y, a.z]) for nm in T.BASE_ATOMS.get(r.one_letter_name, []) for a in [r.find_atom(nm)] if a is not None]
        if pts:
            cent.append((i, sum(pts) / len(pts)))
    out = []
    und = False

    def ang(a, b):
        c = float(np.dot(a, b) / np.linalg.norm(a) / np.linalg.norm(b))
        return math.degrees(math.acos(max(-1.0, min(1.0, c))))
    for x in range(len(cent)):
        for y in range(x + 1, len(cent)):
            (i, ci), (j, cj) = cent[x], cent[y]
            d = float(np.linalg.norm(ci - cj))
            ni, nj = T.base_normal(R[i]), T.base_normal(R[j])
            if ni is None or nj is None:
                continue
            if abs(d - 6.0) < 1e-6:
                und = True
            if d > 6.0:
                continue
            a_n = min(ang(ni, nj), ang(-ni, nj))
            v = ci - cj            # from the later (j) to the earlier (i) in structure order
            a_v = min(ang(v, ni), ang(v, nj))
            if abs(a_n - 35.0) < 1e-6 or abs(a_v - 45.0) < 1e-6:
                und = True
            if a_n > 35.0 or a_v > 45.0:
                continue
            same = float(np.dot(ni, nj)) > 0.0
            if abs(float(np.dot(ni, nj))) < 1e-9:
                und = True
            if T.res_lt(R[i], R[j]):
                out.append([i, j, "upward" if same else "inward"])
            else:
                out.append([j, i, "downward" if same else "outward"])
    return out, und


def run(ctx):
    ctx.coverage["rule"] = ("corpus structures (grid-snapped), rigidly moved, jittered, thinned; files with chains out of order for downward/outward; synthetic placements of two complete bases (all letters incl. thymine and modified residues) with parallel/antiparallel normals at centroid distances and vector angles just inside/outside 6 A and 45 degrees. "
                            "Non-trivial = >= 1 centroid pair within 6 A and no decision inside the 1e-6 band; distinct by (structure, perturbation).")
    corr_expr, corr_exp, corr_case = [], [], []
    nb_expr, nb_exp, nb_case = [], [], []
    undecided = 0
    topo = {}
    for name, kind, s3 in annot.structures(ctx, kinds=("corpus", "moved", "jitter", "reversed", "thin", "thin-base", "synthetic-stack", "icode-runs"), big=True):
        try:
            pairs, bphs, brs, sts, o1, o2, raw = annot.annotate(s3)
        except Exception as e:  # noqa: BLE001
            ctx.violation(f"annotation raised {type(e).__name__}: {e}", {"structure": name, "kind": kind})
            continue
        ctx.count((name, kind, len(s3.residues), len(sts)), len(o2) > 0, kind)
        case = {"structure": name, "perturbation": kind, "residues": len(s3.residues), "stackings": sts[:40]}
        for s in sts:
            topo[s[2]] = topo.get(s[2], 0) + 1
        want, und = definition(s3)
        R = s3.residues
        if und:
            undecided += 1
        else:
            key = lambda s: (s[0], s[1])  # noqa: E731
            if sorted(map(tuple, sts)) != sorted(map(tuple, want)):
                extra = [s for s in sts if s not in want]
                missing = [s for s in want if s not in sts]
                ctx.violation("stackings differ from the geometric definition", {"case": case,
                              "reported_but_not_defined": [[R[a].full_name, R[b].full_name, t] for a, b, t in extra][:5],
                              "defined_but_not_reported": [[R[a].full_name, R[b].full_name, t] for a, b, t in missing][:5]})
            if len({key(s) for s in sts}) != len(sts):
                ctx.violation("a stacked pair is reported twice", {"case": case})
            for a, b, t in sts:
                if not T.res_lt(R[a], R[b]) and not (R[a].chain, R[a].number, R[a].icode or " ") == (R[b].chain, R[b].number, R[b].icode or " "):
                    ctx.violation("stacking does not list the lower residue first", {"case": case, "pair": [R[a].full_name, R[b].full_name]})
        rl = annot.res_lit(s3)
        corr_expr.append(f"run_find_stackings {rl} {annot.order_lit(o2)}")
        corr_exp.append([False, sts])
        corr_case.append(case)
        nb_expr.append(f"run_stacking_neighbours {rl}")
        nb_exp.append(sorted([list(p) if p[0] < p[1] else [p[1], p[0]] for p in o2]))
        nb_case.append(case)
        if len(ctx.coverage["samples"]) < 3:
            ctx.sample({k: case[k] for k in ("structure", "perturbation", "residues")} | {"stackings": sts[:6]})
    ctx.coverage["structures_with_an_undecided_quantity (definition check skipped)"] = undecided
    ctx.coverage["topologies_seen"] = topo
    if not ctx.model_ok:
        return
    bad, err = ctx.coq_mismatches("corr", IMPORTS, corr_expr, corr_exp, shard=1, timeout=1500)
    if err:
        ctx.violation("correspondence cases failed to evaluate", {"error": err}, has_input=False)
    near = 0
    if bad:
        shown = ctx.coq_show(IMPORTS, [corr_expr[i] for i in bad])
        for k, i in enumerate(bad):
            if k < len(shown) and shown[k].startswith("VL [VZ 1"):
                near += 1
                continue
            ctx.violation("model and implementation disagree on find_stackings", {"case": corr_case[i], "model": shown[k][:1500] if k < len(shown) else None,
                                                                                  "correspondence": "Run.RGeo.run_find_stackings"}, has_input=False)
    ctx.coverage["cases_skipped_as_near_a_threshold"] = near
    bad, err = ctx.coq_mismatches("nb", IMPORTS, nb_expr, nb_exp, shard=1, timeout=1500)
    if err:
        ctx.violation("neighbour-set cases failed to evaluate", {"error": err}, has_input=False)
    for i in bad:
        ctx.note(f"KD-tree centroid neighbour set differs from the O(n^2) set on {nb_case[i]['structure']} ({nb_case[i]['perturbation']}): float rounding of a centroid near 6.0 A or an oracle failure")
    ctx.coverage["neighbour_sets_validated"] = len(nb_expr) - len(bad)
    ctx.coverage["structures_compared"] = len(corr_expr)
