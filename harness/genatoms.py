"""Generator of atom tables (PDB-level records) and an independent PDB / mmCIF emitter."""
import string

NAMES = ["P", "OP1", "OP2", "O5'", "C5'", "C4'", "O4'", "C3'", "O3'", "C2'", "O2'", "C1'", "N9", "C8", "N7", "C5", "C6", "N6", "N1", "C2", "N3", "C4",
         "O6", "N2", "O2", "N4", "O4", "H5''", "HO2'", "1H5'", "2HO'", "FE", "MG", "CA", "ZN", "C5M", "H5'1"]
RESN = ["A", "C", "G", "U", "DA", "DT", "PSU", "5MC", "HOH", "MG", "HEM", "2MG"]
ELEMENTS = {"P": "P", "O": "O", "C": "C", "N": "N", "H": "H", "F": "FE", "M": "MG", "Z": "ZN", "1": "H", "2": "H"}


def element_of(name):
    if name in ("FE", "MG", "CA", "ZN"):
        return name
    for c in name:
        if c.isalpha():
            return c
    return "X"


def gen_table(rng, nmodels=None, within_limits=True, altlocs=True, charges=True):
    """list of dict records in file order"""
    nmodels = nmodels or rng.choice([1, 1, 1, 2, 3])
    chains = rng.sample(list("ABCDEFGH" + "abx" + "01"), rng.randint(1, 3))
    template = []
    for ch in chains:
        num = rng.choice([-3, 1, 1, 5, 98, 9990])
        used = set()
        for _ in range(rng.randint(1, 4)):
            resn = rng.choice(RESN)
            icode = rng.choice(["", "", "", "A", "B"])
            while (num, icode) in used:          # a residue identity (chain, number, insertion code) names one residue
                if icode == "":
                    num += 1
                else:
                    icode = {"A": "B", "B": "C", "C": ""}[icode]
                    if icode == "":
                        num += 1
            if num == 0:
                num = 1
                continue
            used.add((num, icode))
            het = resn in ("HOH", "MG", "HEM")
            names = rng.sample(NAMES, rng.randint(1, 6))
            for nm in names:
                alts = [""] if not altlocs or rng.random() < 0.85 else ["A", "B"]
                for alt in alts:
                    template.append({"record_type": "HETATM" if het else "ATOM", "name": nm, "altLoc": alt, "resName": resn, "chainID": ch,
                                     "resSeq": num, "iCode": icode, "element": element_of(nm) if rng.random() < 0.9 else "",
                                     "charge": rng.choice(["", "", "", "", "1+", "2+", "1-"]) if charges else "",
                                     "occ100": 100 if not alt else 50, "het": het})
            num += rng.choice([1, 1, 1, 2, 0])
    table = []
    serial = rng.choice([1, 1, 1, 99990 - len(template) * nmodels - 10])
    for m in range(1, nmodels + 1):
        for t in template:
            r = dict(t)
            r["model"] = m
            r["serial"] = serial
            serial += 1
            r["x1000"] = rng.choice([rng.randint(-999999, 9999999), rng.randint(-50000, 50000), rng.randint(-50000, 50000), 0, -999999, 9999999, 5, -5])
            r["y1000"] = rng.choice([rng.randint(-80000, 80000), rng.randint(-80000, 80000), rng.randint(-999999, 9999999), -999999, 9999999, -100001])
            r["z1000"] = rng.choice([rng.randint(-80000, 80000), rng.randint(-80000, 80000), rng.randint(-999999, 9999999), -999999, 9999999, -100001])
            r["b100"] = rng.choice([rng.randint(0, 20000), 0, 99999, 1])
            table.append(r)
    return table


def fixed(v, dec):
    s = "-" if v < 0 else ""
    a = abs(v)
    return f"{s}{a // 10 ** dec}.{a % 10 ** dec:0{dec}d}"


def emit_pdb(table, with_ter=True):
    """independent PDB writer (columns per the wwPDB format description)"""
    out = []
    models = sorted({r["model"] for r in table})
    multi = len(models) > 1 or models not in ([], [1])   # a single model numbered otherwise needs its MODEL record
    last_model = None
    for r in table:
        if multi and r["model"] != last_model:
            if last_model is not None:
                out.append("ENDMDL")
            out.append("MODEL     %4d" % r["model"])
            last_model = r["model"]
        nm = r["name"]
        if len(nm) < 4 and nm[:1].isalpha() and len(element_of(nm)) == 1:
            nmf = " " + nm.ljust(3)
        else:
            nmf = nm.ljust(4)
        line = ("%-6s%5d %s%1s%3s %1s%4d%1s   %8s%8s%8s%6s%6s          %2s%2s" %
                (r["record_type"], r["serial"], nmf, r["altLoc"], r["resName"], r["chainID"], r["resSeq"], r["iCode"],
                 fixed(r["x1000"], 3), fixed(r["y1000"], 3), fixed(r["z1000"], 3), fixed(r["occ100"], 2), fixed(r["b100"], 2),
                 r["element"], r["charge"]))
        out.append(line.ljust(80))
    if multi:
        out.append("ENDMDL")
    out.append("END")
    return "\n".join(out) + "\n"


def cif_charge(c):
    if not c:
        return "?"
    return ("-" if c[1] == "-" else "") + c[0]


def emit_cif(table, null_alt=".", null_icode="?"):
    """independent mmCIF writer of the atom_site loop"""
    attrs = ["group_PDB", "id", "type_symbol", "label_atom_id", "label_alt_id", "label_comp_id", "label_asym_id", "label_entity_id", "label_seq_id",
             "pdbx_PDB_ins_code", "Cartn_x", "Cartn_y", "Cartn_z", "occupancy", "B_iso_or_equiv", "pdbx_formal_charge", "auth_seq_id", "auth_comp_id",
             "auth_asym_id", "auth_atom_id", "pdbx_PDB_model_num"]
    lines = ["data_gen", "#", "loop_"] + ["_atom_site." + a for a in attrs]

    def q(v):
        return '"' + v + '"' if "'" in v else v
    for r in table:
        vals = [r["record_type"], str(r["serial"]), r["element"] or "?", q(r["name"]), r["altLoc"] or null_alt, r["resName"], r["chainID"], "1",
                str(r["resSeq"]) if not r.get("het") else ".", r["iCode"] or null_icode, fixed(r["x1000"], 3), fixed(r["y1000"], 3), fixed(r["z1000"], 3),
                fixed(r["occ100"], 2), fixed(r["b100"], 2), cif_charge(r["charge"]), str(r["resSeq"]), r["resName"], r["chainID"], q(r["name"]), str(r["model"])]
        lines.append(" ".join(vals))
    lines.append("#")
    return "\n".join(lines) + "\n"
