"""C10 — fitting to PDB limits is a structure-preserving renaming or a clean refusal."""
from . import genatoms
from .c09 import canon_rows
from .core import Err, Nat, lit

RUN_TARGETS = ["Run/RIO.vo"]
IMPORTS = "From RV Require Import Base.Val Base.PyStr Run.RIO."
TRUSTED = ["pandas (groupby, categorical columns, drop_duplicates) is not modelled: differential only",
           "the model is the algorithm the source spells out; see the known finding for what the source currently does on mmCIF tables that need fitting"]

KNOWN = ("mmcif-fit-raises", "fit_to_pdb on an mmCIF-derived table that needs fitting raises TypeError (categorical fillna on pdbx_PDB_ins_code) "
                             "instead of returning a fitted table; PDB-derived tables are never fitted (can_write_pdb assumes they fit)")


def frows(rows):
    return "[" + "; ".join(f"mkfrow {lit(r[1])} {lit(r[5])} {lit(r[6])} {lit(r[7])} {lit(Nat(i))}" for i, r in enumerate(rows)) + "]"


def spec_fitted(before, after):
    """the property, decided directly on canonical rows"""
    if len(before) != len(after):
        return "row count changed"
    cmap, rmap = {}, {}
    for b, a in zip(before, after):
        if [b[i] for i in (0, 2, 3, 4, 8, 9, 10, 11, 12, 13, 14, 15)] != [a[i] for i in (0, 2, 3, 4, 8, 9, 10, 11, 12, 13, 14, 15)]:
            return "a field other than serial/chain/number/insertion code changed, or the order changed"
        if a[1] is None or a[1] > 99999 or len(a[5]) > 1 or a[6] is None or a[6] > 9999:
            return "fitted table violates the PDB limits"
        if cmap.setdefault(b[5], a[5]) != a[5]:
            return "chain renaming is not a function"
        key = (b[5], b[6], b[7])
        if rmap.setdefault(key, (a[5], a[6], a[7])) != (a[5], a[6], a[7]):
            return "residue renaming is not a function"
    if len(set(cmap.values())) != len(cmap):
        return "chain renaming is not one-to-one"
    if len(set(rmap.values())) != len(rmap):
        return "residue renaming is not one-to-one (grouping not preserved)"
    return None


def run(ctx):
    from rnapolis.parser_v2 import can_write_pdb, fit_to_pdb, parse_cif_atoms, parse_pdb_atoms, write_pdb
    rng = ctx.rng
    ctx.coverage["rule"] = ("generated mmCIF- and PDB-derived tables: within limits, multi-character chain ids, numbers above 9999, serials above 99999, insertion codes, "
                            "more than 62 chains, one offending atom among fitting ones, an offending atom with another identifying item missing, a fitting table obtained by dropping the offending rows of a parsed one, a two-model table whose second model alone breaks a limit. Non-trivial = the table does not already fit; distinct by table text.")
    corr_expr, corr_exp, corr_case = [], [], []
    known = 0
    kinds = ["fits", "longchain", "bignumber", "bigserial", "icode+longchain", "63chains", "pdb", "one-longchain", "one-bignumber", "one-bigserial", "offender-with-missing", "row-filtered", "later-model-offender"]
    n = 40 if ctx.quick else 300
    for t in range(n):
        kind = kinds[t % len(kinds)]
        table = genatoms.gen_table(rng, nmodels=1, charges=False)
        if kind == "bignumber" and t % 2:
            for r in table:
                r["resSeq"] = 9999 + (r["resSeq"] % 3) if r["resSeq"] > 0 else r["resSeq"]     # the boundary: 9999 fits, 10000 does not
        if kind in ("longchain", "icode+longchain"):
            for r in table:
                r["chainID"] = r["chainID"] + rng.choice(["A", "x", "-2"])
        if kind == "bignumber":
            for r in table:
                r["resSeq"] += 12000
        if kind == "bigserial":
            for r in table:
                r["serial"] += 100000
        # exactly one offender among otherwise fitting rows: a limit tested with min/any-all mixed up still passes the all-offenders tables above
        if kind == "one-longchain":
            last = (table[-1]["chainID"], table[-1]["resSeq"], table[-1]["iCode"])
            if any((r["chainID"], r["resSeq"], r["iCode"]) != last for r in table):
                for r in table:
                    if (r["chainID"], r["resSeq"], r["iCode"]) == last:
                        r["chainID"] = last[0] + "B"       # the last residue moves to a chain of its own with a two-character id
        if kind == "one-bignumber":
            r = rng.choice(table)
            key = (r["chainID"], r["resSeq"], r["iCode"])
            for q in table:
                if (q["chainID"], q["resSeq"], q["iCode"]) == key:
                    q["resSeq"] = 10000
        if kind == "one-bigserial":
            table[-1]["serial"] = 100000
        if kind == "63chains":
            base = table[:2]
            table = []
            for c in range(63):
                for r in base:
                    r2 = dict(r)
                    r2["chainID"] = f"C{c}"
                    r2["serial"] = len(table) + 1
                    table.append(r2)
        if kind == "later-model-offender":
            # an ensemble whose second model alone breaks one limit (serials keep counting across models; a chain or a number
            # may differ between models): every row counts, not those of the first model
            second = [dict(r, model=2, serial=len(table) + k_ + 1) for k_, r in enumerate(table)]
            which = (t // len(kinds)) % 3
            for r in second:
                if which == 0:
                    r["serial"] += 100000
                elif which == 1:
                    r["chainID"] = r["chainID"] + "B"
                else:
                    r["resSeq"] = 10000 + abs(r["resSeq"])
            table = table + second
        if kind == "row-filtered":
            # a residue that breaks all three limits is parsed with the rest and its rows are dropped afterwards (boolean indexing):
            # what remains fits, whatever the dropped rows have left behind in the table's column metadata
            first = (table[0]["chainID"], table[0]["resSeq"], table[0]["iCode"])
            extra = [dict(r) for r in table if (r["chainID"], r["resSeq"], r["iCode"]) == first]
            for k_, r in enumerate(extra):
                r.update(chainID="ZZ", resSeq=12000, serial=100000 + k_)
            table = (extra + table) if t % 2 else (table + extra)
        fmt = "PDB" if kind == "pdb" else "mmCIF"
        text = genatoms.emit_pdb(table) if fmt == "PDB" else genatoms.emit_cif(table)
        if kind == "offender-with-missing":
            # one atom breaks one limit while another of its three identifying items is '?' or '.': a missing value hides nothing
            text = genatoms.emit_cif(table)
            lines = text.split("\n")
            rows = [i for i, ln in enumerate(lines) if ln.startswith(("ATOM", "HETATM"))]
            i = rng.choice(rows)
            f = lines[i].split(" ")
            if len(f) == 21:
                bad, miss = rng.sample([1, 16, 18], 2)       # id, auth_seq_id, auth_asym_id
                f[bad] = {1: "100000", 16: "10000", 18: f[18] + "B"}[bad]
                f[miss] = rng.choice("?.")
                lines[i] = " ".join(f)
                text = "\n".join(lines)
        df = parse_pdb_atoms(text) if fmt == "PDB" else parse_cif_atoms(text)
        if kind == "row-filtered":
            attrs = dict(df.attrs)
            df = df[df["auth_asym_id"].astype(str) != "ZZ"]
            df.attrs.update(attrs)
        before = canon_rows(df)
        says_fits = bool(can_write_pdb(df))
        # the property's own notion, from the canonical rows (a PDB-derived table fits by construction)
        fits = fmt == "PDB" or all((r[1] is None or r[1] <= 99999) and len(r[5]) <= 1 and (r[6] is None or r[6] <= 9999) for r in before)
        if says_fits != fits:
            ctx.violation("can_write_pdb misjudges whether the table satisfies the PDB limits", {"case": {"kind": kind, "format": fmt, "table": text[:3000], "then": "rows of chain ZZ dropped after parsing" if kind == "row-filtered" else None}, "can_write_pdb": says_fits, "limits_satisfied": fits})
        ctx.count(text, not fits, kind)
        case = {"kind": kind, "format": fmt, "table": text if len(text) < 6000 else text[:6000] + "..."}
        if kind == "row-filtered":
            case["then"] = "df = df[df['auth_asym_id'].astype(str) != 'ZZ'] after parsing"
        try:
            out = fit_to_pdb(df)
            res = "unchanged" if out is df else canon_rows(out)
        except ValueError as e:
            res = Err("ValueError")
        except Exception as e:  # noqa: BLE001
            res = Err(type(e).__name__)
        # ---- spec
        if fits:
            if res != "unchanged":
                ctx.violation("a table that already fits was not returned unchanged", {"case": case, "result": repr(res)[:300]})
        elif isinstance(res, Err):
            if res.kind != "ValueError":
                if res.kind in ("TypeError", "KeyError") and fmt == "mmCIF" and ctx.known_finding(*KNOWN):
                    known += 1
                    res = None      # nothing to compare with the model
                else:
                    ctx.violation(f"fit_to_pdb raised {res.kind} (neither a fitted table nor ValueError)", {"case": case})
                    res = None
        elif res != "unchanged":
            why = spec_fitted(before, res)
            if why:
                ctx.violation("fitted table: " + why, {"case": case, "fitted": res[:5]})
            else:
                back = canon_rows(parse_pdb_atoms(write_pdb(out)))
                if [r[:1] + r[2:] for r in back] != [r[:1] + r[2:] for r in res]:
                    ctx.violation("fitted table does not survive writing as PDB and reading back", {"case": case})
        else:
            ctx.violation("a table that does not fit was returned unchanged", {"case": case})
        if res is not None:
            corr_expr.append(f"run_fit {lit(fmt == 'PDB')} {frows(before)}")
            corr_exp.append(res if not isinstance(res, list) else [[r[1], r[5], r[6], r[7], i] for i, r in enumerate(res)])
            corr_case.append(case)
        if t < 2:
            ctx.sample({"kind": kind, "rows": before[:3]})
    ctx.coverage["cases_matched_to_known_finding"] = known
    if not ctx.model_ok:
        return
    bad, err = ctx.coq_mismatches("corr", IMPORTS, corr_expr, corr_exp, shard=40)
    if err:
        ctx.violation("correspondence cases failed to evaluate", {"error": err}, has_input=False)
    if bad:
        shown = ctx.coq_show(IMPORTS, [corr_expr[i] for i in bad[:4]])
        for k, i in enumerate(bad[:10]):
            ctx.violation("model and implementation disagree on fit_to_pdb", {"case": corr_case[i], "implementation": repr(corr_exp[i])[:300],
                                                                              "model": shown[k][:600] if k < len(shown) else None, "correspondence": "Run.RIO.run_fit"}, has_input=False)
    ctx.coverage["correspondence_cases"] = len(corr_expr)
