"""Runs the implementation (rnapolis.common) on secondary structures."""
import logging

logging.disable(logging.CRITICAL)
from rnapolis.common import BpSeq, DotBracket, Entry  # noqa: E402
from .core import Err  # noqa: E402


def mk(seq, pairs):
    return BpSeq([Entry(i + 1, seq[i], pairs[i]) for i in range(len(pairs))])


def guarded(f):
    try:
        return f()
    except Exception as e:  # noqa: BLE001
        return Err(type(e).__name__)


def regions(b):
    return [list(r) for r in b._BpSeq__regions]


def stems_idx(b):
    return [[e.index_ for e in st] for st in b._BpSeq__stems_entries]


# ------------------------------------------------------------------ solvers
import pulp  # noqa: E402


class Recording(pulp.LpSolver):
    """delegates to the bundled CBC and records the problem it was given"""
    name = "Recording"

    def __init__(self):
        super().__init__(msg=False)
        self.lp = None
        self.inner = pulp.PULP_CBC_CMD(msg=False)
        self.calls = 0

    def available(self):
        return True

    def actualSolve(self, lp, **kw):
        self.calls += 1
        self.lp = lp
        return self.inner.actualSolve(lp, **kw)


class Fake(pulp.LpSolver):
    """fault injection: behaviour in {'raise', 'notsolved', 'infeasible', 'unbounded', 'undefined'}"""
    name = "Fake"

    def __init__(self, behaviour):
        super().__init__(msg=False)
        self.behaviour = behaviour
        self.calls = 0

    def available(self):
        return True

    def actualSolve(self, lp, **kw):
        self.calls += 1
        if self.behaviour == "raise":
            raise pulp.PulpSolverError("injected")
        status = {"notsolved": pulp.LpStatusNotSolved, "infeasible": pulp.LpStatusInfeasible,
                  "unbounded": pulp.LpStatusUnbounded, "undefined": pulp.LpStatusUndefined}[self.behaviour]
        lp.assignStatus(status)
        return status


def lp_summary(lp, n_regions):
    """canonical summary of the captured problem, in the shape Run.R2D.run_lp prints"""
    import re
    names = {}
    for v in lp.variables():
        m = re.fullmatch(r"x_(\d+)_(\d+)", v.name)
        if not m or v.lowBound != 0 or v.upBound != 1 or v.cat != pulp.LpInteger:
            return Err("UnexpectedVariable")
        names[v.name] = (int(m.group(1)), int(m.group(2)))
    if lp.sense != pulp.LpMaximize:
        return Err("NotMaximize")
    m_order = 1 + max(o for _, o in names.values())
    n = 1 + max(i for i, _ in names.values())
    if len(names) != n * m_order:
        return Err("VariableCount")
    obj = {names[v.name]: c for v, c in lp.objective.items()}
    coefs = []
    for i in range(n):
        for o in range(m_order):
            c = obj.get((i, o), 0)
            if c != int(c):
                return Err("NonIntegerCoefficient")
            coefs.append(int(c))
    eq_ok = True
    eq_regions = []
    adjacency = []
    for c in lp.constraints.values():
        items = [(names[v.name], k) for v, k in c.items()]
        rhs = -c.constant
        if c.sense == pulp.LpConstraintEQ:
            regs = {io[0] for io, _ in items}
            if len(regs) != 1 or rhs != 1 or any(k != 1 for _, k in items) or sorted(io[1] for io, _ in items) != list(range(m_order)):
                eq_ok = False
            eq_regions.append(next(iter(regs)))
        elif c.sense == pulp.LpConstraintLE:
            if len(items) != 2 or rhs != 1 or any(k != 1 for _, k in items) or items[0][0][1] != items[1][0][1]:
                return Err("UnexpectedRow")
            adjacency.append([items[0][0][0], items[1][0][0], items[0][0][1]])
        else:
            return Err("UnexpectedSense")
    if sorted(eq_regions) != list(range(n)):
        eq_ok = False
    return [n, m_order, coefs, sorted(adjacency), eq_ok]


def ones_of(lp):
    import re
    out = []
    for v in lp.variables():
        if v.varValue == 1:
            m = re.fullmatch(r"x_(\d+)_(\d+)", v.name)
            out.append((int(m.group(1)), int(m.group(2))))
    return out
