"""Runs the implementation (rnapolis.common) on secondary structures."""
import logging

logging.disable(logging.CRITICAL)
from rnapolis.common import BpSeq, DotBracket, Entry  # noqa: E402
from .core import Err  # noqa: E402


def mk(seq, pairs):
    return BpSeq([Entry(i + 1, seq[i], pairs[i]) for i in range(len(pairs))])


def guarded(f):
    try:
        return f()
    except Exception as e:  # noqa: BLE001
        return Err(type(e).__name__)


def regions(b):
    return [list(r) for r in b._BpSeq__regions]


def stems_idx(b):
    return [[e.index_ for e in st] for st in b._BpSeq__stems_entries]
