"""C08 — structure reading preserves atoms, residue identity and the requested model."""
import io
import math
import os

from . import genatoms
from .core import Err, Raw, lit, BUILD

RUN_TARGETS = ["Run/RIO.vo"]
IMPORTS = "From RV Require Import Base.Val Base.PyStr Run.RIO."
TRUSTED = ["oracles: the mmcif tokenizer (rows handed to the model already tokenised), Python float() on 3-decimal text, scipy KDTree.query_pairs (validated by the "
           "O(n^2) enumeration in the model), CPython's iteration order of a set of small ints (file order)",
           "atoms whose mutual distance is within 1e-6 of 0.5 A are not generated"]


def make_table(rng):
    nm = rng.choice([1, 1, 2, 3, 4])
    t = genatoms.gen_table(rng, nmodels=nm, charges=False)
    # occupancies of alternate locations: unequal so that 'highest' is defined, sometimes equal
    for r in t:
        if r["altLoc"]:
            r["occ100"] = rng.choice([60, 40, 50, 70, 30, 0, 0, 100])      # 0.00 and 1.00 are common in deposited files
    # repeated names without altloc (a duplicate record)
    if rng.random() < 0.4 and t:
        r = dict(rng.choice(t))
        r["occ100"] = rng.choice([100, 80, 20, 0])
        r["x1000"] += rng.choice([0, 2000]) if r["x1000"] < 9000000 else 0
        t.insert(t.index(next(x for x in t if x["model"] == r["model"] and x["chainID"] == r["chainID"] and x["resSeq"] == r["resSeq"] and x["iCode"] == r["iCode"] and x["name"] == r["name"])) + 1, r)
    # planted clashes: a differently named atom 0.1-0.4 A away, in the same or (rarely) another residue of the same model
    for _ in range(rng.choice([0, 0, 1, 2])):
        if not t:
            break
        base = rng.choice(t)
        r = dict(base)
        r["name"] = rng.choice(["X1", "X2", "Q"])
        r["altLoc"] = ""
        dx = rng.choice([100, 300, 400, 200])
        r["x1000"] = base["x1000"] - dx if base["x1000"] > 0 else base["x1000"] + dx
        r["occ100"] = rng.choice([100, 50, base["occ100"]])
        t.insert(t.index(base) + 1, r)
    # models are contiguous blocks: re-sort stably by model
    t.sort(key=lambda r: r["model"])
    for i, r in enumerate(t):
        r["serial"] = i + 1
    # model numbers need not be 1..n in file order: a subset of an ensemble keeps its numbers (2, 5), models may be written out of
    # order (3, 1), a single model may be numbered 4; the blocks stay contiguous
    if rng.random() < 0.35:
        pool = rng.choice([[2, 5, 7, 9], [3, 1, 4, 2], [4, 6, 5, 8]])
        for r in t:
            r["model"] = pool[r["model"] - 1]
    # keep coordinates apart unless planted: spread the others
    seen = {}
    for r in t:
        if r["name"] not in ("X1", "X2", "Q"):
            pass
    return t


def ident(r):
    return (r["chainID"], r["resSeq"], r["iCode"] or None, r["resName"])


def expected(table, model, cif):
    """the reading the property describes, computed directly from the table"""
    models = []
    for r in table:
        if r["model"] not in models:
            models.append(r["model"])
    m = model if model in models else models[0]
    rows = [r for r in table if r["model"] == m]
    # duplicates / alternate locations: first-seen position, strictly higher occupancy replaces
    kept, pos = [], {}
    for r in rows:
        key = (ident(r), r["name"], r.get("het") if cif else None) if False else (ident(r), r["name"])
        if key not in pos:
            pos[key] = len(kept)
            kept.append(r)
        elif r["occ100"] > kept[pos[key]]["occ100"]:
            kept[pos[key]] = r
    dis = set()
    for i in range(len(kept)):
        for j in range(i + 1, len(kept)):
            a, b = kept[i], kept[j]
            d2 = (a["x1000"] - b["x1000"]) ** 2 + (a["y1000"] - b["y1000"]) ** 2 + (a["z1000"] - b["z1000"]) ** 2
            if d2 <= 500 ** 2:
                dis.add(j if a["occ100"] > b["occ100"] else i)
    kept = [r for i, r in enumerate(kept) if i not in dis]
    out = []
    for r in kept:
        if out and out[-1][0] == list(ident(r)):
            out[-1][2].append([r["name"], r["x1000"], r["y1000"], r["z1000"], r["occ100"]])
        else:
            out.append([list(ident(r)), m, [[r["name"], r["x1000"], r["y1000"], r["z1000"], r["occ100"]]]])
    return out


def near_half(table):
    for m in {r["model"] for r in table}:
        rows = [r for r in table if r["model"] == m]
        for i in range(len(rows)):
            for j in range(i + 1, len(rows)):
                a, b = rows[i], rows[j]
                d = math.sqrt((a["x1000"] - b["x1000"]) ** 2 + (a["y1000"] - b["y1000"]) ** 2 + (a["z1000"] - b["z1000"]) ** 2) / 1000
                if abs(d - 0.5) < 1e-3 and d != 0:
                    return True
    return False


def observed(s3):
    out = []
    for res in s3.residues:
        a = res.auth
        out.append([[a.chain, a.number, a.icode, a.name], res.model,
                    [[x.name, int(round(x.x * 1000)), int(round(x.y * 1000)), int(round(x.z * 1000)), None if x.occupancy is None else int(round(x.occupancy * 100))] for x in res.atoms]])
    return out


def cif_atoms_lit(table):
    items = []
    for r in table:
        label = Raw("None") if r.get("het") else Raw(f"(Some ({lit(r['chainID'])}, {lit(r['resSeq'])}, {lit(r['resName'])}))")
        ic = Raw("None") if not r["iCode"] else Raw(f"(Some {lit(r['iCode'])})")
        auth = Raw(f"(Some ({lit(r['chainID'])}, {lit(r['resSeq'])}, {ic}, {lit(r['resName'])}))")
        items.append(f"mkatom1 {label} {auth} {lit(r['model'])} {lit(r['name'])} {lit(r['x1000'])} {lit(r['y1000'])} {lit(r['z1000'])} (Some {lit(r['occ100'])})")
    return "[" + "; ".join(items) + "]"


def run(ctx):
    from rnapolis.parser import read_3d_structure
    rng = ctx.rng
    d = os.path.join(BUILD, "c08")
    os.makedirs(d, exist_ok=True)
    ctx.coverage["rule"] = ("generated PDB and mmCIF atom tables (1-4 models sharing residue identities, numbered 1..n or otherwise (2, 5, ... / 3, 1, ... / 4), alternate locations, repeated names, atoms planted closer than 0.5 A, "
                            "hetero groups, negative numbers, insertion codes, both mmCIF null markers) written by an independent emitter, read with every model number "
                            "present, None and an absent one. Non-trivial = >= 2 models or an altloc / duplicate / clash; distinct by (table, format, model).")
    corr_expr, corr_exp, corr_case = [], [], []
    n = 60 if ctx.quick else 600
    for t in range(n):
        table = make_table(rng)
        if not table or near_half(table):
            continue
        models = sorted({r["model"] for r in table})
        nontriv = len(models) > 1 or any(r["altLoc"] or r["name"] in ("X1", "X2", "Q") for r in table)
        for fmt in ("pdb", "cif"):
            null_alt, null_ic = rng.choice([(".", "?"), ("?", "."), (".", "."), ("?", "?")])
            text = genatoms.emit_pdb(table) if fmt == "pdb" else genatoms.emit_cif(table, null_alt, null_ic)
            path = os.path.join(d, "t." + fmt)
            open(path, "w").write(text)
            for model in [None] + models + [max(models) + 5]:
                ctx.count((text, model), nontriv, fmt)
                case = {"format": fmt, "requested_model": model, "file": text if len(text) < 5000 else text[:5000] + "..."}
                try:
                    with open(path) as f:
                        got = observed(read_3d_structure(f, model))
                except Exception as e:  # noqa: BLE001
                    got = Err(type(e).__name__)
                want = expected(table, model, fmt == "cif")
                if isinstance(got, Err):
                    ctx.violation(f"read_3d_structure raised {got.kind}", {"case": case})
                elif got != want:
                    what = "reading does not return the requested model's atoms once each, in file order, as written"
                    if got and want and got[0][1] != want[0][1]:
                        what = f"asked for model {model}, got atoms of model {got[0][1]}"
                    ctx.violation(what, {"case": case, "got": got[:3], "expected": want[:3]})
                mlit = "None" if model is None else f"(Some {lit(model)})"
                if fmt == "pdb":
                    corr_expr.append(f"run_read_pdb {lit(text.split(chr(10))[:-1])} {mlit}")
                else:
                    corr_expr.append(f"run_read {cif_atoms_lit(table)} {mlit}")
                corr_exp.append(got)
                corr_case.append(case)
        if t < 2:
            ctx.sample({"pdb": genatoms.emit_pdb(table)[:700]})
    # corpus: every model of a multi-model file is returned as itself
    from . import geo
    for name in ["1A1T_1_B.cif"] + ([] if ctx.quick else ["2HY9.cif"]):
        with open(geo.corpus(name)) as f:
            txt = f.read()
        ms = sorted({int(l.split()[-1]) for l in txt.splitlines() if l.startswith(("ATOM", "HETATM"))}) if False else None
        first = None
        for m in (1, 2, 3, 25):
            with open(geo.corpus(name)) as f:
                s3 = read_3d_structure(f, m)
            got_models = {r.model for r in s3.residues}
            ctx.count((name, m), True, "corpus")
            if first is None:
                first = len(s3.residues)
            if len(got_models) > 1:
                ctx.violation("residues of several models returned at once", {"file": name, "requested_model": m, "models": sorted(got_models)})
    if not ctx.model_ok:
        return
    bad, err = ctx.coq_mismatches("corr", IMPORTS, corr_expr, corr_exp, shard=40)
    if err:
        ctx.violation("correspondence cases failed to evaluate", {"error": err}, has_input=False)
    if bad:
        shown = ctx.coq_show(IMPORTS, [corr_expr[i] for i in bad[:4]])
        for k, i in enumerate(bad[:10]):
            ctx.violation("model and implementation disagree on read_3d_structure", {"case": corr_case[i], "implementation": repr(corr_exp[i])[:500],
                                                                                    "model": shown[k][:800] if k < len(shown) else None, "correspondence": "Run.RIO.run_read"}, has_input=False)
    ctx.coverage["correspondence_cases"] = len(corr_expr)
