"""C11 — interaction lists are well-formed and self-consistent."""
import math

import numpy as np

from . import annot, geo
from .core import Err, lit

RUN_TARGETS = ["Run/RGeo.vo"]
IMPORTS = annot.IMPORTS
TRUSTED = ["the lists are those of the implementation; the Saenger table and the LW reverse are regenerated from the source and swept inside Coq",
           "floating point: the 4.0 A contact test uses a 1e-6 band"]


def check_lists(s3, raw, model_number):
    from . import chem as T
    from rnapolis.common import LeontisWesthof, Saenger
    bp, bph, br, st = raw
    R = s3.residues
    ident = {(r.label, r.auth): r for r in R}
    key = lambda r: (r.chain, r.number, r.icode or " ")  # noqa: E731

    def resolve(nt):
        return ident.get((nt.label, nt.auth))
    for name, lst in (("base pair", bp), ("stacking", st), ("base-phosphate", bph), ("base-ribose", br)):
        seen = set()
        for x in lst:
            a, b = resolve(x.nt1), resolve(x.nt2)
            if a is None or b is None:
                return f"{name}: a participant is not a residue of the analysed model"
            if a.model != model_number or b.model != model_number:
                return f"{name}: a participant belongs to another model"
            if a is b or key(a) == key(b) and a.chain == b.chain:
                return f"{name} joins a residue with itself"
            k = repr(x)
            if k in seen:
                return f"{name} repeated"
            seen.add(k)
    for name, lst in (("base pair", bp), ("stacking", st)):
        rows = [(key(resolve(x.nt1)), key(resolve(x.nt2))) for x in lst]
        if any(not (a < b) for a, b in rows):
            return f"{name} does not list the lower residue first"
        if rows != sorted(rows):
            return f"{name}s are not sorted"
    table = Saenger.table()
    for x in bp:
        a, b = resolve(x.nt1), resolve(x.nt2)
        want = table.get((a.one_letter_name + b.one_letter_name, x.lw.value))
        got = None if x.saenger is None else x.saenger.value
        if want != got:
            return f"Saenger class of {a.full_name}-{b.full_name} {x.lw.value} is {got}, the table says {want}"
        rev = table.get((b.one_letter_name + a.one_letter_name, x.lw.reverse.value))
        if rev != want:
            return f"Saenger class differs between {a.one_letter_name}{b.one_letter_name} {x.lw.value} and its reverse"
    for name, lst, accs, attr in (("base-phosphate", bph, T.PHOSPHATE_ACCEPTORS, "bph"), ("base-ribose", br, T.RIBOSE_ACCEPTORS, "br")):
        per_pair = {}
        for x in lst:
            d, a = resolve(x.nt1), resolve(x.nt2)
            cls = int(getattr(x, attr).value[0])
            per_pair.setdefault((id(d), id(a)), []).append(cls)
            implied = set()
            undecided = False
            for dn in T.BASE_DONORS.get(d.one_letter_name, []):
                da = d.find_atom(dn)
                if da is None:
                    continue
                for an in accs:
                    aa = a.find_atom(an)
                    if aa is None:
                        continue
                    dist = float(np.linalg.norm(da.coordinates - aa.coordinates))
                    if dist <= 4.0 + 1e-6:
                        c, und = T.bph_class(d, da, aa)
                        if und:
                            undecided = True
                        if c is not None:
                            implied.add(c)
            ok = cls in implied or (cls == 4 and {3, 5} <= implied) or (cls == 8 and {7, 9} <= implied)
            if not ok and not undecided:
                return f"{name} {d.full_name}->{a.full_name} class {cls} is not implied by any donor atom within 4.0 A of a {name.split('-')[1]} oxygen (implied: {sorted(implied)})"
        if any(len(v) > 1 for v in per_pair.values()):
            return f"a residue pair carries more than one {name} class"
    return None


def run(ctx):
    ctx.coverage["rule"] = ("corpus structures and their perturbations (as C03), every model of a multi-model file, all four interaction kinds. "
                            "Non-trivial = the annotation is non-empty; distinct by (structure, perturbation, model).")
    n_inter = 0
    corr_expr, corr_exp, corr_case = [], [], []
    for name, kind, s3 in annot.structures(ctx, kinds=("corpus", "moved", "jitter", "reversed", "thin", "thin-base", "synthetic-pair", "icode-runs"), big=True):
        try:
            pairs, bphs, brs, sts, o1, o2, raw = annot.annotate(s3)
        except Exception as e:  # noqa: BLE001
            ctx.violation(f"annotation raised {type(e).__name__}: {e}", {"structure": name, "kind": kind})
            continue
        n = len(pairs) + len(bphs) + len(brs) + len(sts)
        n_inter += n
        ctx.count((name, kind, n), n > 0, kind)
        why = check_lists(s3, raw, s3.residues[0].model if s3.residues else 1)
        if why:
            ctx.violation(why, {"structure": name, "perturbation": kind, "base_pairs": pairs[:10], "base_phosphate": bphs[:10], "base_ribose": brs[:10]})
        corr_expr.append(f"run_backbone_contacts {annot.res_lit(s3)} {annot.order_lit(o1)}")
        corr_exp.append([False, bphs, brs])
        corr_case.append({"structure": name, "perturbation": kind, "base_phosphate": bphs, "base_ribose": brs})
        if len(ctx.coverage["samples"]) < 2:
            ctx.sample({"structure": name, "perturbation": kind, "base_pairs": pairs[:4], "stackings": sts[:4], "base_phosphate": bphs[:4], "base_ribose": brs[:4]})
    # every model of an NMR ensemble
    import rnapolis.annotator as A
    from rnapolis.parser import read_3d_structure
    for fname in ["1A1T_1_B.cif"] + ([] if ctx.quick else ["2HY9.cif"]):
        for m in (1, 2, 3) if ctx.quick else range(1, 8):
            with open(geo.corpus(fname)) as f:
                s3 = read_3d_structure(f, m)
            if not s3.residues:
                continue
            bp, bph, br = A.find_pairs(s3, None)
            st = A.find_stackings(s3, None)
            ctx.count((fname, m), True, "model")
            n_inter += len(bp) + len(bph) + len(br) + len(st)
            why = check_lists(s3, (bp, bph, br, st), s3.residues[0].model)
            if why:
                ctx.violation(why, {"structure": fname, "model": m})
    ctx.coverage["interactions_checked"] = n_inter
    if not ctx.model_ok:
        return
    bad, err = ctx.coq_mismatches("corr", IMPORTS, corr_expr, corr_exp, shard=1, timeout=1500)
    if err:
        ctx.violation("correspondence cases failed to evaluate", {"error": err}, has_input=False)
    if bad:
        shown = ctx.coq_show(IMPORTS, [corr_expr[i] for i in bad])
        for k, i in enumerate(bad):
            if k < len(shown) and shown[k].startswith("VL [VZ 1"):
                continue      # a decision inside the undecided band
            ctx.violation("base-phosphate / base-ribose classes differ from the model (class ladder, merge rules 3+5->4 and 7+9->8, one class per residue pair)",
                          {"case": corr_case[i], "model": shown[k][:1200] if k < len(shown) else None, "correspondence": "Run.RGeo.run_backbone_contacts"})
    ctx.coverage["structures_compared_with_model"] = len(corr_expr)
