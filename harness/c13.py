"""C13 — dot-bracket generation survives every solver configuration and solver fault."""
import contextlib

import pulp

from . import gen2d, impl2d
from .c01 import bexpr, component_sizes
from .core import Err, Nat, lit

RUN_TARGETS = ["Run/R2D.vo"]
IMPORTS = "From RV Require Import Base.Val Model.Bpseq Run.R2D."
TRUSTED = ["modelled as an oracle: what the MILP back-end answers (raise / status / values); pulp's status plumbing",
           "the three solver configurations are produced by monkey-patching pulp.HiGHS_CMD.available and pulp.LpSolverDefault"]

BEHAVIOURS = ["ok", "raise", "notsolved", "infeasible", "unbounded", "undefined"]


@contextlib.contextmanager
def configuration(name, behaviour):
    """name in {'highs', 'cbc', 'none'}: which back-end BpSeq.dot_bracket will select"""
    saved_avail = pulp.HiGHS_CMD.available
    saved_default = pulp.LpSolverDefault
    saved_solve = pulp.HiGHS_CMD.actualSolve
    try:
        solver = impl2d.Recording() if behaviour == "ok" else impl2d.Fake(behaviour)
        if name == "highs":
            pulp.HiGHS_CMD.available = lambda self: True
            pulp.HiGHS_CMD.actualSolve = lambda self, lp, **kw: solver.actualSolve(lp, **kw)
        elif name == "cbc":
            pulp.HiGHS_CMD.available = lambda self: False
            pulp.LpSolverDefault = solver
        else:
            pulp.HiGHS_CMD.available = lambda self: False
            pulp.LpSolverDefault = None
        yield solver
    finally:
        pulp.HiGHS_CMD.available = saved_avail
        pulp.LpSolverDefault = saved_default
        pulp.HiGHS_CMD.actualSolve = saved_solve


def structures(ctx):
    rng = ctx.rng
    out = []
    for n in range(4, 7 if ctx.quick else 9):
        for p in gen2d.all_matchings(n):
            if gen2d.is_knotted(p):
                out.append(("exhaustive-knotted", p))
    for _ in range(40 if ctx.quick else 400):
        p = gen2d.layout(rng, rng.randint(2, 7), maxlen=rng.choice([1, 2, 4]), maxgap=rng.choice([0, 1, 3]))
        out.append(("layout", p))
    for _ in range(2 if ctx.quick else 10):
        out.append(("many-stems", gen2d.many_stems(rng, rng.randint(10, 12))))
    out.append(("pkfree", [8, 7, 0, 0, 0, 0, 2, 1]))
    out.append(("empty", [0, 0, 0]))
    return out


def run(ctx):
    ctx.coverage["rule"] = ("solver configurations {HiGHS selected, default CBC, none} x behaviours {ok, raises PulpSolverError, "
                            "not-solved, infeasible, unbounded, undefined} x structures (every knotted pairing on <= N positions + random "
                            "layouts). Non-trivial = the structure is knotted (the solver is actually consulted); distinct by (structure, configuration, behaviour).")
    corr_expr, corr_exp, corr_case = [], [], []
    spec_expr, spec_case = [], []
    for kind, pairs in structures(ctx):
        seq = gen2d.seq_for(ctx.rng, len(pairs))
        if any(s > 8 for s in component_sizes(impl2d.mk(seq, pairs))):
            continue
        be = bexpr(seq, pairs)
        knotted = gen2d.is_knotted(pairs)
        fresh_fcfs = impl2d.guarded(lambda: impl2d.mk(seq, pairs).fcfs.structure)
        for conf in ("highs", "cbc", "none"):
            for beh in (BEHAVIOURS if conf != "none" else ["ok"]):
                case = {"kind": kind, "sequence": seq, "pairs": pairs, "configuration": conf, "behaviour": beh}
                ctx.count((tuple(pairs), conf, beh), knotted, f"{conf}/{beh}")
                with configuration(conf, beh) as solver:
                    res = impl2d.guarded(lambda: impl2d.mk(seq, pairs).dot_bracket.structure)
                    consulted = getattr(solver, "calls", 0) > 0
                    ones = impl2d.ones_of(solver.lp) if (beh == "ok" and conf != "none" and consulted) else []
                case["result"] = repr(res) if isinstance(res, Err) else res
                if isinstance(res, Err):
                    ctx.violation(f"dot_bracket raised {res.kind} under configuration {conf}, solver behaviour {beh}", {"case": case})
                    continue
                # spec: a lossless encoding; FCFS whenever the solver cannot deliver an optimum
                spec_expr.append(f"run_lossless {be} {lit(res)}")
                spec_case.append(case)
                if knotted and (conf == "none" or beh != "ok") and res != fresh_fcfs:
                    ctx.violation("fallback result is not the first-come-first-served encoding", {"case": case, "fcfs": repr(fresh_fcfs)})
                k = 0 if conf == "none" else {"ok": 3, "raise": 1}.get(beh, 2)
                corr_expr.append(f"run_convert {be} {lit(Nat(k))} {lit([(Nat(i), Nat(o)) for i, o in ones])}")
                corr_exp.append(res)
                corr_case.append(case)
                if len(ctx.coverage["samples"]) < 4 and knotted and beh in ("raise", "infeasible"):
                    ctx.sample(case)
    if not ctx.model_ok:
        return
    bad, err = ctx.coq_mismatches("spec", IMPORTS, spec_expr, [True] * len(spec_expr))
    if err:
        ctx.violation("spec cases failed to evaluate", {"error": err}, has_input=False)
    for i in bad:
        ctx.violation("result is not a lossless encoding of the structure", {"case": spec_case[i], "checker": "Spec2D.lossless"})
    bad, err = ctx.coq_mismatches("corr", IMPORTS, corr_expr, corr_exp)
    if err:
        ctx.violation("correspondence cases failed to evaluate", {"error": err}, has_input=False)
    if bad:
        shown = ctx.coq_show(IMPORTS, [corr_expr[i] for i in bad[:5]])
        for n, i in enumerate(bad[:10]):
            ctx.violation("model and implementation disagree on convert_to_dot_bracket",
                          {"case": corr_case[i], "implementation": corr_exp[i], "model": shown[n] if n < len(shown) else None,
                           "correspondence": "Run.R2D.run_convert"}, has_input=False)
    ctx.coverage["fault_kinds"] = BEHAVIOURS
    ctx.coverage["configurations"] = ["highs", "cbc", "none"]
