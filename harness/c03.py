"""C03 — reported base pairs are geometrically justified, edge-exclusive and maximal."""
import math

import numpy as np

from . import annot, geo
from .core import Err, lit

RUN_TARGETS = ["Run/RGeo.vo"]
IMPORTS = annot.IMPORTS
TRUSTED = ["oracles: scipy KDTree.query_pairs (its set is validated against the model's O(n^2) enumeration; its iteration order is recorded and passed to the model)",
           "floating point (numpy dot/norm/cross, math.acos) is not modelled: decisions within 1e-6 of a threshold make the model answer 'Near' and the case is skipped (counted)",
           "axioms of the standard library's reals for the real-form lemmas (as printed by Print Assumptions)"]


def contacts(s3):
    """every (acceptor, donor) contact between different residues in the sense of the property, from first principles (O(n^2))"""
    from . import chem as T
    out = []
    R = s3.residues
    cand = []
    for ri, r in enumerate(R):
        acc = T.BASE_ACCEPTORS.get(r.one_letter_name, []) + T.RIBOSE_ACCEPTORS + T.PHOSPHATE_ACCEPTORS
        don = T.BASE_DONORS.get(r.one_letter_name, [])
        seen = set()
        for nm in acc + don:
            a = r.find_atom(nm)
            if a is not None and nm not in seen:
                seen.add(nm)
                cand.append((ri, nm, np.array([a.x, a.y, a.z]), nm in acc))
    for x in range(len(cand)):
        for y in range(x + 1, len(cand)):
            (ri, ni, pi, ai), (rj, nj, pj, aj) = cand[x], cand[y]
            if ri == rj or ai == aj:
                continue
            d = np.linalg.norm(pi - pj)
            if d > 4.0:
                continue
            n1, n2 = T.base_normal(R[ri]), T.base_normal(R[rj])
            if n1 is None or n2 is None:
                continue
            v = pi - pj
            if np.linalg.norm(v) == 0:
                continue
            a1 = math.degrees(math.acos(max(-1, min(1, np.dot(n1, v) / np.linalg.norm(v)))))
            a2 = math.degrees(math.acos(max(-1, min(1, np.dot(n2, v) / np.linalg.norm(v)))))
            margin = min(4.0 - d, a1 - 50, 130 - a1, a2 - 50, 130 - a2)
            out.append((ri, ni, rj, nj, margin))
    return out


def spec(s3, pairs):
    """soundness, edge exclusivity and maximality, decided directly; returns (failure or None, undecided?)"""
    from . import chem as T
    R = s3.residues
    cs = contacts(s3)
    if any(abs(m) < 1e-6 for *_, m in cs):
        return None, True
    good = [(ri, ni, rj, nj) for ri, ni, rj, nj, m in cs if m > 0]
    edge = lambda r, n: T.BASE_EDGES.get(R[r].one_letter_name, {}).get(n)  # noqa: E731
    used = set()
    for i, j, lw, _ in pairs:
        if i == j:
            return "a base pair joins a residue with itself", False
        ct, ei, ej = lw[0], lw[1], lw[2]
        support = []
        for ri, ni, rj, nj in good:
            if (ri, rj) == (i, j):
                a, b = edge(ri, ni), edge(rj, nj)
            elif (ri, rj) == (j, i):
                a, b = edge(rj, nj), edge(ri, ni)
            else:
                continue
            if a and b and ei in a and ej in b:
                support.append((ri, ni, rj, nj))
        # at least two DISTINCT contacts (contacts through O2' count as support, once each)
        n = len(set(support))
        if n < 2:
            return f"pair {R[i].full_name}-{R[j].full_name} {lw} has fewer than two supporting contacts on its edges", False
        c, und = T.cis_trans(R[i], R[j])
        if und:
            return None, True
        if c is None or c != ct:
            return f"cis/trans letter of {R[i].full_name}-{R[j].full_name} {lw} does not match the glycosidic torsion", False
        for key in ((i, ei), (j, ej)):
            if key in used:
                return f"edge {key[1]} of {R[key[0]].full_name} is used by two reported pairs", False
            used.add(key)
    # maximality over base-to-base contacts (no O2')
    reported = {(i, j, lw) for i, j, lw, _ in pairs}
    counts = {}
    for ri, ni, rj, nj in good:
        if "O2'" in (ni, nj):
            continue
        a, b = edge(ri, ni), edge(rj, nj)
        if not a or not b:
            continue
        c, und = T.cis_trans(R[ri], R[rj])
        if und:
            return None, True
        if c is None:
            continue
        lo, hi = (ri, rj) if T.res_lt(R[ri], R[rj]) else (rj, ri)
        for ea in a:
            for eb in b:
                key = (lo, hi, c + (ea + eb if lo == ri else eb + ea))
                counts[key] = counts.get(key, 0) + 1
    for (i, j, lw), n in counts.items():
        if n >= 2 and (i, j, lw) not in reported and (i, lw[1]) not in used and (j, lw[2]) not in used:
            return f"{R[i].full_name}-{R[j].full_name} has {n} base-to-base contacts for {lw} but is neither reported nor blocked by an occupied edge", False
    return None, False


def run(ctx):
    ctx.coverage["rule"] = ("corpus structures (grid-snapped), rigidly moved, jittered (sigma 0.05-0.3 A), thinned of residues/atoms; synthetic placements of two coplanar nucleotides (all letters incl. modified and DNA, random approach; symmetric dimers of every letter pushed together from 24/72 directions, which carry two classes per nucleotide pair). Non-trivial = >= 1 candidate contact "
                            "and no decision inside the 1e-6 band; distinct by (structure, perturbation).")
    corr_expr, corr_exp, corr_case = [], [], []
    nb_expr, nb_exp, nb_case = [], [], []
    undecided = 0
    for name, kind, s3 in annot.structures(ctx, kinds=("corpus", "moved", "jitter", "reversed", "thin", "thin-base", "base-only", "synthetic-pair")):
        try:
            pairs, bphs, brs, sts, o1, o2, raw = annot.annotate(s3)
        except Exception as e:  # noqa: BLE001
            ctx.violation(f"annotation raised {type(e).__name__}: {e}", {"structure": name, "kind": kind})
            continue
        ctx.count((name, kind, len(s3.residues), len(pairs)), len(o1) > 0, kind)
        case = {"structure": name, "perturbation": kind, "residues": len(s3.residues), "base_pairs": pairs}
        why, und = spec(s3, pairs)
        if und:
            undecided += 1
        elif why:
            ctx.violation(why, {"case": case})
        rl = annot.res_lit(s3)
        corr_expr.append(f"run_find_pairs {rl} {annot.order_lit(o1)}")
        corr_exp.append([False, pairs, bphs, brs])
        corr_case.append(case)
        if len(s3.residues) <= 30:
            nb_expr.append(f"run_hbond_neighbours {rl}")
            nb_exp.append(sorted([list(p) if p[0] < p[1] else [p[1], p[0]] for p in o1]))
            nb_case.append(case)
        if len(ctx.coverage["samples"]) < 3:
            ctx.sample(case)
    ctx.coverage["structures_with_an_undecided_contact (spec skipped)"] = undecided
    if not ctx.model_ok:
        return
    bad, err = ctx.coq_mismatches("corr", IMPORTS, corr_expr, corr_exp, shard=1, timeout=1500)
    if err:
        ctx.violation("correspondence cases failed to evaluate", {"error": err}, has_input=False)
    near = 0
    if bad:
        shown = ctx.coq_show(IMPORTS, [corr_expr[i] for i in bad])
        for k, i in enumerate(bad):
            if k < len(shown) and shown[k].startswith("VL [VZ 1"):
                near += 1     # the model reports a decision inside the undecided band: not compared
                continue
            ctx.violation("model and implementation disagree on find_pairs", {"case": corr_case[i], "implementation": corr_exp[i][1:],
                                                                              "model": shown[k][:1500] if k < len(shown) else None,
                                                                              "correspondence": "Run.RGeo.run_find_pairs"}, has_input=False)
    ctx.coverage["cases_skipped_as_near_a_threshold"] = near
    bad, err = ctx.coq_mismatches("nb", IMPORTS, nb_expr, nb_exp, shard=1, timeout=1500)
    if err:
        ctx.violation("neighbour-set cases failed to evaluate", {"error": err}, has_input=False)
    for i in bad:
        ctx.note(f"KD-tree neighbour set differs from the O(n^2) set on {nb_case[i]['structure']} ({nb_case[i]['perturbation']}): a pair within 1e-9 of 4.0 A or an oracle failure")
    ctx.coverage["neighbour_sets_validated"] = len(nb_expr) - len(bad)
    ctx.coverage["structures_compared"] = len(corr_expr)
