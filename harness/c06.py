"""C06 — 3D-to-2D mapping gives a valid matching and faithful text for any pair list."""
import itertools

from . import chem, annot, geo
from .core import Err, Nat, Raw, lit

RUN_TARGETS = ["Run/RGeo.vo"]
IMPORTS = annot.IMPORTS
TRUSTED = ["Residue3D.is_nucleotide and is_connected are evaluated by the implementation and passed to the model as flags (they are not C06's subject)",
           "the dot-bracket strings of the BPSEQ and of every extended row come from BpSeq.dot_bracket (C01/C02/C13): rows are compared as decoded pair sets"]

LW = ["cWW", "cWH", "cWS", "cHW", "cHH", "cHS", "cSW", "cSH", "cSS", "tWW", "tWH", "tWS", "tHW", "tHH", "tHS", "tSW", "tSH", "tSS"]
OPEN = "([{<ABCDEFGHIJKLMNOPQRSTUVWXYZ"
CLOSE = ")]}>abcdefghijklmnopqrstuvwxyz"


def decode(s):
    st = {}
    out = []
    for i, c in enumerate(s):
        if c in OPEN:
            st.setdefault(OPEN.index(c), []).append(i)
        elif c in CLOSE:
            t = CLOSE.index(c)
            if not st.get(t):
                return None
            out.append((st[t].pop() + 1, i + 1))
    if any(v for v in st.values()):
        return None
    return sorted(out)


def pair_lists(ctx, s3, own):
    """generated lists of (i, j, lw, saenger) over residue indices; i/j may be None (dangling)"""
    from rnapolis.common import LeontisWesthof, Saenger
    rng = ctx.rng
    n = len(s3.residues)
    nuc = [i for i, r in enumerate(s3.residues) if r.is_nucleotide]
    table = Saenger.table()

    def sa(i, j, lw):
        if i is None or j is None:
            return None
        return table.get((s3.residues[i].one_letter_name + s3.residues[j].one_letter_name, lw))
    out = [("own", list(own))]
    if own:
        out.append(("own-subset", [p for p in own if rng.random() < 0.6]))
        out.append(("own+reversed-duplicates", list(own) + [(j, i, lw[0] + lw[2] + lw[1], s) for i, j, lw, s in own if rng.random() < 0.5] + [p for p in own if rng.random() < 0.3]))
    for _ in range(4 if ctx.quick else 25):
        k = rng.randint(1, 10)
        lst = []
        for _ in range(k):
            i, j = rng.sample(nuc, 2) if len(nuc) >= 2 else (0, 0)
            lw = rng.choice(["cWW", "cWW", "cWW", "tWW", "cWH", "tHS", "cSS"])
            lst.append((i, j, lw, sa(i, j, lw) if rng.random() < 0.7 else None))
        out.append(("random", lst))
    # multiplets of degree 2-5 on one class, around one hub
    for deg in (2, 3, 4, 5):
        if len(nuc) > deg + 1:
            hub, *others = rng.sample(nuc, deg + 1)
            lw = rng.choice(["cWW", "tWH"])
            lst = [(hub, o, lw, sa(hub, o, lw)) for o in others]
            lst += [(others[0], others[-1], lw, sa(others[0], others[-1], lw))]
            rng.shuffle(lst)
            out.append((f"multiplet{deg}", lst))
    # dangling entries
    if own:
        out.append(("dangling", [(None, own[0][1], "cWW", None), (own[0][0], None, "cWW", None)] + list(own[:3])))
    return out


def build_pairs(s3, lst):
    from rnapolis.common import BasePair, LeontisWesthof, Residue, ResidueAuth, Saenger
    bps = []
    for i, j, lw, s in lst:
        def nt(k):
            if k is None:
                return Residue(None, ResidueAuth("z", 9999, None, "X"))
            r = s3.residues[k]
            return Residue(r.label, r.auth)
        bps.append(BasePair(nt(i), nt(j), LeontisWesthof[lw], None if s is None else Saenger[s]))
    return bps


def spec(s3, lst, gaps, m):
    """the property, decided directly; returns a description of what fails or None"""
    R = s3.residues
    nuc = [i for i, r in enumerate(R) if r.is_nucleotide]
    entries = [(e.index_, e.sequence, e.pair) for e in m.bpseq.entries]
    N = len(entries)
    if [e[0] for e in entries] != list(range(1, N + 1)):
        return "BPSEQ is not numbered 1..N"
    # numbering with placeholders
    want_seq = []
    res_of_index = {}
    for k, i in enumerate(nuc):
        if gaps and k > 0:
            p = R[nuc[k - 1]]
            if not p.is_connected(R[i]) and p.chain == R[i].chain:
                want_seq += ["?"] * max(0, R[i].number - p.number - 1)
        res_of_index[len(want_seq) + 1] = i
        want_seq.append(R[i].one_letter_name)
    if [e[1] for e in entries] != want_seq:
        return "BPSEQ sequence is not the nucleotides in file order with '?' placeholders at detected gaps"
    index_of_res = {v: k for k, v in res_of_index.items()}
    for ix, c, p in entries:
        if p:
            if not (1 <= p <= N) or entries[p - 1][2] != ix or p == ix:
                return "BPSEQ pairing is not symmetric"
            if c == "?":
                return "a gap placeholder is paired"
    # canonical input pairs (either orientation)
    from rnapolis.common import LeontisWesthof, Saenger

    def canonical(i, j, lw, s):
        if s is not None:
            return s in ("XIX", "XX", "XXVIII")
        nts = "".join(sorted([R[i].one_letter_name.upper(), R[j].one_letter_name.upper()]))
        return lw == "cWW" and nts in ("AU", "AT", "CG", "GU")
    can = set()
    for i, j, lw, s in lst:
        if i is None or j is None:
            continue
        if canonical(i, j, lw, s) or canonical(j, i, lw[0] + lw[2] + lw[1], s):
            if i in index_of_res and j in index_of_res and i != j:
                can.add(frozenset((index_of_res[i], index_of_res[j])))
    got = {frozenset((ix, p)) for ix, c, p in entries if p}
    if not got <= can:
        return "a BPSEQ pair is not among the canonical input pairs"
    deg = {}
    for pr in can:
        for x in pr:
            deg[x] = deg.get(x, 0) + 1
    for pr in can:
        if all(deg[x] == 1 for x in pr) and pr not in got:
            return "a canonical pair that conflicts with no other was dropped"
    # strands concatenate to the sequence and the structure
    seqs = m.strands_sequences
    if "".join(s for _, s in seqs) != "".join(want_seq):
        return "strand sequences do not concatenate to the BPSEQ sequence"
    db = m.dot_bracket.split("\n")
    structure = "".join(db[2::3])
    if "".join(db[1::3]) != "".join(want_seq) or len(structure) != N:
        return "per-strand dot-bracket text does not concatenate to the sequence"
    dec = decode(structure)
    if dec is None or {frozenset(p) for p in dec} != got:
        return "per-strand dot-bracket text does not encode the BPSEQ matching"
    # extended rows
    ext = m.extended_dot_bracket.split("\n")
    nstr = len(seqs)
    per = len(ext) // nstr if nstr else 0
    blocks = [ext[k * per:(k + 1) * per] for k in range(nstr)]
    rows = {}
    if nstr:
        for r in range(2, per):
            label = blocks[0][r].split(" ")[0]
            text = "".join(b[r].split(" ", 1)[1] for b in blocks)
            if any(b[r].split(" ")[0] != label for b in blocks):
                return "extended rows are misaligned between strands"
            if len(text) != N:
                return "an extended row is not as long as the sequence"
            d = decode(text)
            if d is None:
                return f"extended row {label} {text} is not balanced"
            rows.setdefault(label, []).extend(d)
    want_rows = {}
    for i, j, lw, s in lst:
        if i is None or j is None or i == j:
            continue
        if not (R[i].is_nucleotide and R[j].is_nucleotide):
            continue
        a, b, l2 = (i, j, lw) if chem.res_lt(R[i], R[j]) else (j, i, lw[0] + lw[2] + lw[1])
        if (R[a].chain, R[a].number, R[a].icode or " ") == (R[b].chain, R[b].number, R[b].icode or " "):
            continue
        want_rows.setdefault(l2, set()).add((index_of_res[a], index_of_res[b]))
    for lw in set(rows) | set(want_rows):
        g = sorted(rows.get(lw, []))
        w = sorted(tuple(sorted(p)) for p in want_rows.get(lw, set()))
        if g != w:
            return f"extended rows of class {lw} do not encode every distinct input pair exactly once (rows: {g}, input: {w})"
    return None


def run(ctx):
    from rnapolis.tertiary import Mapping2D3D
    rng = ctx.rng
    ctx.coverage["rule"] = ("corpus structures (also with residues deleted to open gaps) x pair lists: own annotation, its subsets, with exact and reversed duplicates, random lists, "
                            "multiplets of degree 2-5 on one class, dangling entries; with and without gap detection. Non-trivial = >= 1 conflict, multiplet or gap; "
                            "distinct by (structure, list, gap flag).")
    corr_expr, corr_exp, corr_case = [], [], []
    files = ["1E7K_1_C.cif", "4WTI_1_T-P.cif", "1HMH_1_E.cif", "6INQ.cif", "488d.pdb"] + ([] if ctx.quick else ["1ehz-assembly-1.cif", "184D.cif", "1DFU_1_M-N.cif"])   # 488d: residue numbers jump upwards at the chain boundaries
    for name in files:
        base = geo.load3d(name)
        variants = [("full", base)]
        if len(base.residues) > 6:
            drop = set(rng.sample(range(2, len(base.residues) - 2), min(2, len(base.residues) - 5)))
            variants.append(("gapped", geo.rebuild(base, keep_res=lambda i, r: i not in drop)))
        for vkind, s3 in variants:
            pairs, *_ = annot.annotate(s3)
            own = [(i, j, lw, s) for i, j, lw, s in pairs]
            nucs = [r for r in s3.residues if r.is_nucleotide]
            conn = {}
            for a, b in zip(nucs, nucs[1:]):
                conn[id(b)] = bool(a.is_connected(b))
            for lkind, lst in pair_lists(ctx, s3, own):
                for gaps in (False, True):
                    case = {"structure": name, "variant": vkind, "list": lkind, "find_gaps": gaps,
                            "pairs": [[None if i is None else s3.residues[i].full_name, None if j is None else s3.residues[j].full_name, lw, s] for i, j, lw, s in lst]}
                    nontriv = lkind.startswith("multiplet") or "duplicates" in lkind or (gaps and vkind == "gapped") or lkind == "random"
                    ctx.count((name, vkind, lkind, gaps, repr(lst)), nontriv, lkind)
                    try:
                        m = Mapping2D3D(s3, build_pairs(s3, lst), [], gaps)
                        entries = [[e.index_, e.sequence, e.pair] for e in m.bpseq.entries]
                        why = spec(s3, lst, gaps, m)
                    except Exception as e:  # noqa: BLE001
                        ctx.violation(f"mapping raised {type(e).__name__}: {e}", {"case": case})
                        continue
                    if why:
                        ctx.violation(why, {"case": case, "bpseq": entries[:40], "extended": m.extended_dot_bracket})
                    # correspondence
                    rs = "[" + "; ".join(
                        f"mkmres {lit(r.chain)} {lit(r.number)} {('None' if r.icode is None else '(Some ' + lit(r.icode) + ')')} {lit(r.one_letter_name)} "
                        f"{lit(bool(r.is_nucleotide))} {lit(conn.get(id(r), False))}" for r in s3.residues) + "]"
                    opt = lambda k: "None" if k is None else f"(Some {k}%nat)"  # noqa: E731
                    ps = "[" + "; ".join(f"mkipair {opt(i)} {opt(j)} {lit(lw)} {('None' if s is None else '(Some ' + lit(s) + ')')}" for i, j, lw, s in lst) + "]"
                    ext = m.extended_dot_bracket.split("\n")
                    nstr = len(m.strands_sequences)
                    rows = []
                    if nstr:
                        per = len(ext) // nstr
                        blocks = [ext[k * per:(k + 1) * per] for k in range(nstr)]
                        for r in range(2, per):
                            text = "".join(b[r].split(" ", 1)[1] for b in blocks)
                            d = decode(text)
                            rows.append([blocks[0][r].split(" ")[0], [list(p) for p in d] if d is not None else Err("unbalanced")])
                    corr_expr.append(f"run_mapping {lit(gaps)} {rs} {ps}")
                    corr_exp.append([entries, [[c, s] for c, s in m.strands_sequences], rows])
                    corr_case.append(case)
                    # the three-line-per-strand text: names, sequences and the slices of the whole dot-bracket
                    dbl = m.dot_bracket.split("\n")
                    corr_expr.append(f"run_strand_texts {lit(gaps)} {rs} {lit(m.bpseq.dot_bracket.structure)}")
                    corr_exp.append([[nm[len(">strand_"):] if nm.startswith(">strand_") else nm, sq, st] for nm, sq, st in zip(dbl[0::3], dbl[1::3], dbl[2::3])] if m.strands_sequences else [])
                    corr_case.append(dict(case, compared="per-strand text"))
                    if len(ctx.coverage["samples"]) < 3 and lkind.startswith("multiplet"):
                        ctx.sample({**case, "extended": m.extended_dot_bracket})
    if not ctx.model_ok:
        return
    bad, err = ctx.coq_mismatches("corr", IMPORTS, corr_expr, corr_exp, shard=25, timeout=900)
    if err:
        ctx.violation("correspondence cases failed to evaluate", {"error": err}, has_input=False)
    if bad:
        shown = ctx.coq_show(IMPORTS, [corr_expr[i] for i in bad[:4]])
        for k, i in enumerate(bad[:10]):
            ctx.violation("model and implementation disagree on the 3D->2D mapping", {"case": corr_case[i], "implementation": repr(corr_exp[i])[:1200],
                                                                                    "model": shown[k][:1500] if k < len(shown) else None,
                                                                                    "correspondence": "Run.RGeo.run_mapping"}, has_input=False)
    ctx.coverage["correspondence_cases"] = len(corr_expr)
