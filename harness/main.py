"""./check Cxx [--tier quick|thorough] [--replay FILE]"""
import argparse
import importlib
import json
import os
import sys
import time
import traceback

sys.path.insert(0, os.path.dirname(os.path.dirname(os.path.abspath(__file__))))
from harness import core  # noqa: E402


def main():
    ap = argparse.ArgumentParser()
    ap.add_argument("prop")
    ap.add_argument("--tier", default=os.environ.get("VERIF_TIER", "quick"))
    ap.add_argument("--replay", default=None)
    args = ap.parse_args()
    tier = args.tier if args.tier in ("quick", "thorough") else "quick"
    seed = int(os.environ.get("VERIF_SEED", "0") or 0)
    prop = args.prop
    with core.Lock() as lock:
        core.LOCK = lock
        ctx = core.Ctx(prop, tier, seed)
        ctx.replay_file = args.replay
        mod = importlib.import_module(f"harness.{prop.lower()}")
        core.run_translator(ctx)
        fb = [s for m in ctx.translator.values() for s in m["sites"] if s["status"] != "translated"]
        for s in fb:
            ctx.note(f"translator fallback at {s['site']}: {s['detail']}")
        # a site the translator can no longer read, in a generated module this property's theorems or model depend on: the tie of
        # the model to that part of the source is lost (strict rule, DESIGN 0.1); reported unless a concrete violation is found
        mine = core.gen_closure([f"Props/{prop}.v"] + [t[:-1] if t.endswith(".vo") else t for t in getattr(mod, "RUN_TARGETS", [])])
        lost = [(m, s) for m, v in ctx.translator.items() if m in mine for s in v["sites"] if s["status"] != "translated"]
        # the model and its entry points (no proofs inside): needed by the correspondence
        model_ok = True
        run_targets = getattr(mod, "RUN_TARGETS", [])
        if run_targets:
            rc, out, err = core.make_targets(run_targets, timeout=900)
            if rc != 0:
                model_ok = False
                ctx.note("model build failed: " + err[-1200:])
        ctx.model_ok = model_ok
        core.check_props(ctx)
        if not ctx.proof["ok"]:
            ctx.note("proof obligations NOT discharged: " + str(ctx.proof.get("error"))[-1200:])
        hits = core.scan_forbidden()
        if hits:
            print("CHECK BROKEN: forbidden constructs in the Coq development:\n" + "\n".join(hits))
            sys.exit(2)
        lock.share()
        try:
            mod.run(ctx)
        except Exception:  # noqa: BLE001
            # The exploration could not be completed (typically: the implementation now behaves in a way the harness did not
            # foresee).  The property is then no longer shown to hold: reported as a violation without a failing input, with
            # the traceback as the replay, unless the part that did run already found concrete violations.
            tb = traceback.format_exc()
            print(tb)
            ctx.violation("the exploration crashed before completing", {"traceback": tb[-4000:]}, has_input=False)
        # verdict
        if not ctx.violations:
            for m, st in lost[:3]:
                ctx.violation("the translator can no longer read a source site this property's model is generated from",
                              {"generated_module": f"coq/Gen/{m}.v", "site": st["site"], "detail": st["detail"]}, has_input=False)
        if not ctx.violations:
            if not ctx.proof["ok"]:
                ctx.violation("proof obligation no longer checks", {
                    "broken": ctx.proof.get("failed_at", f"Props/{prop}.v"),
                    "error": ctx.proof.get("error"),
                    "searched": ctx.coverage["evaluations"]}, has_input=False)
            elif not model_ok:
                ctx.violation("model no longer builds against the regenerated Gen", {"broken": run_targets}, has_input=False)
        core.write_evidence(ctx, getattr(mod, "TRUSTED", None))
        rc = 0
        for what, path in ctx.violations[:5]:
            print(f"VIOLATION property={prop} replay={path}")
            rc = 1
        if len(ctx.violations) > 5:
            print(f"[{prop}] ... and {len(ctx.violations) - 5} more violations (replay files under build/replay/)")
        if not ctx.violations:
            for what, path in ctx.unexplained[:5]:
                print(f"VIOLATION property={prop} replay={path} no-failing-input-found")
                rc = 1
        print(f"[{prop}] tier={tier} seed={seed} evaluations={ctx.coverage['evaluations']} "
              f"distinct_nontrivial={len(ctx._distinct)} theorems={len(ctx.proof.get('theorems', []))} "
              f"proof_ok={ctx.proof['ok']} wall={time.time() - ctx.t0:.1f}s exit={rc}")
        sys.exit(rc)


if __name__ == "__main__":
    main()
