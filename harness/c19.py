"""C19 — external-tool output (FR3D listings, DSSR JSON) is imported totally and faithfully."""
import itertools
import json
import os
import re
import tempfile

from .core import Err, Nat, Raw, lit, coq_str, BUILD, VERIF

RUN_TARGETS = ["Run/RIO.vo", "Run/RSweep.vo"]
IMPORTS = "From RV Require Import Base.Val Base.PyStr Run.RIO Run.RSweep."
TRUSTED = ["oracles: orjson (DSSR documents are handed to the model already parsed), Python int() outside ASCII, text-mode line splitting",
           "strings are modelled as ASCII byte lists; generators stay within printable ASCII"]

ALPHA = "nactCTWHSwhsBRPh0359"
LW = ["cWW", "cWH", "cWS", "cHW", "cHH", "cHS", "cSW", "cSH", "cSS", "tWW", "tWH", "tWS", "tHW", "tHH", "tHS", "tSW", "tSH", "tSS"]
STACK = {"s33": "downward", "s55": "upward", "s35": "outward", "s53": "inward"}


def oracle(label):
    """the label language as the property states it (independent of the code)"""
    s = label
    if s.startswith("n"):
        s = s[1:]
    if len(s) >= 3 and s.endswith("a"):
        s = s[:-1]
    if re.fullmatch(r"[0-9]BR", s):
        return ("base-ribose", s)
    if re.fullmatch(r"[0-9]BPh", s):
        return ("base-phosphate", s)
    if s in STACK:
        return ("stacking", STACK[s])
    if len(s) == 3:
        c = s[0].lower() + s[1:].upper()
        if c in LW:
            return ("base-pair", c)
    return ("other", None)


def impl_unify(label):
    from rnapolis.adapter import unify_classification
    try:
        cat, cls = unify_classification(label)
        return [cat, None if cls is None else cls.value]
    except Exception as e:  # noqa: BLE001
        return Err(type(e).__name__)


def code_of(res):
    if isinstance(res, Err):
        return 90
    cat, cls = res
    if cat == "other":
        return 0
    if cat == "base-pair":
        return 1 + LW.index(cls)
    if cat == "stacking":
        return 19 + ["upward", "downward", "inward", "outward"].index(cls)
    if cat == "base-ribose":
        return 23 + int(cls[0])
    if cat == "base-phosphate":
        return 33 + int(cls[0])
    return 91


def resid(r):
    return [r.auth.chain, r.auth.number, r.auth.icode, r.auth.name]


def impl_import(text):
    from rnapolis.adapter import parse_fr3d_output
    with tempfile.NamedTemporaryFile("w", suffix=".txt", delete=False, dir=os.path.join(BUILD, "c19")) as f:
        f.write(text)
        path = f.name
    try:
        bi = parse_fr3d_output(path)
        out = []
        for bp in bi.basePairs:
            out.append(["base-pair", resid(bp.nt1), resid(bp.nt2), bp.lw.value])
        for st in bi.stackings:
            out.append(["stacking", resid(st.nt1), resid(st.nt2), st.topology.value])
        for x in bi.baseRiboseInteractions:
            out.append(["base-ribose", resid(x.nt1), resid(x.nt2), x.br.value])
        for x in bi.basePhosphateInteractions:
            out.append(["base-phosphate", resid(x.nt1), resid(x.nt2), x.bph.value])
        for x in bi.otherInteractions:
            out.append(["other", resid(x.nt1), resid(x.nt2), None])
        return out
    except Exception as e:  # noqa: BLE001
        return Err(type(e).__name__)
    finally:
        os.unlink(path)


CAT_ORDER = ["base-pair", "stacking", "base-ribose", "base-phosphate", "other"]


def gen_unit(rng, bad=False):
    chain = rng.choice(["A", "B", "AA", "0", "x"])
    num = str(rng.randint(-20, 3000))
    name = rng.choice(["A", "C", "G", "U", "DA", "PSU", "5MC"])
    icode = rng.choice(["", "", "", "A", "B"])
    # FR3D unit ids have up to nine fields: PDB|model|chain|name|number|atom|altloc|icode|symmetry operator
    fields = ["1EHZ", str(rng.randint(1, 3)), chain, name, num, "", "", icode, rng.choice(["6_555", "1_555", ""])]
    cut = rng.choice([8, 8, 9, 9, 5, 7])
    fields = fields[:cut]
    if bad:
        k = rng.choice(["short", "nonint", "empty", "spaces", "underscore", "plus", "float"])
        if k == "short":
            fields = fields[:rng.randint(1, 4)]
        elif k == "nonint":
            fields[4] = rng.choice(["x", "12a", "", "-", "1-2", "++1"])
        elif k == "empty":
            return ""
        elif k == "spaces":
            fields[4] = " " + fields[4] + " "
        elif k == "underscore":
            fields[4] = rng.choice(["1_0", "_1", "1_", "1__0", "-1_2"])
        elif k == "plus":
            fields[4] = "+" + fields[4].lstrip("-")
        elif k == "float":
            fields[4] = "1.0"
    return "|".join(fields)


def truth_of(unit):
    """(chain, number, icode, name) of a plainly well-formed unit id; 'bad' when a field is missing / not a plain integer;
    None when the text is in the grey zone (spaces, underscores, signs) that only the model decides"""
    f = unit.split("|")
    if len(f) < 5:
        return "bad"
    num = f[4]
    if re.fullmatch(r"-?[0-9]+", num):
        ic = f[7] if len(f) >= 8 and f[7] != "" else None
        return [f[2], int(num), ic, f[3]]
    if re.fullmatch(r"[0-9a-zA-Z.]*[a-zA-Z.][0-9a-zA-Z.]*", num) or num in ("", "-", "1-2", "++1"):
        return "bad"
    return None


def gen_label(rng):
    r = rng.random()
    if r < 0.35:
        l = rng.choice(LW)
        l = "".join(c.upper() if rng.random() < 0.5 else c.lower() for c in l)
        return ("n" if rng.random() < 0.3 else "") + l + ("a" if rng.random() < 0.3 else "")
    if r < 0.5:
        return rng.choice(list(STACK) + ["s36", "s3", "S35", "ns35", "s55a"])
    if r < 0.7:
        return str(rng.randint(0, 9)) + rng.choice(["BPh", "BR", "Bph", "br", "BPha"])
    return "".join(rng.choice(ALPHA + "xyz_ ") for _ in range(rng.randint(0, 6)))


def run(ctx):
    os.makedirs(os.path.join(BUILD, "c19"), exist_ok=True)
    rng = ctx.rng
    ctx.coverage["rule"] = ("labels: every string of length <= L (L = 4 quick, 5 thorough) over the 20-letter FR3D alphabet, swept inside Coq against the "
                            "implementation's answers; listings: generated lines mixing valid, near-valid and malformed unit ids/labels; DSSR documents generated "
                            "from a corpus structure's residue names. Non-trivial = label/line is not empty or a comment; distinct by text.")
    # ---- 1. exhaustive label sweep, evaluated inside Coq: the expected answers travel as one code character per label
    L = 4 if ctx.quick else 5
    sweep_expr, sweep_exp, sweep_meta = [], [], []
    n_labels = 0
    for n in range(0, L + 1):
        firsts = [""] if n <= 3 else list(ALPHA)
        for first in firsts:
            m = n - len(first)
            codes = []
            for tup in itertools.product(ALPHA, repeat=m):
                lab = first + "".join(tup)
                r = impl_unify(lab)
                o = oracle(lab)
                n_labels += 1
                if isinstance(r, Err):
                    ctx.violation(f"unify_classification raised {r.kind}", {"label": lab})
                elif tuple(r) != o:
                    ctx.violation("label is filed under the wrong category/class", {"label": lab, "implementation": r, "expected": list(o)})
                codes.append(chr(40 + code_of(r)))
            sweep_expr.append(f"run_sweep {lit(first)} {lit(Nat(m))} {lit(''.join(codes))}")
            sweep_exp.append([])
            sweep_meta.append((first, m))
    ctx.coverage["evaluations"] += n_labels
    for i in range(min(n_labels, 200000)):
        pass
    ctx._distinct.update(("label", i) for i in range(n_labels - 1))
    ctx.hist["labels-exhaustive"] = n_labels
    # ---- 1b. affix family: every valid label (and its case variants) under repeated / misplaced 'n' prefixes and 'a' suffixes,
    # beyond the length the exhaustive sweep reaches: only ONE optional n prefix and ONE optional a suffix belong to the notation
    corr_expr, corr_exp, corr_case = [], [], []
    cores = []
    for l in LW:
        cores += [l, l.lower(), l.upper(), l[0].upper() + l[1:].lower()]
    cores += list(STACK) + [f"{d}BPh" for d in range(10)] + [f"{d}BR" for d in range(10)] + ["s34", "cWX", "10BR", "BPh"]
    n_affix = 0
    for pre in ("", "n", "nn", "nnn", "N", "a", "an", "na"):
        for suf in ("", "a", "aa", "n", "an", "na", "A"):
            for core in cores:
                lab = pre + core + suf
                if len(lab) <= L:
                    continue        # already swept
                r = impl_unify(lab)
                o = oracle(lab)
                n_affix += 1
                ctx.count(("affix", lab), True, "label-affix")
                if isinstance(r, Err):
                    ctx.violation(f"unify_classification raised {r.kind}", {"label": lab})
                    continue
                if tuple(r) != o:
                    ctx.violation("label is filed under the wrong category/class", {"label": lab, "implementation": r, "expected": list(o)})
                corr_expr.append(f"run_unify {lit(lab)}")
                corr_exp.append(r)
                corr_case.append({"label": lab})
    ctx.coverage["affix_labels"] = n_affix
    # ---- 2. listings
    for _ in range(150 if ctx.quick else 1500):
        lines = []
        for _ in range(rng.randint(1, 8)):
            r = rng.random()
            if r < 0.6:
                line = "\t".join([gen_unit(rng), gen_label(rng), gen_unit(rng)] + (["extra", "0"] if rng.random() < 0.3 else []))
            elif r < 0.75:
                line = "\t".join([gen_unit(rng, bad=rng.random() < 0.7), gen_label(rng), gen_unit(rng, bad=rng.random() < 0.7)])
            elif r < 0.85:
                line = rng.choice(["", "# comment", "   ", "#", "a\tb", "only-one-field", "\t\t", " \tx\ty"])
            else:
                line = "  " + "\t".join([gen_unit(rng), gen_label(rng), gen_unit(rng)]) + "  "
            lines.append(line)
        text = "\n".join(lines) + ("\n" if rng.random() < 0.8 else "")
        ctx.count(("listing", text), any(l.strip() and not l.strip().startswith("#") for l in lines), "listing")
        got = impl_import(text)
        if isinstance(got, Err):
            ctx.violation(f"importing an FR3D listing raised {got.kind}", {"listing": text})
            continue
        # spec: every line with two well-formed unit ids (as generated) yields exactly one interaction between exactly those residues
        want = []
        for l in lines:
            st = l.strip()
            if not st or st.startswith("#"):
                continue
            parts = st.split("\t")
            if len(parts) < 3:
                continue
            t1, t2 = truth_of(parts[0]), truth_of(parts[2])
            if t1 is None or t2 is None:
                want = None
                break
            if t1 == "bad" or t2 == "bad":
                continue
            cat, cls = oracle(parts[1])
            want.append([cat, t1, t2, cls])
        if want is not None:
            wanted = [w for c in CAT_ORDER for w in want if w[0] == c]
            if got != wanted:
                ctx.violation("a listing line is not imported as exactly one interaction between exactly the residues its unit ids name",
                              {"listing": text, "imported": got, "expected": wanted})
        # the implementation files interactions per category; the model keeps file order: compare per category
        model_lines = text.split("\n")
        if model_lines and model_lines[-1] == "":
            model_lines = model_lines[:-1]
        corr_expr.append(f"run_import_sorted {lit(model_lines)}")
        corr_exp.append(got)
        corr_case.append({"listing": text})
        if len(ctx.coverage["samples"]) < 2:
            ctx.sample({"listing": text, "imported": got})
    # ---- 3. unit ids and int()
    from rnapolis.adapter import parse_unit_id
    for _ in range(200 if ctx.quick else 2000):
        u = gen_unit(rng, bad=rng.random() < 0.5)
        ctx.count(("unit", u), bool(u), "unit-id")
        try:
            r = resid(parse_unit_id(u))
        except Exception as e:  # noqa: BLE001
            r = Err(type(e).__name__)
        corr_expr.append(f"run_unit_id {lit(u)}")
        corr_exp.append(r)
        corr_case.append({"unit_id": u})
    ints = ["0", "7", "-7", "+7", " 12 ", "1_000", "_1", "1_", "1__0", "", " ", "-", "+", "--1", "007", "-0", "12a", "1 2", "\t5\n", "9" * 25]
    for _ in range(100 if ctx.quick else 1000):
        ints.append("".join(rng.choice("0123456789_+- ") for _ in range(rng.randint(0, 6))))
    for s in ints:
        ctx.count(("int", s), bool(s.strip()), "int()")
        try:
            r = int(s)
        except ValueError:
            r = Err("ValueError")
        corr_expr.append(f"run_parse_int {lit(s)}")
        corr_exp.append(r)
        corr_case.append({"int_text": s})
    # ---- 4. DSSR
    from rnapolis.adapter import parse_dssr_output
    from rnapolis.parser import read_3d_structure
    with open(os.path.join(VERIF, "corpus", "1DFU_1_M-N.cif")) as f:
        s3 = read_3d_structure(f, None)
    names = [r.full_name for r in s3.residues]
    index = {id(r): i for i, r in enumerate(s3.residues)}
    for _ in range(60 if ctx.quick else 600):
        def nm():
            r = rng.random()
            if r < 0.7:
                return rng.choice(["", "1:", "model1:"]) + rng.choice(names)
            if r < 0.85:
                return rng.choice(["A.X999", "", "Z.G1", names[0] + "x"])
            return None
        pairs = []
        for _ in range(rng.randint(0, 6)):
            lw = rng.choice(LW + LW + ["cww", "XYZ", "--", "", None, "__doc__", "reverse", "name", "cW", "__members__"])
            pairs.append({"nt1": nm(), "nt2": nm(), "LW": lw})
            if rng.random() < 0.2:
                del pairs[-1]["LW"]
        stacks = [{"nts_long": ",".join((nm() or "?") for _ in range(rng.randint(1, 5)))} for _ in range(rng.randint(0, 3))]
        doc = {"pairs": pairs, "stacks": stacks}
        ctx.count(("dssr", json.dumps(doc, sort_keys=True)), bool(pairs or stacks), "dssr")
        path = os.path.join(BUILD, "c19", "dssr.json")
        json.dump(doc, open(path, "w"))
        try:
            bi = parse_dssr_output(path, s3)
            gp = [[index[id(bp.nt1)], index[id(bp.nt2)], bp.lw.value] for bp in bi.basePairs]
            gs = [[index[id(st.nt1)], index[id(st.nt2)]] for st in bi.stackings]
        except Exception as e:  # noqa: BLE001
            ctx.violation(f"importing a DSSR document raised {type(e).__name__}", {"document": doc})
            continue
        # spec, directly: exactly the pairs with a valid class whose names resolve; consecutive resolving stack members
        def resolve(x):
            if x is None:
                return None
            x = x.split(":")[-1]
            return names.index(x) if x in names else None
        wp = [[resolve(p.get("nt1")), resolve(p.get("nt2")), p.get("LW")] for p in pairs
              if p.get("LW") in LW and resolve(p.get("nt1")) is not None and resolve(p.get("nt2")) is not None]
        ws = []
        for st in stacks:
            rs = [resolve(x) for x in st["nts_long"].split(",")]
            ws += [[a, b] for a, b in zip(rs, rs[1:]) if a is not None and b is not None]
        if gp != wp or gs != ws:
            ctx.violation("DSSR import does not keep exactly the resolvable, validly classed entries", {"document": doc, "pairs": gp, "expected_pairs": wp, "stackings": gs, "expected_stackings": ws})
        opt = lambda x: Raw("None") if x is None else Raw(f"(Some {lit(x)})")  # noqa: E731
        corr_expr.append(f"run_dssr_pairs {lit(names)} {lit([(opt(p.get('nt1')), opt(p.get('nt2')), opt(p.get('LW'))) for p in pairs])}")
        corr_exp.append(gp)
        corr_case.append({"dssr": doc})
        for st in stacks:
            corr_expr.append(f"run_dssr_stack {lit(names)} {lit(st['nts_long'])}")
            rs = [resolve(x) for x in st["nts_long"].split(",")]
            corr_exp.append([[a, b] for a, b in zip(rs, rs[1:]) if a is not None and b is not None])
            corr_case.append({"dssr_stack": st})
    if not ctx.model_ok:
        return
    bad, err = ctx.coq_mismatches("sweep", IMPORTS, sweep_expr, sweep_exp, shard=4, timeout=1200)
    if err:
        ctx.violation("label sweep failed to evaluate", {"error": err}, has_input=False)
    for i in bad:
        first, m = sweep_meta[i]
        shown = ctx.coq_show(IMPORTS, [sweep_expr[i]])
        ctx.violation("generated model of unify_classification and the implementation disagree on some label",
                      {"prefix": first, "suffix_length": m, "indices_of_disagreeing_labels (enumeration order)": shown,
                       "correspondence": "Run.RSweep.run_sweep"}, has_input=False)
    bad, err = ctx.coq_mismatches("corr", IMPORTS, corr_expr, corr_exp, shard=200)
    if err:
        ctx.violation("correspondence cases failed to evaluate", {"error": err}, has_input=False)
    if bad:
        shown = ctx.coq_show(IMPORTS, [corr_expr[i] for i in bad[:5]])
        for n, i in enumerate(bad[:10]):
            ctx.violation("model and implementation disagree", {"case": corr_case[i], "implementation": corr_exp[i],
                                                                "model": shown[n] if n < len(shown) else None,
                                                                "correspondence": "Run.RIO." + corr_expr[i].split()[0]}, has_input=False)
    ctx.coverage["labels_swept"] = n_labels
    ctx.coverage["exhaustive"] = True
    ctx.coverage["exhaustive_bound"] = f"all label strings of length <= {L} over {ALPHA!r}"
