"""C14 — outputs are a deterministic function of the input (across calls, processes, hash seeds)."""
import json
import os
import subprocess
import concurrent.futures

from . import gen2d, impl2d
from .c01 import component_sizes
from .core import BUILD, VERIF, PY

RUN_TARGETS = []
TRUSTED = ["partial by nature: the theorems cover order-independence of the modelled set iterations; that CPython/numpy/pandas/scipy "
           "have no other source of non-determinism is exploration (fresh interpreters under several PYTHONHASHSEED values)",
           "translator/t_itersites.py: heuristic scan for iteration over set-typed expressions"]

CORPUS_QUICK = ["1DFU_1_M-N.cif", "1E7K_1_C.cif", "1HMH_1_E.cif", "4WTI_1_T-P.cif", "6INQ.cif", "184D.cif", "1JJP.cif", "488d.pdb",
                "8btk_B7.cif", "4qln.cif"]     # the last two have equally supported, mutually exclusive edge assignments (ties in most_common)
CORPUS_MORE = ["1A1T_1_B.cif", "1ehz-assembly-1.cif", "q-ugg-5k-salt_400-500ns_frame1065.pdb", "2HY9.cif"]


def run(ctx):
    ctx.coverage["rule"] = ("generated secondary structures (knotted layouts whose all-dot-brackets list has several members) and corpus 3D files; "
                            "every output digested in fresh interpreters under PYTHONHASHSEED in {0,1,2,...,'random'} and twice in-process. "
                            "Non-trivial = all-dot-brackets has >= 2 members (2D) or the annotation is non-empty (3D); distinct by input.")
    jobs = []
    rng = ctx.rng
    n2d = 40 if ctx.quick else 300
    tries = 0
    while len([j for j in jobs if j["type"] == "2d"]) < n2d and tries < 5000:
        tries += 1
        p = gen2d.layout(rng, rng.randint(2, 7), maxlen=rng.choice([1, 2, 3]), maxgap=rng.choice([0, 1, 2]))
        seq = gen2d.seq_for(rng, len(p))
        if any(s > 5 for s in component_sizes(impl2d.mk(seq, p))):
            continue
        jobs.append({"type": "2d", "id": f"2d-{len(jobs)}", "sequence": seq, "pairs": p})
    jobs.append({"type": "2d", "id": "2d-design-witness", "sequence": "A" * 14, "pairs": [8, 7, 10, 9, 12, 11, 2, 1, 4, 3, 6, 5, 0, 0]})
    files = CORPUS_QUICK + ([] if ctx.quick else CORPUS_MORE)
    for fn in files:
        jobs.append({"type": "3d", "id": "3d-" + fn, "path": os.path.join(VERIF, "corpus", fn), "write": fn in ("1DFU_1_M-N.cif", "488d.pdb", "184D.cif")})
        jobs.append({"type": "3d", "id": "3d-gaps-" + fn, "path": os.path.join(VERIF, "corpus", fn), "find_gaps": True})
    # external pair lists with equally ranked conflicting canonical pairs (ties of the conflict-resolution sort key)
    from . import geo
    for fn in ["1E7K_1_C.cif", "1A1T_1_B.cif"] + ([] if ctx.quick else ["1ehz-assembly-1.cif"]):
        s3 = geo.load3d(fn)
        nuc = [i for i, r in enumerate(s3.residues) if r.is_nucleotide]
        gs = [i for i in nuc if s3.residues[i].one_letter_name == "G"]
        cs = [i for i in nuc if s3.residues[i].one_letter_name == "C"]
        us = [i for i in nuc if s3.residues[i].one_letter_name == "U"]
        for k in range(4 if ctx.quick else 20):
            pairs = []
            if len(gs) >= 2 and len(cs) >= 2:
                g1, g2 = rng.sample(gs, 2)
                c1, c2 = rng.sample(cs, 2)
                # three mutually conflicting G-C pairs of the same rank
                pairs += [(g1, c1, "cWW", "XIX"), (g1, c2, "cWW", "XIX"), (g2, c1, "cWW", "XIX")]
            if len(gs) >= 1 and len(us) >= 2:
                g = rng.choice(gs)
                u1, u2 = rng.sample(us, 2)
                pairs += [(g, u1, "cWW", "XXVIII"), (g, u2, "cWW", "XXVIII")]
            rng.shuffle(pairs)
            if pairs:
                jobs.append({"type": "map", "id": f"map-{fn}-{k}", "path": os.path.join(VERIF, "corpus", fn), "pairs": pairs, "find_gaps": bool(k % 2)})
    # the adapter tool: an external tool's listing imported onto a structure (CSV, JSON, BPSEQ, printed notation)
    for ext in (False, True):
        jobs.append({"type": "adapter", "id": "adapter-fr3d-184D" + ("-e" if ext else ""), "path": os.path.join(VERIF, "corpus", "184D.cif"),
                     "external": os.path.join(VERIF, "corpus", "184D-fr3d.txt"), "tool": "fr3d", "extended": ext})
    # the other command-line tools: clash report and CSV, element listing, mmCIF item editing
    os.makedirs(os.path.join(BUILD, "c14"), exist_ok=True)
    dbn = os.path.join(BUILD, "c14", "knot.dbn")
    open(dbn, "w").write(">knot\nGGGGAAACCCCAAAGGGGAAACCCCAAAGGGAAACCCAAA\n((((...[[[[...))))...]]]]...(((...)))...\n")
    jobs.append({"type": "tool", "id": "tool-clashfinder", "module": "rnapolis.clashfinder",
                 "argv": [os.path.join(VERIF, "corpus", "1E7K_1_C.cif"), "--ignore-occupancy", "--enable-molprobity-mode", "--csv", "{d}/clashes.csv"]})
    jobs.append({"type": "tool", "id": "tool-motif-extractor", "module": "rnapolis.motif_extractor", "argv": ["--dbn", dbn]})
    jobs.append({"type": "tool", "id": "tool-motif-extractor-pk", "module": "rnapolis.motif_extractor", "argv": ["--dbn", dbn, "--remove-pseudoknots"]})
    jobs.append({"type": "tool", "id": "tool-transformer", "module": "rnapolis.transformer",
                 "argv": [os.path.join(VERIF, "corpus", "1DFU_1_M-N.cif"), "{d}/out.cif", "--category", "atom_site", "--replace", "auth_asym_id", "--values", "ZYXWVUTS"]})
    jobfile = os.path.join(BUILD, "c14", "jobs.json")
    json.dump(jobs, open(jobfile, "w"))
    seeds = ["0", "1", "2", "random"] if ctx.quick else ["0", "1", "2", "3", "4", "5", "17", "4242", "random", "random"]

    def one(seed):
        env = dict(os.environ, PYTHONHASHSEED=seed, PYTHONPATH="/repo/src", LOGLEVEL="CRITICAL")
        r = subprocess.run([PY, os.path.join(VERIF, "harness", "c14_worker.py"), jobfile], capture_output=True, text=True, env=env, timeout=3000)
        res = {}
        for line in r.stdout.splitlines():
            try:
                d = json.loads(line)
                res[d["id"]] = d["out"]
            except Exception:  # noqa: BLE001
                pass
        return seed, res, r.stderr[-500:]

    with concurrent.futures.ThreadPoolExecutor(max_workers=len(seeds)) as ex:
        results = list(ex.map(one, seeds))
    base_seed, base, _ = results[0]
    for job in jobs:
        jid = job["id"]
        outs = [(s, r.get(jid)) for s, r, _ in results]
        ref = outs[0][1]
        nontrivial = ref is not None and "error" not in ref and (("|" in ref.get("all_dot_brackets", "")) if job["type"] == "2d" else True)
        if job["type"] == "map":
            ctx.hist["map"] = ctx.hist.get("map", 0)
        ctx.count(jid + json.dumps(job.get("pairs", job.get("path"))), nontrivial, job["type"])
        if ref is None or "error" in (ref or {}):
            ctx.violation("worker failed to produce outputs", {"job": job, "output": ref, "stderr": results[0][2]}, has_input=False)
            continue
        if ref.get("in_process_repeat_differs"):
            ctx.violation("outputs differ between two calls in one process", {"job": job, "seed": base_seed})
        for s, o in outs[1:]:
            if o != ref:
                diff = [k for k in ref if (o or {}).get(k) != ref[k]]
                ctx.violation(f"outputs differ between PYTHONHASHSEED={base_seed} and {s}: {diff}",
                              {"job": job, "seeds": [base_seed, s], "differing_outputs": diff,
                               "a": {k: ref[k] for k in diff}, "b": {k: (o or {}).get(k) for k in diff}})
                break
    ctx.sample({"job": jobs[0], "digests": base.get(jobs[0]["id"])})
    ctx.sample({"job": jobs[-1], "digests": base.get(jobs[-1]["id"])})
    ctx.coverage["hash_seeds"] = seeds
    ctx.coverage["outputs_compared"] = ["bpseq", "dot_bracket", "fcfs", "all_dot_brackets (in order)", "elements", "json", "csv", "extended", "interactions", "written_pdb", "written_cif"]
