"""C20 — mmCIF item editing changes only its target; CLI output equals library result."""
import os
import subprocess
import tempfile

from .core import Err, lit, BUILD, VERIF, PY

RUN_TARGETS = ["Run/RIO.vo"]
IMPORTS = "From RV Require Import Base.Val Base.PyStr Run.RIO."
TRUSTED = ["oracle: the mmcif library's tokenizer and writer (IoAdapterPy): documents are compared after parsing the implementation's "
           "output with the implementation's own reader; quoting/whitespace of rewritten files is not part of the comparison",
           "category order in the rewritten file is not compared (the edited category is re-appended by the library)"]


def parse(text):
    from mmcif.io.IoAdapterPy import IoAdapterPy
    os.makedirs(os.path.join(BUILD, "c20"), exist_ok=True)
    with tempfile.NamedTemporaryFile("wt", suffix=".cif", dir=os.path.join(BUILD, "c20"), delete=False) as f:
        f.write(text)
        path = f.name
    try:
        data = IoAdapterPy().readFile(path)
    finally:
        os.unlink(path)
    if not data:
        return None
    out = []
    for name in data[0].getObjNameList():
        c = data[0].getObj(name)
        out.append((name, list(c.getAttributeList()), [[str(v) for v in row] for row in c.getRowList()]))
    return out


def canon(doc):
    return sorted([[n, a, r] for n, a, r in doc])


def quote(v):
    if v == "" or any(ch in v for ch in " \t") or v[0] in "_#$'\"[];" or v.lower().startswith(("data_", "loop_", "save_", "global_", "stop_")):
        return "'" + v + "'" if "'" not in v else '"' + v + '"'
    return v


def emit(doc, loop_style):
    lines = ["data_gen", "#"]
    for (name, attrs, rows), loop in zip(doc, loop_style):
        if loop or len(rows) != 1:
            lines.append("loop_")
            for a in attrs:
                lines.append(f"_{name}.{a}")
            for r in rows:
                lines.append(" ".join(quote(v) for v in r))
        else:
            for a, v in zip(attrs, rows[0]):
                lines.append(f"_{name}.{a} {quote(v)}")
        lines.append("#")
    return "\n".join(lines) + "\n"


VALUES = ["A", "B", "AA", "A-2", "x1", "1", "2.50", "?", ".", "two words", "it's", "HOH", "C1'", "N", "0", "-3.5", "ATOM", "q r s"]
ATTRS = ["id", "label_asym_id", "auth_asym_id", "type_symbol", "Cartn_x", "group_PDB", "auth_seq_id", "pdbx_PDB_ins_code", "value", "details"]
CATS = ["atom_site", "entity", "struct_asym", "cell", "pdbx_struct_assembly", "chem_comp"]


def gen_doc(rng):
    ncat = rng.randint(1, 4)
    names = rng.sample(CATS, ncat)
    if rng.random() < 0.8 and "atom_site" not in names:
        names[0] = "atom_site"
    doc, loops = [], []
    for n in names:
        attrs = rng.sample(ATTRS, rng.randint(2, 6))
        nrows = rng.choice([1, 1, 2, 3, 5, 8])
        pool = rng.sample(VALUES, rng.randint(2, 6))
        rows = [[rng.choice(pool) for _ in attrs] for _ in range(nrows)]
        doc.append((n, attrs, rows))
        loops.append(rng.random() < 0.7)
    return doc, loops


def run(ctx):
    from rnapolis.transformer import copy_from_to, replace_value
    rng = ctx.rng
    ctx.coverage["rule"] = ("generated multi-category documents (loop and key-value categories; quoted, multi-word, '?', '.' values) and corpus files; "
                            "all kinds of category/item choices: present, absent category, absent source, new target item, alphabet too short. "
                            "Non-trivial = target category has >= 2 rows and another category exists; distinct by (document, arguments).")
    corr_expr, corr_exp, corr_case = [], [], []
    docs = []
    for _ in range(120 if ctx.quick else 1200):
        d, loops = gen_doc(rng)
        docs.append(emit(d, loops))
    for fn in ["1DFU_1_M-N.cif", "6INQ.cif"] + ([] if ctx.quick else ["4WTI_1_T-P.cif", "1HMH_1_E.cif"]):
        docs.append(open(os.path.join(VERIF, "corpus", fn)).read())
    ncli = 0
    for text in docs:
        din = parse(text)
        if din is None:
            continue
        cats = [n for n, _, _ in din]
        for trial in range(3):
            cat = rng.choice(cats + ["absent_cat"]) if rng.random() < 0.85 else "absent_cat"
            attrs = next((a for n, a, _ in din if n == cat), [])
            nrows = next((len(r) for n, _, r in din if n == cat), 0)
            if len(text) > 20000 and cat not in ("atom_site", "absent_cat"):
                cat = "atom_site"
                attrs = next((a for n, a, _ in din if n == cat), [])
            src = rng.choice(attrs + ["absent_item"]) if attrs else "x"
            dst = rng.choice(attrs + ["new_item"]) if attrs else "y"
            alphabet = rng.choice(["ABCDEFGHIJKLMNOPQRSTUVWXYZ", "AB", "A", "xyzw", "0123456789abcdefghijklmnopqrstuvwxyzABCDEFGHIJKLMNOPQRSTUVWXYZ"])
            nontriv = nrows >= 2 and len(cats) >= 2
            small = len(text) <= 20000
            # ---- copy
            case = {"document": text if small else "<corpus file>", "category": cat, "copy_from": src, "copy_to": dst}
            ctx.count(("copy", text[:4000], cat, src, dst), nontriv, "copy")
            try:
                out = copy_from_to(text, cat, src, dst)
                got = None if out == text else canon(parse(out))
                if out != text and (cat not in cats or src not in attrs):
                    ctx.violation("copy with a missing category/source item did not leave the file untouched", {"case": case})
            except Exception as e:  # noqa: BLE001
                got = Err(type(e).__name__)
                ctx.violation(f"copy_from_to raised {type(e).__name__}", {"case": case})
            if not isinstance(got, Err):
                why = spec_copy(din, cat, src, dst, got)
                if why:
                    ctx.violation(why, {"case": case, "result": got})
                if small:
                    corr_expr.append(f"run_copy_sorted {lit(din)} {lit(cat)} {lit(src)} {lit(dst)}")
                    corr_exp.append(got)
                    corr_case.append(case)
            # ---- replace
            col = src
            case = {"document": text if small else "<corpus file>", "category": cat, "column": col, "values": alphabet}
            ctx.count(("replace", text[:4000], cat, col, alphabet), nontriv, "replace")
            try:
                out, mapping = replace_value(text, cat, col, alphabet)
                got = None if out == text and mapping == {} else [canon(parse(out)), [[k, v] for k, v in mapping.items()]]
            except IndexError:
                got = Err("IndexError")
            except Exception as e:  # noqa: BLE001
                got = Err(type(e).__name__)
                ctx.violation(f"replace_value raised {type(e).__name__}", {"case": case})
            why = spec_replace(din, cat, col, alphabet, got)
            if why:
                ctx.violation(why, {"case": case, "result": repr(got)})
            if small:
                corr_expr.append(f"run_replace_sorted {lit(din)} {lit(cat)} {lit(col)} {lit(alphabet)}")
                corr_exp.append(got)
                corr_case.append(case)
            # ---- CLI = library (a few per run: each is a fresh interpreter)
            if ncli < (12 if ctx.quick else 80) and small and trial == 0:
                ncli += 1
                d = os.path.join(BUILD, "c20")
                pin, pout = os.path.join(d, "in.cif"), os.path.join(d, "out.cif")
                open(pin, "w").write(text)
                for args, expect in ((["--category", cat, "--copy-from", src, "--copy-to", dst], lambda: copy_from_to(text, cat, src, dst)),
                                     (["--category", cat, "--replace", col, "--values", alphabet], lambda: replace_value(text, cat, col, alphabet)[0])):
                    if os.path.exists(pout):
                        os.unlink(pout)
                    try:
                        want = expect()
                    except IndexError:
                        continue
                    r = subprocess.run([PY, "-m", "rnapolis.transformer", pin, pout] + args, capture_output=True, text=True,
                                       env=dict(os.environ, PYTHONPATH="/repo/src"))
                    ctx.count(("cli", text[:2000], tuple(args)), True, "cli")
                    gotf = open(pout).read() if os.path.exists(pout) else None
                    if gotf != want:
                        ctx.violation("the command-line tool does not write what the library function returns",
                                      {"document": text, "arguments": args, "written": gotf, "library": want, "stderr": r.stderr[-300:]})
        if len(ctx.coverage["samples"]) < 2 and len(text) < 1500:
            ctx.sample({"document": text})
    if not ctx.model_ok:
        return
    bad, err = ctx.coq_mismatches("corr", IMPORTS, corr_expr, corr_exp, shard=100)
    if err:
        ctx.violation("correspondence cases failed to evaluate", {"error": err}, has_input=False)
    if bad:
        shown = ctx.coq_show(IMPORTS, [corr_expr[i] for i in bad[:5]])
        for n, i in enumerate(bad[:10]):
            ctx.violation("model and implementation disagree", {"case": corr_case[i], "implementation": repr(corr_exp[i]),
                                                                "model": shown[n] if n < len(shown) else None,
                                                                "correspondence": "Run.RIO." + corr_expr[i].split()[0]}, has_input=False)
    ctx.coverage["correspondence_cases"] = len(corr_expr)
    ctx.coverage["cli_runs"] = ncli * 2


def spec_copy(din, cat, src, dst, got):
    """the property, decided directly on the parsed documents"""
    names = [n for n, _, _ in din]
    attrs = next((a for n, a, _ in din if n == cat), None)
    if cat not in names or src not in attrs:
        return None if got is None else "missing category/source: file not left untouched"
    if got is None:
        # legitimately unchanged text only if the copy is a no-op
        rows = next(r for n, _, r in din if n == cat)
        i = attrs.index(src)
        if dst in attrs and all(r[attrs.index(dst)] == r[i] for r in rows):
            return None
        return "copy had no effect"
    gd = {n: (a, r) for n, a, r in got}
    for n, a, r in din:
        if n != cat and gd.get(n) != (a, r):
            return f"category {n} changed"
    a2, r2 = gd.get(cat, (None, None))
    rows = next(r for n, _, r in din if n == cat)
    want_attrs = attrs if dst in attrs else attrs + [dst]
    if a2 != want_attrs or len(r2) != len(rows):
        return "attributes or row count of the target category changed unexpectedly"
    i, j = want_attrs.index(src), want_attrs.index(dst)
    for old, new in zip(rows, r2):
        if new[j] != old[i]:
            return "target item does not equal the source item"
        if [v for k, v in enumerate(new) if k != j] != [v for k, v in enumerate(old) if k != j]:
            return "another item of the target category changed"
    return None


def spec_replace(din, cat, col, alphabet, got):
    names = [n for n, _, _ in din]
    attrs = next((a for n, a, _ in din if n == cat), None)
    if cat not in names or col not in attrs:
        return None if got is None else "missing category/item: file not left untouched"
    rows = next(r for n, _, r in din if n == cat)
    i = attrs.index(col)
    seen = []
    for r in rows:
        if r[i] not in seen:
            seen.append(r[i])
    if len(seen) > len(alphabet):
        return None if isinstance(got, Err) and got.kind == "IndexError" else "alphabet too short but no IndexError"
    if isinstance(got, Err):
        return f"unexpected {got.kind}"
    if got is None:
        return None if not rows else "replace had no effect"
    doc, mapping = got
    want = [[v, alphabet[k]] for k, v in enumerate(seen)]
    if mapping != want:
        return "returned mapping is not the first-seen mapping onto the alphabet"
    gd = {n: (a, r) for n, a, r in doc}
    for n, a, r in din:
        if n != cat and gd.get(n) != (a, r):
            return f"category {n} changed"
    a2, r2 = gd.get(cat, (None, None))
    if a2 != attrs or len(r2) != len(rows):
        return "attributes or row count changed"
    m = dict(map(tuple, want))
    for old, new in zip(rows, r2):
        if new[i] != m[old[i]] or [v for k, v in enumerate(new) if k != i] != [v for k, v in enumerate(old) if k != i]:
            return "row not rewritten by the mapping only in the target item"
    return None
