"""The chemistry tables the 3D properties are read against (C03, C04, C05, C11): which base atoms can donate or accept a
hydrogen bond, which edge each belongs to, and which heavy atoms make up a base.  They are part of the oracle's reading of
the property, NOT imported from the library: a change of one entry in the source must show up as a disagreement."""

BASE_ATOMS = {'A': ['N1', 'C2', 'N3', 'C4', 'C5', 'C6', 'N6', 'N7', 'C8', 'N9'],
              'G': ['N1', 'C2', 'N2', 'N3', 'C4', 'C5', 'C6', 'O6', 'N7', 'C8', 'N9'],
              'C': ['N1', 'C2', 'O2', 'N3', 'C4', 'N4', 'C5', 'C6'],
              'U': ['N1', 'C2', 'O2', 'N3', 'C4', 'O4', 'C5', 'C6'],
              'T': ['N1', 'C2', 'O2', 'N3', 'C4', 'O4', 'C5', 'C6', 'C7']}
BASE_DONORS = {'A': ['C2', 'N6', 'C8', "O2'"], 'G': ['N1', 'N2', 'C8', "O2'"], 'C': ['N4', 'C5', 'C6', "O2'"],
               'U': ['N3', 'C5', 'C6', "O2'"], 'T': ['N3', 'C6', 'C7']}
BASE_ACCEPTORS = {'A': ['N1', 'N3', 'N7'], 'G': ['N3', 'O6', 'N7'], 'C': ['O2', 'N3'], 'U': ['O2', 'O4'], 'T': ['O2', 'O4']}
PHOSPHATE_ACCEPTORS = ['OP1', 'OP2', "O5'", "O3'"]
RIBOSE_ACCEPTORS = ["O4'", "O2'"]
BASE_EDGES = {'A': {'N1': 'W', 'C2': 'WS', 'N3': 'S', 'N6': 'WH', 'N7': 'H', 'C8': 'H', "O2'": 'S'},
              'G': {'N1': 'W', 'N2': 'WS', 'N3': 'S', 'O6': 'WH', 'N7': 'H', 'C8': 'H', "O2'": 'S'},
              'C': {'O2': 'WS', 'N3': 'W', 'N4': 'WH', 'C5': 'H', 'C6': 'H', "O2'": 'S'},
              'U': {'O2': 'WS', 'N3': 'W', 'O4': 'WH', 'C5': 'H', 'C6': 'H', "O2'": 'S'},
              'T': {'O2': 'WS', 'N3': 'W', 'O4': 'WH', 'C6': 'H', 'C7': 'H'}}

# base-phosphate / base-ribose classes (Zirbel et al. 2009): per (base, donor atom) either a class, or two ring atoms and the
# classes for a cis / trans placement of the acceptor about the ring bond (|torsion a-b-donor-acceptor| below / above 90 degrees)
BPH_LADDER = {("A", "C2"): 2, ("A", "N6"): ("N1", "C6", 6, 7), ("A", "C8"): 0,
              ("G", "N1"): 5, ("G", "N2"): ("N3", "C2", 1, 3), ("G", "C8"): 0,
              ("C", "N4"): ("N3", "C4", 6, 7), ("C", "C5"): 9, ("C", "C6"): 0,
              ("U", "N3"): 5, ("U", "C5"): 9, ("U", "C6"): 0,
              ("T", "N3"): 5, ("T", "C6"): 0, ("T", "C7"): 9}


def _dihedral_deg(p1, p2, p3, p4):
    import math
    import numpy as np
    b1, b2, b3 = p2 - p1, p3 - p2, p4 - p3
    n1, n2 = np.cross(b1, b2), np.cross(b2, b3)
    if not np.linalg.norm(n1) or not np.linalg.norm(n2):
        return 0.0
    m1 = np.cross(n1, b2 / np.linalg.norm(b2))
    return math.degrees(math.atan2(float(np.dot(m1, n2)), float(np.dot(n1, n2))))


def bph_class(donor_residue, donor_atom, acceptor_atom):
    """class implied by one donor atom in contact with a phosphate/ribose oxygen; None when the table has no entry.
    Returns (class, undecided) - undecided when the torsion is within 1e-6 degree of +-90."""
    import numpy as np
    e = BPH_LADDER.get((donor_residue.one_letter_name, donor_atom.name))
    if e is None:
        return None, False
    if isinstance(e, int):
        return e, False
    a, b, cis, trans = e
    pa, pb = donor_residue.find_atom(a), donor_residue.find_atom(b)
    if pa is None or pb is None:
        return None, False
    t = _dihedral_deg(np.array(pa.coordinates), np.array(pb.coordinates), np.array(donor_atom.coordinates), np.array(acceptor_atom.coordinates))
    return (cis if -90.0 < t < 90.0 else trans), abs(abs(t) - 90.0) < 1e-6


def cis_trans(ri, rj):
    """'c' / 't' from the C1'-N1/N9 ... N1/N9-C1' torsion (|torsion| below / above 90 degrees); None when an atom is missing.
    Returns (letter, undecided)."""
    import numpy as np

    def glyco_n(r):
        return r.find_atom("N9" if r.one_letter_name in "AG" else "N1")
    c1i, c1j, ni, nj = ri.find_atom("C1'"), rj.find_atom("C1'"), glyco_n(ri), glyco_n(rj)
    if None in (c1i, c1j, ni, nj):
        return None, False
    t = _dihedral_deg(np.array(c1i.coordinates), np.array(ni.coordinates), np.array(nj.coordinates), np.array(c1j.coordinates))
    return ("c" if -90.0 < t < 90.0 else "t"), abs(abs(t) - 90.0) < 1e-6


def base_normal(r):
    """unit normal of the base plane: purines through N9, N7, N3, pyrimidines through N1, C4, O2 (cross product of the two
    vectors from the glycosidic nitrogen); None when one of the three atoms is missing"""
    import numpy as np
    names = ("N9", "N7", "N3") if r.one_letter_name in "AG" else ("N1", "C4", "O2")
    atoms = [r.find_atom(n) for n in names]
    if any(a is None for a in atoms):
        return None
    p0, p1, p2 = (np.array(a.coordinates, dtype=float) for a in atoms)
    n = np.cross(p1 - p0, p2 - p0)
    ln = float(np.linalg.norm(n))
    return n / ln if ln else n


def res_key(r):
    """the order of residues the properties speak of: chain, number, insertion code (blank when absent)"""
    return (r.chain, r.number, r.icode or " ")


def res_lt(a, b):
    return res_key(a) < res_key(b)
