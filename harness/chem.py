"""The chemistry tables the 3D properties are read against (C03, C04, C05, C11): which base atoms can donate or accept a
hydrogen bond, which edge each belongs to, and which heavy atoms make up a base.  They are part of the oracle's reading of
the property, NOT imported from the library: a change of one entry in the source must show up as a disagreement."""

BASE_ATOMS = {'A': ['N1', 'C2', 'N3', 'C4', 'C5', 'C6', 'N6', 'N7', 'C8', 'N9'],
              'G': ['N1', 'C2', 'N2', 'N3', 'C4', 'C5', 'C6', 'O6', 'N7', 'C8', 'N9'],
              'C': ['N1', 'C2', 'O2', 'N3', 'C4', 'N4', 'C5', 'C6'],
              'U': ['N1', 'C2', 'O2', 'N3', 'C4', 'O4', 'C5', 'C6'],
              'T': ['N1', 'C2', 'O2', 'N3', 'C4', 'O4', 'C5', 'C6', 'C7']}
BASE_DONORS = {'A': ['C2', 'N6', 'C8', "O2'"], 'G': ['N1', 'N2', 'C8', "O2'"], 'C': ['N4', 'C5', 'C6', "O2'"],
               'U': ['N3', 'C5', 'C6', "O2'"], 'T': ['N3', 'C6', 'C7']}
BASE_ACCEPTORS = {'A': ['N1', 'N3', 'N7'], 'G': ['N3', 'O6', 'N7'], 'C': ['O2', 'N3'], 'U': ['O2', 'O4'], 'T': ['O2', 'O4']}
PHOSPHATE_ACCEPTORS = ['OP1', 'OP2', "O5'", "O3'"]
RIBOSE_ACCEPTORS = ["O4'", "O2'"]
BASE_EDGES = {'A': {'N1': 'W', 'C2': 'WS', 'N3': 'S', 'N6': 'WH', 'N7': 'H', 'C8': 'H', "O2'": 'S'},
              'G': {'N1': 'W', 'N2': 'WS', 'N3': 'S', 'O6': 'WH', 'N7': 'H', 'C8': 'H', "O2'": 'S'},
              'C': {'O2': 'WS', 'N3': 'W', 'N4': 'WH', 'C5': 'H', 'C6': 'H', "O2'": 'S'},
              'U': {'O2': 'WS', 'N3': 'W', 'O4': 'WH', 'C5': 'H', 'C6': 'H', "O2'": 'S'},
              'T': {'O2': 'WS', 'N3': 'W', 'O4': 'WH', 'C6': 'H', 'C7': 'H'}}
