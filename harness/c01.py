"""C01 — BPSEQ <-> dot-bracket conversion is lossless for every encoder."""
import itertools

from . import gen2d, impl2d
from .core import Err, Nat, lit

RUN_TARGETS = ["Run/R2D.vo"]
IMPORTS = "From RV Require Import Base.Val Model.Bpseq Run.R2D."
TRUSTED = [
    "modelled, not verified: Python str/list semantics, pulp + CBC (answer only required to be lossless, see C02)",
    "MultiStrandDotBracket regular expression is matched by Python's re engine (compared differentially only)",
]


def bexpr(seq, pairs):
    return f"(mkb {lit(seq)} {lit([Nat(p) for p in pairs])})"


def structures(ctx):
    """yield (kind, seq, pairs)"""
    rng = ctx.rng
    nmax = 7 if ctx.quick else 9
    for n in range(1, nmax + 1):
        for p in gen2d.all_matchings(n):
            yield ("exhaustive", gen2d.seq_for(rng, n), p)
    nrand = 250 if ctx.quick else 3000
    for _ in range(nrand):
        k = rng.randint(1, 9)
        p = gen2d.layout(rng, k, maxlen=rng.choice([1, 2, 4, 8]), maxgap=rng.choice([0, 1, 3]))
        if len(p) <= 300:
            yield ("layout", gen2d.seq_for(rng, len(p)), p)
    for _ in range(6 if ctx.quick else 60):
        p = gen2d.many_stems(rng, rng.randint(9, 14))
        yield ("many-stems", gen2d.seq_for(rng, len(p)), p)
    for k, length in ((2, 3), (5, 2), (12, 1), (29, 1), (30, 1), (31, 1), (32, 2)):
        p = gen2d.ladder(k, length, gap=1)
        yield (f"ladder{k}", gen2d.seq_for(rng, len(p)), p)


def component_sizes(b):
    rs = impl2d.regions(b)
    n = len(rs)
    adj = {i: set() for i in range(n)}
    for i, j in itertools.combinations(range(n), 2):
        k, l, _ = rs[i]
        m, nn, _ = rs[j]
        if k < m < l < nn or m < k < nn < l:
            adj[i].add(j)
            adj[j].add(i)
    seen, sizes = set(), []
    for v in range(n):
        if v in seen or not adj[v]:
            continue
        st, comp = [v], {v}
        while st:
            x = st.pop()
            for y in adj[x]:
                if y not in comp:
                    comp.add(y)
                    st.append(y)
        seen |= comp
        sizes.append(len(comp))
    return sizes


def run(ctx):
    ctx.coverage["rule"] = (
        "structures: every pairing on <= N positions (N=7 quick, 9 thorough) + random stem layouts (nested, "
        "crossing, adjacent, zero-gap) + ladders of k mutually crossing stems incl. 30/31/32; strings: random balanced "
        "strings over 30 types + malformed stream. Non-trivial = has >= 1 pair; distinct by (sequence-free) pair array / string.")
    cases = []          # (kind, seq, pairs, impl answers)
    corr_expr, corr_exp, corr_case = [], [], []
    spec_expr, spec_case = [], []
    py_fail = []
    for kind, seq, pairs in structures(ctx):
        b = impl2d.mk(seq, pairs)
        case = {"kind": kind, "sequence": seq, "pairs": pairs}
        ctx.count(tuple(pairs), any(pairs), kind)
        be = bexpr(seq, pairs)
        regs = impl2d.guarded(lambda: impl2d.regions(b))
        fc = impl2d.guarded(lambda: b.fcfs.structure)
        fcseq = impl2d.guarded(lambda: b.fcfs.sequence)
        sizes = component_sizes(b)
        # the MILP of a big clique takes CBC minutes: the optimal encoder is exercised on
        # structures whose groups of crossing stems have <= 8 members (C02 covers the rest)
        milp_ok = all(s <= 8 for s in sizes)
        db = impl2d.guarded(lambda: impl2d.mk(seq, pairs).dot_bracket.structure) if milp_ok else None
        pd = impl2d.guarded(lambda: sorted(b.pairs.items()))
        case.update(regions=regs, fcfs=fc, dot_bracket=db)
        # correspondence: the model computes the same answers
        corr_expr += [f"run_valid {be}", f"run_regions {be}", f"run_fcfs {be}", f"run_pairs_dict {be}"]
        corr_exp += [True, regs, fc, [list(x) for x in pd] if not isinstance(pd, Err) else pd]
        corr_case += [(case, "valid"), (case, "regions"), (case, "fcfs"), (case, "pairs")]
        # spec: every produced string is lossless; an exception is acceptable only as the
        # documented refusal when more than 30 levels are needed
        outs = [("fcfs", fc)] + ([("dot_bracket", db)] if milp_ok else [])
        if all(s <= (5 if ctx.quick else 7) for s in sizes) and len(sizes) <= 3:
            alls = impl2d.guarded(lambda: [d.structure for d in impl2d.mk(seq, pairs).all_dot_brackets])
            if isinstance(alls, Err):
                outs.append(("all_dot_brackets", alls))
            else:
                case["all_dot_brackets"] = alls
                for a in alls:
                    outs.append(("all_dot_brackets", a))
        for name, s in outs:
            if isinstance(s, Err):
                if kind in ("ladder31", "ladder32") and s.kind in ("StopIteration", "IndexError", "RuntimeError"):
                    continue  # more than 30 levels: a clean refusal, never a wrong string
                py_fail.append((case, f"{name} raised {s.kind}"))
                continue
            spec_expr.append(f"run_lossless {be} {lit(s)}")
            spec_case.append((case, name, s))
        if not isinstance(fcseq, Err) and fcseq != seq:
            py_fail.append((case, "sequence of the dot-bracket differs from the structure's"))
        # text round trip
        try:
            b2 = type(b).from_string(str(b))
            if not (b2 == b):
                py_fail.append((case, "from_string(str(b)) != b"))
        except Exception as e:  # noqa: BLE001
            py_fail.append((case, f"text round trip raised {type(e).__name__}"))
        if kind == "layout" and any(pairs) and len(ctx.coverage["samples"]) < 3:
            ctx.sample({"kind": kind, "bpseq_pairs": pairs, "fcfs": fc if not isinstance(fc, Err) else repr(fc), "dot_bracket": db if not isinstance(db, Err) else repr(db)})
        cases.append(case)

    # ---- strings: decoder and db -> bpseq -> db
    from rnapolis.common import BpSeq, DotBracket
    rng = ctx.rng
    nstr = 300 if ctx.quick else 3000
    strs = []
    for _ in range(nstr):
        n = rng.randint(1, 60)
        strs.append(("balanced", gen2d.random_balanced(rng, n, rng.choice([1, 2, 4, 30]))))
    for n in range(1, 5 if ctx.quick else 7):
        for tup in itertools.product(".()[]Aa", repeat=n):
            strs.append(("short", "".join(tup)))
    for _ in range(100 if ctx.quick else 1000):
        n = rng.randint(1, 30)
        strs.append(("malformed", "".join(rng.choice(".()[]{}<>AaBbZz-x") for _ in range(n))))
    for kind, s in strs:
        sq = gen2d.seq_for(rng, len(s))
        ctx.count(("str", s), any(c != "." for c in s), "str-" + kind)
        r = impl2d.guarded(lambda: [list(p) for p in DotBracket.from_string(sq, s).pairs])
        corr_expr.append(f"run_parse {lit(s)}")
        corr_exp.append(r)
        case = {"kind": kind, "sequence": sq, "structure": s, "pairs": r if not isinstance(r, Err) else repr(r)}
        corr_case.append((case, "decode"))
        if not isinstance(r, Err) and _balanced(s):
            want = _decode(s)
            if sorted(map(tuple, r)) != want:
                py_fail.append((case, "the decoder returns pairs the string does not encode (each bracket type matches on its own, innermost first): expected %r" % (want[:12],)))
        if not isinstance(r, Err):
            bp = impl2d.guarded(lambda: [[e.index_, e.sequence, e.pair] for e in BpSeq.from_dotbracket(DotBracket.from_string(sq, s)).entries])
            corr_expr.append(f"run_from_db {lit(sq)} {lit(s)}")
            corr_exp.append(bp)
            corr_case.append((case, "from_dotbracket"))
            # conversely: balanced string -> BPSEQ -> dot-bracket preserves the set of pairs
            ok_balanced = _balanced(s)
            if ok_balanced and not isinstance(bp, Err):
                b = BpSeq.from_dotbracket(DotBracket.from_string(sq, s))
                back = impl2d.guarded(lambda: b.fcfs)
                if isinstance(back, Err):
                    if len(set(gen2d.OPEN.index(c) for c in s if c in gen2d.OPEN)) <= 30 and back.kind != "StopIteration":
                        py_fail.append((case, f"db->bpseq->db raised {back.kind}"))
                else:
                    if sorted(map(tuple, r)) != sorted(back.pairs):
                        py_fail.append((case, "db->bpseq->db changed the set of pairs"))
                    spec_expr.append(f"run_lossless (mkb {lit(sq)} {lit([Nat(e.pair) for e in b.entries])}) {lit(back.structure)}")
                    spec_case.append((case, "db->bpseq->fcfs", back.structure))
    ctx.sample({"kind": "string", "structure": strs[0][1]})

    # ---- multi-strand concatenation (Python-side check of the stated behaviour)
    from rnapolis.common import MultiStrandDotBracket
    for _ in range(50 if ctx.quick else 500):
        k = rng.randint(1, 4)
        parts, text = [], ""
        for i in range(k):
            n = rng.randint(1, 12)
            sq = gen2d.seq_for(rng, n)
            st = gen2d.random_balanced(rng, n, 3)
            parts.append((sq, st))
            text += (f">strand_{i}\n" if rng.random() < 0.7 else "") + sq + "\n" + st + "\n"
        ctx.count(("ms", text), True, "multistrand")
        try:
            ms = MultiStrandDotBracket.from_string(text)
            ok = ms.sequence == "".join(p[0] for p in parts) and ms.structure == "".join(p[1] for p in parts)
            first = 1
            for stn, (sq, st) in zip(ms.strands, parts):
                ok = ok and stn.first == first and stn.last == first + len(sq) - 1 and stn.sequence == sq and stn.structure == st
                first += len(sq)
            ok = ok and len(ms.strands) == len(parts)
        except Exception as e:  # noqa: BLE001
            ok = False
        if not ok:
            py_fail.append(({"kind": "multistrand", "text": text}, "multi-strand concatenation differs"))

    # ---- evaluate
    for case, what in py_fail:
        ctx.violation(what, {"case": case})
    if not ctx.model_ok:
        return
    bad, err = ctx.coq_mismatches("spec", IMPORTS, spec_expr, [True] * len(spec_expr))
    if err:
        ctx.violation("spec-checker cases failed to evaluate", {"error": err}, has_input=False)
    for i in bad:
        case, name, s = spec_case[i]
        ctx.violation(f"{name} is not a lossless encoding", {"case": case, "output": s, "checker": "Spec2D.lossless"})
    bad, err = ctx.coq_mismatches("corr", IMPORTS, corr_expr, corr_exp)
    if err:
        ctx.violation("correspondence cases failed to evaluate", {"error": err}, has_input=False)
    if bad:
        shown = ctx.coq_show(IMPORTS, [corr_expr[i] for i in bad[:5]])
        for n, i in enumerate(bad[:20]):
            case, what = corr_case[i]
            ctx.violation(f"model and implementation disagree on {what}",
                          {"case": case, "implementation": corr_exp[i], "model": shown[n] if n < len(shown) else None,
                           "correspondence": f"Run.R2D.{corr_expr[i].split()[0]}"}, has_input=False)
    ctx.coverage["spec_checked_outputs"] = len(spec_expr)
    ctx.coverage["correspondence_cases"] = len(corr_expr)
    ctx.coverage["exhaustive"] = True
    ctx.coverage["exhaustive_bound"] = "all pairings on <= %d positions" % (7 if ctx.quick else 9)


def _decode(s):
    """the pairs a balanced dot-bracket string encodes: every bracket type is matched separately, innermost first"""
    st, out = {}, []
    for i, c in enumerate(s):
        if c in gen2d.OPEN:
            st.setdefault(gen2d.OPEN.index(c), []).append(i)
        elif c in gen2d.CLOSE:
            out.append((st[gen2d.CLOSE.index(c)].pop(), i))
    return sorted(out)


def _balanced(s):
    st = {}
    for c in s:
        if c in gen2d.OPEN:
            st.setdefault(gen2d.OPEN.index(c), []).append(1)
        elif c in gen2d.CLOSE:
            t = gen2d.CLOSE.index(c)
            if not st.get(t):
                return False
            st[t].pop()
    return all(not v for v in st.values())
