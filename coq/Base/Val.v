(* Universal value type used to compare model answers with implementation answers.
   No proofs here: this file is glue for the correspondence check. *)
From Coq Require Import String Ascii ZArith List Bool.
Import ListNotations.
Local Open Scope string_scope.

Inductive val :=
| VZ (z : Z)
| VS (s : string)
| VL (l : list val)
| VE (e : string)      (* an exception, by class name *)
| VN.                  (* None *)

Fixpoint val_eqb (a b : val) {struct a} : bool :=
  match a, b with
  | VZ x, VZ y => Z.eqb x y
  | VS x, VS y => String.eqb x y
  | VE x, VE y => String.eqb x y
  | VN, VN => true
  | VL xs, VL ys =>
      (fix go (xs ys : list val) {struct xs} : bool :=
         match xs, ys with
         | [], [] => true
         | x :: xs', y :: ys' => val_eqb x y && go xs' ys'
         | _, _ => false
         end) xs ys
  | _, _ => false
  end.

Definition L (s : string) : list ascii := list_ascii_of_string s.
Definition S_ (l : list ascii) : string := string_of_list_ascii l.

Definition vnat (n : nat) : val := VZ (Z.of_nat n).
Definition vbool (b : bool) : val := VZ (if b then 1 else 0)%Z.
Definition vstr (l : list ascii) : val := VS (S_ l).
Definition vlist {A} (f : A -> val) (l : list A) : val := VL (map f l).
Definition vpair {A B} (f : A -> val) (g : B -> val) (p : A * B) : val :=
  VL [f (fst p); g (snd p)].
Definition vopt {A} (f : A -> val) (o : option A) : val :=
  match o with Some a => f a | None => VN end.

(* indices (0-based) of the cases on which the model answer differs from the expected one *)
Fixpoint mismatches_from (i : nat) (got expected : list val) : list nat :=
  match got, expected with
  | g :: gs, e :: es =>
      if val_eqb g e then mismatches_from (S i) gs es else i :: mismatches_from (S i) gs es
  | [], [] => []
  | _, _ => [i]
  end.
Definition mismatches := mismatches_from 0.

(* ---------------------------------------------------------------- exceptions as values *)
Inductive exn := IndexError | StopIteration | ValueError | KeyError | TypeError | AssertionError | AttributeError | OutOfFuel.
Inductive result (A : Type) := Ok (a : A) | Raise (e : exn).
Arguments Ok {A} a.
Arguments Raise {A} e.

Definition exn_name (e : exn) : string :=
  (match e with
  | IndexError => "IndexError" | StopIteration => "StopIteration" | ValueError => "ValueError"
  | KeyError => "KeyError" | TypeError => "TypeError" | AssertionError => "AssertionError"
  | AttributeError => "AttributeError"
  | OutOfFuel => "OutOfFuel"
  end)%string.

