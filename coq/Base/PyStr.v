(* Python str primitives on ASCII (list ascii).  Executable definitions; lemmas live in Proofs. *)
From Coq Require Import String Ascii ZArith List Bool Arith.
Import ListNotations.

Definition str := list ascii.

Fixpoint str_eqb (a b : str) : bool :=
  match a, b with
  | [], [] => true
  | x :: a', y :: b' => Ascii.eqb x y && str_eqb a' b'
  | _, _ => false
  end.

Fixpoint starts_with (p s : str) : bool :=
  match p, s with
  | [], _ => true
  | x :: p', y :: s' => Ascii.eqb x y && starts_with p' s'
  | _ :: _, [] => false
  end.
Definition ends_with (p s : str) : bool := starts_with (rev p) (rev s).

(* s[k] for k >= 0: None models IndexError *)
Definition index_at (s : str) (k : nat) : option str := option_map (fun c => [c]) (nth_error s k).

Definition is_digit_char (c : ascii) : bool := let n := nat_of_ascii c in (48 <=? n) && (n <=? 57).
(* str.isdigit() on ASCII: non-empty and every character a digit *)
Definition is_digit (s : str) : bool := match s with [] => false | _ => forallb is_digit_char s end.
Definition is_space_char (c : ascii) : bool :=
  let n := nat_of_ascii c in (n =? 32) || ((9 <=? n) && (n <=? 13)) || ((28 <=? n) && (n <=? 31)).

Definition lower_char (c : ascii) : ascii :=
  let n := nat_of_ascii c in if (65 <=? n) && (n <=? 90) then ascii_of_nat (n + 32) else c.
Definition upper_char (c : ascii) : ascii :=
  let n := nat_of_ascii c in if (97 <=? n) && (n <=? 122) then ascii_of_nat (n - 32) else c.
Definition lower (s : str) : str := map lower_char s.
Definition upper (s : str) : str := map upper_char s.

Definition mem_str (x : str) (l : list str) : bool := existsb (str_eqb x) l.

(* Enum[name] : the value of the member called name; None models KeyError *)
Definition enum_lookup (members : list (string * string)) (name : str) : option str :=
  match find (fun kv => str_eqb (list_ascii_of_string (fst kv)) name) members with
  | Some kv => Some (list_ascii_of_string (snd kv))
  | None => None
  end.

Definition ascii_only (s : str) : bool := forallb (fun c => nat_of_ascii c <? 128) s.

(* split on a one-character separator: str.split(sep) *)
Fixpoint split_on (sep : ascii) (s : str) : list str :=
  match s with
  | [] => [[]]
  | c :: s' =>
      match split_on sep s' with
      | cur :: rest => if Ascii.eqb c sep then [] :: cur :: rest else (c :: cur) :: rest
      | [] => [[c]]
      end
  end.

(* str.strip() of ASCII whitespace *)
Fixpoint lstrip (s : str) : str :=
  match s with c :: s' => if is_space_char c then lstrip s' else s | [] => [] end.
Definition strip (s : str) : str := rev (lstrip (rev (lstrip s))).

(* ---------------------------------------------------------------- option-monadic helpers used by
   generated code: None stands for IndexError raised while evaluating an expression *)
Definition omap {A B} (f : A -> B) (a : option A) : option B := match a with Some x => Some (f x) | None => None end.
Definition omap2 {A B C} (f : A -> B -> C) (a : option A) (b : option B) : option C :=
  match a with Some x => match b with Some y => Some (f x y) | None => None end | None => None end.
Definition obind {A B} (a : option A) (f : A -> option B) : option B := match a with Some x => f x | None => None end.
(* Python `and` / `or`: the right operand is not evaluated when the left decides *)
Definition and_m (a b : option bool) : option bool :=
  match a with Some true => b | Some false => Some false | None => None end.
Definition or_m (a b : option bool) : option bool :=
  match a with Some true => Some true | Some false => b | None => None end.

(* ---------------------------------------------------------------- slicing, justification, numbers *)
Definition substr (s : str) (a b : nat) : str := firstn (b - a) (skipn a s).      (* s[a:b], clamping *)
Definition space : ascii := " "%char.
Definition ljust (w : nat) (s : str) : str := s ++ repeat space (w - length s).
Definition rjust (w : nat) (s : str) : str := repeat space (w - length s) ++ s.

From Coq Require Import DecimalString DecimalN NArith.
Definition n_str (n : N) : str := list_ascii_of_string (NilZero.string_of_uint (N.to_uint n)).
Definition z_str (v : Z) : str := (if (v <? 0)%Z then ["-"%char] else []) ++ n_str (Z.abs_N v).
Fixpoint pow10 (d : nat) : N := match d with 0 => 1%N | S d' => (10 * pow10 d')%N end.
Definition pad0 (w : nat) (s : str) : str := repeat "0"%char (w - length s) ++ s.
(* f"{v:W.Df}" of the fixed-point number v / 10^D *)
Definition fmt_fixed (width dec : nat) (v : Z) : str :=
  let a := Z.abs_N v in
  rjust width ((if (v <? 0)%Z then ["-"%char] else []) ++ n_str (a / pow10 dec) ++ ["."%char] ++ pad0 dec (n_str (a mod pow10 dec))).

Fixpoint digits_val (s : str) (acc : N) : option N :=
  match s with
  | [] => Some acc
  | c :: s' => if is_digit_char c then digits_val s' (acc * 10 + N.of_nat (nat_of_ascii c - 48))%N else None
  end.
(* plain decimal integer with optional sign: what pd.to_numeric / int() accept among the texts we generate *)
Definition parse_z (s : str) : option Z :=
  match s with
  | [] => None
  | c :: r =>
      if Ascii.eqb c "-"%char then match r with [] => None | _ => option_map (fun n => (- Z.of_N n)%Z) (digits_val r 0) end
      else if Ascii.eqb c "+"%char then match r with [] => None | _ => option_map Z.of_N (digits_val r 0) end
      else option_map Z.of_N (digits_val s 0)
  end.
(* decimal text with at most `dec` fraction digits -> the number times 10^dec *)
Fixpoint take_until_dot (l : str) : str :=
  match l with c :: r => if Ascii.eqb c "."%char then [] else c :: take_until_dot r | [] => [] end.
Definition parse_fixed (dec : nat) (s : str) : option Z :=
  let '(neg, body) := match s with
                      | c :: r => if Ascii.eqb c "-"%char then (true, r) else if Ascii.eqb c "+"%char then (false, r) else (false, s)
                      | [] => (false, []) end in
  let ip := take_until_dot body in
  let rest := skipn (length ip) body in
  let fp := match rest with _ :: f => f | [] => [] end in
  if (length ip =? 0) && (length fp =? 0) then None
  else if dec <? length fp then None
  else match digits_val ip 0, digits_val fp 0 with
       | Some i, Some f =>
           let v := (Z.of_N i * Z.of_N (pow10 dec) + Z.of_N f * Z.of_N (pow10 (dec - length fp)))%Z in
           Some (if neg then (- v)%Z else v)
       | _, _ => None
       end.
