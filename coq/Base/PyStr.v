(* Python str primitives on ASCII (list ascii).  Executable definitions; lemmas live in Proofs. *)
From Coq Require Import String Ascii ZArith List Bool Arith.
Import ListNotations.

Definition str := list ascii.

Fixpoint str_eqb (a b : str) : bool :=
  match a, b with
  | [], [] => true
  | x :: a', y :: b' => Ascii.eqb x y && str_eqb a' b'
  | _, _ => false
  end.

Fixpoint starts_with (p s : str) : bool :=
  match p, s with
  | [], _ => true
  | x :: p', y :: s' => Ascii.eqb x y && starts_with p' s'
  | _ :: _, [] => false
  end.
Definition ends_with (p s : str) : bool := starts_with (rev p) (rev s).

(* s[k] for k >= 0: None models IndexError *)
Definition index_at (s : str) (k : nat) : option str := option_map (fun c => [c]) (nth_error s k).

Definition is_digit_char (c : ascii) : bool := let n := nat_of_ascii c in (48 <=? n) && (n <=? 57).
(* str.isdigit() on ASCII: non-empty and every character a digit *)
Definition is_digit (s : str) : bool := match s with [] => false | _ => forallb is_digit_char s end.
Definition is_space_char (c : ascii) : bool :=
  let n := nat_of_ascii c in (n =? 32) || ((9 <=? n) && (n <=? 13)) || ((28 <=? n) && (n <=? 31)).

Definition lower_char (c : ascii) : ascii :=
  let n := nat_of_ascii c in if (65 <=? n) && (n <=? 90) then ascii_of_nat (n + 32) else c.
Definition upper_char (c : ascii) : ascii :=
  let n := nat_of_ascii c in if (97 <=? n) && (n <=? 122) then ascii_of_nat (n - 32) else c.
Definition lower (s : str) : str := map lower_char s.
Definition upper (s : str) : str := map upper_char s.

Definition mem_str (x : str) (l : list str) : bool := existsb (str_eqb x) l.

(* Enum[name] : the value of the member called name; None models KeyError *)
Definition enum_lookup (members : list (string * string)) (name : str) : option str :=
  match find (fun kv => str_eqb (list_ascii_of_string (fst kv)) name) members with
  | Some kv => Some (list_ascii_of_string (snd kv))
  | None => None
  end.

Definition ascii_only (s : str) : bool := forallb (fun c => nat_of_ascii c <? 128) s.

(* split on a one-character separator: str.split(sep) *)
Fixpoint split_on (sep : ascii) (s : str) : list str :=
  match s with
  | [] => [[]]
  | c :: s' =>
      match split_on sep s' with
      | cur :: rest => if Ascii.eqb c sep then [] :: cur :: rest else (c :: cur) :: rest
      | [] => [[c]]
      end
  end.

(* str.strip() of ASCII whitespace *)
Fixpoint lstrip (s : str) : str :=
  match s with c :: s' => if is_space_char c then lstrip s' else s | [] => [] end.
Definition strip (s : str) : str := rev (lstrip (rev (lstrip s))).

(* ---------------------------------------------------------------- option-monadic helpers used by
   generated code: None stands for IndexError raised while evaluating an expression *)
Definition omap {A B} (f : A -> B) (a : option A) : option B := match a with Some x => Some (f x) | None => None end.
Definition omap2 {A B C} (f : A -> B -> C) (a : option A) (b : option B) : option C :=
  match a with Some x => match b with Some y => Some (f x y) | None => None end | None => None end.
Definition obind {A B} (a : option A) (f : A -> option B) : option B := match a with Some x => f x | None => None end.
(* Python `and` / `or`: the right operand is not evaluated when the left decides *)
Definition and_m (a b : option bool) : option bool :=
  match a with Some true => b | Some false => Some false | None => None end.
Definition or_m (a b : option bool) : option bool :=
  match a with Some true => Some true | Some false => b | None => None end.
