(* C08: the residue-level reader — model selection, duplicate filter, clash filter, grouping. *)
From Coq Require Import String Ascii ZArith QArith List Bool Arith Lia.
From RV Require Import Base.Val Base.PyStr Gen.Parser Model.Geom Model.Reader1 Proofs.ListAux.
Import ListNotations.
Local Close Scope Q_scope.

(* ---------------------------------------------------------------- model selection *)
Definition chosen_model (atoms : list atom1) (model : option Z) : option Z :=
  match atoms with
  | [] => None
  | a0 :: _ => Some (match model with
                     | Some m => if existsb (fun a => (a1_model a =? m)%Z) atoms then m else a1_model a0
                     | None => a1_model a0 end)
  end.

(* exactly the atoms of one model, in order: the requested model when it is present, else the first model of the file *)
Theorem select_model_exact : forall atoms model,
    select_model atoms model =
      match chosen_model atoms model with Some m => filter (fun a => (a1_model a =? m)%Z) atoms | None => [] end.
Proof. intros [|a0 atoms] model; reflexivity. Qed.

Theorem select_model_requested : forall atoms m, existsb (fun a => (a1_model a =? m)%Z) atoms = true ->
    select_model atoms (Some m) = filter (fun a => (a1_model a =? m)%Z) atoms.
Proof. intros [|a0 atoms] m H; [discriminate|]. unfold select_model. rewrite H. reflexivity. Qed.

Theorem select_model_never_another : forall atoms m a, In a (select_model atoms (Some m)) ->
    existsb (fun a => (a1_model a =? m)%Z) atoms = true -> a1_model a = m.
Proof.
  intros atoms m a Hin H. rewrite (select_model_requested atoms m H) in Hin. apply filter_In in Hin. destruct Hin as [_ E]. lia.
Qed.

(* ---------------------------------------------------------------- duplicates *)
Lemma same_key_model : dedup_key_has_model = true -> forall a b, same_key a b = true -> a1_model a = a1_model b.
Proof.
  intros P a b H. unfold same_key in H. rewrite P in H. cbn [negb orb] in H.
  apply andb_true_iff in H. destruct H as [H _]. apply andb_true_iff in H. destruct H as [_ H]. lia.
Qed.

(* atoms of different models are never merged as duplicates (pin: the key contains the model) *)
Theorem dedup_per_model : forall a b, a1_model a <> a1_model b -> same_key a b = false.
Proof.
  intros a b H. destruct (same_key a b) eqn:E; [|reflexivity]. exfalso. apply H. apply same_key_model; [reflexivity|exact E].
Qed.

Lemma dedup_insert_len : forall a l l', dedup_insert a l = Ok l' ->
    (length l' = length l /\ existsb (same_key a) l = true) \/ (l' = l ++ [a] /\ existsb (same_key a) l = false).
Proof.
  intros a. induction l as [|b t IH]; intros l' H; cbn [dedup_insert] in H.
  - injection H as <-. right. split; reflexivity.
  - cbn [existsb]. destruct (same_key a b) eqn:E.
    + left. destruct (occ_gt (a1_occ a) (a1_occ b)) as [[|]|]; try discriminate; injection H as <-; split; reflexivity.
    + destruct (dedup_insert a t) as [t'|] eqn:Et; [|discriminate]. injection H as <-.
      destruct (IH t' eq_refl) as [[L X]|[-> X]]; [left|right]; cbn [orb length app]; split; auto.
Qed.

(* every atom of the result is an atom of the input *)
Lemma dedup_insert_in : forall a l l' x, dedup_insert a l = Ok l' -> In x l' -> x = a \/ In x l.
Proof.
  intros a. induction l as [|b t IH]; intros l' x H Hx; cbn [dedup_insert] in H.
  - injection H as <-. destruct Hx as [<-|[]]. left. reflexivity.
  - destruct (same_key a b).
    + destruct (occ_gt (a1_occ a) (a1_occ b)) as [[|]|]; try discriminate; injection H as <-; destruct Hx as [<-|Hx]; cbn; auto.
    + destruct (dedup_insert a t) as [t'|] eqn:Et; [|discriminate]. injection H as <-.
      destruct Hx as [<-|Hx]; [right; left; reflexivity|]. destruct (IH t' x eq_refl Hx); cbn; auto.
Qed.

Lemma dedup_go_in : forall atoms acc l x,
    fold_left (fun acc a => match acc with Ok l => dedup_insert a l | Raise e => Raise e end) atoms (Ok acc) = Ok l ->
    In x l -> In x acc \/ In x atoms.
Proof.
  induction atoms as [|a atoms IH]; intros acc l x H Hx; cbn [fold_left] in H.
  - injection H as <-. left. exact Hx.
  - destruct (dedup_insert a acc) as [acc'|e] eqn:E.
    + destruct (IH acc' l x H Hx) as [Hin|Hin]; [|right; right; exact Hin].
      destruct (dedup_insert_in a acc acc' x E Hin) as [->|Hin']; [right; left; reflexivity|left; exact Hin'].
    + exfalso. clear -H. induction atoms as [|b atoms IHa]; cbn in H; [discriminate|]. apply IHa. exact H.
Qed.

Theorem dedup_nothing_invented : forall atoms l x, dedup atoms = Ok l -> In x l -> In x atoms.
Proof. intros atoms l x H Hx. unfold dedup in H. destruct (dedup_go_in atoms [] l x H Hx) as [[]|Hin]. exact Hin. Qed.

(* ---------------------------------------------------------------- clash filter *)
(* of two atoms closer than the clash distance (same model, both occupancies known) at least one is discarded *)
Theorem clash_pair_discarded : forall l i j a b oa ob,
    nth_error l i = Some a -> nth_error l j = Some b -> i < j -> close a b = true ->
    (negb clash_filter_per_model || (a1_model a =? a1_model b)%Z) = true ->
    a1_occ a = Some oa -> a1_occ b = Some ob ->
    In (if (ob <? oa)%Z then j else i) (discarded l).
Proof.
  intros l i j a b oa ob Hi Hj Hij Hc Hm Oa Ob. unfold discarded.
  apply in_flat_map. exists (i, a). split.
  - apply in_combine_seq. split; [lia|]. rewrite Nat.sub_0_r. exact Hi.
  - apply in_flat_map. exists (j, b). split.
    + apply in_combine_seq. split; [lia|]. rewrite Nat.sub_0_r. exact Hj.
    + cbn beta iota. replace (i <? j) with true by (symmetry; apply Nat.ltb_lt; exact Hij). rewrite Hc, Hm. cbn [andb].
      rewrite Oa, Ob. destruct (ob <? oa)%Z; left; reflexivity.
Qed.

(* ---------------------------------------------------------------- grouping: file order, nothing lost *)
Theorem group_concat : forall atoms, concat (group atoms) = atoms.
Proof.
  induction atoms as [|a atoms IH]; [reflexivity|]. cbn [group].
  destruct (group atoms) as [|[|b g] gs] eqn:E.
  - cbn in IH. subst atoms. reflexivity.
  - cbn [concat app] in *. subst atoms. reflexivity.
  - destruct (same_residue a b); cbn [concat app] in *; rewrite <- IH; reflexivity.
Qed.

(* ---------------------------------------------------------------- each (residue identity, atom name) once *)
Lemma pstr_eqb_eq : forall a b, str_eqb a b = true <-> a = b.
Proof.
  induction a as [|x a IH]; intros [|y b]; cbn; split; try discriminate; try reflexivity.
  - intros H. apply andb_true_iff in H. destruct H as [H1 H2]. apply Ascii.eqb_eq in H1. apply IH in H2. subst. reflexivity.
  - intros H. injection H as -> ->. rewrite Ascii.eqb_refl. apply IH. reflexivity.
Qed.
Lemma ostr_eqb_eq : forall a b, ostr_eqb a b = true <-> a = b.
Proof. intros [a|] [b|]; cbn; split; try discriminate; try reflexivity; [intros H; apply pstr_eqb_eq in H; subst; reflexivity|intros H; injection H as ->; apply pstr_eqb_eq; reflexivity]. Qed.
Lemma ident_eqb_eq : forall a b, ident_eqb a b = true <-> a = b.
Proof.
  intros [c1 n1 i1 r1] [c2 n2 i2 r2]. unfold ident_eqb. cbn [i_chain i_number i_icode i_resname].
  rewrite !andb_true_iff, !pstr_eqb_eq, ostr_eqb_eq, Z.eqb_eq. split; [intros [[[-> ->] ->] ->]; reflexivity|intros H; injection H as -> -> -> ->; auto].
Qed.
Lemma oident_eqb_eq : forall a b, oident_eqb a b = true <-> a = b.
Proof. intros [a|] [b|]; cbn; split; try discriminate; try reflexivity; [intros H; apply ident_eqb_eq in H; subst; reflexivity|intros H; injection H as ->; apply ident_eqb_eq; reflexivity]. Qed.
Lemma label_eqb_eq : forall a b, label_eqb a b = true <-> a = b.
Proof.
  intros [[[c1 n1] r1]|] [[[c2 n2] r2]|]; cbn; split; try discriminate; try reflexivity.
  - rewrite !andb_true_iff, !pstr_eqb_eq, Z.eqb_eq. intros [[-> ->] ->]. reflexivity.
  - intros H. injection H as -> -> ->. rewrite !andb_true_iff, !pstr_eqb_eq, Z.eqb_eq. auto.
Qed.

Definition key_of (a : atom1) := (a1_label a, a1_auth a, if dedup_key_has_model then a1_model a else 0%Z, a1_name a).

Lemma same_key_iff : forall a b, same_key a b = true <-> key_of a = key_of b.
Proof.
  intros a b. unfold same_key, key_of. rewrite !andb_true_iff, label_eqb_eq, oident_eqb_eq, pstr_eqb_eq.
  destruct dedup_key_has_model; cbn [negb orb]; rewrite ?Z.eqb_eq; split.
  - intros [[[-> ->] ->] ->]. reflexivity.
  - intros H. injection H as -> -> -> ->. auto.
  - intros [[[-> ->] _] ->]. reflexivity.
  - intros H. injection H as -> -> ->. auto.
Qed.

Definition keys_distinct (l : list atom1) : Prop := NoDup (map key_of l).

Lemma existsb_same_key : forall a l, existsb (same_key a) l = true <-> In (key_of a) (map key_of l).
Proof.
  intros a l. rewrite existsb_exists, in_map_iff. split.
  - intros (x & Hx & E). exists x. split; [symmetry; apply same_key_iff; exact E|exact Hx].
  - intros (x & E & Hx). exists x. split; [exact Hx|apply same_key_iff; symmetry; exact E].
Qed.

Lemma dedup_insert_keys : forall a l l', dedup_insert a l = Ok l' -> keys_distinct l ->
    keys_distinct l' /\ (forall k, In k (map key_of l') <-> k = key_of a \/ In k (map key_of l)).
Proof.
  intros a. induction l as [|b t IH]; intros l' H N; cbn [dedup_insert] in H.
  - injection H as <-. split; [constructor; [intros []|constructor]|]. intros k. cbn. intuition.
  - destruct (same_key a b) eqn:E.
    + apply same_key_iff in E.
      assert (Hm : map key_of l' = map key_of (b :: t)).
      { destruct (occ_gt (a1_occ a) (a1_occ b)) as [[|]|]; try discriminate; injection H as <-; cbn [map]; [rewrite E|]; reflexivity. }
      unfold keys_distinct. rewrite Hm. split; [exact N|]. intros k. cbn [map In]. rewrite E. intuition.
    + destruct (dedup_insert a t) as [t'|] eqn:Et; [|discriminate]. injection H as <-.
      inversion N as [|? ? Hb Nt]; subst. destruct (IH t' eq_refl Nt) as [A B].
      split.
      * unfold keys_distinct. cbn [map]. constructor; [|exact A]. rewrite B. intros [Hk|Hk]; [|contradiction].
        assert (same_key a b = true) by (apply same_key_iff; symmetry; exact Hk). congruence.
      * intros k. cbn [map In]. rewrite B. intuition.
Qed.

Lemma dedup_go_keys : forall atoms acc l,
    fold_left (fun acc a => match acc with Ok l => dedup_insert a l | Raise e => Raise e end) atoms (Ok acc) = Ok l ->
    keys_distinct acc ->
    keys_distinct l /\ (forall k, In k (map key_of l) <-> In k (map key_of acc) \/ In k (map key_of atoms)).
Proof.
  induction atoms as [|a atoms IH]; intros acc l H N; cbn [fold_left] in H.
  - injection H as <-. split; [exact N|]. intros k. cbn. intuition.
  - destruct (dedup_insert a acc) as [acc'|e] eqn:E.
    + destruct (dedup_insert_keys a acc acc' E N) as [A B]. destruct (IH acc' l H A) as [C D].
      split; [exact C|]. intros k. rewrite D, B. cbn [map In]. intuition.
    + exfalso. clear -H. induction atoms as [|b atoms IHa]; cbn in H; [discriminate|]. apply IHa. exact H.
Qed.

(* every (residue identity[, model], atom name) of the file is represented exactly once *)
Theorem dedup_once : forall atoms l, dedup atoms = Ok l ->
    NoDup (map key_of l) /\ forall k, In k (map key_of l) <-> In k (map key_of atoms).
Proof.
  intros atoms l H. unfold dedup in H. destruct (dedup_go_keys atoms [] l H (NoDup_nil _)) as [A B].
  split; [exact A|]. intros k. rewrite B. cbn. intuition.
Qed.
