(* Layer C of C01: the regions of a valid BPSEQ are well-formed (every position is covered by
   at most one stem strand) and the pairs they denote are exactly the pairs of the structure. *)
From Coq Require Import String Ascii ZArith List Bool Arith Lia ZifyBool.
From RV Require Import Base.Val Gen.Common Model.Bpseq Proofs.Stack Proofs.Encode.
Import ListNotations.

(* ---------------------------------------------------------------- validity, position-wise *)

Lemma combine_seq_nth : forall (A : Type) (l : list A) s p e,
    nth_error l p = Some e -> In (s + p, e) (combine (seq s (length l)) l).
Proof.
  induction l as [|a l IH]; intros s p e H; [destruct p; discriminate|].
  destruct p as [|p]; cbn in *.
  - injection H as ->. left. f_equal. lia.
  - right. replace (s + S p) with (S s + p) by lia. apply IH. exact H.
Qed.

(* ---------------------------------------------------------------- runs *)

Inductive chain : list entry -> Prop :=
| chain1 : forall e, chain [e]
| chainS : forall e f st, idx f = S (idx e) -> S (pair f) = pair e -> chain (f :: st) -> chain (e :: f :: st).

(* pin: the stem-run test of the source *)
Lemma continues_spec : forall e f, continues e f = true <-> idx f = S (idx e) /\ S (pair f) = pair e.
Proof. intros e f. unfold continues, stem_continue. lia. Qed.

Lemma runs_concat : forall es, concat (runs es) = es.
Proof.
  induction es as [|e es IH]; [reflexivity|]. cbn [runs].
  destruct (runs es) as [|[|f run] rest] eqn:E.
  - cbn in IH. subst es. reflexivity.
  - cbn [concat app] in *. subst es. reflexivity.
  - destruct (continues e f); cbn [concat app] in *; rewrite <- IH; reflexivity.
Qed.

Lemma runs_chain : forall es st, In st (runs es) -> chain st.
Proof.
  induction es as [|e es IH]; intros st H; [destruct H|]. cbn [runs] in H.
  destruct (runs es) as [|[|f run] rest] eqn:E.
  - destruct H as [<-|[]]. constructor.
  - destruct H as [<-|H]; [constructor|]. apply IH. right. exact H.
  - destruct (continues e f) eqn:Ec.
    + destruct H as [<-|H].
      * apply continues_spec in Ec. destruct Ec. constructor; try assumption. apply IH. left. reflexivity.
      * apply IH. right. exact H.
    + destruct H as [<-|H]; [constructor|]. apply IH. exact H.
Qed.

Lemma chain_nth : forall st, chain st -> forall t e e0, nth_error st 0 = Some e0 -> nth_error st t = Some e ->
    idx e = idx e0 + t /\ pair e + t = pair e0.
Proof.
  induction 1 as [e1|e1 f st Hi Hp Hc IH]; intros t e e0 H0 Ht.
  - destruct t as [|[|t]]; cbn in *; try discriminate. injection H0 as <-. injection Ht as <-. lia.
  - cbn in H0. injection H0 as <-. destruct t as [|t]; cbn in Ht.
    + injection Ht as <-. lia.
    + destruct (IH t e f eq_refl Ht). lia.
Qed.

Lemma chain_nonempty : forall st, chain st -> exists e0, nth_error st 0 = Some e0.
Proof. intros st [e|e f st' _ _ _]; eexists; reflexivity. Qed.


Section Valid.
  Variable b : bpseq.
  Hypothesis Hv : valid b = true.
  Let n := length b.

  Lemma valid_idx : forall p e, nth_error b p = Some e -> idx e = S p.
  Proof.
    intros p e H. unfold valid in Hv. apply andb_true_iff in Hv. destruct Hv as [H1 _].
    rewrite forallb_forall in H1. specialize (H1 (p, e)). cbn [fst snd] in H1.
    apply Nat.eqb_eq. apply H1. apply (combine_seq_nth _ b 0 p e H).
  Qed.

  Lemma valid_entry : forall e, In e b ->
      pair e = 0 \/ (1 <= pair e /\ pair e <= n /\ pair e <> idx e /\ pair_at b (pair e) = idx e).
  Proof.
    intros e H. unfold valid in Hv. apply andb_true_iff in Hv. destruct Hv as [_ H2].
    rewrite forallb_forall in H2. specialize (H2 e H). unfold entry_ok in H2. fold n in H2.
    destruct (Nat.eqb_spec (pair e) 0) as [E|E]; [left; exact E|right].
    cbn [orb] in H2. lia.
  Qed.

  Lemma in_b_nth : forall e, In e b -> nth_error b (idx e - 1) = Some e /\ 1 <= idx e <= n.
  Proof.
    intros e H. apply In_nth_error in H. destruct H as [p Hp].
    pose proof (valid_idx p e Hp) as Hi. rewrite Hi. replace (S p - 1) with p by lia.
    split; [exact Hp|]. assert (p < n) by (apply nth_error_Some; congruence). lia.
  Qed.

  Lemma same_idx : forall e e', In e b -> In e' b -> idx e = idx e' -> e = e'.
  Proof.
    intros e e' H H' E. destruct (in_b_nth e H) as [A _]. destruct (in_b_nth e' H') as [A' _].
    rewrite E in A. congruence.
  Qed.

  Lemma pair_at_idx : forall e, In e b -> pair_at b (idx e) = pair e.
  Proof.
    intros e H. destruct (in_b_nth e H) as [A [B _]]. unfold pair_at.
    destruct (idx e) as [|x]; [lia|]. replace (S x - 1) with x in A by lia. rewrite A. reflexivity.
  Qed.

  Lemma NoDup_b : NoDup b.
  Proof.
    apply NoDup_nth_error. intros i j Hi E.
    destruct (nth_error b i) as [e|] eqn:Ei; [|apply nth_error_None in Ei; lia].
    symmetry in E. pose proof (valid_idx i e Ei). pose proof (valid_idx j e E). lia.
  Qed.

  Definition es := paired53 b.

  Lemma es_in : forall e, In e es <-> In e b /\ pair e <> 0 /\ idx e < pair e.
  Proof.
    intros e. unfold es, paired53. rewrite !filter_In. rewrite negb_true_iff, Nat.eqb_neq, Nat.ltb_lt. tauto.
  Qed.

  Lemma NoDup_es : NoDup es.
  Proof. unfold es, paired53. apply NoDup_filter, NoDup_filter, NoDup_b. Qed.

  (* the strands of the region of a run are exactly the indices / partners of its entries *)
  Lemma run_in5 : forall st, chain st -> forall x,
      in5 (region_of st) x <-> exists e, In e st /\ idx e = x.
  Proof.
    intros st Hc x. destruct (chain_nonempty st Hc) as [e0 H0].
    destruct st as [|e0' st']; [discriminate|]. cbn in H0. injection H0 as ->.
    cbn [region_of in5]. split.
    - intros [A B]. destruct (nth_error (e0 :: st') (x - idx e0)) as [e|] eqn:E.
      + exists e. split; [eapply nth_error_In; exact E|].
        destruct (chain_nth _ Hc _ _ e0 eq_refl E). lia.
      + apply nth_error_None in E. lia.
    - intros (e & Hin & Hx). apply In_nth_error in Hin. destruct Hin as [t Ht].
      destruct (chain_nth _ Hc _ _ e0 eq_refl Ht).
      assert (t < length (e0 :: st')) by (apply nth_error_Some; congruence). lia.
  Qed.

  Lemma run_in3 : forall st, chain st -> (forall e, In e st -> 1 <= pair e) -> forall x,
      in3 (region_of st) x <-> exists e, In e st /\ pair e = x.
  Proof.
    intros st Hc Hpos x. destruct (chain_nonempty st Hc) as [e0 H0].
    destruct st as [|e0' st']; [discriminate|]. cbn in H0. injection H0 as ->.
    cbn [region_of in3]. split.
    - intros [A B]. destruct (nth_error (e0 :: st') (pair e0 - x)) as [e|] eqn:E.
      + exists e. split; [eapply nth_error_In; exact E|].
        destruct (chain_nth _ Hc _ _ e0 eq_refl E). lia.
      + apply nth_error_None in E. lia.
    - intros (e & Hin & Hx). pose proof (Hpos e Hin). apply In_nth_error in Hin. destruct Hin as [t Ht].
      destruct (chain_nth _ Hc _ _ e0 eq_refl Ht).
      assert (t < length (e0 :: st')) by (apply nth_error_Some; congruence). lia.
  Qed.

  Lemma NoDup_app_inv : forall (A : Type) (l l' : list A),
      NoDup (l ++ l') -> NoDup l' /\ forall x, In x l -> In x l' -> False.
  Proof.
    induction l as [|y l IH]; intros l' H; [split; [exact H|intros x []]|].
    cbn in H. inversion H as [|? ? Hn Hnd]; subst. destruct (IH l' Hnd) as [HA HB].
    split; [exact HA|]. intros x [->|Hx] Hx'.
    - apply Hn. apply in_or_app. right. exact Hx'.
    - eapply HB; eassumption.
  Qed.

  Lemma concat_NoDup_index : forall (A : Type) (ls : list (list A)) i i' a a' x,
      NoDup (concat ls) -> nth_error ls i = Some a -> nth_error ls i' = Some a' ->
      In x a -> In x a' -> i = i'.
  Proof.
    induction ls as [|l ls IH]; intros i i' a a' x Hnd Hi Hi' Hx Hx'; [destruct i; discriminate|].
    cbn [concat] in Hnd. destruct (NoDup_app_inv _ _ _ Hnd) as [Hnd' Hsep0].
    assert (Hsep : forall k c, nth_error ls k = Some c -> In x c -> In x l -> False).
    { intros k c Hk Hc Hl. apply (Hsep0 x Hl). apply in_concat. exists c.
      split; [eapply nth_error_In; exact Hk|exact Hc]. }
    destruct i as [|i], i' as [|i']; cbn in Hi, Hi'.
    - reflexivity.
    - injection Hi as <-. exfalso. eapply Hsep; eassumption.
    - injection Hi' as <-. exfalso. eapply Hsep; eassumption.
    - f_equal. eapply IH; eassumption.
  Qed.

  Lemma run_entries : forall i st e, nth_error (runs es) i = Some st -> In e st -> In e es.
  Proof.
    intros i st e Hi He. rewrite <- (runs_concat es). apply in_concat. exists st.
    split; [eapply nth_error_In; exact Hi|exact He].
  Qed.

  Lemma region_nth : forall i r, nth_error (regions b) i = Some r ->
      exists st, nth_error (runs es) i = Some st /\ r = region_of st /\ chain st.
  Proof.
    intros i r H. unfold regions, stems in H. fold es in H. rewrite nth_error_map in H.
    destruct (nth_error (runs es) i) as [st|] eqn:E; [|discriminate]. injection H as <-.
    exists st. repeat split. apply (runs_chain es). eapply nth_error_In. exact E.
  Qed.

  (* what covering means in terms of entries *)
  Lemma covers_entry : forall i r x, nth_error (regions b) i = Some r -> covers r x ->
      exists st e, nth_error (runs es) i = Some st /\ In e st /\ In e es /\ (idx e = x \/ pair e = x).
  Proof.
    intros i r x Hi Hc. destruct (region_nth i r Hi) as (st & Hst & -> & Hch).
    assert (Hpos : forall e, In e st -> 1 <= pair e).
    { intros e He. pose proof (run_entries i st e Hst He) as H. apply es_in in H. lia. }
    destruct Hc as [H5|H3].
    - apply (run_in5 st Hch) in H5. destruct H5 as (e & He & Hx). exists st, e.
      repeat split; auto. eapply run_entries; eassumption.
    - apply (run_in3 st Hch Hpos) in H3. destruct H3 as (e & He & Hx). exists st, e.
      repeat split; auto. eapply run_entries; eassumption.
  Qed.

  Lemma sym_pair : forall e, In e es -> pair_at b (pair e) = idx e.
  Proof.
    intros e H. apply es_in in H. destruct H as (Hb & Hne & _).
    destruct (valid_entry e Hb) as [E|(_ & _ & _ & E)]; [lia|exact E].
  Qed.

  Theorem regions_of_valid_wf : regions_wf n (regions b).
  Proof.
    split.
    - intros r Hr. apply In_nth_error in Hr. destruct Hr as [i Hi].
      destruct (region_nth i r Hi) as (st & Hst & -> & Hch).
      destruct (chain_nonempty st Hch) as [e0 H0].
      destruct st as [|e0' st']; [discriminate|]. cbn in H0. injection H0 as ->.
      cbn [region_of rwf].
      assert (He0 : In e0 es) by (eapply run_entries; [exact Hst|left; reflexivity]).
      apply es_in in He0. destruct He0 as (Hb0 & Hn0 & Hl0).
      destruct (in_b_nth e0 Hb0) as [_ [I1 I2]].
      destruct (valid_entry e0 Hb0) as [E|(P1 & P2 & _ & _)]; [lia|].
      (* the last entry of the run is still a 5' entry *)
      destruct (nth_error (e0 :: st') (length st')) as [el|] eqn:El;
        [|apply nth_error_None in El; cbn [length] in El; lia].
      destruct (chain_nth _ Hch _ _ e0 eq_refl El) as [A B].
      assert (Hel : In el es) by (eapply run_entries; [exact Hst|eapply nth_error_In; exact El]).
      apply es_in in Hel. cbn [length]. fold n. lia.
    - intros i i' r r' x Hi Hi' Hc Hc'.
      destruct (covers_entry i r x Hi Hc) as (st & e & Hst & He & Hes & Hx).
      destruct (covers_entry i' r' x Hi' Hc') as (st' & e' & Hst' & He' & Hes' & Hx').
      pose proof (proj1 (es_in e) Hes) as (Hb & Hne & Hlt).
      pose proof (proj1 (es_in e') Hes') as (Hb' & Hne' & Hlt').
      assert (Hsame : e = e' -> i = i').
      { intros <-. eapply (concat_NoDup_index _ (runs es)); try eassumption.
        rewrite runs_concat. apply NoDup_es. }
      destruct Hx as [Hx|Hx], Hx' as [Hx'|Hx'].
      + apply Hsame. apply same_idx; try assumption. lia.
      + exfalso. pose proof (sym_pair e' Hes') as S'. rewrite Hx', <- Hx in S'.
        rewrite (pair_at_idx e Hb) in S'. lia.
      + exfalso. pose proof (sym_pair e Hes) as S1. rewrite Hx, <- Hx' in S1.
        rewrite (pair_at_idx e' Hb') in S1. lia.
      + apply Hsame. apply same_idx; try assumption.
        pose proof (sym_pair e Hes) as S1. pose proof (sym_pair e' Hes') as S'. rewrite Hx in S1. rewrite Hx' in S'. lia.
  Qed.

  Lemma es_run : forall e, In e es -> exists i st, nth_error (runs es) i = Some st /\ In e st /\
                                                    nth_error (regions b) i = Some (region_of st) /\ chain st.
  Proof.
    intros e H. rewrite <- (runs_concat es) in H. apply in_concat in H. destruct H as (st & Hst & He).
    pose proof (runs_chain es st Hst) as Hch.
    apply In_nth_error in Hst. destruct Hst as [i Hi]. exists i, st. repeat split; try assumption.
    unfold regions, stems. fold es. apply map_nth_error. exact Hi.
  Qed.

  Lemma find_cover_covers : forall rs x r, find_cover rs x = Some r -> In r rs /\ covers r x.
  Proof.
    intros rs x r H. unfold find_cover in H. apply find_some in H. destruct H as [Hin Hb]. split; [exact Hin|].
    apply orb_true_iff in Hb. destruct Hb as [H|H]; [left; apply in5b_spec|right; apply in3b_spec]; exact H.
  Qed.

  (* position-wise: the 3' positions of the regions are the closers of b, with the same mates *)
  Lemma closer_pointwise : forall q e, nth_error b q = Some e ->
      is3 (regions b) q = is_closer e /\ (is_closer e = true -> mate_of (regions b) q = pair e - 1).
  Proof.
    intros q e Hq. pose proof (valid_idx q e Hq) as Hi.
    assert (Hb : In e b) by (eapply nth_error_In; exact Hq).
    pose proof regions_of_valid_wf as Hwf.
    unfold is_closer.
    destruct (valid_entry e Hb) as [E0|(P1 & P2 & P3 & P4)].
    - (* unpaired: no region covers it *)
      rewrite E0. cbn [Nat.eqb negb andb]. split; [|discriminate].
      unfold is3. destruct (find_cover (regions b) (S q)) as [r|] eqn:E; [|reflexivity].
      exfalso. apply find_cover_covers in E. destruct E as [Hin Hc].
      apply In_nth_error in Hin. destruct Hin as [i Hir].
      destruct (covers_entry i r (S q) Hir Hc) as (st & e1 & _ & _ & He1 & Hx).
      pose proof (proj1 (es_in e1) He1) as (Hb1 & Hn1 & Hl1).
      destruct Hx as [Hx|Hx].
      + assert (e1 = e) by (apply same_idx; try assumption; lia). subst e1. lia.
      + pose proof (sym_pair e1 He1) as S1. rewrite Hx, <- Hi, (pair_at_idx e Hb) in S1.
        destruct (in_b_nth e1 Hb1) as [_ [? _]]. lia.
    - destruct (Nat.lt_ge_cases (idx e) (pair e)) as [L|G].
      + (* a 5' position *)
        replace (pair e <? idx e) with false by (symmetry; apply Nat.ltb_ge; lia).
        rewrite andb_false_r. split; [|discriminate].
        assert (He : In e es) by (apply es_in; repeat split; [exact Hb|lia|exact L]).
        destruct (es_run e He) as (i & st & Hst & Hin & Hr & Hch).
        assert (H5 : in5 (region_of st) (S q)) by (apply (run_in5 st Hch); exists e; split; [exact Hin|exact Hi]).
        unfold is3. rewrite (find_cover_at n (regions b) Hwf i _ q Hr (or_introl H5)).
        apply in5b_spec in H5. rewrite H5. reflexivity.
      + (* a 3' position: its partner entry is a 5' entry of some run *)
        assert (Hlt : pair e < idx e) by lia.
        replace (pair e =? 0) with false by (symmetry; apply Nat.eqb_neq; lia).
        replace (pair e <? idx e) with true by (symmetry; apply Nat.ltb_lt; exact Hlt).
        cbn [negb andb].
        unfold pair_at in P4. destruct (pair e) as [|y] eqn:Ep; [lia|].
        destruct (nth_error b y) as [e'|] eqn:Ey; [|lia].
        pose proof (valid_idx y e' Ey) as Hi'.
        assert (Hb' : In e' b) by (eapply nth_error_In; exact Ey).
        assert (He' : In e' es) by (apply es_in; repeat split; [exact Hb'|lia|lia]).
        destruct (es_run e' He') as (i & st & Hst & Hin & Hr & Hch).
        assert (Hpos : forall a, In a st -> 1 <= pair a).
        { intros a Ha. pose proof (run_entries i st a Hst Ha) as H. apply es_in in H. lia. }
        assert (H3 : in3 (region_of st) (S q)) by (apply (run_in3 st Hch Hpos); exists e'; split; [exact Hin|lia]).
        pose proof (find_cover_at n (regions b) Hwf i _ q Hr (or_intror H3)) as Hf.
        destruct Hwf as [W1 _]. pose proof (W1 _ (nth_error_In _ _ Hr)) as Hrw.
        destruct (chain_nonempty st Hch) as [e0 H0].
        apply In_nth_error in Hin. destruct Hin as [t Ht].
        destruct (chain_nth st Hch t e' e0 H0 Ht) as [A B].
        destruct st as [|e0' st']; [discriminate|]. cbn in H0. injection H0 as ->.
        cbn [region_of] in *. cbn [rwf in3] in Hrw, H3.
        assert (N5 : in5b (idx e0, pair e0, length (e0 :: st')) (S q) = false) by (unfold in5b; lia).
        split.
        * unfold is3. rewrite Hf, N5. reflexivity.
        * intros _. unfold mate_of. rewrite Hf, N5. lia.
  Qed.

  Lemma decoded_pointwise : forall (l : list entry) s,
      (forall p e, nth_error l p = Some e -> nth_error b (s + p) = Some e) ->
      map (fun q => (mate_of (regions b) q, q)) (filter (is3 (regions b)) (seq s (length l)))
      = map (fun e => (pair e - 1, idx e - 1)) (filter is_closer l).
  Proof.
    induction l as [|e l IH]; intros s H; [reflexivity|].
    cbn [length seq filter].
    assert (He : nth_error b s = Some e) by (rewrite <- (Nat.add_0_r s); apply H; reflexivity).
    destruct (closer_pointwise s e He) as [A B]. rewrite A.
    pose proof (valid_idx s e He) as Hi.
    assert (IH' : map (fun q => (mate_of (regions b) q, q)) (filter (is3 (regions b)) (seq (S s) (length l)))
                  = map (fun e => (pair e - 1, idx e - 1)) (filter is_closer l)).
    { apply IH. intros p e1 H1. replace (S s + p) with (s + S p) by lia. apply H. exact H1. }
    destruct (is_closer e) eqn:Ec.
    - cbn [map]. rewrite IH', (B eq_refl). repeat f_equal. lia.
    - exact IH'.
  Qed.

  Theorem decoded_of_valid : decoded n (regions b) = pairs0 b.
  Proof.
    unfold decoded, pairs0. apply (decoded_pointwise b 0). intros p e H. exact H.
  Qed.
End Valid.
