(* C01, converse direction, part 2: BpSeq.from_dotbracket builds a valid structure whose pairs are exactly the decoded
   pairs; hence dot-bracket -> BPSEQ -> dot-bracket preserves the pairs, whichever lossless encoder is used. *)
From Coq Require Import String Ascii ZArith List Bool Arith Lia Sorted.
From RV Require Import Base.Val Gen.Common Model.Bpseq Model.Spec2D Proofs.Stack Proofs.Encode Proofs.Fcfs Proofs.Regions Proofs.C01Main Proofs.C01Parse.
Import ListNotations.

Definition mk_from (s : nat) (f : nat -> nat) (sq : list ascii) : bpseq :=
  map (fun p => {| idx := Datatypes.S (fst p); nt := snd p; pair := f (fst p) |}) (combine (seq s (length sq)) sq).

Lemma mk_from_cons : forall s f c sq, mk_from s f (c :: sq) = {| idx := Datatypes.S s; nt := c; pair := f s |} :: mk_from (Datatypes.S s) f sq.
Proof. reflexivity. Qed.

Lemma mk_from_ext : forall sq s f g, (forall k, s <= k -> f k = g k) -> mk_from s f sq = mk_from s g sq.
Proof.
  induction sq as [|c sq IH]; intros s f g H; [reflexivity|]. rewrite !mk_from_cons. f_equal; [rewrite (H s (le_n _)); reflexivity|].
  apply IH. intros k Hk. apply H. lia.
Qed.

Lemma set_pair_cons_S : forall e t i p, set_pair (e :: t) (Datatypes.S i) p = e :: set_pair t i p.
Proof. intros. unfold set_pair. cbn [nth_error]. destruct (nth_error t i); reflexivity. Qed.

Lemma set_pair_mk_from : forall sq s f i p,
    set_pair (mk_from s f sq) i p = mk_from s (fun k => if k =? s + i then p else f k) sq.
Proof.
  induction sq as [|c sq IH]; intros s f i p; [destruct i; reflexivity|]. rewrite !mk_from_cons. destruct i as [|i].
  - unfold set_pair. cbn [nth_error set_nth idx nt]. rewrite Nat.add_0_r, Nat.eqb_refl. f_equal.
    apply mk_from_ext. intros k Hk. destruct (Nat.eqb_spec k s); [lia|reflexivity].
  - rewrite set_pair_cons_S, IH. f_equal.
    + destruct (Nat.eqb_spec s (s + Datatypes.S i)); [lia|reflexivity].
    + apply mk_from_ext. intros k _. replace (Datatypes.S s + i) with (s + Datatypes.S i) by lia. reflexivity.
Qed.

Definition upd2 (f : nat -> nat) (ij : nat * nat) : nat -> nat :=
  fun k => if k =? snd ij then Datatypes.S (fst ij) else if k =? fst ij then Datatypes.S (snd ij) else f k.
Definition partnerF (ps : list (nat * nat)) : nat -> nat := fold_left upd2 ps (fun _ => 0).

Theorem from_db_mk : forall sq ps, from_db sq ps = mk_from 0 (partnerF ps) sq.
Proof.
  intros sq ps. unfold from_db, partnerF. change (map _ (combine (seq 0 (length sq)) sq)) with (mk_from 0 (fun _ => 0) sq).
  generalize (fun _ : nat => 0) as f. induction ps as [|[i j] ps IH]; intros f; cbn [fold_left]; [reflexivity|].
  cbn [fst snd]. rewrite !set_pair_mk_from. cbn [Nat.add]. rewrite <- IH. f_equal.
Qed.

(* ---------------------------------------------------------------- the partner function of well-formed pairs *)
Lemma partnerF_snoc : forall ps ij k, partnerF (ps ++ [ij]) k = upd2 (partnerF ps) ij k.
Proof. intros. unfold partnerF. rewrite fold_left_app. reflexivity. Qed.

Lemma partnerF_outside : forall ps k, ~ In k (flatpos ps) -> partnerF ps k = 0.
Proof.
  induction ps as [|[o c] ps IH] using rev_ind; intros k H; [reflexivity|]. rewrite partnerF_snoc. unfold upd2. cbn [fst snd].
  assert (Hk : k <> o /\ k <> c /\ ~ In k (flatpos ps)).
  { unfold flatpos in H. rewrite flat_map_app in H. cbn [flat_map fst snd app] in H. repeat split; [intros ->|intros ->|intros Hin]; apply H; apply in_or_app; [right; left; reflexivity|right; right; left; reflexivity|left; exact Hin]. }
  destruct Hk as (A & B & C). destruct (Nat.eqb_spec k c); [contradiction|]. destruct (Nat.eqb_spec k o); [contradiction|]. apply IH. exact C.
Qed.

Lemma nodup_flatpos_app : forall ps o c, NoDup (flatpos (ps ++ [(o, c)])) -> NoDup (flatpos ps) /\ o <> c /\ ~ In o (flatpos ps) /\ ~ In c (flatpos ps).
Proof.
  intros ps o c H. unfold flatpos in H. rewrite flat_map_app in H. cbn [flat_map fst snd app] in H. fold (flatpos ps) in H.
  assert (G : forall (a b : list nat), NoDup (a ++ b) -> NoDup a /\ NoDup b /\ forall x, In x b -> ~ In x a).
  { clear. induction a as [|x a IH]; intros b H; [split; [constructor|split; [exact H|intros y _ []]]|]. cbn in H. inversion H as [|? ? Hn H']; subst.
    destruct (IH b H') as (A & B & C). split; [constructor; [intros Hin; apply Hn; apply in_or_app; left; exact Hin|exact A]|]. split; [exact B|].
    intros y Hy [->|Hin]; [apply Hn; apply in_or_app; right; exact Hy|apply (C y Hy Hin)]. }
  destruct (G _ _ H) as (A & B & C). split; [exact A|]. inversion B as [|? ? Hn _]; subst. split; [intros ->; apply Hn; left; reflexivity|].
  split; [apply C; left; reflexivity|apply C; right; left; reflexivity].
Qed.

Lemma partnerF_member : forall ps o c, NoDup (flatpos ps) -> In (o, c) ps -> partnerF ps o = Datatypes.S c /\ partnerF ps c = Datatypes.S o.
Proof.
  induction ps as [|[o' c'] ps IH] using rev_ind; intros o c N Hin; [destruct Hin|].
  destruct (nodup_flatpos_app ps o' c' N) as (N' & Hne & Ho' & Hc'). rewrite !partnerF_snoc. unfold upd2. cbn [fst snd].
  apply in_app_or in Hin. destruct Hin as [Hin|[E|[]]].
  - assert (Ino : In o (flatpos ps)) by (apply flatpos_in; exists (o, c); split; [exact Hin|left; reflexivity]).
    assert (Inc : In c (flatpos ps)) by (apply flatpos_in; exists (o, c); split; [exact Hin|right; reflexivity]).
    destruct (Nat.eqb_spec o c'); [subst; contradiction|]. destruct (Nat.eqb_spec o o'); [subst; contradiction|].
    destruct (Nat.eqb_spec c c'); [subst; contradiction|]. destruct (Nat.eqb_spec c o'); [subst; contradiction|]. apply IH; assumption.
  - injection E as -> ->. rewrite !Nat.eqb_refl. destruct (Nat.eqb_spec o c); [contradiction|]. split; reflexivity.
Qed.

(* ---------------------------------------------------------------- validity *)
Lemma mk_from_nth : forall sq s f k c, nth_error sq k = Some c -> nth_error (mk_from s f sq) k = Some {| idx := Datatypes.S (s + k); nt := c; pair := f (s + k) |}.
Proof.
  induction sq as [|x sq IH]; intros s f k c H; [destruct k; discriminate|]. rewrite mk_from_cons. destruct k as [|k]; cbn in *.
  - injection H as ->. rewrite Nat.add_0_r. reflexivity.
  - rewrite (IH (Datatypes.S s) f k c H). replace (Datatypes.S s + k) with (s + Datatypes.S k) by lia. reflexivity.
Qed.
Lemma mk_from_length : forall sq s f, length (mk_from s f sq) = length sq.
Proof. intros. unfold mk_from. rewrite map_length, combine_length, seq_length. lia. Qed.
Lemma mk_from_in : forall sq s f e, In e (mk_from s f sq) -> exists k c, nth_error sq k = Some c /\ e = {| idx := Datatypes.S (s + k); nt := c; pair := f (s + k) |}.
Proof.
  intros sq s f e H. apply In_nth_error in H. destruct H as (k & Hk).
  destruct (nth_error sq k) as [c|] eqn:E.
  - rewrite (mk_from_nth sq s f k c E) in Hk. injection Hk as <-. exists k, c. split; [exact E|reflexivity].
  - apply nth_error_None in E. assert (k < length (mk_from s f sq)) by (apply nth_error_Some; congruence). rewrite mk_from_length in H. lia.
Qed.

Lemma combine_map_l' : forall (A B C : Type) (g : A -> C) (l : list A) (l' : list B),
    combine (map g l) l' = map (fun p => (g (fst p), snd p)) (combine l l').
Proof. intros A B C g. induction l as [|x l IH]; intros [|y l']; cbn; try reflexivity. f_equal. apply IH. Qed.

Theorem from_db_valid : forall sq ps, wellformed_pairs (length sq) ps -> valid (from_db sq ps) = true.
Proof.
  intros sq ps (B & N & _). rewrite from_db_mk. unfold valid. apply andb_true_iff. split.
  - apply forallb_forall. intros [p e] H. cbn [fst snd]. rewrite mk_from_length in H.
    assert (G : forall sq s f p e, In (p, e) (combine (seq 0 (length sq)) (mk_from s f sq)) -> idx e = Datatypes.S (s + p)).
    { clear. intros sq0. induction sq0 as [|c sq0 IH]; intros s f p e H; [destruct H|]. rewrite mk_from_cons in H. cbn [length seq combine] in H. destruct H as [H|H].
      - injection H as <- <-. cbn. f_equal. lia.
      - rewrite <- seq_shift in H. rewrite combine_map_l' in H. apply in_map_iff in H. destruct H as ([p' e'] & E & H). injection E as <- <-.
        rewrite (IH (Datatypes.S s) f p' e' H). f_equal. lia. }
    apply Nat.eqb_eq. rewrite (G sq 0 (partnerF ps) p e H). reflexivity.
  - apply forallb_forall. intros e He. apply mk_from_in in He. destruct He as (k & c & Hk & ->). cbn [Nat.add].
    unfold entry_ok. cbn [pair idx]. rewrite mk_from_length.
    destruct (in_dec Nat.eq_dec k (flatpos ps)) as [Hin|Hout]; [|rewrite (partnerF_outside ps k Hout); reflexivity].
    apply flatpos_in in Hin. destruct Hin as ([o cl] & Hp & Hk'). cbn [fst snd] in Hk'. destruct (B o cl Hp) as [Loc Lc].
    destruct (partnerF_member ps o cl N Hp) as [Po Pc].
    assert (Nth : forall q, q < length sq -> pair_at (mk_from 0 (partnerF ps) sq) (Datatypes.S q) = partnerF ps q).
    { intros q Hq. unfold pair_at. destruct (nth_error sq q) as [cq|] eqn:Eq; [|apply nth_error_None in Eq; lia].
      rewrite (mk_from_nth sq 0 (partnerF ps) q cq Eq). reflexivity. }
    destruct Hk' as [->| ->].
    + rewrite Po. apply orb_true_iff. right. rewrite (Nth cl Lc), Pc.
      apply andb_true_iff. split; [apply andb_true_iff; split; [apply Nat.leb_le; lia|apply negb_true_iff; apply Nat.eqb_neq; lia]|apply Nat.eqb_refl].
    + rewrite Pc. apply orb_true_iff. right. rewrite (Nth o) by lia. rewrite Po.
      apply andb_true_iff. split; [apply andb_true_iff; split; [apply Nat.leb_le; lia|apply negb_true_iff; apply Nat.eqb_neq; lia]|apply Nat.eqb_refl].
Qed.

(* ---------------------------------------------------------------- the pairs of the structure built are the pairs decoded *)
Lemma sorted_unique : forall (l l' : list (nat * nat)),
    StronglySorted (fun p q => snd p < snd q) l -> StronglySorted (fun p q => snd p < snd q) l' -> (forall x, In x l <-> In x l') -> l = l'.
Proof.
  induction l as [|x l IH]; intros [|x' l'] S S' E.
  - reflexivity.
  - exfalso. apply (proj2 (E x')). left. reflexivity.
  - exfalso. apply (proj1 (E x)). left. reflexivity.
  - inversion S as [|? ? Sl Hx]; subst. inversion S' as [|? ? Sl' Hx']; subst. rewrite Forall_forall in Hx, Hx'.
    assert (x = x').
    { destruct (proj1 (E x) (or_introl eq_refl)) as [->|H1]; [reflexivity|]. destruct (proj2 (E x') (or_introl eq_refl)) as [->|H2]; [reflexivity|].
      specialize (Hx' x H1). specialize (Hx x' H2). lia. }
    subst x'. f_equal. apply IH; try assumption. intros y. split; intros Hy.
    + destruct (proj1 (E y) (or_intror Hy)) as [->|H]; [specialize (Hx y Hy); lia|exact H].
    + destruct (proj2 (E y) (or_intror Hy)) as [->|H]; [specialize (Hx' y Hy); lia|exact H].
Qed.

Lemma pairs0_sorted : forall sq s f,
    StronglySorted (fun p q => snd p < snd q) (pairs0 (mk_from s f sq)) /\ forall p, In p (pairs0 (mk_from s f sq)) -> s <= snd p.
Proof.
  induction sq as [|c sq IH]; intros s f; [split; [constructor|intros p []]|]. rewrite mk_from_cons. unfold pairs0. cbn [filter].
  fold (pairs0 (mk_from (Datatypes.S s) f sq)). destruct (IH (Datatypes.S s) f) as [A B].
  destruct (is_closer _); cbn [map idx pair].
  - fold (pairs0 (mk_from (Datatypes.S s) f sq)). split.
    + constructor; [exact A|]. apply Forall_forall. intros p Hp. specialize (B p Hp). cbn [snd]. lia.
    + intros p [<-|Hp]; [cbn; lia|specialize (B p Hp); lia].
  - split; [exact A|]. intros p Hp. specialize (B p Hp). lia.
Qed.

Lemma pairs0_in : forall sq f a k, In (a, k) (pairs0 (mk_from 0 f sq)) <-> k < length sq /\ f k <> 0 /\ f k < Datatypes.S k /\ a = f k - 1.
Proof.
  intros sq f a k. unfold pairs0. rewrite in_map_iff. split.
  - intros (e & E & He). apply filter_In in He. destruct He as [He Hc]. apply mk_from_in in He. destruct He as (q & c & Hq & ->). cbn [Nat.add pair idx] in *.
    injection E as <- E2. assert (q = k) by lia. subst q. unfold is_closer in Hc. cbn [pair idx] in Hc. apply andb_true_iff in Hc. destruct Hc as [H1 H2].
    apply negb_true_iff in H1. apply Nat.eqb_neq in H1. apply Nat.ltb_lt in H2.
    split; [apply nth_error_Some; congruence|]. repeat split; assumption.
  - intros (Hk & H1 & H2 & ->). destruct (nth_error sq k) as [c|] eqn:E; [|apply nth_error_None in E; lia].
    exists {| idx := Datatypes.S k; nt := c; pair := f k |}. split; [cbn; f_equal; lia|]. apply filter_In. split.
    + eapply nth_error_In. apply (mk_from_nth sq 0 f k c E).
    + unfold is_closer. cbn [pair idx]. apply andb_true_iff. split; [apply negb_true_iff; apply Nat.eqb_neq; exact H1|apply Nat.ltb_lt; exact H2].
Qed.

Theorem from_db_pairs : forall sq ps, wellformed_pairs (length sq) ps -> pairs0 (from_db sq ps) = ps.
Proof.
  intros sq ps (B & N & S). rewrite from_db_mk. apply sorted_unique; [apply pairs0_sorted|exact S|].
  intros [a k]. rewrite pairs0_in. split.
  - intros (Hk & H1 & H2 & ->). destruct (in_dec Nat.eq_dec k (flatpos ps)) as [Hin|Hout]; [|rewrite (partnerF_outside ps k Hout) in H1; contradiction].
    apply flatpos_in in Hin. destruct Hin as ([o c] & Hp & Hk'). cbn [fst snd] in Hk'. destruct (B o c Hp) as [Loc Lc].
    destruct (partnerF_member ps o c N Hp) as [Po Pc]. destruct Hk' as [->| ->].
    + rewrite Po in H2. lia.
    + rewrite Pc. replace (Datatypes.S o - 1) with o by lia. exact Hp.
  - intros Hp. destruct (B a k Hp) as [Loc Lc]. destruct (partnerF_member ps a k N Hp) as [_ Pc]. rewrite Pc. repeat split; lia.
Qed.

(* ---------------------------------------------------------------- the round trip *)
Theorem db_bpseq_db : forall s sq ps, parse_db s = Ok ps -> length sq = length s ->
    let b := from_db sq ps in
    valid b = true /\ pairs0 b = ps /\
    (forall s', lossless b s' = true -> parse_db s' = Ok ps) /\
    (forall s', fcfs b = Ok s' -> parse_db s' = Ok ps).
Proof.
  intros s sq ps H L. cbv zeta. pose proof (parse_db_wellformed s ps H) as W. rewrite <- L in W.
  pose proof (from_db_valid sq ps W) as V. pose proof (from_db_pairs sq ps W) as P.
  split; [exact V|]. split; [exact P|]. split.
  - intros s' Hl. destruct (lossless_sound _ _ Hl) as (_ & _ & _ & E). rewrite P in E. exact E.
  - intros s' Hf. pose proof (fcfs_lossless _ _ V Hf) as Hl. destruct (lossless_sound _ _ Hl) as (_ & _ & _ & E). rewrite P in E. exact E.
Qed.
