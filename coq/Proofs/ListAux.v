(* Generic list lemmas shared by several developments. *)
From Coq Require Import List Arith Lia.
Import ListNotations.

Lemma in_combine_seq : forall (A : Type) (l : list A) s j b,
    In (j, b) (combine (seq s (length l)) l) <-> s <= j /\ nth_error l (j - s) = Some b.
Proof.
  intros A. induction l as [|x l IH]; intros s j b.
  - cbn. split; [intros []|]. intros [_ H]. destruct (j - s); discriminate.
  - cbn [length seq combine In]. rewrite IH. split.
    + intros [H|[H1 H2]].
      * injection H as <- <-. rewrite Nat.sub_diag. split; [lia|reflexivity].
      * split; [lia|]. replace (j - s) with (S (j - S s)) by lia. exact H2.
    + intros [H1 H2]. destruct (Nat.eq_dec j s) as [->|Hne].
      * rewrite Nat.sub_diag in H2. cbn in H2. injection H2 as <-. left. reflexivity.
      * right. split; [lia|]. replace (j - s) with (S (j - S s)) in H2 by lia. exact H2.
Qed.

