(* C05: the annotation does not depend on how chains and residues are labelled, as long as the relabelling keeps the order
   of the residues: the model reads the chain / number / insertion code of a residue only through res_ltb. *)
From Coq Require Import String Ascii ZArith QArith List Bool Arith Lia Permutation.
From RV Require Import Base.Val Base.PyStr Gen.Common Gen.Annot Model.Geom Model.AllDb Model.Annot Proofs.C05Main.
Import ListNotations.
Local Close Scope Q_scope.

(* same model number, same letter, same atoms: the labels (chain, number, insertion code) are free *)
Definition sim_res (r r' : res3) : Prop :=
  r_model r' = r_model r /\ r_letter r' = r_letter r /\ forall nm, find_atom r' nm = find_atom r nm.

Section Sim.
  Lemma base_normal_sim : forall r r', sim_res r r' -> base_normal r' = base_normal r.
  Proof. intros r r' (_ & L & F). unfold base_normal. rewrite L, !F. reflexivity. Qed.
  Lemma glyco_n_sim : forall r r', sim_res r r' -> glyco_n r' = glyco_n r.
  Proof. intros r r' (_ & L & F). unfold glyco_n. rewrite L, !F. reflexivity. Qed.
  Lemma detect_sim : forall ri ri' rj rj', sim_res ri ri' -> sim_res rj rj' -> detect_cis_trans ri' rj' = detect_cis_trans ri rj.
  Proof.
    intros ri ri' rj rj' Hi Hj. unfold detect_cis_trans. rewrite (glyco_n_sim _ _ Hi), (glyco_n_sim _ _ Hj).
    destruct Hi as (_ & _ & Fi). destruct Hj as (_ & _ & Fj). rewrite Fi, Fj. reflexivity.
  Qed.
  Lemma bph_class_sim : forall r r' nm d a, sim_res r r' -> bph_class r' nm d a = bph_class r nm d a.
  Proof. intros r r' nm d a (_ & L & F). unfold bph_class. rewrite L. destruct (find _ bph_ladder) as [[k [n|[[x y] [kc kt]]]]|]; [reflexivity| |reflexivity]. rewrite !F. reflexivity. Qed.
  Lemma edges_of_sim : forall r r' a, sim_res r r' -> edges_of r' a = edges_of r a.
  Proof. intros r r' a (_ & L & _). unfold edges_of. rewrite L. reflexivity. Qed.
  Lemma candidates_of_sim : forall i r r', sim_res r r' -> candidates_of i r' = candidates_of i r.
  Proof.
    intros i r r' (_ & L & F). unfold candidates_of. rewrite L. cbv zeta. apply flat_map_ext. intros nm. rewrite F. reflexivity.
  Qed.
  Lemma centroid_sim : forall r r', sim_res r r' -> centroid r' = centroid r.
  Proof.
    intros r r' (_ & L & F). unfold centroid. rewrite L. cbv zeta.
    rewrite (flat_map_ext _ (fun nm => match find_atom r nm with Some p => [p] | None => [] end)) by (intros nm; rewrite F; reflexivity). reflexivity.
  Qed.

  Lemma Forall2_length' : forall (A B : Type) (R : A -> B -> Prop) l l', Forall2 R l l' -> length l = length l'.
  Proof. intros A B R l l' H. induction H; cbn; [reflexivity|f_equal; assumption]. Qed.

  Lemma nth_sim_gen : forall rs rs', Forall2 sim_res rs rs' -> forall i,
      match nth_error rs i, nth_error rs' i with Some r, Some r' => sim_res r r' | None, None => True | _, _ => False end.
  Proof.
    intros rs rs' H. induction H as [|r r' l l' Hr _ IH]; intros i; [destruct i; exact I|]. destruct i as [|i]; [exact Hr|apply IH].
  Qed.
  Lemma candidates_sim_gen : forall rs rs', Forall2 sim_res rs rs' -> candidates rs' = candidates rs.
  Proof.
    intros rs rs' H. unfold candidates. rewrite <- (Forall2_length' _ _ _ _ _ H). generalize 0%nat. induction H as [|r r' l l' Hr _ IH]; intros s; [reflexivity|].
    cbn [length seq combine flat_map fst snd]. rewrite (candidates_of_sim s r r' Hr), IH. reflexivity.
  Qed.
  Lemma centres_sim_gen : forall rs rs', Forall2 sim_res rs rs' -> centres rs' = centres rs.
  Proof.
    intros rs rs' H. unfold centres. rewrite <- (Forall2_length' _ _ _ _ _ H). generalize 0%nat. induction H as [|r r' l l' Hr _ IH]; intros s; [reflexivity|].
    cbn [length seq combine flat_map fst snd]. rewrite (centroid_sim r r' Hr), IH. reflexivity.
  Qed.

  Variables rs rs' : list res3.
  Hypothesis Hrs : Forall2 sim_res rs rs'.
  (* the relabelling keeps the order of the residues *)
  Hypothesis Hord : forall i j a b a' b', nth_error rs i = Some a -> nth_error rs j = Some b -> nth_error rs' i = Some a' -> nth_error rs' j = Some b' ->
      res_ltb a' b' = res_ltb a b.
  Definition nth_sim := nth_sim_gen rs rs' Hrs.
  Definition candidates_sim := candidates_sim_gen rs rs' Hrs.
  Definition centres_sim := centres_sim_gen rs rs' Hrs.

  Lemma step_pair_sim : forall cs st ij, step_pair rs' cs st ij = step_pair rs cs st ij.
  Proof.
    intros cs st ij. unfold step_pair. destruct (nth_error cs (fst ij)) as [ci|]; [|reflexivity]. destruct (nth_error cs (snd ij)) as [cj|]; [|reflexivity].
    destruct (Bool.eqb (c_acceptor ci) (c_acceptor cj)); [reflexivity|]. destruct (c_res ci =? c_res cj); [reflexivity|].
    pose proof (nth_sim (c_res ci)) as Hi. pose proof (nth_sim (c_res cj)) as Hj.
    destruct (nth_error rs (c_res ci)) as [ri|], (nth_error rs' (c_res ci)) as [ri'|]; try contradiction; [|reflexivity].
    destruct (nth_error rs (c_res cj)) as [rj|], (nth_error rs' (c_res cj)) as [rj'|]; try contradiction; [|reflexivity].
    destruct (c_acceptor ci); cbv zeta; rewrite ?(bph_class_sim _ _ _ _ _ Hi), ?(bph_class_sim _ _ _ _ _ Hj), (base_normal_sim _ _ Hi), (base_normal_sim _ _ Hj); reflexivity.
  Qed.

  Lemma labels_of_sim : forall h, labels_of rs' h = labels_of rs h.
  Proof.
    intros h. unfold labels_of. pose proof (nth_sim (h_i h)) as Hi. pose proof (nth_sim (h_j h)) as Hj.
    destruct (nth_error rs (h_i h)) as [ri|] eqn:E1, (nth_error rs' (h_i h)) as [ri'|] eqn:E1'; try contradiction; [|reflexivity].
    destruct (nth_error rs (h_j h)) as [rj|] eqn:E2, (nth_error rs' (h_j h)) as [rj'|] eqn:E2'; try contradiction; [|reflexivity].
    rewrite (edges_of_sim _ _ _ Hi), (edges_of_sim _ _ _ Hj), (detect_sim _ _ _ _ Hi Hj), (Hord _ _ _ _ _ _ E1 E2 E1' E2'). reflexivity.
  Qed.

  Ltac four i1 i2 j1 j2 :=
    pose proof (nth_sim i1) as H1; pose proof (nth_sim i2) as H2; pose proof (nth_sim j1) as H3; pose proof (nth_sim j2) as H4;
    destruct (nth_error rs i1) eqn:Ei1, (nth_error rs' i1) eqn:Ei1'; try contradiction; try reflexivity;
    destruct (nth_error rs i2) eqn:Ei2, (nth_error rs' i2) eqn:Ei2'; try contradiction; try reflexivity;
    destruct (nth_error rs j1) eqn:Ej1, (nth_error rs' j1) eqn:Ej1'; try contradiction; try reflexivity;
    destruct (nth_error rs j2) eqn:Ej2, (nth_error rs' j2) eqn:Ej2'; try contradiction; try reflexivity.

  Lemma pair_ltb_sim : forall a b, pair_ltb rs' a b = pair_ltb rs a b.
  Proof.
    intros [[[[i1 j1] c1] e1] f1] [[[[i2 j2] c2] e2] f2]. unfold pair_ltb. four i1 i2 j1 j2.
    rewrite (Hord _ _ _ _ _ _ Ej1 Ej2 Ej1' Ej2'), (Hord _ _ _ _ _ _ Ei1 Ei2 Ei1' Ei2'). reflexivity.
  Qed.
  Lemma triple_ltb_sim : forall a b, triple_ltb rs' a b = triple_ltb rs a b.
  Proof.
    intros [[d1 a1] k1] [[d2 a2] k2]. unfold triple_ltb. four d1 d2 a1 a2.
    rewrite (Hord _ _ _ _ _ _ Ej1 Ej2 Ej1' Ej2'), (Hord _ _ _ _ _ _ Ei1 Ei2 Ei1' Ei2'). reflexivity.
  Qed.
  Lemma stack_ltb_sim : forall a b, stack_ltb rs' a b = stack_ltb rs a b.
  Proof.
    intros [[i1 j1] t1] [[i2 j2] t2]. unfold stack_ltb. four i1 i2 j1 j2.
    rewrite (Hord _ _ _ _ _ _ Ej1 Ej2 Ej1' Ej2'), (Hord _ _ _ _ _ _ Ei1 Ei2 Ei1' Ei2'). reflexivity.
  Qed.
  Lemma saenger_of_sim : forall l, saenger_of rs' l = saenger_of rs l.
  Proof.
    intros [[[[i j] c] e] f]. unfold saenger_of. pose proof (nth_sim i) as Hi. pose proof (nth_sim j) as Hj.
    destruct (nth_error rs i) as [ri|], (nth_error rs' i) as [ri'|]; try contradiction; [|reflexivity].
    destruct (nth_error rs j) as [rj|], (nth_error rs' j) as [rj'|]; try contradiction; [|reflexivity].
    destruct Hi as (_ & Li & _). destruct Hj as (_ & Lj & _). rewrite Li, Lj. reflexivity.
  Qed.

  Theorem find_pairs_sim : forall order, find_pairs rs' order = find_pairs rs order.
  Proof.
    intros order. unfold find_pairs. cbv zeta. rewrite candidates_sim.
    assert (Sc : forall o st, fold_left (step_pair rs' (candidates rs)) o st = fold_left (step_pair rs (candidates rs)) o st).
    { induction o as [|ij o IH]; intros st; [reflexivity|]. cbn [fold_left]. rewrite step_pair_sim. apply IH. }
    rewrite Sc. destruct (length (candidates rs) <? 2); [reflexivity|].
    unfold merge_and_clean. rewrite !(stable_sort_ext _ _ _ _ triple_ltb_sim), (stable_sort_ext _ _ _ _ pair_ltb_sim).
    rewrite (map_ext _ _ labels_of_sim). f_equal. apply map_ext. intros [[[[i j] c] e] f]. rewrite saenger_of_sim. reflexivity.
  Qed.

  Lemma stack_pair_sim : forall cs ij, stack_pair rs' cs ij = stack_pair rs cs ij.
  Proof.
    intros cs ij. unfold stack_pair. destruct (nth_error cs (fst ij)) as [[i [si ki]]|]; [|reflexivity]. destruct (nth_error cs (snd ij)) as [[j [sj kj]]|]; [|reflexivity].
    pose proof (nth_sim i) as Hi. pose proof (nth_sim j) as Hj.
    destruct (nth_error rs i) as [ri|] eqn:E1, (nth_error rs' i) as [ri'|] eqn:E1'; try contradiction; [|reflexivity].
    destruct (nth_error rs j) as [rj|] eqn:E2, (nth_error rs' j) as [rj'|] eqn:E2'; try contradiction; [|reflexivity].
    rewrite (base_normal_sim _ _ Hi), (base_normal_sim _ _ Hj), (Hord _ _ _ _ _ _ E1 E2 E1' E2'). reflexivity.
  Qed.

  Theorem find_stackings_sim : forall order, find_stackings rs' order = find_stackings rs order.
  Proof.
    intros order. unfold find_stackings. cbv zeta. rewrite centres_sim. destruct (length (centres rs) <? 2); [reflexivity|].
    rewrite (map_ext _ _ (stack_pair_sim (centres rs))), (stable_sort_ext _ _ _ _ stack_ltb_sim). reflexivity.
  Qed.
End Sim.

(* an instance: renumbering every residue by a constant offset *)
Definition shift (d : Z) (r : res3) : res3 :=
  {| r_model := r_model r; r_chain := r_chain r; r_number := (r_number r + d)%Z; r_icode := r_icode r; r_letter := r_letter r; r_atoms := r_atoms r |}.

Lemma shift_ord : forall d a b, res_ltb (shift d a) (shift d b) = res_ltb a b.
Proof.
  intros d a b. unfold res_ltb, icode_or_space, shift. cbn [r_model r_chain r_number r_icode].
  replace (r_number a + d <? r_number b + d)%Z with (r_number a <? r_number b)%Z by lia.
  replace (r_number b + d <? r_number a + d)%Z with (r_number b <? r_number a)%Z by lia. reflexivity.
Qed.

Theorem renumbered_same : forall d rs,
    (forall order, find_pairs (map (shift d) rs) order = find_pairs rs order) /\
    (forall order, find_stackings (map (shift d) rs) order = find_stackings rs order).
Proof.
  intros d rs.
  assert (Hrs : Forall2 sim_res rs (map (shift d) rs)).
  { induction rs as [|r rs IH]; [constructor|]. constructor; [|exact IH]. repeat split. }
  assert (Hord : forall i j a b a' b', nth_error rs i = Some a -> nth_error rs j = Some b -> nth_error (map (shift d) rs) i = Some a' ->
                                       nth_error (map (shift d) rs) j = Some b' -> res_ltb a' b' = res_ltb a b).
  { intros i j a b a' b' Ha Hb Ha' Hb'. rewrite nth_error_map, Ha in Ha'. rewrite nth_error_map, Hb in Hb'. cbn in Ha', Hb'.
    injection Ha' as <-. injection Hb' as <-. apply shift_ord. }
  split; intros order; [apply (find_pairs_sim rs _ Hrs Hord)|apply (find_stackings_sim rs _ Hrs Hord)].
Qed.
