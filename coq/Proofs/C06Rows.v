(* C06: extended dot-bracket rows — every row is a set of residue-disjoint pairs (so its BPSEQ is a symmetric matching), and
   the rows of a class together hold every distinct (i, j) of that class exactly once. *)
From Coq Require Import String Ascii ZArith List Bool Arith Lia Permutation.
From RV Require Import Base.Val Base.PyStr Gen.Common Model.Bpseq Model.AllDb Model.Annot Model.Mapping Proofs.C06Main Proofs.C06Bpseq.
Import ListNotations.

Definition ij (p : lpair) : nat * nat := (l_i p, l_j p).
Definition apart (p q : lpair) : Prop := l_i q <> l_i p /\ l_j q <> l_i p /\ l_i q <> l_j p /\ l_j q <> l_j p.
Definition row_disjoint (row : list lpair) : Prop := forall p q, In p row -> In q row -> p = q \/ apart p q.

Lemma fits_row_spec : forall p row, fits_row p row = true -> forall q, In q row -> apart p q.
Proof.
  intros p row H q Hq. unfold fits_row in H. apply negb_true_iff in H.
  assert (F : ((l_i q =? l_i p) || (l_j q =? l_i p) || (l_i q =? l_j p) || (l_j q =? l_j p)) = false).
  { destruct ((l_i q =? l_i p) || (l_j q =? l_i p) || (l_i q =? l_j p) || (l_j q =? l_j p)) eqn:E; [|reflexivity].
    assert (existsb (fun q => (l_i q =? l_i p) || (l_j q =? l_i p) || (l_i q =? l_j p) || (l_j q =? l_j p)) row = true); [|congruence].
    apply existsb_exists. exists q. split; assumption. }
  apply orb_false_iff in F. destruct F as [F F4]. apply orb_false_iff in F. destruct F as [F F3]. apply orb_false_iff in F. destruct F as [F1 F2].
  apply Nat.eqb_neq in F1, F2, F3, F4. repeat split; assumption.
Qed.

Lemma apart_sym : forall p q, apart p q -> apart q p.
Proof. intros p q (A & B & C & D). repeat split; congruence. Qed.

Lemma place_rows_disjoint : forall p rws, (forall row, In row rws -> row_disjoint row) ->
    forall row, In row (place p rws) -> row_disjoint row.
Proof.
  intros p. induction rws as [|r t IH]; intros H row Hin; cbn [place] in Hin.
  - destruct Hin as [<-|[]]. intros a b [<-|[]] [<-|[]]. left. reflexivity.
  - destruct (fits_row p r) eqn:F.
    + destruct Hin as [<-|Hin]; [|apply H; right; exact Hin].
      intros a b Ha Hb. apply in_app_or in Ha, Hb.
      destruct Ha as [Ha|[<-|[]]], Hb as [Hb|[<-|[]]].
      * apply (H r (or_introl eq_refl)); assumption.
      * right. apply apart_sym. apply (fits_row_spec _ _ F). exact Ha.
      * right. apply (fits_row_spec _ _ F). exact Hb.
      * left. reflexivity.
    + destruct Hin as [<-|Hin]; [apply H; left; reflexivity|]. apply IH; [|exact Hin]. intros r' Hr'. apply H. right. exact Hr'.
Qed.

Lemma place_perm : forall p rws, Permutation (concat (place p rws)) (p :: concat rws).
Proof.
  intros p. induction rws as [|r t IH]; cbn [place concat]; [rewrite app_nil_r; apply Permutation_refl|].
  destruct (fits_row p r); cbn [concat].
  - rewrite <- app_assoc. cbn [app]. apply Permutation_sym. apply Permutation_middle.
  - eapply Permutation_trans; [apply Permutation_app_head; exact IH|]. apply Permutation_sym. apply Permutation_middle.
Qed.

Definition seen_has (seen : list (nat * nat)) (p : lpair) : bool := existsb (fun s => (fst s =? l_i p) && (snd s =? l_j p)) seen.
Lemma seen_has_iff : forall seen p, seen_has seen p = true <-> In (ij p) seen.
Proof.
  intros seen p. unfold seen_has. rewrite existsb_exists. split.
  - intros ([a b] & Hin & E). cbn [fst snd] in E. apply andb_true_iff in E. destruct E as [E1 E2]. apply Nat.eqb_eq in E1, E2. subst. exact Hin.
  - intros H. exists (ij p). split; [exact H|]. cbn. rewrite !Nat.eqb_refl. reflexivity.
Qed.

Record rows_inv (l : list lpair) (acc : list (list lpair) * list (nat * nat)) : Prop := {
  ri_disj : forall row, In row (fst acc) -> row_disjoint row;
  ri_perm : Permutation (map ij (concat (fst acc))) (snd acc);
  ri_nodup : NoDup (snd acc);
  ri_sub : forall q, In q (concat (fst acc)) -> In q l;
  ri_nonempty : forall row, In row (fst acc) -> row <> [] }.

Lemma place_nonempty : forall p rws, (forall row, In row rws -> row <> []) -> forall row, In row (place p rws) -> row <> [].
Proof.
  intros p. induction rws as [|r t IH]; intros H row Hin; cbn [place] in Hin.
  - destruct Hin as [<-|[]]. discriminate.
  - destruct (fits_row p r).
    + destruct Hin as [<-|Hin]; [destruct r; discriminate|apply H; right; exact Hin].
    + destruct Hin as [<-|Hin]; [apply H; left; reflexivity|apply IH; [intros r' Hr'; apply H; right; exact Hr'|exact Hin]].
Qed.

Lemma rows_step_inv : forall l acc p, In p l -> rows_inv l acc -> rows_inv l (rows_step acc p).
Proof.
  intros l [rows seen] p Hp [D P N S NE]. cbn [fst snd] in *. unfold rows_step. cbn [fst snd]. fold (seen_has seen p).
  destruct (seen_has seen p) eqn:E; [constructor; assumption|].
  constructor; cbn [fst snd].
  - apply place_rows_disjoint. exact D.
  - eapply Permutation_trans; [apply Permutation_map; apply place_perm|]. cbn [map]. apply perm_skip. exact P.
  - constructor; [|exact N]. intros Hin. apply seen_has_iff in Hin. congruence.
  - intros q Hq. apply (Permutation_in _ (place_perm p rows)) in Hq. destruct Hq as [<-|Hq]; [exact Hp|apply S; exact Hq].
  - apply place_nonempty. exact NE.
Qed.

Lemma rows_fold_inv : forall l todo acc, (forall p, In p todo -> In p l) -> rows_inv l acc ->
    rows_inv l (fold_left rows_step todo acc) /\
    (forall p, In p todo -> In (ij p) (snd (fold_left rows_step todo acc))) /\
    (forall s, In s (snd acc) -> In s (snd (fold_left rows_step todo acc))).
Proof.
  intros l. induction todo as [|p todo IH]; intros acc Hsub I; cbn [fold_left].
  - split; [exact I|]. split; [intros p []|auto].
  - destruct (IH (rows_step acc p)) as (I' & A & B); [intros q Hq; apply Hsub; right; exact Hq|apply rows_step_inv; [apply Hsub; left; reflexivity|exact I]|].
    split; [exact I'|]. split.
    + intros q [<-|Hq]; [|apply A; exact Hq]. apply B. unfold rows_step. fold (seen_has (snd acc) p).
      destruct (seen_has (snd acc) p) eqn:E; [apply seen_has_iff; exact E|left; reflexivity].
    + intros s Hs. apply B. unfold rows_step. destruct (existsb _ (snd acc)); [exact Hs|right; exact Hs].
Qed.

(* the rows of one class *)
Theorem rows_of_class_spec : forall rs lifted lw,
    let rows := rows_of_class rs lifted lw in
    let mine := class_pairs rs lifted lw in
    (* each row: residue-disjoint pairs, non-empty *)
    (forall row, In row rows -> row_disjoint row /\ row <> []) /\
    (* only pairs of the class *)
    (forall q, In q (concat rows) -> In q mine) /\
    (* every (i, j) of the class is in some row ... *)
    (forall p, In p mine -> In (ij p) (map ij (concat rows))) /\
    (* ... and no (i, j) is written twice *)
    NoDup (map ij (concat rows)).
Proof.
  intros rs lifted lw rows mine. unfold rows, rows_of_class. fold mine.
  assert (I0 : rows_inv mine ([], [])).
  { constructor; cbn; try (intros ? []); [apply Permutation_refl|constructor]. }
  destruct (rows_fold_inv mine mine ([], []) (fun p H => H) I0) as ([D P N S NE] & A & _).
  split; [intros row Hr; split; [apply D|apply NE]; exact Hr|]. split; [exact S|]. split.
  - intros p Hp. apply (Permutation_in _ (Permutation_sym P)). apply A. exact Hp.
  - apply (Permutation_NoDup (Permutation_sym P)). exact N.
Qed.

(* a residue-disjoint row whose pairs have distinct ends gives a symmetric BPSEQ *)
Lemma row_conflict_free : forall fg rs row, row_disjoint row -> (forall p, In p row -> l_i p <> l_j p) ->
    Disj (ipairs (numbering fg rs) row).
Proof.
  intros fg rs row RD Hne. pose proof (numbering_nodup fg rs) as N. split.
  - intros [j k] H. apply ipairs_in in H. destruct H as (p & Hp & A & B). cbn [fst snd]. intros ->.
    apply (Hne p Hp). eapply index_inj; eassumption.
  - intros [j k] [j' k'] Ha Hb. apply ipairs_in in Ha, Hb.
    destruct Ha as (p & Hp & A & B). destruct Hb as (q & Hq & A' & B'). cbn [fst snd].
    destruct (RD p q Hp Hq) as [->|(X1 & X2 & X3 & X4)]; [left; congruence|]. right.
    repeat split; intros ->.
    + apply X1. eapply index_inj; eassumption.
    + apply X2. eapply index_inj; eassumption.
    + apply X3. eapply index_inj; eassumption.
    + apply X4. eapply index_inj; eassumption.
Qed.

Theorem row_bpseq_symmetric : forall fg rs row, row_disjoint row -> (forall p, In p row -> l_i p <> l_j p) ->
    symmetric_bpseq (generate_bpseq fg rs row) /\
    map (fun e => fst e) (generate_bpseq fg rs row) = map (fun x => fst x) (numbering fg rs).
Proof.
  intros fg rs row RD Hne. split; [|apply generate_bpseq_frame].
  pose proof (row_conflict_free fg rs row RD Hne) as D.
  assert (Pos : forall a, In a (ipairs (numbering fg rs) row) -> fst a <> 0 /\ snd a <> 0).
  { intros [j k] Ha. apply ipairs_in in Ha. destruct Ha as (p & _ & A & B). split; eapply index_pos; eassumption. }
  intros ix c pr Hin Hpr. rewrite generate_bpseq_is_map in *. apply in_map_iff in Hin. destruct Hin as ([[ix' c0] r] & E & Hx).
  cbn [fst snd] in E. injection E as -> -> E.
  assert (P : partner (ipairs (numbering fg rs) row) pr 0 = ix) by (eapply partner_symmetric; eauto).
  assert (Hpr_in : exists x, In x (numbering fg rs) /\ fst (fst x) = pr).
  { destruct (proj1 (partner_iff _ ix pr D Pos) (conj E Hpr)) as [Hm|Hm]; apply ipairs_in in Hm; destruct Hm as (p & _ & A & B).
    - apply index_of_res'_some in B. destruct B as (x & Hx' & _ & F). exists x. split; assumption.
    - apply index_of_res'_some in A. destruct A as (x & Hx' & _ & F). exists x. split; assumption. }
  destruct Hpr_in as ([[pr' c'] r'] & Hx' & F). cbn [fst] in F. subst pr'.
  exists c'. apply in_map_iff. exists (pr, c', r'). split; [|exact Hx']. cbn [fst snd]. rewrite P. reflexivity.
Qed.

(* the pairs of every extended row have distinct ends (class_pairs keeps i < j in residue order) *)
Lemma class_pairs_distinct : forall rs lifted lw p, In p (class_pairs rs lifted lw) -> l_i p <> l_j p.
Proof.
  intros rs lifted lw p H. unfold class_pairs in H. apply filter_In in H. destruct H as [_ H]. apply andb_true_iff in H. destruct H as [_ H].
  intros E. unfold lt_idx in H. rewrite E in H. destruct (nth_error rs (l_j p)); [|discriminate]. rewrite mres_ltb_irrefl in H. discriminate.
Qed.

Theorem extended_rows_symmetric : forall fg rs ps lw b, In (lw, b) (extended_rows fg rs ps) ->
    symmetric_bpseq b /\ map (fun e => fst e) b = map (fun x => fst x) (numbering fg rs).
Proof.
  intros fg rs ps lw b H. unfold extended_rows in H. cbv zeta in H. apply in_flat_map in H. destruct H as (m & _ & H).
  apply in_map_iff in H. destruct H as (row & E & Hrow). injection E as <- <-.
  destruct (rows_of_class_spec rs (lift ps) (list_ascii_of_string (snd m))) as (A & B & _).
  apply row_bpseq_symmetric; [apply A; exact Hrow|].
  intros p Hp. eapply class_pairs_distinct. apply B. apply in_concat. exists row. split; [exact Hrow|exact Hp].
Qed.

(* ---------------------------------------------------------------- lifting: every resolvable entry, both ways round, once *)
Definition lifted_of (p : ipair) : list lpair :=
  match p_i p, p_j p with
  | Some i, Some j => let bp := {| l_i := i; l_j := j; l_lw := p_lw p; l_sa := p_sa p |} in [bp; reverse_pair bp]
  | _, _ => []
  end.

Lemma add_new_spec : forall acc bp, NoDup acc ->
    NoDup (if existsb (lpair_eqb bp) acc then acc else acc ++ [bp]) /\
    forall x, In x (if existsb (lpair_eqb bp) acc then acc else acc ++ [bp]) <-> In x acc \/ x = bp.
Proof.
  intros acc bp N. destruct (existsb (lpair_eqb bp) acc) eqn:E.
  - split; [exact N|]. intros x. split; [auto|]. intros [H| ->]; [exact H|].
    apply existsb_exists in E. destruct E as (q & Hq & Eq). apply lpair_eqb_eq in Eq. subst. exact Hq.
  - assert (Np : ~ In bp acc) by (intros Hin; rewrite (in_existsb_eqb bp acc Hin) in E; discriminate).
    split.
    + clear -N Np. induction acc as [|a acc IHa]; cbn; [constructor; [intros []|constructor]|].
      inversion N; subst. constructor.
      * intros Hin. apply in_app_or in Hin. destruct Hin as [Hin|[->|[]]]; [contradiction|]. apply Np. left. reflexivity.
      * apply IHa; [assumption|]. intros Hin. apply Np. right. exact Hin.
    + intros x. rewrite in_app_iff. cbn [In]. intuition.
Qed.

Theorem lift_spec : forall ps, NoDup (lift ps) /\ forall x, In x (lift ps) <-> exists p, In p ps /\ In x (lifted_of p).
Proof.
  intros ps. unfold lift.
  set (f := fun acc p => match p_i p, p_j p with
               | Some i, Some j =>
                   let bp := {| l_i := i; l_j := j; l_lw := p_lw p; l_sa := p_sa p |} in
                   let acc1 := if existsb (lpair_eqb bp) acc then acc else acc ++ [bp] in
                   if existsb (lpair_eqb (reverse_pair bp)) acc1 then acc1 else acc1 ++ [reverse_pair bp]
               | _, _ => acc end).
  assert (G : forall ps acc, NoDup acc ->
             NoDup (fold_left f ps acc) /\
             forall x, In x (fold_left f ps acc) <-> In x acc \/ exists p, In p ps /\ In x (lifted_of p)).
  { induction ps0 as [|p ps0 IH]; intros acc N; cbn [fold_left].
    - split; [exact N|]. intros x. split; [auto|]. intros [H|(p & [] & _)]. exact H.
    - assert (S : NoDup (f acc p) /\ forall x, In x (f acc p) <-> In x acc \/ In x (lifted_of p)).
      { unfold f, lifted_of. destruct (p_i p) as [i|]; [|split; [exact N|intros x; cbn; intuition]].
        destruct (p_j p) as [j|]; [|split; [exact N|intros x; cbn; intuition]]. cbv zeta.
        set (bp := {| l_i := i; l_j := j; l_lw := p_lw p; l_sa := p_sa p |}).
        destruct (add_new_spec acc bp N) as [N1 M1].
        destruct (add_new_spec _ (reverse_pair bp) N1) as [N2 M2]. split; [exact N2|].
        intros x. rewrite M2, M1. cbn [In]. intuition. }
      destruct S as [N' M']. destruct (IH (f acc p) N') as [A B]. split; [exact A|]. intros x. rewrite B, M'. split.
      + intros [[H|H]|(q & Hq & Hx)]; [left; exact H|right; exists p; split; [left; reflexivity|exact H]|right; exists q; split; [right; exact Hq|exact Hx]].
      + intros [H|(q & [<-|Hq] & Hx)]; [left; left; exact H|left; right; exact Hx|right; exists q; split; assumption]. }
  destruct (G ps [] (NoDup_nil _)) as [A B]. split; [exact A|]. intros x. rewrite B. split; [intros [[]|H]; exact H|auto].
Qed.
