(* C12, first sentence, second half: removing isolated pairs keeps the sequence and the numbering, and the pairs that remain are
   exactly those of the stems of length two or more (in order); every other entry is left exactly as it was. *)
From Coq Require Import String Ascii ZArith List Bool Arith Lia.
From RV Require Import Base.Val Gen.Common Model.Bpseq Model.AllDb Model.Elements Proofs.Regions.
Import ListNotations.

Definition iso_of (b : bpseq) : list nat :=
  flat_map (fun st => match st with [e] => [idx e; pair e] | _ => [] end) (stems b).
Definition unpair (e : entry) : entry := {| idx := idx e; nt := nt e; pair := 0 |}.
Definition longb (st : list entry) : bool := 2 <=? length st.

Lemma without_isolated_unfold : forall b,
    without_isolated b = map (fun e => if mem (idx e) (iso_of b) then unpair e else e) b.
Proof. reflexivity. Qed.

Lemma wi_idx : forall b, map idx (without_isolated b) = map idx b.
Proof. intros b. rewrite without_isolated_unfold, map_map. apply map_ext. intros e. destruct (mem _ _); reflexivity. Qed.

Lemma wi_nt : forall b, map nt (without_isolated b) = map nt b.
Proof. intros b. rewrite without_isolated_unfold, map_map. apply map_ext. intros e. destruct (mem _ _); reflexivity. Qed.

Lemma wi_entry : forall b k e, nth_error b k = Some e ->
    nth_error (without_isolated b) k = Some (if mem (idx e) (iso_of b) then unpair e else e).
Proof. intros b k e H. rewrite without_isolated_unfold. erewrite map_nth_error; [reflexivity|exact H]. Qed.

Lemma mem_In : forall x l, mem x l = true <-> In x l.
Proof.
  intros x l. unfold mem. rewrite existsb_exists. split.
  - intros (y & Hy & E). apply Nat.eqb_eq in E. subst. exact Hy.
  - intros H. exists x. split; [exact H|apply Nat.eqb_refl].
Qed.

Lemma paired53_map : forall iso l,
    paired53 (map (fun e => if mem (idx e) iso then unpair e else e) l) = filter (fun e => negb (mem (idx e) iso)) (paired53 l).
Proof.
  intros iso l. unfold paired53. induction l as [|a l IH]; [reflexivity|].
  cbn [map]. destruct (mem (idx a) iso) eqn:M.
  - cbn [filter unpair pair]. change (0 =? 0) with true. cbn [negb]. rewrite IH.
    destruct (negb (pair a =? 0)); cbn [filter]; [|reflexivity].
    destruct (idx a <? pair a); cbn [filter]; [|reflexivity]. rewrite M. reflexivity.
  - cbn [filter]. destruct (negb (pair a =? 0)); cbn [filter]; [|exact IH].
    destruct (idx a <? pair a); cbn [filter]; [|exact IH]. rewrite M. cbn [negb]. rewrite IH. reflexivity.
Qed.

Lemma NoDup_app_disjoint : forall (A : Type) (l1 l2 : list A) x, NoDup (l1 ++ l2) -> In x l1 -> In x l2 -> False.
Proof.
  intros A l1 l2 x. induction l1 as [|a l1 IH]; cbn [app In]; intros N H1 H2; [exact H1|].
  apply NoDup_cons_iff in N. destruct N as [Na N]. destruct H1 as [->|H1].
  - apply Na. apply in_or_app. right. exact H2.
  - exact (IH N H1 H2).
Qed.

Lemma NoDup_app_r : forall (A : Type) (l1 l2 : list A), NoDup (l1 ++ l2) -> NoDup l2.
Proof.
  intros A l1 l2. induction l1 as [|a l1 IH]; cbn [app]; intros N; [exact N|].
  apply NoDup_cons_iff in N. apply IH. exact (proj2 N).
Qed.

Lemma concat_nodup_unique : forall (A : Type) (L : list (list A)), NoDup (concat L) ->
    forall s1 s2 x, In s1 L -> In s2 L -> In x s1 -> In x s2 -> s1 = s2.
Proof.
  intros A L. induction L as [|s L IH]; cbn [concat In]; intros N s1 s2 x H1 H2 X1 X2; [contradiction|].
  destruct H1 as [<-|H1], H2 as [<-|H2].
  - reflexivity.
  - exfalso. apply (NoDup_app_disjoint _ _ _ x N X1). apply in_concat. exists s2. split; assumption.
  - exfalso. apply (NoDup_app_disjoint _ _ _ x N X2). apply in_concat. exists s1. split; assumption.
  - apply (IH (NoDup_app_r _ _ _ N) s1 s2 x H1 H2 X1 X2).
Qed.

Lemma filter_const : forall (A : Type) (P : A -> bool) (c : bool) (s : list A),
    (forall e, In e s -> P e = c) -> filter P s = if c then s else [].
Proof.
  intros A P c s. induction s as [|a s IH]; intros H; [destruct c; reflexivity|].
  cbn [filter]. rewrite (H a (or_introl eq_refl)). rewrite IH by (intros e He; apply H; right; exact He).
  destruct c; reflexivity.
Qed.

Lemma filter_concat_sel : forall (A : Type) (P : A -> bool) (Q : list A -> bool) (L : list (list A)),
    (forall st, In st L -> forall e, In e st -> P e = Q st) -> filter P (concat L) = concat (filter Q L).
Proof.
  intros A P Q L. induction L as [|s L IH]; intros H; [reflexivity|].
  cbn [concat filter]. rewrite filter_app. rewrite IH by (intros st Hs; apply H; right; exact Hs).
  rewrite (filter_const _ P (Q s) s (H s (or_introl eq_refl))). destruct (Q s); reflexivity.
Qed.

Lemma iso_of_In : forall b x, In x (iso_of b) <-> exists e0, In [e0] (stems b) /\ (x = idx e0 \/ x = pair e0).
Proof.
  intros b x. unfold iso_of. rewrite in_flat_map. split.
  - intros (st & Hs & Hx). destruct st as [|e0 [|e1 st]]; cbn [In] in Hx; try contradiction.
    exists e0. split; [exact Hs|]. destruct Hx as [<-|[<-|[]]]; [left|right]; reflexivity.
  - intros (e0 & Hs & Hx). exists [e0]. split; [exact Hs|]. cbn [In]. destruct Hx as [->| ->]; [left|right; left]; reflexivity.
Qed.

Section Valid.
  Variable b : bpseq.
  Hypothesis Hv : valid b = true.

  Lemma stems_in_es : forall st e, In st (stems b) -> In e st -> In e b /\ pair e <> 0 /\ idx e < pair e.
  Proof.
    intros st e Hs He. apply (es_in b). unfold es. rewrite <- (runs_concat (paired53 b)).
    apply in_concat. exists st. split; [exact Hs|exact He].
  Qed.

  Lemma iso_mem_iff : forall st e, In st (stems b) -> In e st -> (mem (idx e) (iso_of b) = true <-> length st = 1).
  Proof.
    intros st e Hs He. rewrite mem_In, iso_of_In. split.
    - intros (e0 & Hs0 & Hx).
      destruct (stems_in_es st e Hs He) as (Hb & Hp & Hlt).
      destruct (stems_in_es [e0] e0 Hs0 (or_introl eq_refl)) as (Hb0 & Hp0 & Hlt0).
      destruct Hx as [Hx|Hx].
      + pose proof (same_idx b Hv e e0 Hb Hb0 Hx) as E. subst e0.
        assert (N : NoDup (concat (stems b))) by (unfold stems; rewrite runs_concat; exact (NoDup_es b Hv)).
        rewrite (concat_nodup_unique _ _ N st [e] e Hs Hs0 He (or_introl eq_refl)). reflexivity.
      + exfalso. pose proof (pair_at_idx b Hv e Hb) as A.
        destruct (valid_entry b Hv e0 Hb0) as [Z|(_ & _ & _ & B)]; [congruence|].
        rewrite Hx, B in A. lia.
    - intros L. destruct st as [|e' [|e'' st]]; cbn [length] in L; try discriminate.
      destruct He as [->|[]]. exists e. split; [exact Hs|left; reflexivity].
  Qed.

  Lemma stem_nonempty : forall st, In st (stems b) -> 1 <= length st.
  Proof.
    intros st Hs. destruct (chain_nonempty st (runs_chain (paired53 b) st Hs)) as [e0 H0].
    destruct st; [discriminate|cbn [length]; lia].
  Qed.

  (* the 5'->3' pairs left after removing isolated pairs: exactly the entries of the stems of length >= 2, in order *)
  Theorem without_isolated_pairs : paired53 (without_isolated b) = concat (filter longb (stems b)).
  Proof.
    rewrite without_isolated_unfold, paired53_map.
    rewrite <- (runs_concat (paired53 b)) at 1. fold (stems b).
    apply filter_concat_sel. intros st Hs e He.
    pose proof (iso_mem_iff st e Hs He) as I. pose proof (stem_nonempty st Hs) as N. unfold longb.
    destruct (mem (idx e) (iso_of b)).
    - destruct I as [I _]. rewrite (I eq_refl). reflexivity.
    - destruct I as [_ I]. cbn [negb]. symmetry. apply Nat.leb_le.
      destruct (Nat.eq_dec (length st) 1) as [E|E]; [specialize (I E); discriminate|lia].
  Qed.

  (* entry by entry: same index and letter; the partner is kept unless the entry belongs to an isolated pair *)
  Theorem without_isolated_entries : forall k e, nth_error b k = Some e ->
      exists e', nth_error (without_isolated b) k = Some e' /\ idx e' = idx e /\ nt e' = nt e /\
                 (pair e' = pair e \/ (pair e' = 0 /\ exists e0, In [e0] (stems b) /\ (idx e = idx e0 \/ idx e = pair e0))).
  Proof.
    intros k e H. eexists. split; [apply wi_entry; exact H|].
    destruct (mem (idx e) (iso_of b)) eqn:M.
    - cbn [unpair idx nt pair]. repeat split. right. split; [reflexivity|]. apply iso_of_In, mem_In. exact M.
    - repeat split. left. reflexivity.
  Qed.
End Valid.

(* non-vacuity: ((..)).(...) has a stem of length two and an isolated pair; only the former survives *)
Example without_isolated_pairs_nonvacuous :
  let b := map (fun x => {| idx := fst x; nt := "A"%char; pair := snd x |})
               [(1,6);(2,5);(3,0);(4,0);(5,2);(6,1);(7,0);(8,12);(9,0);(10,0);(11,0);(12,8)] in
  valid b = true /\ map (fun e => (idx e, pair e)) (paired53 b) = [(1,6);(2,5);(8,12)] /\
  map (fun e => (idx e, pair e)) (paired53 (without_isolated b)) = [(1,6);(2,5)].
Proof. vm_compute. repeat split; reflexivity. Qed.
