(* C07: every unpaired nucleotide lies inside a single strand, a hairpin or a loop strand (structures with at least one
   base pair; the structure without pairs is the known finding). *)
From Coq Require Import String Ascii ZArith List Bool Arith Lia ZifyBool Sorted Permutation.
From RV Require Import Base.Val Gen.Common Model.Bpseq Model.AllDb Model.Elements Proofs.Stack Proofs.Encode Proofs.Regions Proofs.C16Comp Proofs.C07Main Proofs.C07Complete.
Import ListNotations.

Lemma bracket_in_sorted : forall l x, StronglySorted lt l -> ~ In x l -> hd 0 l < x -> x < last l 0 ->
    exists a b, In (a, b) (combine l (tl l)) /\ a < x < b /\ forall y, In y l -> ~ (a < y < b).
Proof.
  induction l as [|h l IH]; intros x S Hn H1 H2; [cbn in *; lia|]. inversion S as [|? ? Sl Hh]; subst. rewrite Forall_forall in Hh.
  destruct l as [|h2 l]; [cbn in *; lia|]. cbn [hd] in H1. cbn [tl combine].
  destruct (Nat.lt_ge_cases x h2) as [L|G].
  - exists h, h2. split; [left; reflexivity|]. split; [lia|]. intros y [<-|[<-|Hy]]; [lia|lia|].
    inversion Sl as [|? ? _ H2']; subst. rewrite Forall_forall in H2'. specialize (H2' y Hy). lia.
  - assert (x <> h2) by (intros ->; apply Hn; right; left; reflexivity).
    destruct (IH x Sl) as (a & b0 & Hin & Hab & Hno).
    + intros Hx. apply Hn. right. exact Hx.
    + cbn [hd]. lia.
    + cbn [last] in H2 |- *. exact H2.
    + exists a, b0. split; [right; exact Hin|]. split; [exact Hab|]. intros y [<-|Hy]; [|apply Hno; exact Hy].
      assert (h2 <= a). { apply in_combine_l in Hin. destruct Hin as [<-|Hin]; [lia|]. inversion Sl as [|? ? _ H2']; subst. rewrite Forall_forall in H2'. specialize (H2' a Hin). lia. }
      specialize (Hh h2 (or_introl eq_refl)). lia.
Qed.

Section Cover.
  Variable b : bpseq.
  Hypothesis Hv : valid b = true.
  Variable db : list ascii.
  Let n := length b.
  Let stops := stops_of (map (stem_of b db) (stems b)).

  (* every paired position lies on a stem strand whose ends are stops and whose positions are all paired *)
  Lemma paired_on_strand : forall p, 1 <= p -> pair_at b p <> 0 ->
      exists lo hi, lo <= p <= hi /\ In (lo - 1) stops /\ In (hi - 1) stops /\ 1 <= lo /\ forall q, lo <= q <= hi -> pair_at b q <> 0.
  Proof.
    intros p Hp Hpp. destruct (stops_spec b db) as [_ Ms]. fold stops in Ms.
    destruct (nth_error b (p - 1)) as [e|] eqn:Ee; [|unfold pair_at in Hpp; destruct p; [lia|]; replace (Datatypes.S p - 1) with p in Ee by lia; rewrite Ee in Hpp; lia].
    assert (Ie : idx e = p) by (rewrite (valid_idx b Hv _ _ Ee); lia).
    assert (Pe : pair e = pair_at b p). { unfold pair_at. destruct p; [lia|]. replace (Datatypes.S p - 1) with p in Ee by lia. rewrite Ee. reflexivity. }
    assert (Be : In e b) by (eapply nth_error_In; exact Ee).
    destruct (valid_entry b Hv e Be) as [Z|(A1 & A2 & A3 & A4)]; [lia|].
    assert (Strand : forall e5, In e5 (paired53 b) -> exists st e0, In st (stems b) /\ nth_error st 0 = Some e0 /\ chain st /\ exists t, nth_error st t = Some e5).
    { intros e5 H5. destruct (es_run b e5 H5) as (k & st & Hk & Hin & _ & Hc). destruct (chain_nonempty st Hc) as [e0 H0].
      exists st, e0. split; [eapply nth_error_In; exact Hk|]. split; [exact H0|]. split; [exact Hc|]. apply In_nth_error. exact Hin. }
    assert (Ends : forall st e0, In st (stems b) -> nth_error st 0 = Some e0 ->
               let len := length st in
               In (idx e0 - 1) stops /\ In (idx e0 + len - 1 - 1) stops /\ In (pair e0 - len + 1 - 1) stops /\ In (pair e0 - 1) stops /\
               (forall t, t < len -> pair_at b (idx e0 + t) = pair e0 - t) /\ idx e0 + len - 1 < pair e0 - len + 1 /\ 1 <= idx e0 /\
               (forall t, t < len -> pair_at b (pair e0 - t) = idx e0 + t)).
    { intros st e0 Hst H0. cbv zeta. destruct (stem_strands b Hv db st e0 Hst H0) as (_ & _ & F5 & L5 & F3 & L3 & Mir & Ord).
      assert (Hc : chain st) by (apply (runs_chain (paired53 b)); exact Hst).
      assert (E : forall x, In x (stem_ends b db st) -> In x stops) by (intros x Hx; apply Ms; exists st; split; assumption).
      unfold stem_ends in E. cbv zeta in E. rewrite F5, L5, F3, L3 in E.
      assert (B0 : In e0 b). { assert (In e0 (paired53 b)) by (rewrite <- (runs_concat (paired53 b)); apply in_concat; exists st; split; [exact Hst|eapply nth_error_In; exact H0]). apply (es_in b) in H. apply H. }
      destruct (in_b_nth b Hv e0 B0) as [_ [I0 _]].
      repeat split; try (apply E; cbn; tauto); try assumption; try lia.
      intros t Ht. destruct (nth_error st t) as [et|] eqn:Et; [|apply nth_error_None in Et; lia].
      destruct (chain_nth st Hc t et e0 H0 Et) as [It Pt].
      assert (Bt : In et b). { assert (In et (paired53 b)) by (rewrite <- (runs_concat (paired53 b)); apply in_concat; exists st; split; [exact Hst|eapply nth_error_In; exact Et]). apply (es_in b) in H. apply H. }
      assert (Nt : pair et <> 0). { assert (In et (paired53 b)) by (rewrite <- (runs_concat (paired53 b)); apply in_concat; exists st; split; [exact Hst|eapply nth_error_In; exact Et]). apply (es_in b) in H. apply H. }
      destruct (valid_entry b Hv et Bt) as [Z|(_ & _ & _ & S4)]; [contradiction|]. replace (pair e0 - t) with (pair et) by lia. rewrite S4. lia. }
    destruct (Nat.lt_ge_cases (idx e) (pair e)) as [L|G].
    - (* 5' member *)
      assert (H5 : In e (paired53 b)) by (apply (es_in b); repeat split; [exact Be|lia|exact L]).
      destruct (Strand e H5) as (st & e0 & Hst & H0 & Hc & t & Ht). destruct (chain_nth st Hc t e e0 H0 Ht) as [It Pt].
      assert (Lt : t < length st) by (apply nth_error_Some; congruence).
      destruct (Ends st e0 Hst H0) as (S1 & S2 & _ & _ & Mir & Ord & I0 & _).
      exists (idx e0), (idx e0 + length st - 1). split; [lia|]. split; [exact S1|]. split; [exact S2|]. split; [exact I0|].
      intros q Hq. replace q with (idx e0 + (q - idx e0)) by lia. rewrite Mir by lia. lia.
    - (* 3' member: its partner is a 5' member *)
      destruct (nth_error b (pair e - 1)) as [e'|] eqn:Ee'; [|apply nth_error_None in Ee'; fold n in A2; lia].
      assert (Ie' : idx e' = pair e) by (rewrite (valid_idx b Hv _ _ Ee'); lia).
      assert (Pe' : pair e' = idx e). { unfold pair_at in A4. destruct (pair e) as [|pe]; [lia|]. replace (Datatypes.S pe - 1) with pe in Ee' by lia. rewrite Ee' in A4. exact A4. }
      assert (H5 : In e' (paired53 b)) by (apply (es_in b); repeat split; [eapply nth_error_In; exact Ee'|lia|lia]).
      destruct (Strand e' H5) as (st & e0 & Hst & H0 & Hc & t & Ht). destruct (chain_nth st Hc t e' e0 H0 Ht) as [It Pt].
      assert (Lt : t < length st) by (apply nth_error_Some; congruence).
      destruct (Ends st e0 Hst H0) as (_ & _ & S3 & S4 & _ & Ord & I0 & Mir3).
      exists (pair e0 - length st + 1), (pair e0). split; [lia|]. split; [exact S3|]. split; [exact S4|]. split; [lia|].
      intros q Hq. replace q with (pair e0 - (pair e0 - q)) by lia. rewrite Mir3 by lia. lia.
  Qed.

  (* between two neighbouring stops that enclose an unpaired position everything is unpaired *)
  Lemma gap_unpaired : forall a c k, In a stops -> In c stops -> (forall y, In y stops -> ~ (a < y < c)) ->
      a < k - 1 < c -> pair_at b k = 0 -> forall q, a < q - 1 < c -> pair_at b q = 0.
  Proof.
    intros a c k Ha Hc Hno Hk Hpk q Hq. destruct (Nat.eq_dec (pair_at b q) 0) as [E|NE]; [exact E|exfalso].
    destruct (paired_on_strand q) as (lo & hi & Hlh & Slo & Shi & L1 & All); [lia|exact NE|].
    assert (lo - 1 <= a) by (destruct (Nat.le_gt_cases (lo - 1) a); [assumption|exfalso; apply (Hno (lo - 1) Slo); lia]).
    assert (c <= hi - 1) by (destruct (Nat.le_gt_cases c (hi - 1)); [assumption|exfalso; apply (Hno (hi - 1) Shi); lia]).
    apply (All k); [lia|exact Hpk].
  Qed.

  Lemma used_is_concat : forall lc, snd (loops_of b lc) = concat (fst (loops_of b lc)).
  Proof.
    intros lc. unfold loops_of.
    assert (G : forall idxs acc, snd acc = concat (fst acc) -> snd (fold_left (loop_step b lc) idxs acc) = concat (fst (fold_left (loop_step b lc) idxs acc))).
    { induction idxs as [|i idxs IH]; intros acc H; [exact H|]. cbn [fold_left]. apply IH. destruct acc as [lp us]. unfold loop_step. cbn [fst snd] in H.
      destruct (nth_error lc i); [|exact H]. cbv zeta. match goal with |- context [if ?c then _ else _] => destruct c end; [|exact H].
      cbn [fst snd]. rewrite concat_app. cbn [concat]. rewrite app_nil_r, H. reflexivity. }
    apply G. reflexivity.
  Qed.

  Lemma strand_eqb_ends : forall s s', strand_eqb s s' = true -> s_first s = s_first s' /\ s_last s = s_last s'.
  Proof. intros s s' H. unfold strand_eqb in H. repeat (apply andb_true_iff in H; destruct H as [H ?]). apply Nat.eqb_eq in H, H2. split; assumption. Qed.

  Lemma elements_nonempty : stems b <> [] -> elements b db =
      let stems_ := map (stem_of b db) (stems b) in
      let stop0 := hd 0 stops in
      let stopl := last stops 0 in
      let five := if 0 <? stop0 then [(strand_of (firstn (stop0 + 1) b) db, true, false)] else [] in
      let hairpins := map (fun c => strand_of c db) (filter is_hp (ok_of b stops)) in
      let lc := lc_of b db stops in
      let three := if stopl <? n - 1 then [(strand_of (skipn stopl b) db, false, true)] else [] in
      let rest := map (fun s => (s, false, false)) (filter (fun s => negb (existsb (strand_eqb s) (snd (loops_of b lc)))) lc) in
      {| el_stems := stems_; el_single := five ++ three ++ rest; el_hairpins := hairpins; el_loops := fst (loops_of b lc) |}.
  Proof. intros H. unfold elements, stops, n. destruct (stems b); [contradiction|reflexivity]. Qed.

  Definition covered (E : elements_t) (k : nat) : Prop :=
    (exists x, In x (el_single E) /\ (if snd (fst x) then s_first (fst (fst x)) <= k < s_last (fst (fst x))
                                     else if snd x then s_first (fst (fst x)) < k <= s_last (fst (fst x))
                                     else s_first (fst (fst x)) < k < s_last (fst (fst x)))) \/
    (exists s, In s (el_hairpins E) /\ s_first s < k < s_last s) \/
    (exists l s, In l (el_loops E) /\ In s l /\ s_first s < k < s_last s).

  Theorem unpaired_covered : stems b <> [] -> forall k, 1 <= k <= n -> pair_at b k = 0 -> covered (elements b db) k.
  Proof.
    intros Hne k Hk Hpk. rewrite (elements_nonempty Hne). cbv zeta.
    destruct (stops_spec b db) as [Ss Ms]. fold stops in Ss, Ms.
    assert (Notstop : ~ In (k - 1) stops).
    { intros H. apply Ms in H. destruct H as (st & Hst & Hx). destruct (stop_paired b Hv db st (k - 1) Hst Hx) as [Hp _]. replace (Datatypes.S (k - 1)) with k in Hp by lia. contradiction. }
    assert (Nonempty : stops <> []).
    { destruct (stems b) as [|st1 sts] eqn:E1; [contradiction|]. assert (In (s_first (fst (stem_of b db st1)) - 1) stops) by (apply Ms; exists st1; split; [rewrite <- E1 in *; rewrite E1; left; reflexivity|left; reflexivity]).
      intros E. rewrite E in H. destruct H. }
    unfold covered. cbn [el_single el_hairpins el_loops].
    destruct (Nat.lt_ge_cases (k - 1) (hd 0 stops)) as [Before|NB].
    { (* 5' single strand *)
      left. assert (Z : (0 <? hd 0 stops) = true) by (apply Nat.ltb_lt; lia). rewrite Z.
      eexists. split; [apply in_or_app; left; left; reflexivity|]. cbn [fst snd].
      assert (Hs : slice b 0 (hd 0 stops + 1) = firstn (hd 0 stops + 1) b) by (unfold slice; rewrite Nat.sub_0_r; reflexivity). rewrite <- Hs.
      assert (Hh : In (hd 0 stops) stops) by (destruct stops; [contradiction|left; reflexivity]).
      assert (Hlt : hd 0 stops < n). { apply Ms in Hh. destruct Hh as (st & Hst & Hx). apply (stop_paired b Hv db st _ Hst Hx). }
      destruct (slice b 0 (hd 0 stops + 1)) as [|e t] eqn:E; [assert (length (slice b 0 (hd 0 stops + 1)) = hd 0 stops + 1) by (unfold slice; rewrite firstn_length, skipn_length; fold n; lia); rewrite E in H; cbn in H; lia|].
      destruct (strand_of_ends b Hv db 0 (hd 0 stops + 1) e t E) as (F & L & _). rewrite <- E, F, L.
      assert (length (slice b 0 (hd 0 stops + 1)) = hd 0 stops + 1) by (unfold slice; rewrite firstn_length, skipn_length; fold n; lia). lia. }
    destruct (Nat.lt_ge_cases (last stops 0) (k - 1)) as [After|NA].
    { (* 3' single strand *)
      left. assert (Z : (last stops 0 <? n - 1) = true) by (apply Nat.ltb_lt; lia). rewrite Z.
      eexists. split; [apply in_or_app; right; apply in_or_app; left; left; reflexivity|]. cbn [fst snd].
      assert (Hs : slice b (last stops 0) (last stops 0 + n) = skipn (last stops 0) b) by (unfold slice; apply firstn_all2; rewrite skipn_length; fold n; lia). rewrite <- Hs.
      destruct (slice b (last stops 0) (last stops 0 + n)) as [|e t] eqn:E; [assert (length (slice b (last stops 0) (last stops 0 + n)) = n - last stops 0) by (unfold slice; rewrite firstn_length, skipn_length; fold n; lia); rewrite E in H; cbn in H; lia|].
      destruct (strand_of_ends b Hv db _ _ e t E) as (F & L & _). rewrite <- E, F, L.
      assert (length (slice b (last stops 0) (last stops 0 + n)) = n - last stops 0) by (unfold slice; rewrite firstn_length, skipn_length; fold n; lia). lia. }
    (* between two neighbouring stops *)
    assert (H1 : hd 0 stops < k - 1) by (assert (In (hd 0 stops) stops) by (destruct stops; [contradiction|left; reflexivity]); destruct (Nat.eq_dec (hd 0 stops) (k - 1)) as [E|E]; [rewrite E in H; contradiction|lia]).
    assert (H2 : k - 1 < last stops 0).
    { assert (In (last stops 0) stops) by (clear -Nonempty; induction stops as [|x l IH]; [contradiction|]; destruct l; [left; reflexivity|right; apply IH; discriminate]).
      destruct (Nat.eq_dec (last stops 0) (k - 1)) as [E|E]; [rewrite E in H; contradiction|lia]. }
    destruct (bracket_in_sorted stops (k - 1) Ss Notstop H1 H2) as (a & c & Hac & Hbetween & Hno).
    assert (Ha : In a stops) by (eapply in_combine_l; exact Hac). assert (Hc : In c stops) by (apply in_combine_r in Hac; destruct stops; [destruct Hac|right; exact Hac]).
    assert (Cn : c < n). { apply Ms in Hc. destruct Hc as (st & Hst & Hx). apply (stop_paired b Hv db st _ Hst Hx). }
    set (cand := slice b a (c + 1)).
    assert (Lc : length cand = c + 1 - a) by (unfold cand, slice; rewrite firstn_length, skipn_length; fold n; lia).
    assert (Ok : In cand (ok_of b stops)).
    { unfold ok_of. apply filter_In. split; [unfold cands_of; apply in_map_iff; exists (a, c); split; [reflexivity|exact Hac]|].
      unfold interior_unpaired. apply forallb_forall. intros e He.
      assert (G : forall (l : list entry) x, In x (removelast (tl l)) -> exists q, 1 <= q /\ Datatypes.S q < length l /\ nth_error l q = Some x).
      { clear. intros l x H. destruct l as [|h t]; [destruct H|]. cbn [tl] in H.
        assert (G2 : forall (m : list entry) y, In y (removelast m) -> exists q, q < length m - 1 /\ nth_error m q = Some y).
        { induction m as [|z m IH]; intros y Hy; [destruct Hy|]. destruct m as [|z' m]; [destruct Hy|]. cbn [removelast] in Hy. destruct Hy as [<-|Hy].
          - exists 0. cbn. split; [lia|reflexivity].
          - destruct (IH y Hy) as (q & C & D). exists (Datatypes.S q). cbn [length] in *. split; [lia|exact D]. }
        destruct (G2 t x H) as (q & C & D). exists (Datatypes.S q). cbn [length]. repeat split; [lia|lia|exact D]. }
      destruct (G _ _ He) as (q & Q1 & Q2 & Qn). rewrite Lc in Q2. unfold cand in Qn. rewrite slice_nth in Qn by lia.
      assert (Pq : pair_at b (Datatypes.S (a + q)) = pair e) by (unfold pair_at; rewrite Qn; reflexivity).
      apply Nat.eqb_eq. rewrite <- Pq. apply (gap_unpaired a c k Ha Hc Hno); [lia|exact Hpk|lia]. }
    assert (Ends : s_first (strand_of cand db) = Datatypes.S a /\ s_last (strand_of cand db) = c + 1).
    { destruct cand as [|e t] eqn:E; [cbn in Lc; lia|]. destruct (strand_of_ends b Hv db a (c + 1) e t E) as (F & L & _). fold cand in F, L. rewrite E in F, L. rewrite F, L. cbn [length] in Lc |- *. lia. }
    destruct Ends as [F L].
    destruct (is_hp cand) eqn:Hp.
    - right. left. exists (strand_of cand db). split; [apply in_map_iff; exists cand; split; [reflexivity|apply filter_In; split; assumption]|]. lia.
    - set (lc := lc_of b db stops). assert (Hlc : In (strand_of cand db) lc).
      { unfold lc, lc_of. apply in_map_iff. exists cand. split; [reflexivity|]. apply filter_In. split; [exact Ok|rewrite Hp; reflexivity]. }
      destruct (existsb (strand_eqb (strand_of cand db)) (snd (loops_of b lc))) eqn:U.
      + right. right. apply existsb_exists in U. destruct U as (s' & Hs' & Eq). apply strand_eqb_ends in Eq. destruct Eq as [E1 E2].
        rewrite used_is_concat in Hs'. apply in_concat in Hs'. destruct Hs' as (l & Hl & Hs'l). exists l, s'. split; [exact Hl|]. split; [exact Hs'l|]. lia.
      + left. exists (strand_of cand db, false, false). split.
        * apply in_or_app. right. apply in_or_app. right. apply in_map_iff. exists (strand_of cand db). split; [reflexivity|]. apply filter_In. split; [exact Hlc|rewrite U; reflexivity].
        * cbn [fst snd]. lia.
  Qed.
End Cover.
