(* C16, part 2: first-fit over all orders of a component produces exactly the greedy-stable colourings of it. *)
From Coq Require Import String Ascii ZArith List Bool Arith Lia Permutation Sorted.
From RV Require Import Base.Val Gen.Common Model.Bpseq Model.Milp Model.AllDb Proofs.Encode Proofs.Fcfs Proofs.Colouring Proofs.FirstFit.
Import ListNotations.

(* ---------------------------------------------------------------- permutations *)
Lemma inserts_in : forall x l1 l2, In (l1 ++ x :: l2) (inserts x (l1 ++ l2)).
Proof.
  intros x. induction l1 as [|y l1 IH]; intros l2; cbn [app inserts].
  - destruct l2; cbn; left; reflexivity.
  - right. apply in_map. apply IH.
Qed.
Lemma inserts_perm : forall x l r, In r (inserts x l) -> Permutation r (x :: l).
Proof.
  intros x. induction l as [|y l IH]; intros r H; cbn [inserts] in H.
  - destruct H as [<-|[]]. apply Permutation_refl.
  - destruct H as [<-|H]; [apply Permutation_refl|]. apply in_map_iff in H. destruct H as (r' & <- & Hr').
    eapply Permutation_trans; [apply perm_skip; apply IH; exact Hr'|apply perm_swap].
Qed.
Theorem perms_iff : forall c l, In l (perms c) <-> Permutation l c.
Proof.
  induction c as [|x c IH]; intros l; cbn [perms].
  - split; [intros [<-|[]]; constructor|]. intros H. apply Permutation_sym in H. apply Permutation_nil in H. subst. left. reflexivity.
  - rewrite in_flat_map. split.
    + intros (p & Hp & Hl). apply IH in Hp. eapply Permutation_trans; [apply inserts_perm; exact Hl|apply perm_skip; exact Hp].
    + intros H. assert (Hx : In x l) by (apply (Permutation_in _ (Permutation_sym H)); left; reflexivity).
      apply in_split in Hx. destruct Hx as (l1 & l2 & ->).
      exists (l1 ++ l2). split; [apply IH; apply Permutation_sym; apply Permutation_cons_app_inv with (a := x); apply Permutation_sym; exact H|apply inserts_in].
Qed.

(* ---------------------------------------------------------------- sorting an assignment by level *)
Definition by_level (p q : nat * nat) : Prop := snd p <= snd q.
Lemma sort_by_level : forall a : assoc, exists sa, Permutation sa a /\ StronglySorted by_level sa.
Proof.
  induction a as [|p a (sa & P & S)]; [exists []; split; constructor|].
  assert (Ins : forall sa, StronglySorted by_level sa -> exists r, Permutation r (p :: sa) /\ StronglySorted by_level r).
  { clear. induction sa as [|q sa IH]; intros S; [exists [p]; split; [apply Permutation_refl|constructor; constructor]|].
    inversion S as [|? ? S' Hall]; subst.
    destruct (Nat.le_gt_cases (snd p) (snd q)) as [L|G].
    - exists (p :: q :: sa). split; [apply Permutation_refl|]. constructor; [exact S|].
      constructor; [exact L|]. rewrite Forall_forall in *. intros z Hz. specialize (Hall z Hz). unfold by_level in *. lia.
    - destruct (IH S') as (r & Pr & Sr). exists (q :: r). split; [eapply Permutation_trans; [apply perm_skip; exact Pr|apply perm_swap]|].
      constructor; [exact Sr|]. rewrite Forall_forall in *. intros z Hz. apply (Permutation_in _ Pr) in Hz. destruct Hz as [<-|Hz]; [unfold by_level; lia|apply Hall; exact Hz]. }
  destruct (Ins sa S) as (r & Pr & Sr). exists r. split; [|exact Sr].
  eapply Permutation_trans; [exact Pr|apply perm_skip; exact P].
Qed.

Lemma first_free_char : forall used levels f, f < levels -> ~ In f used -> (forall o, o < f -> In o used) -> first_free used levels = Some f.
Proof.
  intros used levels f Hf Hn Hl. unfold first_free.
  destruct (find (fun o => negb (existsb (Nat.eqb o) used)) (seq 0 levels)) as [g|] eqn:E.
  - pose proof E as E'. apply find_first_from in E'. destruct E' as (_ & A & B & C).
    destruct (Nat.lt_trichotomy g f) as [L|[->|G]]; [|reflexivity|].
    + exfalso. specialize (Hl g L). apply negb_true_iff in B.
      assert (existsb (Nat.eqb g) used = true) by (apply existsb_exists; exists g; split; [exact Hl|apply Nat.eqb_refl]). congruence.
    + exfalso. specialize (C f (Nat.le_0_l _) G). apply negb_false_iff in C. apply existsb_exists in C.
      destruct C as (y & Hy & Heq). apply Nat.eqb_eq in Heq. subst. contradiction.
  - exfalso. pose proof (find_none _ _ E f) as Hnone. cbv beta in Hnone.
    assert (Hin : In f (seq 0 levels)) by (apply in_seq; lia). specialize (Hnone Hin).
    apply negb_false_iff in Hnone. apply existsb_exists in Hnone. destruct Hnone as (y & Hy & Heq). apply Nat.eqb_eq in Heq. subst. contradiction.
Qed.

Section Converse.
  Variable adj : nat -> nat -> bool.
  Hypothesis adj_sym : forall i j, adj i j = adj j i.
  Hypothesis adj_irrefl : forall i, adj i i = false.

  (* replaying a level-sorted greedy-stable assignment through first-fit reproduces it *)
  Lemma replay : forall (sa : assoc) levels, coloured_ok adj sa -> StronglySorted by_level sa -> length sa <= levels ->
      forall r d, sa = d ++ r -> firstfit_go adj levels d (map fst r) = Ok sa.
  Proof.
    intros sa levels (N & P & G) S Hlen. induction r as [|[v o] r IH]; intros d E; cbn [map fst firstfit_go].
    - rewrite app_nil_r in E. subst. reflexivity.
    - assert (Hin : In (v, o) sa) by (rewrite E; apply in_or_app; right; left; reflexivity).
      assert (Hd : forall x, In x d -> In x sa) by (intros x Hx; rewrite E; apply in_or_app; left; exact Hx).
      assert (Low : forall v' k, In (v', k) sa -> k < o -> In (v', k) d).
      { intros v' k Hv' Hk. rewrite E in Hv'. apply in_app_or in Hv'. destruct Hv' as [H|H]; [exact H|exfalso].
        rewrite E in S. clear -S H Hk. induction d as [|x d IHd]; cbn [app] in S.
        - inversion S as [|? ? _ Hall]; subst. destruct H as [H|H]; [injection H as _ <-; lia|].
          rewrite Forall_forall in Hall. specialize (Hall _ H). unfold by_level in Hall. cbn in Hall. lia.
        - inversion S; subst. apply IHd. assumption. }
      set (used := map snd (filter (fun p => adj v (fst p)) d)).
      assert (U1 : ~ In o used).
      { intros H. apply (used_levels adj) in H. destruct H as (v' & Hv' & Ha). apply (P v o v' o Hin (Hd _ Hv') Ha). reflexivity. }
      assert (U2 : forall k, k < o -> In k used).
      { intros k Hk. destruct (G v o k Hin Hk) as (v' & Hv' & Ha). apply (used_levels adj). exists v'. split; [apply Low; assumption|exact Ha]. }
      assert (U3 : o < levels).
      { assert (L1 : o <= length used).
        { assert (I : incl (seq 0 o) used) by (intros k Hk; apply in_seq in Hk; apply U2; lia).
          pose proof (NoDup_incl_length (seq_NoDup o 0) I) as L. rewrite seq_length in L. exact L. }
        assert (L2 : length used <= length d) by (unfold used; rewrite map_length; apply filter_len_le).
        assert (L3 : length sa = length d + Datatypes.S (length r)) by (rewrite E, app_length; reflexivity). lia. }
      fold used. rewrite (first_free_char used levels o U3 U1 U2). apply IH. rewrite E, <- app_assoc. reflexivity.
  Qed.

  Theorem stable_is_firstfit : forall a : assoc, coloured_ok adj a ->
      exists perm a', Permutation perm (map fst a) /\ firstfit adj perm = Ok a' /\ Permutation a' a.
  Proof.
    intros a Hok. destruct (sort_by_level a) as (sa & Pa & S).
    assert (Hok' : coloured_ok adj sa).
    { destruct Hok as (N & P & G). repeat split.
      - apply (Permutation_NoDup (Permutation_map fst (Permutation_sym Pa))). exact N.
      - intros v o v' o' H1 H2. apply P; apply (Permutation_in _ Pa); assumption.
      - intros v o k H1 Hk. destruct (G v o k (Permutation_in _ Pa H1) Hk) as (v' & Hv' & Ha). exists v'. split; [apply (Permutation_in _ (Permutation_sym Pa)); exact Hv'|exact Ha]. }
    exists (map fst sa), sa. split; [apply Permutation_map; exact Pa|]. split; [|exact Pa].
    destruct sa as [|[v o] r] eqn:Esa; [reflexivity|]. cbn [map fst firstfit].
    assert (o = 0).
    { destruct o as [|o]; [reflexivity|exfalso]. destruct Hok' as (_ & _ & G).
      destruct (G v (Datatypes.S o) 0 (or_introl eq_refl)) as (v' & Hv' & _); [lia|].
      inversion S as [|? ? _ Hall]; subst. destruct Hv' as [H|H]; [discriminate|]. rewrite Forall_forall in Hall. specialize (Hall _ H). unfold by_level in Hall. cbn in Hall. lia. }
    subst o. replace (length (v :: map fst r)) with (length ((v, 0) :: r)) by (cbn; rewrite map_length; reflexivity).
    apply (replay ((v, 0) :: r) (length ((v, 0) :: r)) Hok' S (le_n _) r [(v, 0)]). reflexivity.
  Qed.
End Converse.

(* ---------------------------------------------------------------- the colourings of one component *)
Lemma lookup_perm : forall a a' v, NoDup (map fst a) -> Permutation a' a -> lookup a' v = lookup a v.
Proof.
  intros a a' v N P.
  assert (G : forall b, NoDup (map fst b) -> forall o, In (v, o) b -> lookup b v = o).
  { clear. induction b as [|[w p] b IH]; intros N o H; [destruct H|]. unfold lookup. cbn [find fst]. cbn [map fst] in N. inversion N as [|? ? Hn N']; subst.
    destruct (w =? v) eqn:E.
    - apply Nat.eqb_eq in E. subst w. destruct H as [H|H]; [injection H as <-; reflexivity|]. exfalso. apply Hn. apply (in_map fst) in H. exact H.
    - destruct H as [H|H]; [injection H as -> _; rewrite Nat.eqb_refl in E; discriminate|]. apply (IH N' o H). }
  assert (G0 : forall b, ~ In v (map fst b) -> lookup b v = 0).
  { clear. induction b as [|[w p] b IH]; intros H; [reflexivity|]. unfold lookup. cbn [find fst]. destruct (w =? v) eqn:E.
    - apply Nat.eqb_eq in E. subst. exfalso. apply H. left. reflexivity.
    - apply IH. intros Hin. apply H. right. exact Hin. }
  assert (N' : NoDup (map fst a')) by (apply (Permutation_NoDup (Permutation_map fst (Permutation_sym P))); exact N).
  destruct (in_dec Nat.eq_dec v (map fst a)) as [Hin|Hnot].
  - apply in_map_iff in Hin. destruct Hin as ([w o] & E & Hin). cbn in E. subst w.
    rewrite (G a N o Hin). apply (G a' N' o). apply (Permutation_in _ (Permutation_sym P)). exact Hin.
  - rewrite (G0 a Hnot). apply G0. intros H. apply Hnot. apply (Permutation_in _ (Permutation_map fst P)). exact H.
Qed.

Lemma list_nat_eqb_eq : forall a b, list_nat_eqb a b = true <-> a = b.
Proof.
  induction a as [|x a IH]; intros [|y b]; cbn; split; try discriminate; try reflexivity.
  - intros H. apply andb_true_iff in H. destruct H as [H1 H2]. apply Nat.eqb_eq in H1. apply IH in H2. subst. reflexivity.
  - intros H. injection H as -> ->. rewrite Nat.eqb_refl. apply IH. reflexivity.
Qed.

Lemma dedup_nl_spec : forall l, NoDup (dedup_nl l) /\ forall x, In x (dedup_nl l) <-> In x l.
Proof.
  intros l. unfold dedup_nl.
  assert (G : forall l acc, NoDup acc ->
             NoDup (fold_left (fun acc x => if existsb (list_nat_eqb x) acc then acc else acc ++ [x]) l acc) /\
             forall x, In x (fold_left (fun acc x => if existsb (list_nat_eqb x) acc then acc else acc ++ [x]) l acc) <-> In x acc \/ In x l).
  { induction l0 as [|p l0 IH]; intros acc N; cbn [fold_left]; [split; [exact N|intros; cbn; intuition]|].
    destruct (existsb (list_nat_eqb p) acc) eqn:E.
    - destruct (IH acc N) as [A B]. split; [exact A|]. intros x. rewrite B. cbn [In]. split; [intuition|].
      intros [H|[<-|H]]; auto. left. apply existsb_exists in E. destruct E as (q & Hq & Eq). apply list_nat_eqb_eq in Eq. subst. exact Hq.
    - assert (Np : ~ In p acc).
      { intros Hin. assert (existsb (list_nat_eqb p) acc = true); [|congruence]. apply existsb_exists. exists p. split; [exact Hin|apply list_nat_eqb_eq; reflexivity]. }
      assert (N' : NoDup (acc ++ [p])).
      { clear -N Np. induction acc as [|a acc IHa]; cbn; [constructor; [intros []|constructor]|].
        inversion N; subst. constructor.
        - intros Hin. apply in_app_or in Hin. destruct Hin as [Hin|[->|[]]]; [contradiction|]. apply Np. left. reflexivity.
        - apply IHa; [assumption|]. intros Hin. apply Np. right. exact Hin. }
      destruct (IH (acc ++ [p]) N') as [A B]. split; [exact A|]. intros x. rewrite B, in_app_iff. cbn [In]. intuition. }
  destruct (G l [] (NoDup_nil _)) as [A B]. split; [exact A|]. intros x. rewrite B. cbn. intuition.
Qed.

Section Component.
  Variable adj : nat -> nat -> bool.
  Hypothesis adj_sym : forall i j, adj i j = adj j i.
  Hypothesis adj_irrefl : forall i, adj i i = false.

  Lemma colourings_fold : forall comp ps,
      exists l, fold_right (fun perm acc =>
                  match acc, firstfit adj perm with
                  | Ok l, Ok a => Ok (canon a comp :: l)
                  | Raise e, _ => Raise e
                  | _, Raise e => Raise e
                  end) (Ok []) ps = Ok l /\
                forall c, In c l <-> exists perm a, In perm ps /\ firstfit adj perm = Ok a /\ c = canon a comp.
  Proof.
    intros comp. induction ps as [|p ps (l & E & M)]; cbn [fold_right].
    - exists []. split; [reflexivity|]. intros c. split; [intros []|intros (perm & a & [] & _)].
    - rewrite E. destruct (firstfit_total adj p) as [a Ha]. rewrite Ha. exists (canon a comp :: l). split; [reflexivity|].
      intros c. cbn [In]. rewrite M. split.
      + intros [<-|(perm & a' & Hp & Hf & ->)]; [exists p, a; repeat split; [left; reflexivity|exact Ha]|exists perm, a'; repeat split; [right; exact Hp|exact Hf]].
      + intros (perm & a' & [<-|Hp] & Hf & ->); [left; congruence|right; exists perm, a'; repeat split; assumption].
  Qed.

  (* the list of colourings of a component: never fails, has no repetition, and holds exactly the greedy-stable
     (proper, every vertex on the lowest level free among its neighbours) assignments of the component *)
  Theorem component_colourings_spec : forall comp, NoDup comp ->
      exists L, component_colourings adj comp = Ok L /\ NoDup L /\
                forall c, In c L <-> exists a, coloured_ok adj a /\ Permutation (map fst a) comp /\ c = canon a comp.
  Proof.
    intros comp N. unfold component_colourings. destruct (colourings_fold comp (perms comp)) as (l & E & M). rewrite E.
    destruct (dedup_nl_spec l) as [Nd Md]. exists (dedup_nl l). split; [reflexivity|]. split; [exact Nd|].
    intros c. rewrite Md, M. split.
    - intros (perm & a & Hp & Hf & ->). apply perms_iff in Hp.
      assert (Np : NoDup perm) by (apply (Permutation_NoDup (Permutation_sym Hp)); exact N).
      destruct (firstfit_ok adj adj_sym adj_irrefl perm a Np Hf) as [Hok Hm]. exists a. split; [exact Hok|]. split; [rewrite Hm; exact Hp|reflexivity].
    - intros (a & Hok & Hp & ->). destruct (stable_is_firstfit adj a Hok) as (perm & a' & P1 & Hf & P2).
      exists perm, a'. split; [apply perms_iff; eapply Permutation_trans; eassumption|]. split; [exact Hf|].
      unfold canon. apply map_ext. intros v. symmetry. apply lookup_perm; [apply Hok|exact P2].
  Qed.
End Component.
