(* C16, part 5: all_dot_brackets = the strings of the globally greedy-stable assignments. *)
From Coq Require Import String Ascii ZArith List Bool Arith Lia Permutation.
From RV Require Import Base.Val Gen.Common Model.Bpseq Model.Milp Model.AllDb Proofs.Encode Proofs.Fcfs Proofs.Colouring Proofs.FirstFit
     Proofs.SortStr Proofs.C16Main Proofs.C16Comp Proofs.C16Global.
Import ListNotations.

Lemma adj_all_sym : forall rs i j, adj_all rs i j = adj_all rs j i.
Proof. intros. unfold adj_all, adj_with. rewrite (Nat.min_comm j i), (Nat.max_comm j i), (Nat.eqb_sym j i). reflexivity. Qed.
Lemma adj_all_irrefl : forall rs i, adj_all rs i i = false.
Proof. intros. unfold adj_all, adj_with. rewrite Nat.eqb_refl. destruct (nth_error rs (Nat.min i i)), (nth_error rs (Nat.max i i)); reflexivity. Qed.
Lemma adj_all_lt : forall rs i j, adj_all rs i j = true -> i < length rs /\ j < length rs.
Proof.
  intros rs i j H. unfold adj_all, adj_with in H.
  destruct (nth_error rs (Nat.min i j)) eqn:A; [|discriminate]. destruct (nth_error rs (Nat.max i j)) eqn:B; [|discriminate].
  assert (Nat.max i j < length rs) by (apply nth_error_Some; congruence). lia.
Qed.

(* ---------------------------------------------------------------- sequence_results *)
Lemma sr_all_ok : forall (A B : Type) (f : A -> result B) l, (forall x, In x l -> exists s, f x = Ok s) ->
    exists ss, sequence_results (map f l) = Ok ss /\ Forall2 (fun x s => f x = Ok s) l ss.
Proof.
  intros A B f. induction l as [|x l IH]; intros H; [exists []; split; [reflexivity|constructor]|].
  destruct (H x (or_introl eq_refl)) as [s Hs]. destruct (IH (fun y Hy => H y (or_intror Hy))) as (ss & E & F).
  exists (s :: ss). cbn [map sequence_results]. rewrite Hs, E. split; [reflexivity|constructor; assumption].
Qed.
Lemma sr_some_raise : forall (A B : Type) (f : A -> result B) l, (exists x, In x l /\ exists e, f x = Raise e) ->
    exists x e, In x l /\ f x = Raise e /\ sequence_results (map f l) = Raise e.
Proof.
  intros A B f. induction l as [|x l IH]; intros (y & Hy & e & He); [destruct Hy|]. cbn [map sequence_results].
  destruct (f x) as [s|e0] eqn:Fx.
  - destruct Hy as [->|Hy]; [congruence|]. destruct (IH (ex_intro _ y (conj Hy (ex_intro _ e He)))) as (x' & e' & Hx' & Hf & Hs).
    exists x', e'. rewrite Hs. repeat split; [right; exact Hx'|exact Hf].
  - exists x, e0. repeat split; [left; reflexivity|exact Fx].
Qed.
Lemma all_ok_or_raise : forall (A B : Type) (f : A -> result B) l,
    (forall x, In x l -> exists s, f x = Ok s) \/ (exists x, In x l /\ exists e, f x = Raise e).
Proof.
  intros A B f. induction l as [|x l [IH|IH]]; [left; intros x []| |].
  - destruct (f x) as [s|e] eqn:E; [left; intros y [<-|Hy]; [eauto|apply IH; exact Hy]|right; exists x; split; [left; reflexivity|eauto]].
  - right. destruct IH as (y & Hy & He). exists y. split; [right; exact Hy|exact He].
Qed.

Lemma make_structure_error : forall rs ord s e, make_structure s rs ord = Raise e -> e = IndexError.
Proof.
  induction rs as [|[[j k] m] rs IH]; intros ord s e H; cbn [make_structure] in H; [discriminate|].
  destruct ord as [|o ord]; [injection H as <-; reflexivity|].
  destruct (nth_error brackets o) as [[bo bc]|]; [eapply IH; exact H|injection H as <-; reflexivity].
Qed.

(* lists with the same members give the same sorted, de-duplicated list of strings (or the same error) *)
Lemma strings_same_set : forall (f : list nat -> result (list ascii)) l1 l2,
    (forall x e, f x = Raise e -> e = IndexError) -> (forall x, In x l1 <-> In x l2) ->
    match sequence_results (map f l1) with Ok ss => Ok (sort_dedup_str ss) | Raise e => Raise e end =
    match sequence_results (map f l2) with Ok ss => Ok (sort_dedup_str ss) | Raise e => Raise e end.
Proof.
  intros f l1 l2 Herr Same. destruct (all_ok_or_raise _ _ f l1) as [A|A].
  - destruct (sr_all_ok _ _ f l1 A) as (s1 & E1 & F1).
    destruct (sr_all_ok _ _ f l2 (fun x Hx => A x (proj2 (Same x) Hx))) as (s2 & E2 & F2). rewrite E1, E2. f_equal.
    apply sort_dedup_set_invariant.
    assert (M : forall l ss, Forall2 (fun x s => f x = Ok s) l ss -> forall y, In y ss <-> exists x, In x l /\ f x = Ok y).
    { clear. intros l ss F. induction F as [|x s l ss Hx _ IH]; intros y; cbn [In]; [split; [intros []|intros (x & [] & _)]|].
      rewrite IH. split.
      - intros [<-|(x' & Hx' & Hf)]; [exists x; auto|exists x'; auto].
      - intros (x' & [<-|Hx'] & Hf); [left; congruence|right; exists x'; auto]. }
    intros y. rewrite (M l1 s1 F1), (M l2 s2 F2). split; intros (x & Hx & Hf); exists x; (split; [apply Same; exact Hx|exact Hf]).
  - destruct (sr_some_raise _ _ f l1 A) as (x1 & e1 & _ & Hf1 & Hs1).
    assert (A2 : exists x, In x l2 /\ exists e, f x = Raise e) by (destruct A as (x & Hx & He); exists x; split; [apply Same; exact Hx|exact He]).
    destruct (sr_some_raise _ _ f l2 A2) as (x2 & e2 & _ & Hf2 & Hs2). rewrite Hs1, Hs2, (Herr _ _ Hf1), (Herr _ _ Hf2). reflexivity.
Qed.

(* ---------------------------------------------------------------- all_orders *)
Lemma forall2_from_each : forall (A B : Type) (f : A -> result B) (P : A -> B -> Prop) l ss,
    Forall2 (fun x s => f x = Ok s) l ss -> (forall x, In x l -> exists s, f x = Ok s /\ P x s) -> Forall2 P l ss.
Proof.
  intros A B f P l ss F. induction F as [|x s l ss Hx _ IH]; intros H; constructor.
  - destruct (H x (or_introl eq_refl)) as (s' & E & Hp). rewrite E in Hx. injection Hx as <-. exact Hp.
  - apply IH. intros y Hy. apply H. right. exact Hy.
Qed.
Lemma forall2_in_iff : forall (A B : Type) (G : A -> B -> Prop) (h : A -> B) (K : A -> Prop) cs (chs : list (list B)),
    Forall2 (fun c ch => forall lv, In lv ch <-> G c lv) cs chs -> (forall c, In c cs -> (G c (h c) <-> K c)) ->
    (Forall2 (fun c ch => In (h c) ch) cs chs <-> forall c, In c cs -> K c).
Proof.
  intros A B G h K cs chs F. induction F as [|c ch cs chs Hc _ IH]; intros E.
  - split; [intros _ c []|constructor].
  - split.
    + intros H. inversion H as [|? ? ? ? H1 H2]; subst. intros c0 [<-|Hc0]; [apply E; [left; reflexivity|apply Hc; exact H1]|].
      apply (proj1 (IH (fun c1 H1' => E c1 (or_intror H1'))) H2 c0 Hc0).
    + intros H. constructor; [apply Hc; apply E; [left; reflexivity|apply H; left; reflexivity]|].
      apply (IH (fun c1 H1' => E c1 (or_intror H1'))). intros c0 Hc0. apply H. right. exact Hc0.
Qed.
Lemma forall2_lengths : forall (G : list nat -> list nat -> Prop) cs (chs : list (list (list nat))),
    Forall2 (fun c ch => forall lv, In lv ch <-> G c lv) cs chs -> (forall c lv, In c cs -> G c lv -> length lv = length c) ->
    Forall2 (fun c ch => forall lv, In lv ch -> length lv = length c) cs chs.
Proof.
  intros G cs chs F. induction F as [|c ch cs chs Hc _ IH]; intros E; constructor.
  - intros lv Hlv. apply (E c lv (or_introl eq_refl)). apply Hc. exact Hlv.
  - apply IH. intros c0 lv Hc0. apply E. right. exact Hc0.
Qed.

Theorem all_orders_spec : forall rs, exists ords, all_orders rs = Ok ords /\
    forall ord, In ord ords <-> length ord = length rs /\ stableP (adj_all rs) (length rs) ord.
Proof.
  intros rs. unfold all_orders. cbv zeta. set (n := length rs). set (adj := adj_all rs).
  pose proof (components_spec adj n (adj_all_sym rs) (adj_all_lt rs)) as Inv. destruct Inv as (Ok' & Disj & Cover).
  set (comps := components adj n) in *.
  assert (Each : forall c, In c comps -> exists L, component_colourings adj c = Ok L /\ forall lv, In lv L <-> good adj c lv).
  { intros c Hc. destruct (Ok' c Hc) as (Nc & _). destruct (component_colourings_spec adj (adj_all_sym rs) (adj_all_irrefl rs) c Nc) as (L & E & _ & M).
    exists L. split; [exact E|exact M]. }
  assert (EachOk : forall c, In c comps -> exists L, component_colourings adj c = Ok L).
  { intros c Hc. destruct (Each c Hc) as (L & E & _). exists L. exact E. }
  destruct (sr_all_ok _ _ (component_colourings adj) comps EachOk) as (choices & Es & F).
  rewrite Es. exists (product_orders n comps choices). split; [reflexivity|].
  pose proof (forall2_from_each _ _ _ (fun c ch => forall lv, In lv ch <-> good adj c lv) comps choices F Each) as F'.
  intros ord. rewrite (product_iff n comps choices).
  - rewrite (stable_split adj n (adj_all_lt rs) comps ord (conj Ok' (conj Disj Cover))).
    rewrite (forall2_in_iff _ _ (good adj) (fun c => map (lev ord) c) (fun c => coloured_ok adj (la ord c)) comps choices F').
    + tauto.
    + intros c Hc. apply good_iff_local. apply (Ok' c Hc).
  - apply (forall2_lengths (good adj)); [exact F'|]. intros c lv _ (a & _ & _ & ->). unfold canon. apply map_length.
  - apply Forall_forall. intros c Hc. destruct (Ok' c Hc) as (Nc & Bc & _). split; assumption.
  - exact Disj.
Qed.

(* ---------------------------------------------------------------- the theorem *)
Theorem all_db_is_stable_db : forall b,
    has_conflict (adj_all (regions b)) (length (regions b)) = true -> all_db b = stable_db b.
Proof.
  intros b Hc. unfold all_db, stable_db. cbv zeta. rewrite Hc. cbn [negb].
  destruct (all_orders_spec (regions b)) as (ords & E & M). rewrite E.
  apply strings_same_set.
  - intros x e H. unfold make_db in H. eapply make_structure_error. exact H.
  - intros ord. rewrite M, filter_In, assignments_iff, map_length, seq_length. split.
    + intros [L S]. split; [split; [exact L|]|apply (stableb_iff _ _ (adj_all_lt (regions b)) ord L); exact S].
      intros i Hi. rewrite (@nth_indep _ (map (degree (adj_all (regions b)) (length (regions b))) (seq 0 (length (regions b)))) i 0 (degree (adj_all (regions b)) (length (regions b)) 0)) by (rewrite map_length, seq_length; exact Hi).
      rewrite map_nth, seq_nth by exact Hi. apply (stable_le_degree _ _ (adj_all_lt (regions b)) ord i S Hi).
    + intros [[L _] S]. split; [exact L|apply (stableb_iff _ _ (adj_all_lt (regions b)) ord L); exact S].
Qed.
