(* C15: residue grouping of the two reader generations.
   groupby (table-level reader: every atom with the same key, wherever it stands) is characterised completely;
   on tables whose residues are contiguous it coincides with group_adj (residue-level reader: a new residue whenever
   the identity changes), hence both readers report the same residues with the same atoms in the same order. *)
From Coq Require Import String Ascii ZArith List Bool Arith Lia Permutation.
From RV Require Import Base.Val Base.PyStr Model.Reader1 Model.PdbLine Model.Group2.
Import ListNotations.

Section Generic.
  Context {T : Type} (same : T -> T -> bool).
  Hypothesis same_refl : forall a, same a a = true.
  Hypothesis same_sym : forall a b, same a b = same b a.
  Hypothesis same_trans : forall a b c, same a b = true -> same b c = true -> same a c = true.

  Lemma same_false_r : forall a b c, same a b = true -> same a c = false -> same b c = false.
  Proof.
    intros a b c Hab Hac. destruct (same b c) eqn:E; [|reflexivity].
    rewrite (same_trans a b c Hab E) in Hac. discriminate.
  Qed.

  (* ---------------------------------------------------------------- filter helpers *)
  Lemma filter_all : forall (f : T -> bool) l, Forall (fun x => f x = true) l -> filter f l = l.
  Proof. intros f l H. induction H as [|x l Hx _ IH]; cbn; [reflexivity|]. rewrite Hx, IH. reflexivity. Qed.
  Lemma filter_none : forall (f : T -> bool) l, Forall (fun x => f x = false) l -> filter f l = [].
  Proof. intros f l H. induction H as [|x l Hx _ IH]; cbn; [reflexivity|]. rewrite Hx, IH. reflexivity. Qed.
  Lemma filter_length_le : forall (f : T -> bool) l, length (filter f l) <= length l.
  Proof. intros f l. induction l as [|x l IH]; cbn; [lia|]. destruct (f x); cbn; lia. Qed.
  Lemma filter_filter : forall (f g : T -> bool) l, filter f (filter g l) = filter (fun x => f x && g x) l.
  Proof.
    intros f g l. induction l as [|x l IH]; cbn; [reflexivity|].
    destruct (g x); cbn; [destruct (f x); cbn; rewrite IH; reflexivity|rewrite andb_false_r; exact IH].
  Qed.

  (* ---------------------------------------------------------------- groupby: complete characterisation *)
  (* every group is "all rows with the key of its first row, in table order" *)
  Lemma groupby_fuel_groups : forall fuel rows g, length rows <= fuel -> In g (groupby_fuel same fuel rows) ->
      exists h, In h rows /\ g = filter (same h) rows.
  Proof.
    induction fuel as [|f IH]; intros rows g Hl Hin; [destruct rows; cbn in Hin; destruct Hin|].
    destruct rows as [|a rest]; [destruct Hin|]. cbn [groupby_fuel] in Hin. destruct Hin as [<-|Hin].
    - exists a. split; [left; reflexivity|]. cbn [filter]. rewrite same_refl. reflexivity.
    - apply IH in Hin; [|cbn in Hl; pose proof (filter_length_le (fun b => negb (same a b)) rest); lia].
      destruct Hin as (h & Hh & ->). apply filter_In in Hh. destruct Hh as [Hh Hna].
      apply negb_true_iff in Hna. exists h. split; [right; exact Hh|].
      cbn [filter]. assert (Hha : same h a = false) by (rewrite same_sym; exact Hna). rewrite Hha.
      rewrite filter_filter. apply filter_ext. intros x.
      destruct (same h x) eqn:E; [|reflexivity]. cbn.
      destruct (same a x) eqn:E2; [|reflexivity]. exfalso.
      rewrite same_sym in E. rewrite (same_trans a x h E2 E) in Hna. discriminate.
  Qed.

  (* and every row's residue is listed *)
  Lemma groupby_fuel_complete : forall fuel rows x, length rows <= fuel -> In x rows ->
      In (filter (same x) rows) (groupby_fuel same fuel rows).
  Proof.
    induction fuel as [|f IH]; intros rows x Hl Hin; [destruct rows; [destruct Hin|cbn in Hl; lia]|].
    destruct rows as [|a rest]; [destruct Hin|]. cbn [groupby_fuel].
    destruct (same x a) eqn:E.
    - left. cbn [filter]. rewrite E. f_equal. apply filter_ext. intros y.
      destruct (same a y) eqn:E1.
      + symmetry. exact (same_trans x a y E E1).
      + symmetry. destruct (same x y) eqn:E2; [|reflexivity]. rewrite same_sym in E.
        rewrite (same_trans a x y E E2) in E1. discriminate.
    - right. destruct Hin as [->|Hin]; [rewrite same_refl in E; discriminate|].
      assert (Hx : In x (filter (fun b => negb (same a b)) rest)).
      { apply filter_In. split; [exact Hin|]. rewrite same_sym, E. reflexivity. }
      specialize (IH (filter (fun b => negb (same a b)) rest) x).
      assert (Hl' : length (filter (fun b => negb (same a b)) rest) <= f)
        by (cbn in Hl; pose proof (filter_length_le (fun b => negb (same a b)) rest); lia).
      specialize (IH Hl' Hx). cbn [filter]. rewrite E.
      replace (filter (same x) rest) with (filter (same x) (filter (fun b => negb (same a b)) rest)); [exact IH|].
      rewrite filter_filter. apply filter_ext. intros y.
      destruct (same x y) eqn:E2; [|reflexivity]. cbn.
      destruct (same a y) eqn:E3; [|reflexivity]. exfalso.
      rewrite same_sym in E2. rewrite same_sym in E. rewrite (same_trans a y x E3 E2) in E. discriminate.
  Qed.

  (* no residue is listed twice: the first rows of two different groups have different keys *)
  Lemma groupby_fuel_distinct : forall fuel rows, length rows <= fuel ->
      ForallOrdPairs (fun g h => forall x y, In x g -> In y h -> same x y = false) (groupby_fuel same fuel rows).
  Proof.
    induction fuel as [|f IH]; intros rows Hl; [destruct rows; constructor|].
    destruct rows as [|a rest]; [constructor|]. cbn [groupby_fuel].
    assert (Hl' : length (filter (fun b => negb (same a b)) rest) <= f)
      by (cbn in Hl; pose proof (filter_length_le (fun b => negb (same a b)) rest); lia).
    constructor; [|apply IH; exact Hl'].
    apply Forall_forall. intros h Hh x y Hx Hy.
    apply groupby_fuel_groups in Hh; [|exact Hl']. destruct Hh as (k & Hk & ->).
    apply filter_In in Hy. destruct Hy as [Hy Hky]. apply filter_In in Hy. destruct Hy as [_ Hay].
    apply negb_true_iff in Hay.
    assert (Hax : same a x = true).
    { destruct Hx as [<-|Hx]; [apply same_refl|]. apply filter_In in Hx. exact (proj2 Hx). }
    exact (same_false_r a x y Hax Hay).
  Qed.

  (* the groups partition the table *)
  Lemma filter_partition_perm : forall (f : T -> bool) l, Permutation (filter f l ++ filter (fun x => negb (f x)) l) l.
  Proof.
    intros f l. induction l as [|x l IH]; cbn; [constructor|].
    destruct (f x); cbn; [constructor; exact IH|].
    eapply Permutation_trans; [apply Permutation_sym, Permutation_middle|]. constructor. exact IH.
  Qed.

  Lemma groupby_fuel_perm : forall fuel rows, length rows <= fuel -> Permutation (concat (groupby_fuel same fuel rows)) rows.
  Proof.
    induction fuel as [|f IH]; intros rows Hl; [destruct rows; [constructor|cbn in Hl; lia]|].
    destruct rows as [|a rest]; [constructor|]. cbn [groupby_fuel concat].
    assert (Hl' : length (filter (fun b => negb (same a b)) rest) <= f)
      by (cbn in Hl; pose proof (filter_length_le (fun b => negb (same a b)) rest); lia).
    cbn [app]. constructor.
    eapply Permutation_trans; [apply Permutation_app_head, IH, Hl'|]. apply filter_partition_perm.
  Qed.

  Theorem groupby_groups : forall rows g, In g (groupby same rows) -> exists h, In h rows /\ g = filter (same h) rows.
  Proof. intros rows g. apply groupby_fuel_groups. constructor. Qed.
  Theorem groupby_complete : forall rows x, In x rows -> In (filter (same x) rows) (groupby same rows).
  Proof. intros rows x. apply groupby_fuel_complete. constructor. Qed.
  Theorem groupby_distinct : forall rows,
      ForallOrdPairs (fun g h => forall x y, In x g -> In y h -> same x y = false) (groupby same rows).
  Proof. intros rows. apply groupby_fuel_distinct. constructor. Qed.
  Theorem groupby_perm : forall rows, Permutation (concat (groupby same rows)) rows.
  Proof. intros rows. apply groupby_fuel_perm. constructor. Qed.

  (* ---------------------------------------------------------------- group_adj *)
  Lemma group_adj_head : forall rows, match group_adj same rows with
                                      | [] => rows = []
                                      | g :: _ => exists a rest g', rows = a :: rest /\ g = a :: g'
                                      end.
  Proof.
    induction rows as [|a rest IH]; [reflexivity|]. cbn [group_adj].
    destruct (group_adj same rest) as [|[|b g] gs].
    - exists a, rest, []. split; reflexivity.
    - exists a, rest, []. split; reflexivity.
    - destruct (same a b); eexists a, rest, _; split; reflexivity.
  Qed.

  (* a run of rows with the key of a, followed by rows that start with another key *)
  Lemma group_adj_run : forall run a others,
      Forall (fun x => same a x = true) run ->
      match others with [] => True | h :: _ => same a h = false end ->
      group_adj same (a :: run ++ others) = (a :: run) :: group_adj same others.
  Proof.
    induction run as [|r run IH]; intros a others Hrun Hoth.
    - cbn [app group_adj]. pose proof (group_adj_head others) as Hh.
      destruct (group_adj same others) as [|[|b g] gs].
      + reflexivity.
      + destruct Hh as (a0 & rest0 & g' & _ & Hg). discriminate.
      + destruct Hh as (a0 & rest0 & g' & -> & Hg). injection Hg as -> ->. rewrite Hoth. reflexivity.
    - inversion Hrun as [|r0 run0 Har Hrun']; subst.
      change (a :: (r :: run) ++ others) with (a :: r :: run ++ others). cbn [group_adj].
      fold (group_adj same (r :: run ++ others)).
      assert (IHr : group_adj same (r :: run ++ others) = (r :: run) :: group_adj same others).
      { apply IH.
        - apply Forall_forall. intros x Hx. rewrite Forall_forall in Hrun'. specialize (Hrun' x Hx).
          rewrite same_sym in Har. exact (same_trans r a x Har Hrun').
        - destruct others as [|h t]; [exact I|]. exact (same_false_r a r h Har Hoth). }
      cbn [group_adj] in IHr. rewrite IHr. rewrite Har. reflexivity.
  Qed.

  (* ---------------------------------------------------------------- contiguous tables *)
  (* once another residue has begun, residue a never returns *)
  Definition no_return (a : T) (rest : list T) : Prop :=
    forall l1 b l2, rest = l1 ++ b :: l2 -> same a b = false -> forall c, In c l2 -> same a c = false.
  Definition contiguous (rows : list T) : Prop :=
    forall l1 a rest, rows = l1 ++ a :: rest -> no_return a rest.

  Lemma contiguous_tail : forall a rows, contiguous (a :: rows) -> contiguous rows.
  Proof. intros a rows H l1 b rest E. apply (H (a :: l1) b rest). rewrite E. reflexivity. Qed.

  Lemma contiguous_suffix : forall l rows, contiguous (l ++ rows) -> contiguous rows.
  Proof. induction l as [|x l IH]; intros rows H; [exact H|]. apply IH. exact (contiguous_tail x _ H). Qed.

  Lemma split_run : forall a rest, no_return a rest ->
      exists run others, rest = run ++ others /\ Forall (fun x => same a x = true) run /\ Forall (fun x => same a x = false) others.
  Proof.
    intros a. induction rest as [|b rest IH]; intros H.
    - exists [], []. repeat split; constructor.
    - destruct (same a b) eqn:E.
      + destruct IH as (run & others & -> & Hr & Ho).
        { intros l1 c l2 E1 Hc d Hd. apply (H (b :: l1) c l2); [rewrite E1; reflexivity|exact Hc|exact Hd]. }
        exists (b :: run), others. repeat split; [constructor; assumption|exact Ho].
      + exists [], (b :: rest). repeat split; [constructor|]. constructor; [exact E|].
        apply Forall_forall. intros c Hc. exact (H [] b rest eq_refl E c Hc).
  Qed.

  Lemma groupby_fuel_contiguous : forall fuel rows, length rows <= fuel -> contiguous rows ->
      groupby_fuel same fuel rows = group_adj same rows.
  Proof.
    induction fuel as [|f IH]; intros rows Hl Hc; [destruct rows; [reflexivity|cbn in Hl; lia]|].
    destruct rows as [|a rest]; [reflexivity|].
    destruct (split_run a rest (Hc [] a rest eq_refl)) as (run & others & -> & Hr & Ho).
    cbn [groupby_fuel]. rewrite !filter_app.
    rewrite (filter_all _ run Hr), (filter_none _ others Ho), app_nil_r.
    rewrite (filter_none (fun b => negb (same a b)) run), (filter_all (fun b => negb (same a b)) others); cbn [app].
    - rewrite group_adj_run; [|exact Hr|destruct others as [|h t]; [exact I|inversion Ho; assumption]].
      f_equal. apply IH.
      + cbn in Hl. rewrite app_length in Hl. lia.
      + apply (contiguous_suffix (a :: run)). exact Hc.
    - eapply Forall_impl; [|exact Ho]. cbn. intros x Hx. rewrite Hx. reflexivity.
    - eapply Forall_impl; [|exact Hr]. cbn. intros x Hx. rewrite Hx. reflexivity.
  Qed.

  (* on a table whose residues are contiguous, grouping by key and grouping by change of key coincide *)
  Theorem groupby_contiguous : forall rows, contiguous rows -> groupby same rows = group_adj same rows.
  Proof. intros rows. apply groupby_fuel_contiguous. constructor. Qed.
End Generic.

(* ---------------------------------------------------------------- the two readers *)
From RV Require Import Proofs.C08Main Proofs.C15Main.

Lemma equiv_from_key : forall {T K : Type} (same : T -> T -> bool) (key : T -> K),
    (forall a b, same a b = true <-> key a = key b) ->
    (forall a, same a a = true) /\ (forall a b, same a b = same b a) /\
    (forall a b c, same a b = true -> same b c = true -> same a c = true).
Proof.
  intros T K same key H. split; [|split].
  - intros a. apply H. reflexivity.
  - intros a b. destruct (same a b) eqn:E1, (same b a) eqn:E2; try reflexivity.
    + apply H in E1. symmetry in E1. apply H in E1. congruence.
    + apply H in E2. symmetry in E2. apply H in E2. congruence.
  - intros a b c H1 H2. apply H. apply H in H1. apply H in H2. congruence.
Qed.

Definition rkey1 (a : atom1) := (a1_label a, a1_auth a, a1_model a).
Lemma same_residue_iff : forall a b, same_residue a b = true <-> rkey1 a = rkey1 b.
Proof.
  intros a b. unfold same_residue, rkey1. rewrite !andb_true_iff, label_eqb_eq, oident_eqb_eq, Z.eqb_eq.
  split; [intros [[-> ->] ->]; reflexivity|intros H; injection H as -> -> ->; auto].
Qed.

Definition rkey2 (p : parsed_rec) := (p_chain p, p_resseq p, p_icode p).
Lemma oz_eqb_eq : forall a b, oz_eqb a b = true <-> a = b.
Proof.
  intros [a|] [b|]; cbn; split; try discriminate; try reflexivity.
  - intros H. apply Z.eqb_eq in H. subst. reflexivity.
  - intros H. injection H as ->. apply Z.eqb_refl.
Qed.
Lemma key2_eqb_iff : forall p q, key2_eqb p q = true <-> rkey2 p = rkey2 q.
Proof.
  intros p q. unfold key2_eqb, rkey2. rewrite !andb_true_iff, !pstr_eqb_eq, oz_eqb_eq.
  split; [intros [[-> ->] ->]; reflexivity|intros H; injection H as -> -> ->; auto].
Qed.

Lemma group_is_group_adj : forall atoms, Reader1.group atoms = group_adj same_residue atoms.
Proof. induction atoms as [|a atoms IH]; [reflexivity|]. cbn [Reader1.group group_adj]. rewrite IH. reflexivity. Qed.

Section Paired.
  Context {A B : Type} (s1 : A -> A -> bool) (s2 : B -> B -> bool).
  Let s1' (x y : A * B) := s1 (fst x) (fst y).
  Let s2' (x y : A * B) := s2 (snd x) (snd y).

  Lemma group_adj_map_fst : forall rows : list (A * B), map (map fst) (group_adj s1' rows) = group_adj s1 (map fst rows).
  Proof.
    induction rows as [|a rows IH]; [reflexivity|]. cbn [group_adj map]. rewrite <- IH.
    destruct (group_adj s1' rows) as [|[|b g] gs]; cbn [map]; try reflexivity.
    unfold s1'. destruct (s1 (fst a) (fst b)); reflexivity.
  Qed.

  Lemma map_snd_filter : forall (f : B -> bool) (l : list (A * B)), map snd (filter (fun x => f (snd x)) l) = filter f (map snd l).
  Proof. intros f l. induction l as [|x l IH]; cbn; [reflexivity|]. destruct (f (snd x)); cbn; rewrite IH; reflexivity. Qed.

  Lemma groupby_fuel_map_snd : forall fuel (rows : list (A * B)),
      map (map snd) (groupby_fuel s2' fuel rows) = groupby_fuel s2 fuel (map snd rows).
  Proof.
    induction fuel as [|f IH]; intros rows; [destruct rows; reflexivity|].
    destruct rows as [|a rest]; [reflexivity|]. cbn [groupby_fuel map]. rewrite IH. unfold s2'.
    rewrite (map_snd_filter (s2 (snd a)) rest), (map_snd_filter (fun b => negb (s2 (snd a) b)) rest). reflexivity.
  Qed.
  Lemma groupby_map_snd : forall rows : list (A * B), map (map snd) (groupby s2' rows) = groupby s2 (map snd rows).
  Proof. intros rows. unfold groupby. rewrite map_length. apply groupby_fuel_map_snd. Qed.
End Paired.

Lemma group_adj_concat : forall {T} (same : T -> T -> bool) rows, concat (group_adj same rows) = rows.
Proof.
  intros T same. induction rows as [|a rows IH]; [reflexivity|]. cbn [group_adj].
  destruct (group_adj same rows) as [|[|b g] gs] eqn:E.
  - cbn in IH. subst rows. reflexivity.
  - cbn [concat app] in *. subst rows. reflexivity.
  - destruct (same a b); cbn [concat app] in *; rewrite <- IH; reflexivity.
Qed.

Lemma group_adj_ext : forall {T} (same same' : T -> T -> bool) rows,
    (forall x y, In x rows -> In y rows -> same x y = same' x y) -> group_adj same rows = group_adj same' rows.
Proof.
  intros T same same'. induction rows as [|a rows IH]; intros H; [reflexivity|]. cbn [group_adj].
  rewrite <- IH; [|intros x y Hx Hy; apply H; right; assumption].
  pose proof (group_adj_head same rows) as Hh.
  destruct (group_adj same rows) as [|[|b g] gs]; try reflexivity.
  destruct Hh as (a0 & rest0 & g' & -> & Hg). injection Hg as -> ->.
  rewrite (H a a0); [reflexivity|left; reflexivity|right; left; reflexivity].
Qed.

(* what `agree` gives for free: atoms the residue-level reader puts in one residue have one key in the table *)
Lemma same_residue_implies_key2 : forall a b p q, agree a p -> agree b q -> same_residue a b = true -> key2_eqb p q = true.
Proof.
  intros a b p q Ha Hb Hs. apply same_residue_iff in Hs. unfold rkey1 in Hs. injection Hs as _ Hauth _.
  destruct Ha as [Ha _]. destruct Hb as [Hb _]. rewrite Hauth in Ha.
  destruct (a1_auth b) as [id|]; [|destruct Ha].
  destruct Ha as (C1 & N1 & I1 & _). destruct Hb as (C2 & N2 & I2 & _).
  apply key2_eqb_iff. unfold rkey2. rewrite C1, C2, N1, N2, I1, I2. reflexivity.
Qed.

(* The residues of the two readers.  rows pairs what the residue-level reader decoded with what the table-level reader
   decoded from the same line.  If no key of the table is shared by two identities of the residue-level reader (one
   residue name per (chain, number, insertion code), one model, chain ids that stay distinct after stripping) and the
   residues are contiguous in the file, both readers report the same residues, in the same order, each with the same
   atoms in the same order. *)
Theorem readers_same_residues : forall rows : list (atom1 * parsed_rec),
    Forall (fun x => agree (fst x) (snd x)) rows ->
    (forall x y, In x rows -> In y rows -> key2_eqb (snd x) (snd y) = true -> same_residue (fst x) (fst y) = true) ->
    contiguous (fun x y => key2_eqb (snd x) (snd y)) rows ->
    exists G, Reader1.group (map fst rows) = map (map fst) G /\ residues_v2 (map snd rows) = map (map snd) G /\
              concat G = rows.
Proof.
  intros rows Hag Hone Hc.
  set (s1' := fun x y : atom1 * parsed_rec => same_residue (fst x) (fst y)).
  set (s2' := fun x y : atom1 * parsed_rec => key2_eqb (snd x) (snd y)).
  assert (Hext : forall x y, In x rows -> In y rows -> s2' x y = s1' x y).
  { intros x y Hx Hy. unfold s1', s2'. destruct (key2_eqb (snd x) (snd y)) eqn:E.
    - symmetry. apply Hone; assumption.
    - destruct (same_residue (fst x) (fst y)) eqn:E2; [|reflexivity].
      rewrite Forall_forall in Hag.
      rewrite (same_residue_implies_key2 _ _ _ _ (Hag x Hx) (Hag y Hy) E2) in E. discriminate. }
  destruct (equiv_from_key s2' (fun x => rkey2 (snd x))) as (R & S & Tr).
  { intros a b. unfold s2'. apply key2_eqb_iff. }
  exists (group_adj s2' rows). split; [|split].
  - rewrite group_is_group_adj, (group_adj_ext s2' s1' rows Hext). symmetry. apply (group_adj_map_fst same_residue).
  - unfold residues_v2. rewrite <- (groupby_map_snd key2_eqb). f_equal.
    apply (groupby_contiguous s2' S Tr). exact Hc.
  - apply group_adj_concat.
Qed.

(* ---------------------------------------------------------------- the table-level reader's residues, for every table *)
Theorem residues_v2_spec : forall rows,
    (forall g, In g (residues_v2 rows) -> exists h, In h rows /\ g = filter (key2_eqb h) rows) /\
    (forall x, In x rows -> In (filter (key2_eqb x) rows) (residues_v2 rows)) /\
    ForallOrdPairs (fun g h => forall x y, In x g -> In y h -> rkey2 x <> rkey2 y) (residues_v2 rows) /\
    Permutation (concat (residues_v2 rows)) rows.
Proof.
  intros rows. destruct (equiv_from_key key2_eqb rkey2 key2_eqb_iff) as (R & S & Tr). unfold residues_v2.
  split; [|split; [|split]].
  - intros g. apply (groupby_groups key2_eqb R S Tr).
  - intros x. apply (groupby_complete key2_eqb R S Tr).
  - pose proof (groupby_distinct key2_eqb R S Tr rows) as H.
    induction H as [|g l Hg _ IH]; constructor; [|exact IH].
    eapply Forall_impl; [|exact Hg]. cbn. intros h Hh x y Hx Hy E. apply key2_eqb_iff in E.
    rewrite (Hh x y Hx Hy) in E. discriminate.
  - apply groupby_perm.
Qed.

Lemma Forall2_combine : forall {A B} (R : A -> B -> Prop) l ps, Forall2 R l ps ->
    Forall (fun x => R (fst x) (snd x)) (combine l ps) /\ map fst (combine l ps) = l /\ map snd (combine l ps) = ps.
Proof.
  intros A B R l ps H. induction H as [|a p l ps Hap _ (IH1 & IH2 & IH3)]; [repeat split; constructor|].
  cbn. repeat split; [constructor; assumption|f_equal; exact IH2|f_equal; exact IH3].
Qed.

(* whole regular PDB files *)
Theorem file_same_residues : forall lines m l, forallb regular lines = true -> decode_pdb m lines = Ok l ->
    let rows := combine l (parse_lines m lines) in
    (forall x y, In x rows -> In y rows -> key2_eqb (snd x) (snd y) = true -> same_residue (fst x) (fst y) = true) ->
    contiguous (fun x y => key2_eqb (snd x) (snd y)) rows ->
    exists G, Reader1.group l = map (map fst) G /\ residues_v2 (parse_lines m lines) = map (map snd) G /\
              concat G = rows /\ Forall (Forall (fun x => agree (fst x) (snd x))) G.
Proof.
  intros lines m l Hreg Hdec rows Hone Hc.
  pose proof (readers_agree_on_file lines m l Hreg Hdec) as Hag.
  destruct (Forall2_combine agree l (parse_lines m lines) Hag) as (F & E1 & E2). fold rows in F, E1, E2.
  destruct (readers_same_residues rows F Hone Hc) as (G & G1 & G2 & G3).
  exists G. rewrite E1 in G1. rewrite E2 in G2. repeat split; try assumption.
  apply Forall_forall. intros g Hg. apply Forall_forall. intros x Hx.
  rewrite Forall_forall in F. apply F. rewrite <- G3. apply in_concat. exists g. split; assumption.
Qed.

(* the hypotheses are satisfiable: a two-residue table *)
Example contiguous_example :
  let p c n := {| p_type := []; p_serial := None; p_name := []; p_alt := []; p_resname := []; p_chain := c; p_resseq := Some n;
                  p_icode := []; p_x := None; p_y := None; p_z := None; p_occ := None; p_b := None; p_element := []; p_charge := [];
                  p_model := 1%Z |} in
  let A := list_ascii_of_string "A" in
  residues_v2 [p A 1; p A 1; p A 2]%Z = [[p A 1; p A 1]; [p A 2]]%Z /\
  residues_v2 [p A 1; p A 2; p A 1]%Z = [[p A 1; p A 1]; [p A 2]]%Z.
Proof. split; reflexivity. Qed.

(* ---------------------------------------------------------------- the hypotheses are decidable and satisfiable *)
Section Check.
  Context {T : Type} (same : T -> T -> bool).
  Fixpoint dropwhile (f : T -> bool) (l : list T) : list T :=
    match l with [] => [] | x :: t => if f x then dropwhile f t else l end.
  Fixpoint contiguousb (rows : list T) : bool :=
    match rows with
    | [] => true
    | a :: rest => forallb (fun c => negb (same a c)) (dropwhile (same a) rest) && contiguousb rest
    end.

  Lemma dropwhile_keeps : forall f m1 b m2, f b = false -> exists m0, dropwhile f (m1 ++ b :: m2) = m0 ++ b :: m2.
  Proof.
    intros f. induction m1 as [|x m1 IH]; intros b m2 Hb.
    - cbn. rewrite Hb. exists []. reflexivity.
    - cbn [app dropwhile]. destruct (f x); [apply IH; exact Hb|]. exists (x :: m1). reflexivity.
  Qed.

  Lemma contiguousb_sound : forall rows, contiguousb rows = true -> contiguous same rows.
  Proof.
    induction rows as [|x rows IH]; intros H l1 a rest E.
    - destruct l1; discriminate.
    - cbn [contiguousb] in H. apply andb_true_iff in H. destruct H as [H1 H2].
      destruct l1 as [|y l1].
      + cbn in E. injection E as <- <-. intros m1 b m2 -> Hb c Hc.
        destruct (dropwhile_keeps (same x) m1 b m2 Hb) as (m0 & Ed). rewrite Ed in H1.
        rewrite forallb_forall in H1. apply negb_true_iff. apply H1. apply in_or_app. right. right. exact Hc.
      + cbn in E. injection E as _ E. exact (IH H2 l1 a rest E).
  Qed.
End Check.

Definition a_rec (serial : Z) (name : string) (rn : string) (num : Z) (ic : string) (x : Z) : atom_rec :=
  {| ar_type := list_ascii_of_string "ATOM"; ar_serial := serial; ar_name := list_ascii_of_string name; ar_alt := [];
     ar_resname := list_ascii_of_string rn; ar_chain := list_ascii_of_string "A"; ar_resseq := num;
     ar_icode := list_ascii_of_string ic; ar_x := x; ar_y := 0; ar_z := 0; ar_occ := 100; ar_b := 0;
     ar_element := list_ascii_of_string "C"; ar_charge := []; ar_model := 1 |}%Z.

Definition example_file : list str :=
  write_pdb [a_rec 1 "P" "G" 10 "" 1000; a_rec 2 "C1'" "G" 10 "" 2500; a_rec 3 "P" "C" 10 "A" 9000; a_rec 4 "N1" "C" 10 "A" 12000;
             a_rec 5 "P" "U" 11 "" 20000]%Z.

(* a written three-residue file (one with an insertion code) meets every hypothesis of file_same_residues *)
Example same_residues_nonvacuous :
  forallb regular example_file = true /\
  exists l, decode_pdb 1 example_file = Ok l /\ length (Reader1.group l) = 3 /\
    let rows := combine l (parse_lines 1 example_file) in
    (forall x y, In x rows -> In y rows -> key2_eqb (snd x) (snd y) = true -> same_residue (fst x) (fst y) = true) /\
    contiguous (fun x y => key2_eqb (snd x) (snd y)) rows.
Proof.
  split; [vm_compute; reflexivity|].
  destruct (decode_pdb 1 example_file) as [l|e] eqn:E; [|vm_compute in E; discriminate].
  exists l. split; [reflexivity|].
  assert (Hb : length (Reader1.group l) = 3 /\
               forallb (fun x => forallb (fun y => implb (key2_eqb (snd x) (snd y)) (same_residue (fst x) (fst y)))
                                         (combine l (parse_lines 1 example_file))) (combine l (parse_lines 1 example_file)) = true /\
               contiguousb (fun x y => key2_eqb (snd x) (snd y)) (combine l (parse_lines 1 example_file)) = true).
  { vm_compute in E. injection E as <-. vm_compute. repeat split; reflexivity. }
  destruct Hb as (H3 & Hone & Hc). split; [exact H3|]. split.
  - intros x y Hx Hy Hk. rewrite forallb_forall in Hone. specialize (Hone x Hx). rewrite forallb_forall in Hone.
    specialize (Hone y Hy). rewrite Hk in Hone. exact Hone.
  - apply contiguousb_sound. exact Hc.
Qed.
