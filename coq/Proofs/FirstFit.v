(* C16, part 1: first-fit colouring along any duplicate-free order of vertices never fails and yields a colouring
   that is proper and greedy-stable (every vertex on level k has a neighbour on every level below k). *)
From Coq Require Import String Ascii ZArith List Bool Arith Lia ZifyBool.
From RV Require Import Base.Val Gen.Common Model.Bpseq Model.Milp Model.AllDb Proofs.Encode Proofs.Fcfs Proofs.Colouring.
Import ListNotations.

Section FirstFit.
  Variable adj : nat -> nat -> bool.
  Hypothesis adj_sym : forall i j, adj i j = adj j i.
  Hypothesis adj_irrefl : forall i, adj i i = false.

  Definition coloured_ok (a : assoc) : Prop :=
    NoDup (map fst a) /\
    (forall v o v' o', In (v, o) a -> In (v', o') a -> adj v v' = true -> o <> o') /\
    (forall v o k, In (v, o) a -> k < o -> exists v', In (v', k) a /\ adj v v' = true).

  Lemma used_levels : forall v (done : assoc) o,
      In o (map snd (filter (fun p => adj v (fst p)) done)) <-> exists v', In (v', o) done /\ adj v v' = true.
  Proof.
    intros v done o. rewrite in_map_iff. split.
    - intros ([v' o'] & E & Hin). cbn in E. subst o'. apply filter_In in Hin. destruct Hin as [Hin Ha]. exists v'. split; assumption.
    - intros (v' & Hin & Ha). exists (v', o). split; [reflexivity|]. apply filter_In. split; assumption.
  Qed.

  Lemma NoDup_snoc : forall (l : list nat) x, NoDup l -> ~ In x l -> NoDup (l ++ [x]).
  Proof.
    induction l as [|y l IH]; intros x N Hx; cbn; [constructor; [intros []|constructor]|].
    inversion N; subst. constructor.
    - intros Hin. apply in_app_or in Hin. destruct Hin as [Hin|[->|[]]]; [contradiction|]. apply Hx. left. reflexivity.
    - apply IH; [assumption|]. intros Hin. apply Hx. right. exact Hin.
  Qed.

  (* one more vertex coloured with the lowest level free among its already coloured neighbours *)
  Lemma extend_ok : forall done v o, coloured_ok done -> ~ In v (map fst done) ->
      ~ In o (map snd (filter (fun p => adj v (fst p)) done)) ->
      (forall k, k < o -> In k (map snd (filter (fun p => adj v (fst p)) done))) ->
      coloured_ok (done ++ [(v, o)]).
  Proof.
    intros done v o (N & P & S) Hv Hnot Hleast. repeat split.
    - rewrite map_app. cbn [map fst]. apply NoDup_snoc; assumption.
    - intros a oa b ob Ha Hb Hadj. apply in_app_or in Ha. apply in_app_or in Hb.
      destruct Ha as [Ha|[Ha|[]]], Hb as [Hb|[Hb|[]]].
      + eapply P; eassumption.
      + injection Hb as <- <-. intros ->. apply Hnot. apply used_levels. exists a. split; [exact Ha|]. rewrite adj_sym. exact Hadj.
      + injection Ha as <- <-. intros <-. apply Hnot. apply used_levels. exists b. split; [exact Hb|exact Hadj].
      + injection Ha as <- <-. injection Hb as <- <-. rewrite adj_irrefl in Hadj. discriminate.
    - intros a oa k Ha Hk. apply in_app_or in Ha. destruct Ha as [Ha|[Ha|[]]].
      + destruct (S a oa k Ha Hk) as (v' & Hin & Hadj). exists v'. split; [apply in_or_app; left; exact Hin|exact Hadj].
      + injection Ha as <- <-. specialize (Hleast k Hk). apply used_levels in Hleast.
        destruct Hleast as (v' & Hin & Hadj). exists v'. split; [apply in_or_app; left; exact Hin|exact Hadj].
  Qed.

  Lemma firstfit_go_spec : forall rest levels done res,
      firstfit_go adj levels done rest = Ok res ->
      coloured_ok done -> NoDup (map fst done ++ rest) ->
      coloured_ok res /\ map fst res = map fst done ++ rest.
  Proof.
    induction rest as [|v rest IH]; intros levels done res H Hok Hnd.
    - cbn [firstfit_go] in H. injection H as <-. rewrite app_nil_r. split; [exact Hok|reflexivity].
    - cbn [firstfit_go] in H.
      destruct (first_free _ levels) as [o|] eqn:E; [|discriminate].
      apply first_free_least in E. destruct E as (Ho & Hnot & Hleast).
      assert (Hv : ~ In v (map fst done)).
      { intros Hin. apply NoDup_remove_2 in Hnd. apply Hnd. apply in_or_app. left. exact Hin. }
      destruct (IH levels (done ++ [(v, o)]) res H) as [Hres Hmap].
      + apply extend_ok; assumption.
      + rewrite map_app. cbn [map fst]. rewrite <- app_assoc. exact Hnd.
      + split; [exact Hres|]. rewrite Hmap, map_app. cbn [map fst]. rewrite <- app_assoc. reflexivity.
  Qed.

  Lemma filter_len_le : forall (A : Type) (f : A -> bool) (l : list A), length (filter f l) <= length l.
  Proof. intros A f. induction l as [|a l IH]; cbn; [lia|]. destruct (f a); cbn; lia. Qed.

  (* the number of levels offered (the size of the component) always suffices *)
  Lemma firstfit_go_total : forall rest levels done,
      length done + length rest <= levels -> exists res, firstfit_go adj levels done rest = Ok res.
  Proof.
    induction rest as [|v rest IH]; intros levels done H; cbn [firstfit_go]; [eauto|].
    destruct (first_free_exists (map snd (filter (fun p => adj v (fst p)) done)) levels) as [o Ho].
    - rewrite map_length. pose proof (filter_len_le _ (fun p => adj v (fst p)) done). cbn [length] in H. lia.
    - rewrite Ho. apply IH. rewrite app_length. cbn [length] in *. lia.
  Qed.

  Theorem firstfit_ok : forall perm res, NoDup perm -> firstfit adj perm = Ok res ->
      coloured_ok res /\ map fst res = perm.
  Proof.
    intros [|v rest] res Hnd H; cbn [firstfit] in H.
    - injection H as <-. split; [|reflexivity]. repeat split; [constructor|intros ? ? ? ? []|intros ? ? ? []].
    - apply (firstfit_go_spec rest (length (v :: rest)) [(v, 0)] res H); [|exact Hnd].
      repeat split.
      + cbn. constructor; [intros []|constructor].
      + intros a oa b ob [Ha|[]] [Hb|[]] Hadj. injection Ha as <- <-. injection Hb as <- <-. rewrite adj_irrefl in Hadj. discriminate.
      + intros a oa k [Ha|[]] Hk. injection Ha as <- <-. lia.
  Qed.

  Theorem firstfit_total : forall perm, exists res, firstfit adj perm = Ok res.
  Proof.
    intros [|v rest]; cbn [firstfit]; [eauto|]. apply firstfit_go_total. cbn [length]. lia.
  Qed.
End FirstFit.
