(* C16, part 3: the groups of crossing stems are closed under adjacency, pairwise disjoint, duplicate-free and cover
   every stem that crosses another one. *)
From Coq Require Import String Ascii ZArith List Bool Arith Lia Permutation.
From RV Require Import Base.Val Gen.Common Model.Bpseq Model.Milp Model.AllDb Proofs.Colouring.
Import ListNotations.

Lemma mem_iff : forall x l, mem x l = true <-> In x l.
Proof.
  intros x l. unfold mem. rewrite existsb_exists. split.
  - intros (y & Hy & E). apply Nat.eqb_eq in E. subst. exact Hy.
  - intros H. exists x. split; [exact H|apply Nat.eqb_refl].
Qed.

Lemma add_new_spec : forall xs l, NoDup l ->
    NoDup (add_new l xs) /\ (forall x, In x (add_new l xs) <-> In x l \/ In x xs) /\ length l <= length (add_new l xs) /\
    exists ext, add_new l xs = l ++ ext.
Proof.
  unfold add_new. induction xs as [|y xs IH]; intros l N; cbn [fold_left].
  - split; [exact N|]. split; [intros x; split; [auto|intros [H|[]]; exact H]|]. split; [lia|]. exists []. rewrite app_nil_r. reflexivity.
  - destruct (mem y l) eqn:E.
    + destruct (IH l N) as (A & B & C & D). split; [exact A|]. split; [|split; [exact C|exact D]].
      intros x. rewrite B. cbn [In]. split; [intuition|]. intros [H|[<-|H]]; auto. left. apply mem_iff. exact E.
    + assert (Ny : ~ In y l) by (intros H; apply mem_iff in H; congruence).
      assert (N' : NoDup (l ++ [y])).
      { clear -N Ny. induction l as [|a l IHl]; cbn; [constructor; [intros []|constructor]|]. inversion N as [|? ? Hn N']; subst. constructor.
        - intros Hin. apply in_app_or in Hin. destruct Hin as [Hin|[->|[]]]; [contradiction|]. apply Ny. left. reflexivity.
        - apply IHl; [exact N'|]. intros Hin. apply Ny. right. exact Hin. }
      destruct (IH (l ++ [y]) N') as (A & B & C & (ext & D)). split; [exact A|]. split; [|split].
      * intros x. rewrite B, in_app_iff. cbn [In]. intuition.
      * rewrite app_length in C. cbn in C. lia.
      * exists ([y] ++ ext). rewrite D, <- app_assoc. reflexivity.
Qed.

Section Reach.
  Variable adj : nat -> nat -> bool.
  Variable n : nat.
  Hypothesis adj_sym : forall i j, adj i j = adj j i.
  Hypothesis adj_lt : forall i j, adj i j = true -> i < n /\ j < n.

  Definition closedP (cur : list nat) : Prop := forall v w, In v cur -> adj v w = true -> In w cur.

  Inductive conn (v : nat) : nat -> Prop :=
  | conn_refl : conn v v
  | conn_step : forall w x, conn v w -> adj w x = true -> conn v x.

  Lemma conn_closed : forall c v w, closedP c -> conn v w -> In v c -> In w c.
  Proof. intros c v w Hc H. induction H as [|w x _ IH Ha]; intros Hv; [exact Hv|]. apply (Hc w x); [apply IH; exact Hv|exact Ha]. Qed.

  Lemma conn_trans : forall a b c, conn a b -> conn b c -> conn a c.
  Proof. intros a b c H1 H2. induction H2 as [|w x _ IH Ha]; [exact H1|]. eapply conn_step; [exact IH|exact Ha]. Qed.
  Lemma conn_sym : forall a b, conn a b -> conn b a.
  Proof.
    intros a b H. induction H as [|w x _ IH Ha]; [constructor|].
    apply (conn_trans x w a); [|exact IH]. eapply conn_step; [constructor|]. rewrite adj_sym. exact Ha.
  Qed.

  Lemma in_nbrs : forall v w, In w (neighbours adj n v) <-> adj v w = true.
  Proof.
    intros v w. unfold neighbours. rewrite filter_In, in_seq. split; [intros [_ H]; exact H|]. intros H. split; [|exact H].
    destruct (adj_lt v w H). lia.
  Qed.

  Definition grow (cur : list nat) : list nat := add_new cur (flat_map (neighbours adj n) cur).

  Lemma grow_spec : forall cur, NoDup cur -> (forall x, In x cur -> x < n) ->
      NoDup (grow cur) /\ (forall x, In x (grow cur) -> x < n) /\ (forall x, In x cur -> In x (grow cur)) /\
      length cur <= length (grow cur) /\
      (forall v x, (forall y, In y cur -> conn v y) -> In x (grow cur) -> conn v x) /\
      (length (grow cur) = length cur -> closedP cur /\ grow cur = cur).
  Proof.
    intros cur N B. unfold grow. destruct (add_new_spec (flat_map (neighbours adj n) cur) cur N) as (A & M & L & (ext & E)).
    split; [exact A|]. split; [|split; [|split; [exact L|split]]].
    - intros x H. apply M in H. destruct H as [H|H]; [apply B; exact H|]. apply in_flat_map in H. destruct H as (v & _ & H). apply in_nbrs in H. apply (adj_lt v x H).
    - intros x H. apply M. left. exact H.
    - intros v x Hc H. apply M in H. destruct H as [H|H]; [apply Hc; exact H|]. apply in_flat_map in H. destruct H as (y & Hy & H). apply in_nbrs in H.
      eapply conn_step; [apply Hc; exact Hy|exact H].
    - intros Hl. split.
      + intros v w Hv Ha. assert (In w (add_new cur (flat_map (neighbours adj n) cur))) by (apply M; right; apply in_flat_map; exists v; split; [exact Hv|apply in_nbrs; exact Ha]).
        rewrite E in H, Hl. rewrite app_length in Hl. destruct ext; [rewrite app_nil_r in H; exact H|cbn in Hl; lia].
      + rewrite E in Hl |- *. rewrite app_length in Hl. destruct ext; [apply app_nil_r|cbn in Hl; lia].
  Qed.

  Lemma reach_unfold : forall f cur, reach adj n (Datatypes.S f) cur = reach adj n f (grow cur).
  Proof. reflexivity. Qed.

  Lemma reach_fix : forall f cur, grow cur = cur -> reach adj n f cur = cur.
  Proof. induction f as [|f IH]; intros cur H; [reflexivity|]. rewrite reach_unfold, H. apply IH. exact H. Qed.

  Theorem reach_spec : forall f cur v, NoDup cur -> (forall x, In x cur -> x < n) -> (forall y, In y cur -> conn v y) ->
      n < f + length cur ->
      let r := reach adj n f cur in
      NoDup r /\ (forall x, In x r -> x < n) /\ (forall x, In x cur -> In x r) /\ (forall x, In x r -> conn v x) /\ closedP r.
  Proof.
    induction f as [|f IH]; intros cur v N B C Hf; cbv zeta.
    - exfalso. pose proof (NoDup_incl_length N (fun x Hx => proj2 (in_seq n 0 x) (conj (Nat.le_0_l _) (B x Hx)))) as L. rewrite seq_length in L. lia.
    - rewrite reach_unfold. destruct (grow_spec cur N B) as (N' & B' & Sub & L & C' & Fix).
      destruct (Nat.eq_dec (length (grow cur)) (length cur)) as [E|NE].
      + destruct (Fix E) as [Cl G]. rewrite G, (reach_fix f cur G). repeat split; auto.
      + destruct (IH (grow cur) v N' B' (fun y Hy => C' v y C Hy)) as (R1 & R2 & R3 & R4 & R5); [lia|].
        repeat split; auto.
  Qed.
End Reach.

(* ---------------------------------------------------------------- sort_nat *)
Lemma insert_nat_perm : forall x l, Permutation (insert_nat x l) (x :: l).
Proof.
  intros x. induction l as [|y l IH]; cbn [insert_nat]; [apply Permutation_refl|].
  destruct (x <=? y); [apply Permutation_refl|]. eapply Permutation_trans; [apply perm_skip; exact IH|apply perm_swap].
Qed.
Lemma sort_nat_perm : forall l, Permutation (sort_nat l) l.
Proof.
  induction l as [|x l IH]; [apply Permutation_refl|]. unfold sort_nat. cbn [fold_right]. fold (sort_nat l).
  eapply Permutation_trans; [apply insert_nat_perm|apply perm_skip; exact IH].
Qed.

Section Components.
  Variable adj : nat -> nat -> bool.
  Variable n : nat.
  Hypothesis adj_sym : forall i j, adj i j = adj j i.
  Hypothesis adj_lt : forall i j, adj i j = true -> i < n /\ j < n.

  Definition comp_ok (c : list nat) : Prop := NoDup c /\ (forall x, In x c -> x < n) /\ closedP adj c /\ (exists v, In v c /\ forall x, In x c -> conn adj v x).

  Lemma degree_zero : forall v, degree adj n v = 0 <-> forall w, adj v w = false.
  Proof.
    intros v. unfold degree. split.
    - intros H w. destruct (adj v w) eqn:E; [|reflexivity]. apply (in_nbrs adj n adj_lt) in E. destruct (neighbours adj n v); [destruct E|discriminate].
    - intros H. destruct (neighbours adj n v) as [|w t] eqn:E; [reflexivity|]. assert (In w (neighbours adj n v)) by (rewrite E; left; reflexivity).
      apply (in_nbrs adj n adj_lt) in H0. rewrite H in H0. discriminate.
  Qed.

  Definition comp_step (acc : list (list nat)) (v : nat) : list (list nat) :=
    if (degree adj n v =? 0) || existsb (mem v) acc then acc else acc ++ [sort_nat (reach adj n n [v])].

  Lemma new_comp_ok : forall v, v < n -> comp_ok (sort_nat (reach adj n n [v])) /\ In v (sort_nat (reach adj n n [v])).
  Proof.
    intros v Hv.
    destruct (reach_spec adj n adj_lt n [v] v) as (R1 & R2 & R3 & R4 & R5).
    - constructor; [intros []|constructor].
    - intros x [<-|[]]. exact Hv.
    - intros y [<-|[]]. constructor.
    - cbn. lia.
    - cbv zeta in *. pose proof (sort_nat_perm (reach adj n n [v])) as P.
      assert (Iff : forall x, In x (sort_nat (reach adj n n [v])) <-> In x (reach adj n n [v])).
      { intros x. split; apply Permutation_in; [exact P|apply Permutation_sym; exact P]. }
      split; [|apply Iff; apply R3; left; reflexivity].
      split; [apply (Permutation_NoDup (Permutation_sym P)); exact R1|]. split; [intros x Hx; apply R2; apply Iff; exact Hx|]. split.
      + intros a b Ha Hab. apply Iff. apply (R5 a b); [apply Iff; exact Ha|exact Hab].
      + exists v. split; [apply Iff; apply R3; left; reflexivity|]. intros x Hx. apply R4. apply Iff. exact Hx.
  Qed.

  Definition comps_inv (k : nat) (acc : list (list nat)) : Prop :=
    (forall c, In c acc -> comp_ok c) /\
    ForallOrdPairs (fun c1 c2 => forall x, In x c1 -> ~ In x c2) acc /\
    (forall v, v < k -> degree adj n v <> 0 -> exists c, In c acc /\ In v c).

  Lemma fop_snoc' : forall (A : Type) (R : A -> A -> Prop) l x, ForallOrdPairs R l -> (forall a, In a l -> R a x) -> ForallOrdPairs R (l ++ [x]).
  Proof.
    intros A R. induction l as [|y l IH]; intros x H Hx; cbn [app]; [constructor; [constructor|constructor]|].
    inversion H as [|? ? Hy Hl]; subst. constructor.
    - apply Forall_app. split; [exact Hy|]. constructor; [apply Hx; left; reflexivity|constructor].
    - apply IH; [exact Hl|]. intros a Ha. apply Hx. right. exact Ha.
  Qed.

  Lemma comps_fold : forall k, k <= n -> comps_inv k (fold_left comp_step (seq 0 k) []).
  Proof.
    induction k as [|k IH]; intros Hk.
    - cbn. split; [intros c []|]. split; [constructor|intros v Hv; lia].
    - rewrite seq_S, fold_left_app. cbn [fold_left plus]. destruct (IH (Nat.lt_le_incl _ _ Hk)) as (A & B & C).
      set (acc := fold_left comp_step (seq 0 k) []) in *. unfold comp_step.
      destruct (degree adj n k =? 0) eqn:D; cbn [orb].
      { split; [exact A|]. split; [exact B|]. intros v Hv Hd. destruct (Nat.eq_dec v k) as [->|Hne]; [apply Nat.eqb_eq in D; contradiction|apply C; [lia|exact Hd]]. }
      destruct (existsb (mem k) acc) eqn:E.
      { split; [exact A|]. split; [exact B|]. intros v Hv Hd. destruct (Nat.eq_dec v k) as [->|Hne]; [|apply C; [lia|exact Hd]].
        apply existsb_exists in E. destruct E as (c & Hc & Hm). exists c. split; [exact Hc|apply mem_iff; exact Hm]. }
      destruct (new_comp_ok k Hk) as [Ok Ink]. set (c' := sort_nat (reach adj n n [k])) in *.
      split; [|split].
      + intros c Hc. apply in_app_or in Hc. destruct Hc as [Hc|[<-|[]]]; [apply A; exact Hc|exact Ok].
      + apply fop_snoc'; [exact B|]. intros c Hc x Hx Hx'.
        (* x in an older closed group and connected to k: then k is in that group *)
        destruct (A c Hc) as (_ & _ & Cl & _). destruct Ok as (_ & _ & _ & (v0 & _ & Conn)).
        assert (Hk' : In k c).
        { apply (conn_closed adj c x k Cl); [|exact Hx].
          apply (conn_trans adj x v0 k); [apply (conn_sym adj adj_sym); apply Conn; exact Hx'|apply Conn; exact Ink]. }
        assert (existsb (mem k) acc = true); [|congruence]. apply existsb_exists. exists c. split; [exact Hc|apply mem_iff; exact Hk'].
      + intros v Hv Hd. destruct (Nat.eq_dec v k) as [->|Hne].
        * exists c'. split; [apply in_or_app; right; left; reflexivity|exact Ink].
        * destruct (C v) as (c & Hc & Hvc); [lia|exact Hd|]. exists c. split; [apply in_or_app; left; exact Hc|exact Hvc].
  Qed.

  Theorem components_spec : comps_inv n (components adj n).
  Proof. apply (comps_fold n (le_n _)). Qed.

  (* members of a group are never isolated; isolated vertices are in no group *)
  Lemma comp_members_adjacent : forall c v, In c (components adj n) -> In v c -> degree adj n v <> 0.
  Proof.
    intros c v. unfold components. fold comp_step.
    assert (G : forall k acc, (forall c v, In c acc -> In v c -> degree adj n v <> 0) -> k <= n ->
                              forall c v, In c (fold_left comp_step (seq 0 k) acc) -> In v c -> degree adj n v <> 0).
    { induction k as [|k IH]; intros acc H Hk; [exact H|]. rewrite seq_S, fold_left_app. cbn [fold_left plus].
      set (acc' := fold_left comp_step (seq 0 k) acc). assert (H' := IH acc H (Nat.lt_le_incl _ _ Hk)). fold acc' in H'.
      unfold comp_step. destruct ((degree adj n k =? 0) || existsb (mem k) acc') eqn:E; [exact H'|].
      intros c0 v0 Hc Hv. apply in_app_or in Hc. destruct Hc as [Hc|[<-|[]]]; [apply (H' c0 v0 Hc Hv)|].
      apply orb_false_iff in E. destruct E as [E _]. apply Nat.eqb_neq in E.
      destruct (new_comp_ok k Hk) as [(_ & _ & _ & (v1 & _ & Conn)) Ink].
      (* v0 is connected to k, which has a neighbour: so v0 has one (or v0 = k) *)
      assert (Ck : conn adj k v0).
      { apply (conn_trans adj k v1 v0); [apply (conn_sym adj adj_sym); apply Conn; exact Ink|apply Conn; exact Hv]. }
      destruct Ck as [|w x _ Ha]; [exact E|]. intros Z. apply degree_zero with (w := w) in Z. rewrite adj_sym in Z. congruence. }
    apply (G n [] (fun c v H => match H with end) (le_n _)).
  Qed.
End Components.
