(* C04 / C14: the arrival order of the neighbour pairs (the KD-tree's enumeration order) cannot reach the stacking list at all:
   two strongly sorted lists over a strict total order that are permutations of each other are equal. *)
From Coq Require Import String Ascii ZArith List Bool Arith Lia Sorted Permutation.
From RV Require Import Base.Val Base.PyStr Gen.Common Gen.Annot Model.Geom Model.AllDb Model.Annot Proofs.SortStr Proofs.ResOrder
  Proofs.C04Main Proofs.SortedStrong.
Import ListNotations.

Lemma sorted_perm_unique : forall (A : Type) (R : A -> A -> Prop) (P : A -> Prop),
    (forall x y, P x -> P y -> R x y -> R y x -> x = y) ->
    forall l l', Forall P l -> StronglySorted R l -> StronglySorted R l' -> Permutation l l' -> l = l'.
Proof.
  intros A R P Anti. induction l as [|x t IH]; intros l' HP S S' Perm.
  - apply Permutation_nil in Perm. subst. reflexivity.
  - destruct l' as [|y t']; [apply Permutation_sym, Permutation_nil in Perm; discriminate|].
    inversion HP as [|? ? Px Pt]; subst. inversion S as [|? ? St Hx]; subst. inversion S' as [|? ? St' Hy]; subst.
    rewrite Forall_forall in Hx, Hy, Pt.
    assert (Py : P y).
    { assert (In y (x :: t)) by (apply (Permutation_in _ (Permutation_sym Perm)); left; reflexivity). destruct H as [<-|H]; [exact Px|apply Pt; exact H]. }
    assert (E : x = y).
    { assert (Hx' : In x (y :: t')) by (apply (Permutation_in _ Perm); left; reflexivity).
      assert (Hy' : In y (x :: t)) by (apply (Permutation_in _ (Permutation_sym Perm)); left; reflexivity).
      destruct Hx' as [->|Hx']; [reflexivity|]. destruct Hy' as [->|Hy']; [reflexivity|].
      apply Anti; [exact Px|exact Py|apply Hx; exact Hy'|apply Hy; exact Hx']. }
    subst y. f_equal. apply IH; try assumption.
    + apply Forall_forall. exact Pt.
    + apply Permutation_cons_inv in Perm. exact Perm.
Qed.

Section Stack.
  Variable rs : list res3.
  Hypothesis Hnd : NoDup (map res_key rs).

  Lemma okey_inj : forall i j ri rj, nth_error rs i = Some ri -> nth_error rs j = Some rj -> okey rs i = okey rs j -> i = j.
  Proof.
    intros i j ri rj Hi Hj E. unfold okey in E. rewrite Hi, Hj in E.
    destruct (same_index_or_keys_differ rs Hnd i j ri rj Hi Hj) as [[-> _]|[_ Ne]]; [reflexivity|contradiction].
  Qed.

  Lemma S_inj : forall a b : string, S a = S b -> a = b.
  Proof.
    induction a as [|c a IH]; intros [|d b] H; cbn in H; try discriminate; [reflexivity|]. injection H as -> H. f_equal. apply IH. exact H.
  Qed.

  Lemma skey_inj : forall a b, valid_entry rs a -> valid_entry rs b -> skey rs a = skey rs b -> a = b.
  Proof.
    intros [[i1 j1] t1] [[i2 j2] t2] (ri1 & rj1 & Hi1 & Hj1) (ri2 & rj2 & Hi2 & Hj2) E. cbn [fst snd] in *.
    unfold skey in E. cbn [fst snd] in E. injection E as E1 E2 E3.
    rewrite (okey_inj _ _ _ _ Hi1 Hi2 E1), (okey_inj _ _ _ _ Hj1 Hj2 E2), (S_inj _ _ E3). reflexivity.
  Qed.

  Lemma nondesc_antisym : forall x y, valid_entry rs x -> valid_entry rs y -> stack_ltb rs y x = false -> stack_ltb rs x y = false -> x = y.
  Proof.
    intros x y Vx Vy H1 H2. rewrite (stack_ltb_lex rs Hnd) in H1, H2 by assumption.
    apply skey_inj; try assumption. apply (st_total _ (slex_strict_total)); assumption.
  Qed.

  Lemma stackings_valid : forall order, Forall (valid_entry rs) (so_stackings (find_stackings rs order)).
  Proof.
    intros order. unfold find_stackings. cbv zeta. destruct (length (centres rs) <? 2); [constructor|]. cbn [so_stackings].
    apply Forall_forall. intros e He. apply SortGen.stable_sort_in in He. apply in_flat_map in He. destruct He as (r & Hr & He).
    apply in_map_iff in Hr. destruct Hr as (ij & <- & _).
    destruct (fst (stack_pair rs (centres rs) ij)) as [e'|] eqn:E; [|destruct He]. destruct He as [<-|[]].
    apply (stack_pair_valid rs _ _ _ E).
  Qed.

  (* whatever order the neighbour pairs arrive in, the reported list is the same list *)
  Theorem stackings_order_free : forall o1 o2, Permutation o1 o2 ->
      so_stackings (find_stackings rs o1) = so_stackings (find_stackings rs o2).
  Proof.
    intros o1 o2 P. apply (sorted_perm_unique _ (fun x y => stack_ltb rs y x = false) (valid_entry rs)).
    - intros x y Vx Vy H1 H2. apply nondesc_antisym; assumption.
    - apply stackings_valid.
    - apply (stackings_strongly_sorted rs Hnd).
    - apply (stackings_strongly_sorted rs Hnd).
    - apply reported_order_independent. exact P.
  Qed.
End Stack.
