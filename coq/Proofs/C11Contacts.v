(* C11: every reported base-phosphate / base-ribose contact is backed by scanned atom contacts: a donor candidate and an
   acceptor candidate of two different residues, taken from the neighbour pairs handed to the scan (within 4 A when those
   are the validated neighbour set), one of them named like a phosphate (resp. ribose) oxygen, and the reported class is
   the class the ladder gives for the donor atom (or 4 from 3 and 5, 8 from 7 and 9 of the same residue pair). *)
From Coq Require Import String Ascii ZArith QArith List Bool Arith Lia Permutation.
From RV Require Import Base.Val Base.PyStr Gen.Common Gen.Annot Model.Geom Model.AllDb Model.Annot
  Proofs.SortGen Proofs.C03Hbonds Proofs.C03Main Proofs.C11Main.
Import ListNotations.
Local Close Scope Q_scope.

Definition backed (rs : list res3) (cs : list cand) (order : list (nat * nat)) (names : list string) (t : nat * nat * nat) : Prop :=
  exists ij ci cj donor acceptor rd d,
    In ij order /\ nth_error cs (fst ij) = Some ci /\ nth_error cs (snd ij) = Some cj /\
    ((donor = ci /\ acceptor = cj) \/ (donor = cj /\ acceptor = ci)) /\
    c_acceptor donor = false /\ c_acceptor acceptor = true /\ c_res donor <> c_res acceptor /\
    in_names names (c_name ci) || in_names names (c_name cj) = true /\
    nth_error rs (c_res donor) = Some rd /\
    bph_class rd (c_name donor) (c_pos donor) (c_pos acceptor) = Some (snd t, d) /\
    fst t = (c_res donor, c_res acceptor).

Lemma backed_more : forall rs cs order ij names t, backed rs cs order names t -> backed rs cs (order ++ [ij]) names t.
Proof.
  intros rs cs order ij names t (ij0 & ci & cj & dn & ac & rd & d & H & R). exists ij0, ci, cj, dn, ac, rd, d.
  split; [apply in_or_app; left; exact H|exact R].
Qed.

Lemma step_pair_backed : forall rs cs done st ij,
    Forall (backed rs cs done phosphate_acceptors) (bphs st) -> Forall (backed rs cs done ribose_acceptors) (brs st) ->
    Forall (backed rs cs (done ++ [ij]) phosphate_acceptors) (bphs (step_pair rs cs st ij)) /\
    Forall (backed rs cs (done ++ [ij]) ribose_acceptors) (brs (step_pair rs cs st ij)).
Proof.
  intros rs cs done st ij Hb Hr.
  assert (Hb' : Forall (backed rs cs (done ++ [ij]) phosphate_acceptors) (bphs st)) by (eapply Forall_impl; [|exact Hb]; intros t; apply backed_more).
  assert (Hr' : Forall (backed rs cs (done ++ [ij]) ribose_acceptors) (brs st)) by (eapply Forall_impl; [|exact Hr]; intros t; apply backed_more).
  unfold step_pair.
  destruct (nth_error cs (fst ij)) as [ci|] eqn:Ci; [|auto]. destruct (nth_error cs (snd ij)) as [cj|] eqn:Cj; [|auto].
  destruct (Bool.eqb (c_acceptor ci) (c_acceptor cj)) eqn:Acc; [auto|].
  destruct (c_res ci =? c_res cj) eqn:Res; [auto|]. apply Nat.eqb_neq in Res.
  destruct (nth_error rs (c_res ci)) as [ri|] eqn:Ri; [|auto]. destruct (nth_error rs (c_res cj)) as [rj|] eqn:Rj; [|auto].
  assert (Last : In ij (done ++ [ij])) by (apply in_or_app; right; left; reflexivity).
  assert (Snoc : forall (P : nat * nat * nat -> Prop) l t, Forall P l -> P t -> Forall P (l ++ [t])).
  { intros P l t Hl Ht. apply Forall_app. split; [exact Hl|constructor; [exact Ht|constructor]]. }
  destruct (c_acceptor ci) eqn:Ai; cbv zeta.
  - assert (Aj : c_acceptor cj = false) by (destruct (c_acceptor cj); [discriminate|reflexivity]).
    destruct ((in_names phosphate_acceptors (c_name ci) || in_names phosphate_acceptors (c_name cj)) && negb (is_used (used st) ci) && negb (is_used (used st) cj)) eqn:P.
    { destruct (bph_class rj (c_name cj) (c_pos cj) (c_pos ci)) as [[k d]|] eqn:B; cbn [bphs brs]; [|auto]. split; [|exact Hr'].
      apply Snoc; [exact Hb'|]. apply andb_true_iff in P. destruct P as [P _]. apply andb_true_iff in P. destruct P as [P _].
      exists ij, ci, cj, cj, ci, rj, d. repeat split; try assumption; try reflexivity; auto. }
    destruct ((in_names ribose_acceptors (c_name ci) || in_names ribose_acceptors (c_name cj)) && negb (is_used (used st) ci) && negb (is_used (used st) cj)) eqn:Q.
    { destruct (bph_class rj (c_name cj) (c_pos cj) (c_pos ci)) as [[k d]|] eqn:B; cbn [bphs brs]; [|auto]. split; [exact Hb'|].
      apply Snoc; [exact Hr'|]. apply andb_true_iff in Q. destruct Q as [Q _]. apply andb_true_iff in Q. destruct Q as [Q _].
      exists ij, ci, cj, cj, ci, rj, d. repeat split; try assumption; try reflexivity; auto. }
    destruct (base_normal ri); [|auto]. destruct (base_normal rj); [|auto].
    destruct (tri_and _ _); [|auto|auto]. destruct (hbond_dedup && _); auto.
  - assert (Aj : c_acceptor cj = true) by (destruct (c_acceptor cj); [reflexivity|discriminate]).
    destruct ((in_names phosphate_acceptors (c_name ci) || in_names phosphate_acceptors (c_name cj)) && negb (is_used (used st) ci) && negb (is_used (used st) cj)) eqn:P.
    { destruct (bph_class ri (c_name ci) (c_pos ci) (c_pos cj)) as [[k d]|] eqn:B; cbn [bphs brs]; [|auto]. split; [|exact Hr'].
      apply Snoc; [exact Hb'|]. apply andb_true_iff in P. destruct P as [P _]. apply andb_true_iff in P. destruct P as [P _].
      exists ij, ci, cj, ci, cj, ri, d. repeat split; try assumption; try reflexivity; auto. }
    destruct ((in_names ribose_acceptors (c_name ci) || in_names ribose_acceptors (c_name cj)) && negb (is_used (used st) ci) && negb (is_used (used st) cj)) eqn:Q.
    { destruct (bph_class ri (c_name ci) (c_pos ci) (c_pos cj)) as [[k d]|] eqn:B; cbn [bphs brs]; [|auto]. split; [exact Hb'|].
      apply Snoc; [exact Hr'|]. apply andb_true_iff in Q. destruct Q as [Q _]. apply andb_true_iff in Q. destruct Q as [Q _].
      exists ij, ci, cj, ci, cj, ri, d. repeat split; try assumption; try reflexivity; auto. }
    destruct (base_normal ri); [|auto]. destruct (base_normal rj); [|auto].
    destruct (tri_and _ _); [|auto|auto]. destruct (hbond_dedup && _); auto.
Qed.

Lemma scan_backed : forall rs order,
    Forall (backed rs (candidates rs) order phosphate_acceptors) (bphs (scan rs order)) /\
    Forall (backed rs (candidates rs) order ribose_acceptors) (brs (scan rs order)).
Proof.
  intros rs order. unfold scan.
  assert (G : forall todo done st,
             Forall (backed rs (candidates rs) done phosphate_acceptors) (bphs st) -> Forall (backed rs (candidates rs) done ribose_acceptors) (brs st) ->
             Forall (backed rs (candidates rs) (done ++ todo) phosphate_acceptors) (bphs (fold_left (step_pair rs (candidates rs)) todo st)) /\
             Forall (backed rs (candidates rs) (done ++ todo) ribose_acceptors) (brs (fold_left (step_pair rs (candidates rs)) todo st))).
  { induction todo as [|ij todo IH]; intros done st Hb Hr; [rewrite app_nil_r; auto|]. cbn [fold_left].
    destruct (step_pair_backed rs (candidates rs) done st ij Hb Hr) as [Hb' Hr'].
    replace (done ++ ij :: todo) with ((done ++ [ij]) ++ todo) by (rewrite <- app_assoc; reflexivity). apply IH; assumption. }
  apply (G order [] init_state); constructor.
Qed.

(* what merge_classes can return *)
Lemma oset_add_in : forall k l x, In x (oset_add k l) <-> x = k \/ In x l.
Proof.
  intros k l x. unfold oset_add. destruct (existsb (Nat.eqb k) l) eqn:E.
  - split; [auto|]. intros [->|H]; [|exact H]. apply existsb_exists in E. destruct E as (y & Hy & Ey). apply Nat.eqb_eq in Ey. subst. exact Hy.
  - rewrite in_app_iff. cbn. intuition.
Qed.

Lemma merge_classes_from : forall l k, In k (merge_classes l) ->
    In k l \/ (k = 4 /\ In 3 l /\ In 5 l) \/ (k = 8 /\ In 7 l /\ In 9 l).
Proof.
  intros l k H. unfold merge_classes in H.
  set (l1 := if existsb (Nat.eqb 3) l && existsb (Nat.eqb 5) l then oset_add 4 (filter (fun x => negb ((x =? 3) || (x =? 5))) l) else l) in *.
  set (l2 := if existsb (Nat.eqb 7) l1 && existsb (Nat.eqb 9) l1 then oset_add 8 (filter (fun x => negb ((x =? 7) || (x =? 9))) l1) else l1) in *.
  assert (H2 : In k l2) by (destruct l2 as [|x [|y t]]; [exact H|exact H|destruct H as [<-|[]]; left; reflexivity]).
  assert (In1 : forall x, In x l1 -> In x l \/ (x = 4 /\ In 3 l /\ In 5 l)).
  { intros x Hx. unfold l1 in Hx. destruct (existsb (Nat.eqb 3) l && existsb (Nat.eqb 5) l) eqn:E; [|left; exact Hx].
    apply andb_true_iff in E. destruct E as [E3 E5]. apply existsb_exists in E3, E5. destruct E3 as (a & Ha & Ea). destruct E5 as (c & Hc & Ec).
    apply Nat.eqb_eq in Ea, Ec. subst a c. apply oset_add_in in Hx. destruct Hx as [->|Hx]; [right; auto|left; apply filter_In in Hx; apply Hx]. }
  unfold l2 in H2. destruct (existsb (Nat.eqb 7) l1 && existsb (Nat.eqb 9) l1) eqn:E.
  - apply andb_true_iff in E. destruct E as [E7 E9]. apply existsb_exists in E7, E9. destruct E7 as (a & Ha & Ea). destruct E9 as (c & Hc & Ec).
    apply Nat.eqb_eq in Ea, Ec. subst a c. apply oset_add_in in H2. destruct H2 as [->|Hx].
    + right. right. split; [reflexivity|]. destruct (In1 7 Ha) as [A|(A & _)]; [|discriminate]. destruct (In1 9 Hc) as [C|(C & _)]; [|discriminate]. auto.
    + apply filter_In in Hx. destruct Hx as [Hx _]. destruct (In1 k Hx) as [A|A]; [left; exact A|right; left; exact A].
  - destruct (In1 k H2) as [A|A]; [left; exact A|right; left; exact A].
Qed.

(* the classes grouped under a residue pair all come from raw triples of that pair *)
Lemma group_classes_from : forall l acc d a ks k, In (d, a, ks) (group_classes l acc) -> In k ks ->
    (exists ks', In (d, a, ks') acc /\ In k ks') \/ In (d, a, k) l.
Proof.
  induction l as [|[[d0 a0] k0] l IH]; intros acc d a ks k H Hk; cbn [group_classes] in H; [left; eauto|].
  destruct (IH _ d a ks k H Hk) as [(ks' & Hin & Hk')|Hl]; [|right; right; exact Hl].
  assert (G : forall m, In (d, a, ks') ((fix upd (m : list (nat * nat * list nat)) : list (nat * nat * list nat) :=
                 match m with
                 | [] => [(d0, a0, [k0])]
                 | (d'0, a'0, ks0) :: m' => if (d0 =? d'0) && (a0 =? a'0) then (d'0, a'0, oset_add k0 ks0) :: m' else (d'0, a'0, ks0) :: upd m'
                 end) m) -> ((d, a) = (d0, a0) /\ k = k0) \/ exists ks'', In (d, a, ks'') m /\ In k ks'').
  { induction m as [|[[d2 a2] ks2] m IHm]; cbn.
    - intros [E|[]]. injection E as <- <- <-. destruct Hk' as [<-|[]]. left. split; reflexivity.
    - destruct ((d0 =? d2) && (a0 =? a2)) eqn:E; cbn [In].
      + apply andb_true_iff in E. destruct E as [E1 E2]. apply Nat.eqb_eq in E1, E2. subst d2 a2.
        intros [E|Hin2]; [|right; exists ks'; split; [right; exact Hin2|exact Hk']].
        injection E as <- <- <-. apply oset_add_in in Hk'. destruct Hk' as [->|Hk']; [left; split; reflexivity|right; exists ks2; split; [left; reflexivity|exact Hk']].
      + intros [E2|Hin2]; [injection E2 as <- <- <-; right; exists ks2; split; [left; reflexivity|exact Hk']|].
        destruct (IHm Hin2) as [L|(ks'' & A & B)]; [left; exact L|right; exists ks''; split; [right; exact A|exact B]]. }
  destruct (G acc Hin) as [[E ->]|(ks'' & A & B)]; [injection E as -> ->; right; left; reflexivity|left; exists ks''; split; assumption].
Qed.

Theorem merged_contacts_from : forall rs l d a k, In (d, a, k) (merge_and_clean rs l) ->
    In (d, a, k) l \/ (k = 4 /\ In (d, a, 3) l /\ In (d, a, 5) l) \/ (k = 8 /\ In (d, a, 7) l /\ In (d, a, 9) l).
Proof.
  intros rs l d a k H. unfold merge_and_clean in H. apply in_flat_map in H. destruct H as ([[d' a'] ks] & Hg & Hin).
  apply in_map_iff in Hin. destruct Hin as (k' & E & Hk). cbn in E. injection E as -> -> ->.
  assert (From : forall x, In x ks -> In (d, a, x) l).
  { intros x Hx. destruct (group_classes_from _ [] d a ks x Hg Hx) as [(ks' & [] & _)|Hl]. apply (proj1 (stable_sort_in (triple_ltb rs) l (d, a, x))). exact Hl. }
  destruct (merge_classes_from ks k Hk) as [A|[(-> & A & B)|(-> & A & B)]]; [left; apply From; exact A|right; left|right; right]; auto.
Qed.

(* every reported contact *)
Theorem reported_contacts_backed : forall rs order d a k,
    (In (d, a, k) (po_bph (find_pairs rs order)) ->
       let B x := backed rs (candidates rs) order phosphate_acceptors (d, a, x) in B k \/ (k = 4 /\ B 3 /\ B 5) \/ (k = 8 /\ B 7 /\ B 9)) /\
    (In (d, a, k) (po_br (find_pairs rs order)) ->
       let B x := backed rs (candidates rs) order ribose_acceptors (d, a, x) in B k \/ (k = 4 /\ B 3 /\ B 5) \/ (k = 8 /\ B 7 /\ B 9)).
Proof.
  intros rs order d a k. destruct (scan_backed rs order) as [Hb Hr]. rewrite Forall_forall in Hb, Hr.
  unfold find_pairs. cbv zeta. destruct (length (candidates rs) <? 2); [split; intros []|]. cbn [po_bph po_br].
  fold (scan rs order). unfold scan, init_state in Hb, Hr. unfold scan, init_state.
  split; intros H; cbv zeta; destruct (merged_contacts_from _ _ d a k H) as [A|[(-> & A & B)|(-> & A & B)]]; auto 6.
Qed.

(* a backed contact drawn from the true neighbour set: donor and acceptor atom are within the hydrogen-bond distance *)
Lemma within2_sym : forall thr a b, within2 thr a b = within2 thr b a.
Proof.
  intros thr [[ax ay] az] [[bx by_] bz]. unfold within2. f_equal. f_equal.
  unfold dist2Z, dist2, norm2, vsub, dot, vx, vy, vz. cbn [fst snd]. ring.
Qed.

Theorem backed_within : forall rs order names t, (forall ij, In ij order -> In ij (hbond_neighbours rs)) ->
    backed rs (candidates rs) order names t ->
    exists donor acceptor, In donor (candidates rs) /\ In acceptor (candidates rs) /\
      c_acceptor donor = false /\ c_acceptor acceptor = true /\ fst t = (c_res donor, c_res acceptor) /\
      within2 hbond_max_distance (c_pos donor) (c_pos acceptor) = true.
Proof.
  intros rs order names t Sub (ij & ci & cj & dn & ac & rd & d & Hin & Ci & Cj & Hwho & Ad & Aa & _ & _ & _ & _ & Ft).
  specialize (Sub ij Hin). destruct ij as [a b]. unfold hbond_neighbours in Sub. apply neighbour_pairs_iff in Sub.
  destruct Sub as (_ & pa & pb & Ha & Hb & W). cbn [fst snd] in Ci, Cj.
  rewrite nth_error_map, Ci in Ha. rewrite nth_error_map, Cj in Hb. cbn in Ha, Hb. injection Ha as <-. injection Hb as <-.
  exists dn, ac. destruct Hwho as [[-> ->]|[-> ->]].
  - repeat split; try assumption; [eapply nth_error_In; exact Ci|eapply nth_error_In; exact Cj].
  - repeat split; try assumption; [eapply nth_error_In; exact Cj|eapply nth_error_In; exact Ci|rewrite within2_sym; exact W].
Qed.
