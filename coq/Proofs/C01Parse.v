(* C01, converse direction, part 1: what the stack decoder returns on any word it accepts — openers before closers,
   every position used at most once, closers in increasing order. *)
From Coq Require Import String Ascii ZArith List Bool Arith Lia Sorted.
From RV Require Import Base.Val Gen.Common Model.Bpseq Proofs.Stack.
Import ListNotations.

Definition flatpos (l : list (nat * nat)) : list nat := flat_map (fun p => [fst p; snd p]) l.

Record pinv (pos : nat) (st : nat -> list nat) (acc : list (nat * nat)) : Prop := {
  pi_stack_lt : forall t o, In o (st t) -> o < pos;
  pi_acc_lt : forall o c, In (o, c) acc -> o < c /\ c < pos;
  pi_stack_nodup : forall t, NoDup (st t);
  pi_stack_disj : forall t t' o, t <> t' -> In o (st t) -> ~ In o (st t');
  pi_acc_nodup : NoDup (flatpos acc);
  pi_stack_acc : forall t o, In o (st t) -> ~ In o (flatpos acc);
  pi_sorted : StronglySorted (fun p q => snd q < snd p) acc }.

Lemma flatpos_in : forall l x, In x (flatpos l) <-> exists p, In p l /\ (x = fst p \/ x = snd p).
Proof.
  intros l x. unfold flatpos. rewrite in_flat_map. split; intros (p & Hp & H); exists p; (split; [exact Hp|]); cbn in *; intuition.
Qed.

Lemma flatpos_lt : forall pos st acc, pinv pos st acc -> forall x, In x (flatpos acc) -> x < pos.
Proof. intros pos st acc I x H. apply flatpos_in in H. destruct H as ([o c] & Hp & [->| ->]); destruct (pi_acc_lt _ _ _ I o c Hp); cbn; lia. Qed.

Lemma upd_same : forall st t v, upd st t v t = v.
Proof. intros. unfold upd. rewrite Nat.eqb_refl. reflexivity. Qed.
Lemma upd_other : forall st t v u, u <> t -> upd st t v u = st u.
Proof. intros. unfold upd. destruct (Nat.eqb_spec u t); [contradiction|reflexivity]. Qed.

Lemma pinv_dot : forall pos st acc, pinv pos st acc -> pinv (Datatypes.S pos) st acc.
Proof.
  intros pos st acc [A B C D E F G]. constructor; try assumption.
  - intros t o H. specialize (A t o H). lia.
  - intros o c H. destruct (B o c H). lia.
Qed.

Lemma pinv_open : forall pos st acc t, pinv pos st acc -> pinv (Datatypes.S pos) (upd st t (pos :: st t)) acc.
Proof.
  intros pos st acc t I. pose proof I as [A B C D E F G]. constructor; try assumption.
  - intros u o H. destruct (Nat.eq_dec u t) as [->|Hne]; [rewrite upd_same in H; destruct H as [<-|H]; [lia|specialize (A t o H); lia]|rewrite upd_other in H by exact Hne; specialize (A u o H); lia].
  - intros o c H. destruct (B o c H). lia.
  - intros u. destruct (Nat.eq_dec u t) as [->|Hne]; [rewrite upd_same; constructor; [intros H; specialize (A t pos H); lia|apply C]|rewrite upd_other by exact Hne; apply C].
  - intros u u' o Hne H H'. destruct (Nat.eq_dec u t) as [->|N1]; destruct (Nat.eq_dec u' t) as [->|N2]; try contradiction.
    + rewrite upd_same in H. rewrite upd_other in H' by exact N2. destruct H as [<-|H]; [specialize (A u' pos H'); lia|apply (D t u' o Hne H H')].
    + rewrite upd_other in H by exact N1. rewrite upd_same in H'. destruct H' as [<-|H']; [specialize (A u pos H); lia|apply (D u t o Hne H H')].
    + rewrite upd_other in H by exact N1. rewrite upd_other in H' by exact N2. apply (D u u' o Hne H H').
  - intros u o H Hin. destruct (Nat.eq_dec u t) as [->|Hne]; [rewrite upd_same in H; destruct H as [<-|H]; [pose proof (flatpos_lt _ _ _ I _ Hin); lia|apply (F t o H Hin)]|rewrite upd_other in H by exact Hne; apply (F u o H Hin)].
Qed.

Lemma pinv_close : forall pos st acc t o r, pinv pos st acc -> st t = o :: r -> pinv (Datatypes.S pos) (upd st t r) ((o, pos) :: acc).
Proof.
  intros pos st acc t o r I E. pose proof I as [A B C D E' F G].
  assert (Ho : o < pos) by (apply (A t); rewrite E; left; reflexivity).
  assert (Nr : NoDup r /\ ~ In o r) by (specialize (C t); rewrite E in C; inversion C; subst; split; assumption).
  constructor.
  - intros u x H. destruct (Nat.eq_dec u t) as [->|Hne]; [rewrite upd_same in H; assert (x < pos) by (apply (A t); rewrite E; right; exact H); lia|rewrite upd_other in H by exact Hne; specialize (A u x H); lia].
  - intros x c [H|H]; [injection H as <- <-; lia|destruct (B x c H); lia].
  - intros u. destruct (Nat.eq_dec u t) as [->|Hne]; [rewrite upd_same; apply Nr|rewrite upd_other by exact Hne; apply C].
  - intros u u' x Hne H H'. destruct (Nat.eq_dec u t) as [->|N1]; destruct (Nat.eq_dec u' t) as [->|N2]; try contradiction.
    + rewrite upd_same in H. rewrite upd_other in H' by exact N2. apply (D t u' x Hne); [rewrite E; right; exact H|exact H'].
    + rewrite upd_other in H by exact N1. rewrite upd_same in H'. apply (D u t x Hne H). rewrite E. right. exact H'.
    + rewrite upd_other in H by exact N1. rewrite upd_other in H' by exact N2. apply (D u u' x Hne H H').
  - cbn [flatpos flat_map fst snd app]. fold (flatpos acc). constructor.
    + intros [H|H]; [lia|]. apply (F t o); [rewrite E; left; reflexivity|exact H].
    + constructor; [|exact E']. intros H. pose proof (flatpos_lt _ _ _ I _ H). lia.
  - intros u x H Hin. cbn [flatpos flat_map fst snd app] in Hin. fold (flatpos acc) in Hin.
    assert (Hx : In x (st u) /\ x <> o).
    { destruct (Nat.eq_dec u t) as [->|Hne].
      - rewrite upd_same in H. split; [rewrite E; right; exact H|intros ->; apply Nr; exact H].
      - rewrite upd_other in H by exact Hne. split; [exact H|]. intros ->. apply (D u t o Hne H). rewrite E. left. reflexivity. }
    destruct Hx as [Hx Hno]. destruct Hin as [H1|[H1|H1]]; [congruence|specialize (A u x Hx); lia|apply (F u x Hx H1)].
  - constructor; [exact G|]. apply Forall_forall. intros [o' c'] H. cbn [snd]. destruct (B o' c' H). lia.
Qed.

Theorem aparse_inv : forall w pos st acc ps st', pinv pos st acc -> aparse w pos st acc = Ok (ps, st') ->
    exists acc', ps = rev acc' /\ pinv (pos + length w) st' acc'.
Proof.
  induction w as [|c w IH]; intros pos st acc ps st' I H; cbn [aparse] in H.
  - injection H as <- <-. exists acc. split; [reflexivity|]. cbn [length]. rewrite Nat.add_0_r. exact I.
  - cbn [length]. replace (pos + Datatypes.S (length w)) with (Datatypes.S pos + length w) by lia. destruct c as [|t|t].
    + apply (IH _ _ _ _ _ (pinv_dot _ _ _ I) H).
    + apply (IH _ _ _ _ _ (pinv_open _ _ _ t I) H).
    + destruct (st t) as [|o r] eqn:E; [discriminate|]. apply (IH _ _ _ _ _ (pinv_close _ _ _ t o r I E) H).
Qed.

Definition wellformed_pairs (n : nat) (ps : list (nat * nat)) : Prop :=
  (forall o c, In (o, c) ps -> o < c /\ c < n) /\ NoDup (flatpos ps) /\ StronglySorted (fun p q => snd p < snd q) ps.

Lemma flatpos_rev_perm : forall l x, In x (flatpos (rev l)) <-> In x (flatpos l).
Proof. intros l x. rewrite !flatpos_in. split; intros (p & Hp & H); exists p; (split; [|exact H]); [apply in_rev; exact Hp|apply in_rev in Hp; exact Hp]. Qed.

Lemma sorted_rev : forall (l : list (nat * nat)), StronglySorted (fun p q => snd q < snd p) l -> StronglySorted (fun p q => snd p < snd q) (rev l).
Proof.
  induction l as [|x l IH]; intros H; [constructor|]. inversion H as [|? ? Hs Hall]; subst. cbn [rev].
  assert (G : forall (m : list (nat * nat)) y, StronglySorted (fun p q => snd p < snd q) m -> Forall (fun q => snd q < snd y) m -> StronglySorted (fun p q => snd p < snd q) (m ++ [y])).
  { clear. induction m as [|z m IHm]; intros y Hs Hall; [constructor; constructor|]. inversion Hs as [|? ? Hs' Hz]; subst. inversion Hall as [|? ? Hzy Hall']; subst.
    cbn [app]. constructor; [apply IHm; assumption|]. apply Forall_app. split; [exact Hz|constructor; [exact Hzy|constructor]]. }
  apply G; [apply IH; exact Hs|]. apply Forall_forall. intros q Hq. apply in_rev in Hq. rewrite Forall_forall in Hall. apply Hall. exact Hq.
Qed.

Lemma nodup_flatpos_rev : forall l, NoDup (flatpos l) -> NoDup (flatpos (rev l)).
Proof.
  induction l as [|[o c] l IH]; intros H; [constructor|]. cbn [rev]. cbn [flatpos flat_map fst snd app] in H. fold (flatpos l) in H.
  inversion H as [|? ? H1 H2]; subst. inversion H2 as [|? ? H3 H4]; subst.
  unfold flatpos. rewrite flat_map_app. fold (flatpos (rev l)). cbn [flat_map fst snd app].
  assert (G : forall (a b : list nat), NoDup a -> NoDup b -> (forall x, In x a -> ~ In x b) -> NoDup (a ++ b)).
  { clear. induction a as [|x a IHa]; intros b Na Nb D; [exact Nb|]. inversion Na; subst. cbn. constructor.
    - intros Hin. apply in_app_or in Hin. destruct Hin as [Hin|Hin]; [contradiction|]. apply (D x (or_introl eq_refl)). exact Hin.
    - apply IHa; try assumption. intros y Hy. apply D. right. exact Hy. }
  apply G; [apply IH; exact H4| |].
  - constructor; [intros [E|[]]; apply H1; left; exact E|constructor; [intros []|constructor]].
  - intros x Hx Hin. apply (proj1 (flatpos_rev_perm l x)) in Hx. destruct Hin as [E|[E|[]]]; subst x; [apply H1; right; exact Hx|apply H3; exact Hx].
Qed.

(* what every accepted dot-bracket decodes to *)
Theorem parse_db_wellformed : forall s ps, parse_db s = Ok ps -> wellformed_pairs (length s) ps.
Proof.
  intros s ps H. unfold parse_db in H. rewrite parse_aux_lex in H.
  destruct (aparse (map lex s) 0 (fun _ => []) []) as [[ps' st']|e] eqn:E; [|discriminate]. injection H as <-.
  assert (I0 : pinv 0 (fun _ => []) []).
  { constructor; [intros t o []|intros o c []|intros t; constructor|intros t t' o _ []|constructor|intros t o []|constructor]. }
  destruct (aparse_inv _ _ _ _ _ _ I0 E) as (acc & -> & [A B C D E' F G]). rewrite map_length in *. cbn [Nat.add] in *.
  split; [|split].
  - intros o c Hin. apply in_rev in Hin. apply B. exact Hin.
  - apply nodup_flatpos_rev. exact E'.
  - apply sorted_rev. exact G.
Qed.
