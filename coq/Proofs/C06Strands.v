(* C06: the strand sequences, concatenated, are exactly the letters of the BPSEQ numbering (with the same '?' placeholders). *)
From Coq Require Import String Ascii ZArith List Bool Arith Lia.
From RV Require Import Base.Val Base.PyStr Gen.Common Model.Bpseq Model.AllDb Model.Annot Model.Mapping.
Import ListNotations.

Definition letters (num : list (nat * str * option nat)) : str := concat (map (fun x => snd (fst x)) num).

Lemma letters_app : forall a b, letters (a ++ b) = letters a ++ letters b.
Proof. intros. unfold letters. rewrite map_app, concat_app. reflexivity. Qed.

Lemma letters_cons : forall x l, letters (x :: l) = snd (fst x) ++ letters l.
Proof. reflexivity. Qed.

Lemma placeholders_letters : forall i gap, letters (map (fun k => (i + k, ["?"%char], @None nat)) (seq 0 gap)) = repeat "?"%char gap.
Proof.
  intros i gap. unfold letters. rewrite map_map. cbn [fst snd]. generalize 0. induction gap as [|g IH]; intros s; [reflexivity|].
  cbn [seq map concat repeat app]. f_equal. apply IH.
Qed.

Definition gap_of (fg : bool) (p r : mres) : nat :=
  if fg && negb (m_connected_prev r) && str_eqb (m_chain p) (m_chain r) then Z.to_nat (m_number r - m_number p - 1) else 0.

Lemma number_go_cons_some : forall fg p i ri r l,
    number_go fg (Some p) i ((ri, r) :: l) =
    map (fun k => (i + k, ["?"%char], None)) (seq 0 (gap_of fg p r)) ++ (i + gap_of fg p r, m_letter r, Some ri) :: number_go fg (Some r) (i + gap_of fg p r + 1) l.
Proof. reflexivity. Qed.

Lemma strands_go_letters : forall fg l p c i,
    concat (map snd (strands_go fg (Some p) (Some c) l)) = snd c ++ letters (number_go fg (Some p) i l).
Proof.
  intros fg. induction l as [|[ri r] l IH]; intros p [ch sq] i.
  - cbn. rewrite !app_nil_r. reflexivity.
  - rewrite number_go_cons_some, letters_app, placeholders_letters, letters_cons. cbn [fst snd strands_go]. cbv zeta. unfold gap_of.
    destruct (str_eqb (m_chain p) (m_chain r)) eqn:E.
    + match goal with |- context [number_go fg (Some r) ?k l] => rewrite (IH r _ k) end.
      cbn [snd]. rewrite andb_true_r. rewrite <- !app_assoc. reflexivity.
    + cbn [map concat snd]. match goal with |- context [number_go fg (Some r) ?k l] => rewrite (IH r _ k) end.
      cbn [snd]. rewrite andb_false_r. cbn [repeat app]. reflexivity.
Qed.

Theorem strands_concat : forall fg rs, concat (map snd (strands fg rs)) = letters (numbering fg rs).
Proof.
  intros fg rs. unfold strands, numbering. destruct (nucleotides rs) as [|[ri r] l]; [reflexivity|].
  cbn [strands_go number_go]. rewrite (strands_go_letters fg l r (m_chain r, m_letter r) (1 + 0 + 1)). cbn [seq map app snd]. rewrite letters_cons. reflexivity.
Qed.

(* every strand belongs to one chain and strands follow the chain changes of the nucleotide list *)
Theorem strands_length_total : forall fg rs, length (concat (map snd (strands fg rs))) = length (letters (numbering fg rs)).
Proof. intros. rewrite strands_concat. reflexivity. Qed.

(* ---------------------------------------------------------------- the per-strand structure text *)
Lemma firstn_add : forall (A : Type) n m (l : list A), firstn (n + m) l = firstn n l ++ firstn m (skipn n l).
Proof. intros A. induction n as [|n IH]; intros m l; [reflexivity|]. destruct l as [|x l]; [cbn; rewrite firstn_nil; reflexivity|]. cbn. rewrite IH. reflexivity. Qed.

Lemma split_lengths_concat : forall (A : Type) lens (l : list A), concat (split_lengths l lens) = firstn (list_sum lens) l.
Proof.
  intros A. induction lens as [|n t IH]; intros l; [reflexivity|]. cbn [split_lengths concat]. rewrite IH.
  change (list_sum (n :: t)) with (n + list_sum t). symmetry. apply firstn_add.
Qed.

Lemma split_lengths_lengths : forall (A : Type) lens (l : list A), list_sum lens <= length l ->
    map (@length A) (split_lengths l lens) = lens.
Proof.
  intros A. induction lens as [|n t IH]; intros l H; [reflexivity|]. change (list_sum (n :: t)) with (n + list_sum t) in H. cbn [split_lengths map].
  rewrite firstn_length_le by lia. f_equal. apply IH. rewrite skipn_length. lia.
Qed.

Lemma list_sum_lengths : forall (l : list (list ascii)), list_sum (map (@length ascii) l) = length (concat l).
Proof. induction l as [|x l IH]; [reflexivity|]. cbn [map concat]. change (list_sum (length x :: map (@length ascii) l)) with (length x + list_sum (map (@length ascii) l)). rewrite app_length, IH. reflexivity. Qed.

Lemma texts_gen : forall (ss : list (str * str)) (ps : list str), length ps = length ss ->
    map (fun x : str * str * str => (fst (fst x), snd (fst x))) (map (fun x : (str * str) * str => (fst (fst x), snd (fst x), snd x)) (combine ss ps)) = ss /\
    map snd (map (fun x : (str * str) * str => (fst (fst x), snd (fst x), snd x)) (combine ss ps)) = ps.
Proof.
  induction ss as [|s ss IH]; intros [|p ps] H; try discriminate; [split; reflexivity|].
  cbn in H. destruct (IH ps) as [A B]; [lia|]. cbn [combine map fst snd]. split; [f_equal; [destruct s; reflexivity|exact A]|f_equal; exact B].
Qed.

(* for every dot-bracket string db as long as the numbering (what C01 proves of every encoder): the strand texts carry the
   strands' names and sequences, their structure pieces are as long as the sequences and concatenate to db *)
Theorem strand_texts_spec : forall fg rs db, length db = length (letters (numbering fg rs)) ->
    map (fun x => (fst (fst x), snd (fst x))) (strand_texts fg rs db) = strands fg rs /\
    concat (map snd (strand_texts fg rs db)) = db /\
    Forall (fun x => length (snd x) = length (snd (fst x))) (strand_texts fg rs db).
Proof.
  intros fg rs db Hlen. unfold strand_texts. set (ss := strands fg rs). set (lens := map (fun s => length (snd s)) ss).
  assert (Hsum : list_sum lens = length db).
  { unfold lens. rewrite <- (map_map snd (@length ascii)), list_sum_lengths. unfold ss. rewrite strands_concat. symmetry. exact Hlen. }
  assert (Hl : map (@length ascii) (split_lengths db lens) = lens) by (apply split_lengths_lengths; lia).
  assert (Hn : length (split_lengths db lens) = length ss).
  { rewrite <- (map_length (@length ascii)), Hl. unfold lens. apply map_length. }
  destruct (texts_gen ss (split_lengths db lens) Hn) as [T1 T2].
  split; [exact T1|]. split.
  - etransitivity; [apply (f_equal (@concat ascii)); exact T2|]. rewrite split_lengths_concat, Hsum. apply firstn_all.
  - apply Forall_forall. intros x Hx. apply in_map_iff in Hx. destruct Hx as ([s p] & <- & Hin). cbn [fst snd].
    assert (G : forall (sl : list (str * str)) ps, map (@length ascii) ps = map (fun s => length (snd s)) sl ->
                forall s p, In (s, p) (combine sl ps) -> length p = length (snd s)).
    { clear. induction sl as [|s0 sl IH]; intros [|p0 ps] H s p Hin; try discriminate; [destruct Hin|].
      cbn in H. injection H as H0 H1. destruct Hin as [E|Hin]; [injection E as <- <-; exact H0|]. apply (IH ps H1 s p Hin). }
    apply (G ss (split_lengths db lens) Hl s p Hin).
Qed.
