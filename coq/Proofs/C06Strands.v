(* C06: the strand sequences, concatenated, are exactly the letters of the BPSEQ numbering (with the same '?' placeholders). *)
From Coq Require Import String Ascii ZArith List Bool Arith Lia.
From RV Require Import Base.Val Base.PyStr Gen.Common Model.Bpseq Model.AllDb Model.Annot Model.Mapping.
Import ListNotations.

Definition letters (num : list (nat * str * option nat)) : str := concat (map (fun x => snd (fst x)) num).

Lemma letters_app : forall a b, letters (a ++ b) = letters a ++ letters b.
Proof. intros. unfold letters. rewrite map_app, concat_app. reflexivity. Qed.

Lemma letters_cons : forall x l, letters (x :: l) = snd (fst x) ++ letters l.
Proof. reflexivity. Qed.

Lemma placeholders_letters : forall i gap, letters (map (fun k => (i + k, ["?"%char], @None nat)) (seq 0 gap)) = repeat "?"%char gap.
Proof.
  intros i gap. unfold letters. rewrite map_map. cbn [fst snd]. generalize 0. induction gap as [|g IH]; intros s; [reflexivity|].
  cbn [seq map concat repeat app]. f_equal. apply IH.
Qed.

Definition gap_of (fg : bool) (p r : mres) : nat :=
  if fg && negb (m_connected_prev r) && str_eqb (m_chain p) (m_chain r) then Z.to_nat (m_number r - m_number p - 1) else 0.

Lemma number_go_cons_some : forall fg p i ri r l,
    number_go fg (Some p) i ((ri, r) :: l) =
    map (fun k => (i + k, ["?"%char], None)) (seq 0 (gap_of fg p r)) ++ (i + gap_of fg p r, m_letter r, Some ri) :: number_go fg (Some r) (i + gap_of fg p r + 1) l.
Proof. reflexivity. Qed.

Lemma strands_go_letters : forall fg l p c i,
    concat (map snd (strands_go fg (Some p) (Some c) l)) = snd c ++ letters (number_go fg (Some p) i l).
Proof.
  intros fg. induction l as [|[ri r] l IH]; intros p [ch sq] i.
  - cbn. rewrite !app_nil_r. reflexivity.
  - rewrite number_go_cons_some, letters_app, placeholders_letters, letters_cons. cbn [fst snd strands_go]. cbv zeta. unfold gap_of.
    destruct (str_eqb (m_chain p) (m_chain r)) eqn:E.
    + match goal with |- context [number_go fg (Some r) ?k l] => rewrite (IH r _ k) end.
      cbn [snd]. rewrite andb_true_r. rewrite <- !app_assoc. reflexivity.
    + cbn [map concat snd]. match goal with |- context [number_go fg (Some r) ?k l] => rewrite (IH r _ k) end.
      cbn [snd]. rewrite andb_false_r. cbn [repeat app]. reflexivity.
Qed.

Theorem strands_concat : forall fg rs, concat (map snd (strands fg rs)) = letters (numbering fg rs).
Proof.
  intros fg rs. unfold strands, numbering. destruct (nucleotides rs) as [|[ri r] l]; [reflexivity|].
  cbn [strands_go number_go]. rewrite (strands_go_letters fg l r (m_chain r, m_letter r) (1 + 0 + 1)). cbn [seq map app snd]. rewrite letters_cons. reflexivity.
Qed.

(* every strand belongs to one chain and strands follow the chain changes of the nucleotide list *)
Theorem strands_length_total : forall fg rs, length (concat (map snd (strands fg rs))) = length (letters (numbering fg rs)).
Proof. intros. rewrite strands_concat. reflexivity. Qed.
