(* The rational cos^2 enclosures the translator generates really enclose cos^2 of the three angle thresholds, and are
   at most 2e-6 degree wide on either side: a `Near` decision means "within 2e-6 degree of the threshold".
   Uses the real numbers of the standard library (their axioms are listed under each theorem in Props). *)
From Coq Require Import Reals QArith Qreals Lra.
From Interval Require Import Tactic.
From RV Require Import Gen.Annot.
Local Open Scope R_scope.

Definition deg (x : R) : R := x * PI / 180.
Definition eps : R := 2 / 1000000.

Lemma window_band :
  cos (deg (Q2R hbond_angle_lo + eps)) ^ 2 < Q2R cos2_window_lo /\
  Q2R cos2_window_lo < cos (deg (Q2R hbond_angle_lo)) ^ 2 /\
  cos (deg (Q2R hbond_angle_lo)) ^ 2 < Q2R cos2_window_hi /\
  Q2R cos2_window_hi < cos (deg (Q2R hbond_angle_lo - eps)) ^ 2.
Proof. unfold deg, eps, Q2R; cbn. repeat split; interval with (i_prec 80). Qed.

(* the window is symmetric about 90 degrees, so one band serves both ends *)
Lemma window_symmetric : (Q2R hbond_angle_lo + Q2R hbond_angle_hi = 180)%R.
Proof. unfold Q2R; cbn. lra. Qed.

Lemma normals_band :
  cos (deg (Q2R stacking_normals_angle + eps)) ^ 2 < Q2R cos2_normals_lo /\
  Q2R cos2_normals_lo < cos (deg (Q2R stacking_normals_angle)) ^ 2 /\
  cos (deg (Q2R stacking_normals_angle)) ^ 2 < Q2R cos2_normals_hi /\
  Q2R cos2_normals_hi < cos (deg (Q2R stacking_normals_angle - eps)) ^ 2.
Proof. unfold deg, eps, Q2R; cbn. repeat split; interval with (i_prec 80). Qed.

Lemma vector_band :
  cos (deg (Q2R stacking_vector_angle + eps)) ^ 2 < Q2R cos2_vector_lo /\
  Q2R cos2_vector_lo < cos (deg (Q2R stacking_vector_angle)) ^ 2 /\
  cos (deg (Q2R stacking_vector_angle)) ^ 2 < Q2R cos2_vector_hi /\
  Q2R cos2_vector_hi < cos (deg (Q2R stacking_vector_angle - eps)) ^ 2.
Proof. unfold deg, eps, Q2R; cbn. repeat split; interval with (i_prec 80). Qed.
