(* C12, first sentence, first half: removing pseudoknots returns exactly the pairs that the structure's own dot-bracket writes
   with round brackets.  `parse_t` is the decoder of Model.Bpseq with the bracket type kept beside every pair (specification
   side only); erasing its types gives the decoder (`parse_untyped`), and decoding the string in which every character of
   pk_chars has been replaced by a dot gives exactly its pairs of type 0 (`parse_erased`). *)
From Coq Require Import String Ascii ZArith List Bool Arith Lia.
From RV Require Import Base.Val Gen.Common Model.Bpseq Model.AllDb Model.Elements.
Import ListNotations.

Definition tpair := (nat * (nat * nat))%type.
Definition round (x : tpair) : bool := fst x =? 0.

Fixpoint parse_t (s : list ascii) (pos : nat) (st : nat -> list nat) (acc : list tpair)
  : result (list tpair * (nat -> list nat)) :=
  match s with
  | [] => Ok (rev acc, st)
  | c :: s' =>
      match index_of c opening with
      | Some t => parse_t s' (S pos) (upd st t (pos :: st t)) acc
      | None =>
          match index_of c closing with
          | Some t =>
              match st t with
              | [] => Raise IndexError
              | o :: r => parse_t s' (S pos) (upd st t r) ((t, (o, pos)) :: acc)
              end
          | None => parse_t s' (S pos) st acc
          end
      end
  end.

Definition typed_pairs (s : list ascii) : result (list tpair) :=
  match parse_t s 0 (fun _ => []) [] with
  | Ok (ps, _) => Ok ps
  | Raise e => Raise e
  end.

Lemma parse_untyped : forall s pos st acc,
    parse_aux s pos st (map snd acc) =
    match parse_t s pos st acc with Ok (ps, st') => Ok (map snd ps, st') | Raise e => Raise e end.
Proof.
  induction s as [|c s IH]; intros pos st acc; cbn [parse_aux parse_t].
  - rewrite map_rev. reflexivity.
  - destruct (index_of c opening) as [t|]; [apply IH|].
    destruct (index_of c closing) as [t|]; [|apply IH].
    destruct (st t) as [|o r]; [reflexivity|]. exact (IH (S pos) (upd st t r) ((t, (o, pos)) :: acc)).
Qed.

(* the two alphabets: a character of pk_chars is never a bracket of type 0, any other character is a bracket of type 0 or none *)
Definition small (o : option nat) : bool := match o with None | Some 0 => true | Some (S _) => false end.
Definition not0 (o : option nat) : bool := match o with Some 0 => false | _ => true end.
Definition is_pk (c : ascii) : bool := existsb (Ascii.eqb c) pk_chars.
Definition char_ok (c : ascii) : bool :=
  if is_pk c then not0 (index_of c opening) && not0 (index_of c closing)
  else small (index_of c opening) && small (index_of c closing).

Lemma all_chars_ok : forall c, char_ok c = true.
Proof. intros [[] [] [] [] [] [] [] []]; vm_compute; reflexivity. Qed.

Lemma dot_plain : index_of dot opening = None /\ index_of dot closing = None.
Proof. split; vm_compute; reflexivity. Qed.

Example type0_is_round : nth_error opening 0 = Some "("%char /\ nth_error closing 0 = Some ")"%char /\ is_pk "("%char = false /\ is_pk ")"%char = false.
Proof. vm_compute. repeat split; reflexivity. Qed.

Lemma upd_at : forall st t v, upd st t v t = v.
Proof. intros. unfold upd. rewrite Nat.eqb_refl. reflexivity. Qed.
Lemma upd_away : forall st t v u, u <> t -> upd st t v u = st u.
Proof. intros st t v u H. unfold upd. destruct (Nat.eqb_spec u t); [contradiction|reflexivity]. Qed.

Lemma erase_cons : forall c s, erase_pk (c :: s) = (if is_pk c then dot else c) :: erase_pk s.
Proof. reflexivity. Qed.

Lemma parse_erased : forall s pos st ste acc ps st',
    ste 0 = st 0 -> parse_t s pos st acc = Ok (ps, st') ->
    exists ste', parse_aux (erase_pk s) pos ste (map snd (filter round acc)) = Ok (map snd (filter round ps), ste') /\ ste' 0 = st' 0.
Proof.
  induction s as [|c s IH]; intros pos st ste acc ps st' E H.
  - cbn [parse_t] in H. injection H as <- <-. exists ste. split; [|exact E].
    cbn [erase_pk map parse_aux]. rewrite <- map_rev. f_equal. f_equal. f_equal.
    (* filter commutes with rev *)
    induction acc as [|a acc IHa]; [reflexivity|]. cbn [rev filter]. rewrite filter_app, <- IHa. cbn [filter].
    destruct (round a); cbn [rev]; [reflexivity|rewrite app_nil_r; reflexivity].
  - rewrite erase_cons. cbn [parse_t] in H. pose proof (all_chars_ok c) as K. unfold char_ok in K.
    destruct dot_plain as [D1 D2].
    destruct (is_pk c) eqn:P.
    + (* erased to a dot: the decoder skips it *)
      cbn [parse_aux]. rewrite D1, D2. apply andb_true_iff in K. destruct K as [K1 K2].
      destruct (index_of c opening) as [t|].
      * assert (t <> 0) by (destruct t; [discriminate|lia]).
        apply (IH _ _ _ _ _ _ (eq_trans E (eq_sym (upd_away st t _ 0 (fun e => H0 (eq_sym e))))) H).
      * destruct (index_of c closing) as [t|]; [|exact (IH _ _ _ _ _ _ E H)].
        assert (t <> 0) by (destruct t; [discriminate|lia]).
        destruct (st t) as [|o r] eqn:Hst; [discriminate|].
        specialize (IH (S pos) (upd st t r) ste ((t, (o, pos)) :: acc) ps st').
        cbn [filter] in IH. replace (round (t, (o, pos))) with false in IH by (unfold round; cbn [fst]; destruct t; [lia|reflexivity]).
        apply IH; [|exact H]. rewrite upd_away by (intro e; apply H0; symmetry; exact e). exact E.
    + (* kept: a bracket of type 0 or no bracket *)
      cbn [parse_aux]. apply andb_true_iff in K. destruct K as [K1 K2].
      destruct (index_of c opening) as [t|].
      * assert (t = 0) by (destruct t; [reflexivity|discriminate]). subst t.
        apply (IH _ _ _ _ _ _ (eq_trans (upd_at ste 0 _) (eq_trans (f_equal (cons pos) E) (eq_sym (upd_at st 0 _)))) H).
      * destruct (index_of c closing) as [t|]; [|exact (IH _ _ _ _ _ _ E H)].
        assert (t = 0) by (destruct t; [reflexivity|discriminate]). subst t.
        destruct (st 0) as [|o r] eqn:Hst; [discriminate|]. rewrite E.
        specialize (IH (S pos) (upd st 0 r) (upd ste 0 r) ((0, (o, pos)) :: acc) ps st').
        cbn [filter round fst Nat.eqb map snd] in IH. apply IH; [|exact H].
        rewrite !upd_at. reflexivity.
Qed.

(* the pairs of a dot-bracket are those of its typed reading; removing pseudoknots rebuilds the structure from exactly the pairs of
   type 0, i.e. those written "(" ")" *)
Theorem without_pk_spec : forall b db ps, typed_pairs db = Ok ps ->
    parse_db db = Ok (map snd ps) /\
    without_pseudoknots_of b db = Ok (from_db (sequence b) (map snd (filter round ps))).
Proof.
  intros b db ps H. unfold typed_pairs in H.
  destruct (parse_t db 0 (fun _ => []) []) as [[ps0 st0]|e] eqn:T; [|discriminate]. injection H as ->.
  split.
  - unfold parse_db. change (@nil (nat * nat)) with (map snd (@nil tpair)). rewrite parse_untyped, T. reflexivity.
  - unfold without_pseudoknots_of, parse_db.
    destruct (parse_erased db 0 (fun _ => []) (fun _ => []) [] ps st0 eq_refl T) as (ste' & R & _).
    cbn [filter map] in R. rewrite R. reflexivity.
Qed.

(* a dot-bracket that decodes at all has a typed reading (so the hypothesis above costs nothing) *)
Theorem typed_reading_exists : forall db ps0, parse_db db = Ok ps0 -> exists ps, typed_pairs db = Ok ps /\ map snd ps = ps0.
Proof.
  intros db ps0 H. unfold parse_db in H. change (@nil (nat * nat)) with (map snd (@nil tpair)) in H.
  rewrite parse_untyped in H. unfold typed_pairs.
  destruct (parse_t db 0 (fun _ => []) []) as [[ps st]|e]; [|discriminate].
  exists ps. split; [reflexivity|]. congruence.
Qed.

Example without_pk_nonvacuous :
  let db := L "((.[[.)).]]" in
  typed_pairs db = Ok [(0, (1, 6)); (0, (0, 7)); (1, (4, 9)); (1, (3, 10))] /\
  parse_db (erase_pk db) = Ok [(1, 6); (0, 7)].
Proof. vm_compute. split; reflexivity. Qed.

(* what the derived object is: same sequence, a valid structure, and its pairs (listed by closing position) are exactly the
   round-bracket pairs of the dot-bracket it was derived from *)
From RV Require Import Proofs.C01Parse Proofs.C01FromDb.

Lemma mk_from_nt : forall sq s f, map nt (mk_from s f sq) = sq.
Proof.
  induction sq as [|c sq IH]; intros s f; [reflexivity|].
  rewrite mk_from_cons. cbn [map nt]. rewrite IH. reflexivity.
Qed.

Lemma erase_length : forall s, length (erase_pk s) = length s.
Proof. intros s. unfold erase_pk. apply map_length. Qed.

Lemma erased_pairs : forall db ps, typed_pairs db = Ok ps -> parse_db (erase_pk db) = Ok (map snd (filter round ps)).
Proof.
  intros db ps T. unfold typed_pairs in T.
  destruct (parse_t db 0 (fun _ => []) []) as [[ps0 st0]|e] eqn:T0; [|discriminate]. injection T as ->.
  destruct (parse_erased db 0 (fun _ => []) (fun _ => []) [] ps st0 eq_refl T0) as (ste' & R & _).
  cbn [filter map] in R. unfold parse_db. rewrite R. reflexivity.
Qed.

Theorem without_pk_result : forall b db ps b', typed_pairs db = Ok ps -> length b = length db ->
    without_pseudoknots_of b db = Ok b' ->
    sequence b' = sequence b /\ valid b' = true /\ pairs0 b' = map snd (filter round ps).
Proof.
  intros b db ps b' T Hl W. destruct (without_pk_spec b db ps T) as [_ W']. rewrite W' in W. injection W as <-.
  pose proof (parse_db_wellformed _ _ (erased_pairs db ps T)) as WF. rewrite erase_length in WF.
  assert (Hs : length (sequence b) = length db) by (unfold sequence; rewrite map_length; exact Hl).
  rewrite <- Hs in WF.
  split; [|split].
  - rewrite from_db_mk. unfold sequence at 1. apply mk_from_nt.
  - apply from_db_valid. exact WF.
  - apply from_db_pairs. exact WF.
Qed.
