(* C10: the serial numbers of a fitted table stay within the limit whenever every chain is one contiguous block
   (number of chain changes < number of chains); otherwise the bound the source budgets for is not enough. *)
From Coq Require Import String Ascii ZArith List Bool Arith Lia.
From RV Require Import Base.Val Base.PyStr Gen.ParserV2 Model.Fit Proofs.C20Main Proofs.C10Main Proofs.C10More.
Import ListNotations.

Fixpoint chain_changes (l : list str) : nat :=
  match l with
  | a :: ((b :: _) as t) => (if str_eqb a b then 0 else 1) + chain_changes t
  | _ => 0
  end.

Lemma renumber_bound : forall l cur last r, In r (renumber cur last l) ->
    (f_serial r <= cur + Z.of_nat (length l) + Z.of_nat (chain_changes (map f_chain l))
                  + match last, l with Some c, x :: _ => if str_eqb c (f_chain x) then 0 else 1 | _, _ => 0 end)%Z.
Proof.
  induction l as [|x l IH]; intros cur last r H; [destruct H|]. cbn [renumber] in H. cbv zeta in H.
  destruct H as [<-|H].
  - cbn [f_serial length map]. destruct last as [c|]; [destruct (str_eqb c (f_chain x))|]; destruct l as [|y l']; cbn [map chain_changes]; try lia;
      destruct (str_eqb (f_chain x) (f_chain y)); lia.
  - specialize (IH _ _ _ H). cbn [length map]. destruct l as [|y l']; [destruct H|]. cbn [map chain_changes] in *.
    destruct last as [c|]; [destruct (str_eqb c (f_chain x))|]; destruct (str_eqb (f_chain x) (f_chain y)); lia.
Qed.

Lemma chain_changes_map : forall (g : str -> str) l, (forall a b, In a l -> In b l -> str_eqb (g a) (g b) = str_eqb a b) ->
    chain_changes (map g l) = chain_changes l.
Proof.
  intros g. induction l as [|a l IH]; intros H; [reflexivity|]. destruct l as [|b l']; [reflexivity|].
  change (chain_changes (map g (a :: b :: l'))) with ((if str_eqb (g a) (g b) then 0 else 1) + chain_changes (map g (b :: l'))).
  change (chain_changes (a :: b :: l')) with ((if str_eqb a b then 0 else 1) + chain_changes (b :: l')).
  rewrite H by (cbn; auto). rewrite IH; [reflexivity|]. intros x y Hx Hy. apply H; right; assumption.
Qed.

Theorem fitted_serial_bound : forall is_pdb t t' r, fit is_pdb t = Fitted t' ->
    chain_changes (map f_chain t) < length (unique_chains t) -> In r t' -> (f_serial r <= max_pdb_serial)%Z.
Proof.
  intros is_pdb t t' r H Hc Hin. unfold fit in H. destruct (fits is_pdb t); [discriminate|].
  destruct (max_pdb_serial <? Z.of_nat (length t) + Z.of_nat (length (unique_chains t)))%Z eqn:E1; [discriminate|].
  destruct (length chain_alphabet <? length (unique_chains t)) eqn:E2; [discriminate|]. destruct (existsb _ _); [discriminate|]. injection H as <-. cbv zeta in Hin.
  apply Z.ltb_ge in E1. apply Nat.ltb_ge in E2.
  apply renumber_bound in Hin. rewrite map_length, map_map in Hin. cbn [f_chain] in Hin.
  rewrite <- (map_map f_chain (new_chain (unique_chains t))) in Hin. rewrite chain_changes_map in Hin.
  - lia.
  - intros a b Ha Hb. destruct (str_eqb a b) eqn:E.
    + apply str_eqb_eq in E. subst. apply str_eqb_refl.
    + destruct (str_eqb (new_chain (unique_chains t) a) (new_chain (unique_chains t) b)) eqn:E'; [|reflexivity].
      apply str_eqb_eq in E'. apply (chain_renaming_injective t a b E2 Ha Hb) in E'. subst. rewrite str_eqb_refl in E. discriminate.
Qed.

(* the budget is really needed: with interleaved chains the serial exceeds length + number of chains *)
Example interleaved_chains_exceed_budget :
  let mk (s : Z) (c : string) := {| f_serial := s; f_chain := L c; f_resseq := 1; f_icode := []; f_id := 0 |} in
  let t := [mk 1%Z "AA"%string; mk 2%Z "BB"%string; mk 3%Z "AA"%string; mk 4%Z "BB"%string] in
  match fit false t with
  | Fitted t' => map f_serial t' = [1; 3; 5; 7]%Z /\ (Z.of_nat (length t) + Z.of_nat (length (unique_chains t)) = 6)%Z
  | _ => False
  end.
Proof. vm_compute. split; reflexivity. Qed.
