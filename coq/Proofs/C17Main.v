(* C17: the clash list is exactly the pairwise van-der-Waals definition, each pair once; the neighbour-search radius never
   hides a pair. *)
From Coq Require Import String Ascii ZArith QArith Qabs List Bool Arith Lia Lqa.
From RV Require Import Base.Val Base.PyStr Gen.Clash Model.Geom Model.Clash Proofs.ListAux.
Import ListNotations.
Local Close Scope Q_scope.

(* ---------------------------------------------------------------- the search radius is large enough *)
Lemma within_mono : forall (t1 t2 : Q) a b, (0 <= t1)%Q -> (t1 <= t2)%Q -> within t1 a b = true -> within t2 a b = true.
Proof.
  intros t1 t2 a b H0 H12 H. unfold within in *. apply Qle_bool_iff in H. apply Qle_bool_iff.
  eapply Qle_trans; [exact H|].
  assert (G : (0 <= inject_Z GRID)%Q) by (vm_compute; discriminate).
  set (g := inject_Z GRID) in *.
  assert (A : (0 <= t1 * g)%Q) by nra.
  assert (B : (t1 * g <= t2 * g)%Q) by nra.
  set (x := (t1 * g)%Q) in *. set (y := (t2 * g)%Q) in *.
  assert (C : (0 <= (y - x) * (y + x))%Q) by (apply Qmult_le_0_compat; lra).
  lra.
Qed.

(* pin: for every two atom types and both modes, sum of radii + margin <= search radius *)
Lemma radius_table : forall sa ra sb rb (mp : bool), In (sa, ra) radii -> In (sb, rb) radii ->
    (0 <= ra + rb + (if mp then molprobity_margin else 0))%Q /\
    (ra + rb + (if mp then molprobity_margin else 0) <= query_radius_factor * max_radius + (if mp then molprobity_margin else 0))%Q.
Proof.
  assert (H : forallb (fun a => forallb (fun b => forallb (fun mp : bool =>
                Qle_bool 0 (snd a + snd b + (if mp then molprobity_margin else 0)) &&
                Qle_bool (snd a + snd b + (if mp then molprobity_margin else 0)) (query_radius_factor * max_radius + (if mp then molprobity_margin else 0)))
              [true; false]) radii) radii = true) by (vm_compute; reflexivity).
  intros sa ra sb rb mp Ha Hb. rewrite forallb_forall in H. specialize (H _ Ha). rewrite forallb_forall in H. specialize (H _ Hb).
  rewrite forallb_forall in H. specialize (H mp). assert (Hin : In mp [true; false]) by (destruct mp; cbn; auto).
  specialize (H Hin). apply andb_true_iff in H. destruct H as [H1 H2]. cbn [snd] in *. apply Qle_bool_iff in H1, H2. split; assumption.
Qed.

Lemma radius_of_char_in : forall c r, radius_of_char c = Some r -> exists s, In (s, r) radii.
Proof.
  intros c r H. unfold radius_of_char in H. destruct (find _ radii) as [[s q]|] eqn:E; [|discriminate].
  injection H as <-. exists s. apply find_some in E. apply E.
Qed.

(* ---------------------------------------------------------------- one candidate pair *)
(* the pairwise definition, for two atoms whose first characters are atom types *)
Definition clash_def (o : opts) (ra rb : Q) (a b : catom) : bool :=
  negb (o_ignore_auto o && (a_res a =? a_res b)) &&
  negb (o_same_name o && negb (str_eqb (a_name a) (a_name b))) &&
  within (ra + rb + margin o) a b &&
  (o_ignore_occ o || Qeq_bool (occ_sum a b) 1).

Theorem clash_is_definition : forall o a b ca ta cb tb ra rb,
    a_name a = ca :: ta -> a_name b = cb :: tb -> radius_of_char ca = Some ra -> radius_of_char cb = Some rb ->
    clash o a b = Ok (clash_def o ra rb a b).
Proof.
  intros o a b ca ta cb tb ra rb Na Nb Ra Rb. unfold clash, clash_def.
  destruct (radius_of_char_in _ _ Ra) as [sa Ha]. destruct (radius_of_char_in _ _ Rb) as [sb Hb].
  destruct (radius_table sa ra sb rb (o_molprobity o) Ha Hb) as [P0 P1].
  assert (Hm : margin o = (if o_molprobity o then molprobity_margin else 0%Q)) by reflexivity.
  assert (Hq : query_radius o = (query_radius_factor * max_radius + (if o_molprobity o then molprobity_margin else 0))%Q) by (unfold query_radius; rewrite Hm; reflexivity).
  destruct (within (query_radius o) a b) eqn:Wq; cbn [negb].
  - destruct (o_ignore_auto o && (a_res a =? a_res b)); cbn [negb andb]; [reflexivity|].
    destruct (o_same_name o && negb (str_eqb (a_name a) (a_name b))); cbn [negb andb]; [reflexivity|].
    rewrite Na, Nb, Ra, Rb. destruct (within (ra + rb + margin o) a b); reflexivity.
  - assert (Wf : within (ra + rb + margin o) a b = false).
    { destruct (within (ra + rb + margin o) a b) eqn:W; [|reflexivity].
      rewrite Hm in W. rewrite Hq in Wq. rewrite (within_mono _ _ a b P0 P1 W) in Wq. discriminate. }
    rewrite Wf. rewrite !andb_false_r. cbn [andb]. reflexivity.
Qed.

(* ---------------------------------------------------------------- the enumeration: every pair i < j once *)
Definition pair_ok (o : opts) (a b : catom) : bool := match candidate o a b with Ok true => true | _ => false end.

Lemma row_spec : forall o a i rest j0 l, clash_row o a i j0 rest = Ok l ->
    l = map (fun jb => (i, fst jb)) (filter (fun jb => pair_ok o a (snd jb)) (combine (seq j0 (length rest)) rest)).
Proof.
  intros o a i. induction rest as [|b rest IH]; intros j0 l H.
  - injection H as <-. reflexivity.
  - cbn [clash_row length seq combine filter] in *. unfold pair_ok at 1. cbn [snd].
    destruct (candidate o a b) as [[|]|e] eqn:E; [| |discriminate];
      destruct (clash_row o a i (S j0) rest) as [t|e] eqn:G; try discriminate; injection H as <-.
    + cbn [map fst]. f_equal. apply IH. exact G.
    + apply IH. exact G.
Qed.

(* membership: (i, j) is listed iff i < j index two atoms of the list that form a clash candidate answering true *)
Theorem listed_iff : forall o l s res, clashes_from o s l = Ok res ->
    forall i j, In (i, j) res <->
      exists a b, s <= i /\ i < j /\ nth_error l (i - s) = Some a /\ nth_error l (j - s) = Some b /\ pair_ok o a b = true.
Proof.
  intros o. induction l as [|a rest IH]; intros s res H i j.
  - injection H as <-. split; [intros []|]. intros (x & y & _ & _ & Hx & _). destruct (i - s); discriminate.
  - cbn [clashes_from] in H.
    destruct (clash_row o a s (S s) rest) as [r1|e] eqn:E1; [|discriminate].
    destruct (clashes_from o (S s) rest) as [r2|e] eqn:E2; [|discriminate]. injection H as <-.
    pose proof (row_spec o a s rest (S s) r1 E1) as Hr1. specialize (IH (S s) r2 E2 i j).
    rewrite in_app_iff, IH, Hr1, in_map_iff. clear IH Hr1. split.
    + intros [([j' b] & Heq & Hf)|(x & y & A & B & C & D & P)].
      * cbn [fst] in Heq. injection Heq as <- <-. apply filter_In in Hf. destruct Hf as [Hc Hp]. cbn [snd] in Hp.
        apply in_combine_seq in Hc. destruct Hc as [Hj Hn].
        exists a, b. repeat split; try lia; [rewrite Nat.sub_diag; reflexivity| |exact Hp].
        replace (j' - s) with (S (j' - S s)) by lia. exact Hn.
      * exists x, y. repeat split; try lia; [replace (i - s) with (S (i - S s)) by lia; exact C|replace (j - s) with (S (j - S s)) by lia; exact D|exact P].
    + intros (x & y & A & B & C & D & P).
      destruct (Nat.eq_dec i s) as [->|Hne].
      * left. rewrite Nat.sub_diag in C. cbn in C. injection C as <-.
        exists (j, y). split; [reflexivity|]. apply filter_In. split; [|exact P].
        apply in_combine_seq. split; [lia|]. replace (j - s) with (S (j - S s)) in D by lia. exact D.
      * right. exists x, y. repeat split; try lia;
          [replace (i - s) with (S (i - S s)) in C by lia; exact C|replace (j - s) with (S (j - S s)) in D by lia; exact D|exact P].
Qed.

(* each pair is listed once *)
Lemma row_nodup : forall o a i rest j0 l, clash_row o a i j0 rest = Ok l -> NoDup l /\ forall p, In p l -> fst p = i /\ j0 <= snd p.
Proof.
  intros o a i. induction rest as [|b rest IH]; intros j0 l H.
  - injection H as <-. split; [constructor|intros p []].
  - cbn [clash_row] in H. destruct (candidate o a b) as [[|]|e]; [| |discriminate];
      destruct (clash_row o a i (S j0) rest) as [t|e] eqn:G; try discriminate; injection H as <-;
      destruct (IH (S j0) t G) as [N B].
    + split.
      * constructor; [|exact N]. intros Hin. destruct (B _ Hin) as [_ Hb]. cbn in Hb. lia.
      * intros p [<-|Hin]; [cbn; lia|]. destruct (B p Hin). lia.
    + split; [exact N|]. intros p Hin. destruct (B p Hin). lia.
Qed.

Theorem listed_once : forall o l s res, clashes_from o s l = Ok res -> NoDup res /\ forall p, In p res -> s <= fst p.
Proof.
  intros o. induction l as [|a rest IH]; intros s res H.
  - injection H as <-. split; [constructor|intros p []].
  - cbn [clashes_from] in H.
    destruct (clash_row o a s (S s) rest) as [r1|e] eqn:E1; [|discriminate].
    destruct (clashes_from o (S s) rest) as [r2|e] eqn:E2; [|discriminate]. injection H as <-.
    destruct (row_nodup o a s rest (S s) r1 E1) as [N1 B1]. destruct (IH (S s) r2 E2) as [N2 B2].
    split.
    + clear -N1 N2 B1 B2. induction r1 as [|p r1 IHr]; [exact N2|].
      inversion N1; subst. cbn. constructor.
      * intros Hin. apply in_app_or in Hin. destruct Hin as [Hin|Hin]; [contradiction|].
        destruct (B1 p (or_introl eq_refl)) as [Hp _]. specialize (B2 p Hin). lia.
      * apply IHr; [assumption|]. intros q Hq. apply B1. right. exact Hq.
    + intros p Hin. apply in_app_or in Hin. destruct Hin as [Hin|Hin]; [destruct (B1 p Hin); lia|specialize (B2 p Hin); lia].
Qed.

Theorem listed_iff0 : forall o l res, clashes_from o 0 l = Ok res ->
    forall i j, In (i, j) res <->
      exists a b, i < j /\ nth_error l i = Some a /\ nth_error l j = Some b /\ pair_ok o a b = true.
Proof.
  intros o l res H i j. rewrite (listed_iff o l 0 res H i j). rewrite !Nat.sub_0_r.
  split; intros (a & b & X); exists a, b; intuition lia.
Qed.
Theorem listed_once0 : forall o l res, clashes_from o 0 l = Ok res -> NoDup res.
Proof. intros o l res H. exact (proj1 (listed_once o l 0 res H)). Qed.
