(* C18 over the reals: the pair each implementation hands to atan2, for four points built
   with a prescribed dihedral, rigidly moved; reversal and mirroring. *)
From Coq Require Import Reals Lra Lia Psatz Nsatz.
From RV Require Import Model.Geom.
Open Scope R_scope.

Notation vecR := (vec R).
Definition dotR := dot R Rplus Rmult.
Definition crossR := cross R Rmult Rminus.
Definition vsubR := vsub R Rminus.
Definition vaddR := vadd R Rplus.
Definition t1yR := torsion_v1_y_over_norm_v2 R Rplus Rmult Rminus.
Definition t1xR := torsion_v1_x R Rplus Rmult Rminus.
Definition t2yR := torsion_v2_y_times_norm_v2 R Rplus Rmult Rminus.
Definition v2l2R := v2_len2 R Rplus Rmult Rminus.

Ltac unfold_geom :=
  unfold t1yR, t1xR, t2yR, v2l2R, dotR, crossR, vsubR, vaddR;
  unfold torsion_v1_y_over_norm_v2, torsion_v1_x, torsion_v2_y_times_norm_v2, v2_len2;
  unfold triple, norm2; unfold dot, cross; unfold vsub, vadd; unfold vx, vy, vz; cbn [fst snd].

(* ---- the two implementations: same x, opposite y (up to the positive factor |v2|^2) *)
Theorem v2_is_minus_v1 : forall p1 p2 p3 p4 : vecR,
    t2yR p1 p2 p3 p4 = - (v2l2R p1 p2 p3 p4) * t1yR p1 p2 p3 p4.
Proof. intros [[a1 a2] a3] [[b1 b2] b3] [[c1 c2] c3] [[d1 d2] d3]. unfold_geom. ring. Qed.

(* ---- canonical placement: p2 at the origin, p3 on the z axis, p1 in the xz plane, p4 turned by phi.
   s1,c1 / s3,c3 / sf,cf are sine and cosine of the two bond angles and of the dihedral. *)
Section Constructed.
  Variables l1 l2 l3 s1 c1 s3 c3 sf cf : R.
  Definition q2 : vecR := (0, 0, 0).
  Definition q3 : vecR := (0, 0, l2).
  Definition q1 : vecR := (l1 * s1, 0, l1 * c1).
  Definition q4 : vecR := (l3 * s3 * cf, l3 * s3 * sf, l2 - l3 * c3).

  (* tertiary.py hands atan2 (|v2| * t1y, t1x) = (K sin phi, K cos phi), K = l1 l2^2 l3 sin(th1) sin(th3) *)
  Theorem v1_constructed :
    t1yR q1 q2 q3 q4 = l1 * l2 * l3 * s1 * s3 * sf /\
    t1xR q1 q2 q3 q4 = l1 * (l2 * l2) * l3 * s1 * s3 * cf /\
    v2l2R q1 q2 q3 q4 = l2 * l2.
  Proof. unfold q1, q2, q3, q4. unfold_geom. repeat split; ring. Qed.

  (* tertiary_v2.py hands atan2 the opposite sine component *)
  Theorem v2_constructed :
    t2yR q1 q2 q3 q4 = - (l2 * l2) * (l1 * l2 * l3 * s1 * s3 * sf).
  Proof. unfold q1, q2, q3, q4. unfold_geom. ring. Qed.

  Theorem K_positive : 0 < l1 -> 0 < l2 -> 0 < l3 -> 0 < s1 -> 0 < s3 ->
    0 < l1 * (l2 * l2) * l3 * s1 * s3.
  Proof. intros. repeat apply Rmult_lt_0_compat; assumption. Qed.
End Constructed.

(* ---- rigid motions *)
Section Rigid.
  Variables r11 r12 r13 r21 r22 r23 r31 r32 r33 t1 t2 t3 : R.
  Hypothesis O11 : r11 * r11 + r21 * r21 + r31 * r31 = 1.
  Hypothesis O22 : r12 * r12 + r22 * r22 + r32 * r32 = 1.
  Hypothesis O33 : r13 * r13 + r23 * r23 + r33 * r33 = 1.
  Hypothesis O12 : r11 * r12 + r21 * r22 + r31 * r32 = 0.
  Hypothesis O13 : r11 * r13 + r21 * r23 + r31 * r33 = 0.
  Hypothesis O23 : r12 * r13 + r22 * r23 + r32 * r33 = 0.
  (* determinant d = +1 for a proper rotation, -1 for a mirror image *)
  Variable d : R.
  Hypothesis Det : r11 * (r22 * r33 - r23 * r32) - r12 * (r21 * r33 - r23 * r31) + r13 * (r21 * r32 - r22 * r31) = d.

  Definition move (p : vecR) : vecR :=
    (r11 * vx R p + r12 * vy R p + r13 * vz R p + t1,
     r21 * vx R p + r22 * vy R p + r23 * vz R p + t2,
     r31 * vx R p + r32 * vy R p + r33 * vz R p + t3).

  Lemma dot_moved : forall a b c e : vecR,
      dotR (vsubR (move a) (move b)) (vsubR (move c) (move e)) = dotR (vsubR a b) (vsubR c e).
  Proof.
    intros [[a1 a2] a3] [[b1 b2] b3] [[c1 c2] c3] [[e1 e2] e3]. unfold move. unfold_geom. nsatz.
  Qed.

  Lemma triple_moved : forall a b c e f g : vecR,
      dotR (vsubR (move a) (move b)) (crossR (vsubR (move c) (move e)) (vsubR (move f) (move g)))
      = d * dotR (vsubR a b) (crossR (vsubR c e) (vsubR f g)).
  Proof.
    intros [[a1 a2] a3] [[b1 b2] b3] [[c1 c2] c3] [[e1 e2] e3] [[f1 f2] f3] [[g1 g2] g3].
    unfold move. unfold_geom. rewrite <- Det. ring.
  Qed.

  Lemma lagrange : forall a b c e : vecR,
      dotR (crossR a b) (crossR c e) = dotR a c * dotR b e - dotR a e * dotR b c.
  Proof. intros [[a1 a2] a3] [[b1 b2] b3] [[c1 c2] c3] [[e1 e2] e3]. unfold_geom. ring. Qed.

  (* x is unchanged by every orthogonal map (rotation or mirror) *)
  Theorem t1x_moved : forall p1 p2 p3 p4, t1xR (move p1) (move p2) (move p3) (move p4) = t1xR p1 p2 p3 p4.
  Proof.
    intros. unfold t1xR, torsion_v1_x.
    change (dot R Rplus Rmult) with dotR. change (cross R Rmult Rminus) with crossR. change (vsub R Rminus) with vsubR.
    rewrite !lagrange, !dot_moved. reflexivity.
  Qed.

  (* y is multiplied by the determinant: kept by rotations, negated by mirror images *)
  Theorem t1y_moved : forall p1 p2 p3 p4, t1yR (move p1) (move p2) (move p3) (move p4) = d * t1yR p1 p2 p3 p4.
  Proof.
    intros. unfold t1yR, torsion_v1_y_over_norm_v2, triple.
    change (dot R Rplus Rmult) with dotR. change (cross R Rmult Rminus) with crossR. change (vsub R Rminus) with vsubR.
    apply triple_moved.
  Qed.

  Theorem v2len_moved : forall p1 p2 p3 p4, v2l2R (move p1) (move p2) (move p3) (move p4) = v2l2R p1 p2 p3 p4.
  Proof.
    intros. unfold v2l2R, v2_len2, norm2.
    change (dot R Rplus Rmult) with dotR. change (vsub R Rminus) with vsubR. apply dot_moved.
  Qed.
End Rigid.

(* ---- reversing the order of the four points keeps both atan2 arguments *)
Theorem reverse_keeps : forall p1 p2 p3 p4 : vecR,
    t1yR p4 p3 p2 p1 = t1yR p1 p2 p3 p4 /\ t1xR p4 p3 p2 p1 = t1xR p1 p2 p3 p4 /\ v2l2R p4 p3 p2 p1 = v2l2R p1 p2 p3 p4.
Proof. intros [[a1 a2] a3] [[b1 b2] b3] [[c1 c2] c3] [[d1 d2] d3]. unfold_geom. repeat split; ring. Qed.

(* ---- the clip of the cosine-like argument is the identity: |x| <= |n1| |n2| (Cauchy-Schwarz via Lagrange) *)
Theorem x_within_normals : forall p1 p2 p3 p4 : vecR,
    t1xR p1 p2 p3 p4 * t1xR p1 p2 p3 p4 <=
    normal1_len2 R Rplus Rmult Rminus p1 p2 p3 p4 * normal2_len2 R Rplus Rmult Rminus p1 p2 p3 p4.
Proof.
  intros [[a1 a2] a3] [[b1 b2] b3] [[c1 c2] c3] [[d1 d2] d3].
  unfold normal1_len2, normal2_len2. unfold_geom.
  set (u1 := (b2 - a2) * (c3 - b3) - (b3 - a3) * (c2 - b2)).
  set (u2 := (b3 - a3) * (c1 - b1) - (b1 - a1) * (c3 - b3)).
  set (u3 := (b1 - a1) * (c2 - b2) - (b2 - a2) * (c1 - b1)).
  set (w1 := (c2 - b2) * (d3 - c3) - (c3 - b3) * (d2 - c2)).
  set (w2 := (c3 - b3) * (d1 - c1) - (c1 - b1) * (d3 - c3)).
  set (w3 := (c1 - b1) * (d2 - c2) - (c2 - b2) * (d1 - c1)).
  assert (H : (u1 * u1 + u2 * u2 + u3 * u3) * (w1 * w1 + w2 * w2 + w3 * w3) - (u1 * w1 + u2 * w2 + u3 * w3) * (u1 * w1 + u2 * w2 + u3 * w3)
              = (u1 * w2 - u2 * w1) * (u1 * w2 - u2 * w1) + (u1 * w3 - u3 * w1) * (u1 * w3 - u3 * w1) + (u2 * w3 - u3 * w2) * (u2 * w3 - u3 * w2)) by ring.
  pose proof (Rle_0_sqr (u1 * w2 - u2 * w1)). pose proof (Rle_0_sqr (u1 * w3 - u3 * w1)). pose proof (Rle_0_sqr (u2 * w3 - u3 * w2)).
  unfold Rsqr in *. lra.
Qed.
