(* C19: importing DSSR documents keeps exactly the pairs whose class is a Leontis-Westhof member and whose two residue names
   resolve in the structure, in document order, and exactly the consecutive stack members that both resolve. *)
From Coq Require Import String Ascii ZArith List Bool Arith Lia.
From RV Require Import Base.Val Base.PyStr Gen.Common Gen.Adapter Model.Fr3d Proofs.C19Main.
Import ListNotations.

(* what one pair record contributes *)
Definition keep (names : list str) (p : option str * option str * option str) : list (nat * nat * str) :=
  match p with (n1, n2, lw) =>
    match lw with
    | Some s => match enum_lookup lw_members s, dssr_resolve names n1, dssr_resolve names n2 with
                | Some cls, Some a, Some b => [(a, b, cls)]
                | _, _, _ => []
                end
    | None => []
    end
  end.

Theorem dssr_pairs_exact : dssr_lw_test_is_membership = true -> forall names pairs,
    dssr_pairs names pairs = Ok (flat_map (keep names) pairs).
Proof.
  intros Hm names. induction pairs as [|[[n1 n2] lw] pairs IH]; [reflexivity|].
  cbn [dssr_pairs fold_right flat_map]. fold (dssr_pairs names pairs). rewrite IH. unfold dssr_lw, keep. rewrite Hm.
  destruct lw as [s|]; [|destruct (dssr_resolve names n1), (dssr_resolve names n2); reflexivity].
  destruct (enum_lookup lw_members s) as [cls|]; [|destruct (dssr_resolve names n1), (dssr_resolve names n2); reflexivity].
  destruct (dssr_resolve names n1), (dssr_resolve names n2); reflexivity.
Qed.

(* a name resolves to the first residue whose full name equals the part after the last colon *)
Lemma resolve_go_spec : forall key l i k,
    (fix go (l : list str) (i : nat) := match l with [] => None | x :: t => if str_eqb x key then Some i else go t (S i) end) l i = Some k ->
    i <= k /\ exists x, nth_error l (k - i) = Some x /\ str_eqb x key = true /\
    forall j y, j < k - i -> nth_error l j = Some y -> str_eqb y key = false.
Proof.
  intros key. induction l as [|x t IH]; intros i k H; [discriminate|].
  destruct (str_eqb x key) eqn:E.
  - injection H as <-. split; [lia|]. rewrite Nat.sub_diag. exists x. split; [reflexivity|]. split; [exact E|]. intros j y Hj. lia.
  - apply IH in H. destruct H as (Hle & y & Hn & Ey & Hbefore). split; [lia|]. exists y.
    replace (k - i) with (S (k - S i)) by lia. split; [exact Hn|]. split; [exact Ey|].
    intros j z Hj Hz. destruct j as [|j]; [cbn in Hz; injection Hz as <-; exact E|]. apply (Hbefore j z); [lia|exact Hz].
Qed.

Theorem dssr_resolve_spec : forall names s k, dssr_resolve names (Some s) = Some k ->
    exists x, nth_error names k = Some x /\ str_eqb x (last (split_on ":"%char s) []) = true /\
    forall j y, j < k -> nth_error names j = Some y -> str_eqb y (last (split_on ":"%char s) []) = false.
Proof.
  intros names s k H. unfold dssr_resolve in H. apply resolve_go_spec in H. destruct H as (_ & x & Hn & E & Hb).
  rewrite Nat.sub_0_r in *. exists x. auto.
Qed.

(* stacks: exactly the consecutive members that both resolve, in order *)
Theorem dssr_stack_exact : forall names nts,
    dssr_stack names nts =
    let rs := map (fun s => dssr_resolve names (Some s)) (split_on ","%char nts) in
    flat_map (fun ab => match ab with (Some a, Some b) => [(a, b)] | _ => [] end) (combine rs (tl rs)).
Proof. reflexivity. Qed.
