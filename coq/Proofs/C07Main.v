(* C07: stems are maximal stacked runs; their 3' strand mirrors the 5' strand. *)
From Coq Require Import String Ascii ZArith List Bool Arith Lia ZifyBool Sorted.
From RV Require Import Base.Val Gen.Common Model.Bpseq Model.AllDb Model.Elements Proofs.Stack Proofs.Encode Proofs.Regions.
Import ListNotations.

(* two consecutive runs cannot be merged: the last pair of one is not continued by the first pair of the next *)
Definition not_mergeable (r1 r2 : list entry) : Prop :=
  match rev r1, r2 with x :: _, y :: _ => continues x y = false | _, _ => False end.

Lemma runs_head : forall e es, exists run rest, runs (e :: es) = (e :: run) :: rest.
Proof.
  intros e es. cbn [runs]. destruct (runs es) as [|[|f run] rest]; [eauto|eauto|]. destruct (continues e f); eauto.
Qed.

Theorem runs_maximal : forall es, LocallySorted not_mergeable (runs es).
Proof.
  induction es as [|e es IH]; [constructor|]. cbn [runs].
  destruct (runs es) as [|[|f run] rest] eqn:E.
  - constructor.
  - (* unreachable shape *) destruct es as [|e' es']; [discriminate|]. destruct (runs_head e' es') as (r & t & Hr). rewrite Hr in E. discriminate.
  - destruct (continues e f) eqn:Ec.
    + inversion IH as [| |? ? ? Hs Hr]; subst; [constructor|]. constructor; [exact Hs|].
      unfold not_mergeable in *. cbn [rev] in *. 
      destruct (rev run ++ [f]) as [|x t] eqn:Er; [destruct (rev run); discriminate|]. cbn [app]. exact Hr.
    + constructor; [exact IH|]. unfold not_mergeable. cbn [rev app]. exact Ec.
Qed.

(* ---------------------------------------------------------------- strands are slices *)
Definition is_slice (b : bpseq) (c : list entry) : Prop :=
  c = slice b (match c with e :: _ => idx e | [] => 0 end - 1) (match c with e :: _ => idx e | [] => 0 end + length c - 1).

(* what the property asks of every reported strand: its sequence and structure text are the slices first..last *)
Definition strand_faithful (b : bpseq) (db : list ascii) (s : strand) : Prop :=
  s_seq s = slice (sequence b) (s_first s - 1) (s_last s) /\ s_str s = slice db (s_first s - 1) (s_last s).

Lemma slice_map : forall (A B : Type) (f : A -> B) l a k, map f (slice l a k) = slice (map f l) a k.
Proof. intros. unfold slice. rewrite <- firstn_map. f_equal. revert l. induction a as [|a IH]; intros [|x l]; cbn; auto. Qed.

Lemma strand_of_slice : forall b db c, is_slice b c -> strand_faithful b db (strand_of c db).
Proof.
  intros b db c H. unfold strand_faithful, strand_of. cbn [s_seq s_str s_first s_last]. split; [|reflexivity].
  unfold sequence. rewrite <- slice_map. f_equal. exact H.
Qed.

Lemma firstn_own_length : forall (A : Type) k (l : list A), firstn (length (firstn k l)) l = firstn k l.
Proof. intros A. induction k as [|k IH]; intros [|x l]; cbn; auto. f_equal. apply IH. Qed.

Lemma skipn_nth_head : forall (A : Type) x (l : list A) e t, skipn x l = e :: t -> nth_error l x = Some e.
Proof. intros A. induction x as [|x IH]; intros [|y l] e t H; cbn in *; try discriminate; [injection H as -> _; reflexivity|eapply IH; exact H]. Qed.

Theorem slice_is_slice : forall b, valid b = true -> forall x y, is_slice b (slice b x y).
Proof.
  intros b Hv x y. unfold is_slice. destruct (slice b x y) as [|e t] eqn:E; [reflexivity|].
  assert (Hx : nth_error b x = Some e).
  { unfold slice in E. destruct (skipn x b) as [|e' t'] eqn:Es; [destruct (y - x); discriminate|].
    destruct (y - x); [discriminate|]. cbn in E. injection E as -> _. eapply skipn_nth_head. exact Es. }
  rewrite (valid_idx b Hv x e Hx). rewrite <- E. unfold slice.
  replace (Datatypes.S x - 1) with x by lia.
  replace (Datatypes.S x + length (firstn (y - x) (skipn x b)) - 1 - x) with (length (firstn (y - x) (skipn x b))) by lia.
  symmetry. apply firstn_own_length.
Qed.

Lemma nth_error_ext : forall (A : Type) (l l' : list A), (forall k, nth_error l k = nth_error l' k) -> l = l'.
Proof.
  intros A. induction l as [|x l IH]; intros [|y l'] H; [reflexivity|specialize (H 0); discriminate|specialize (H 0); discriminate|].
  pose proof (H 0) as H0. cbn in H0. injection H0 as ->. f_equal. apply IH. intros k. apply (H (Datatypes.S k)).
Qed.
Lemma nth_error_firstn : forall (A : Type) k n (l : list A), k < n -> nth_error (firstn n l) k = nth_error l k.
Proof. intros A. induction k as [|k IH]; intros [|n] [|x l] H; cbn; try lia; try reflexivity. apply IH. lia. Qed.
Lemma nth_error_skipn : forall (A : Type) a k (l : list A), nth_error (skipn a l) k = nth_error l (a + k).
Proof. intros A. induction a as [|a IH]; intros k [|x l]; cbn; try reflexivity; [destruct k; reflexivity|apply IH]. Qed.

(* a stacked run of entries of b is a slice of b *)
Lemma chain_is_slice : forall b, valid b = true -> forall st, chain st -> (forall e, In e st -> In e b) -> is_slice b st.
Proof.
  intros b Hv st Hc Hin. destruct (chain_nonempty st Hc) as [e0 H0]. destruct st as [|e0' t]; [discriminate|]. cbn in H0. injection H0 as ->.
  unfold is_slice. apply nth_error_ext. intros k.
  unfold slice. replace (idx e0 + length (e0 :: t) - 1 - (idx e0 - 1)) with (length (e0 :: t)) by (destruct (in_b_nth b Hv e0 (Hin e0 (or_introl eq_refl))) as [_ ?]; lia).
  destruct (nth_error (e0 :: t) k) as [e|] eqn:Ek.
  - assert (Lk : k < length (e0 :: t)) by (apply nth_error_Some; congruence).
    rewrite nth_error_firstn by exact Lk. rewrite nth_error_skipn.
    destruct (chain_nth _ Hc k e e0 eq_refl Ek) as [Hi _].
    destruct (in_b_nth b Hv e (Hin e (nth_error_In _ _ Ek))) as [A _]. rewrite Hi in A. 
    destruct (in_b_nth b Hv e0 (Hin e0 (or_introl eq_refl))) as [_ [B _]].
    replace (idx e0 - 1 + k) with (idx e0 + k - 1) by lia. symmetry. exact A.
  - apply nth_error_None in Ek. symmetry. apply nth_error_None. rewrite firstn_length. lia.
Qed.

(* ---------------------------------------------------------------- the 3' strand of a stem *)
From RV Require Import Proofs.C16Comp.

Lemma filter_none : forall (A : Type) (p : A -> bool) l, (forall x, In x l -> p x = false) -> filter p l = [].
Proof. intros A p. induction l as [|x l IH]; intros H; [reflexivity|]. cbn. rewrite (H x (or_introl eq_refl)). apply IH. intros y Hy. apply H. right. exact Hy. Qed.
Lemma filter_all : forall (A : Type) (p : A -> bool) l, (forall x, In x l -> p x = true) -> filter p l = l.
Proof. intros A p. induction l as [|x l IH]; intros H; [reflexivity|]. cbn. rewrite (H x (or_introl eq_refl)). f_equal. apply IH. intros y Hy. apply H. right. exact Hy. Qed.

Lemma filter_interval : forall b, valid b = true -> forall (q : nat -> bool) lo hi, 1 <= lo ->
    (forall k, q k = true <-> lo <= k <= hi) -> filter (fun e => q (idx e)) b = slice b (lo - 1) hi.
Proof.
  intros b Hv q lo hi Hlo Hq. unfold slice.
  rewrite <- (firstn_skipn (lo - 1) b) at 1. rewrite filter_app.
  rewrite <- (firstn_skipn (hi - (lo - 1)) (skipn (lo - 1) b)) at 1. rewrite filter_app.
  assert (Pos : forall e p, nth_error b p = Some e -> q (idx e) = true <-> lo <= Datatypes.S p <= hi).
  { intros e p Hp. rewrite (valid_idx b Hv p e Hp). apply Hq. }
  rewrite filter_none, filter_all, filter_none; [cbn [app]; apply app_nil_r| | |].
  - intros e He. apply In_nth_error in He. destruct He as (k & Hk). rewrite nth_error_skipn, nth_error_skipn in Hk.
    destruct (q (idx e)) eqn:E; [|reflexivity]. apply (Pos e _ Hk) in E. lia.
  - intros e He. apply In_nth_error in He. destruct He as (k & Hk).
    assert (Lk : k < hi - (lo - 1)). { assert (k < length (firstn (hi - (lo - 1)) (skipn (lo - 1) b))) by (apply nth_error_Some; congruence). rewrite firstn_length in H. lia. }
    rewrite nth_error_firstn in Hk by exact Lk. rewrite nth_error_skipn in Hk. apply (Pos e _ Hk). lia.
  - intros e He. apply In_nth_error in He. destruct He as (k & Hk).
    assert (Lk : k < lo - 1). { assert (k < length (firstn (lo - 1) b)) by (apply nth_error_Some; congruence). rewrite firstn_length in H. lia. }
    rewrite nth_error_firstn in Hk by exact Lk. destruct (q (idx e)) eqn:E; [|reflexivity]. apply (Pos e _ Hk) in E. lia.
Qed.

Section Stem.
  Variable b : bpseq.
  Hypothesis Hv : valid b = true.

  Theorem stem_strands : forall db st e0, In st (stems b) -> nth_error st 0 = Some e0 ->
      let s5 := fst (stem_of b db st) in
      let s3 := snd (stem_of b db st) in
      let len := length st in
      (* both strands are faithful slices *)
      strand_faithful b db s5 /\ strand_faithful b db s3 /\
      (* their ends *)
      s_first s5 = idx e0 /\ s_last s5 = idx e0 + len - 1 /\ s_first s3 = pair e0 - len + 1 /\ s_last s3 = pair e0 /\
      (* mirrored: the t-th position of the 5' strand pairs with the t-th position from the end of the 3' strand *)
      (forall t, t < len -> pair_at b (idx e0 + t) = pair e0 - t) /\
      idx e0 + len - 1 < pair e0 - len + 1.
  Proof.
    intros db st e0 Hst H0. cbv zeta.
    assert (Hc : chain st) by (apply (runs_chain (paired53 b)); exact Hst).
    assert (Hes : forall e, In e st -> In e (paired53 b)).
    { intros e He. rewrite <- (runs_concat (paired53 b)). apply in_concat. exists st. split; [exact Hst|exact He]. }
    assert (Hb : forall e, In e st -> In e b /\ pair e <> 0 /\ idx e < pair e) by (intros e He; apply (es_in b); apply Hes; exact He).
    assert (Len : 1 <= length st) by (destruct st; [discriminate|cbn; lia]).
    set (len := length st) in *.
    (* the last entry *)
    destruct (nth_error st (len - 1)) as [el|] eqn:El; [|apply nth_error_None in El; lia].
    destruct (chain_nth st Hc (len - 1) el e0 H0 El) as [Il Pl].
    destruct (Hb el (nth_error_In _ _ El)) as (Bl & Nl & Ll).
    destruct (Hb e0 (nth_error_In _ _ H0)) as (B0 & N0 & L0).
    assert (Q : forall k, mem k (map pair st) = true <-> pair e0 - len + 1 <= k <= pair e0).
    { intros k. rewrite mem_iff, in_map_iff. split.
      - intros (e & <- & He). apply In_nth_error in He. destruct He as (t & Ht). destruct (chain_nth st Hc t e e0 H0 Ht) as [_ P].
        assert (t < len) by (apply nth_error_Some; congruence). lia.
      - intros Hk. destruct (nth_error st (pair e0 - k)) as [e|] eqn:E; [|apply nth_error_None in E; fold len in E; lia].
        destruct (chain_nth st Hc _ e e0 H0 E) as [_ P]. exists e. split; [lia|eapply nth_error_In; exact E]. }
    assert (F3 : filter (fun e => mem (idx e) (map pair st)) b = slice b (pair e0 - len + 1 - 1) (pair e0)).
    { apply (filter_interval b Hv (fun k => mem k (map pair st))); [lia|exact Q]. }
    assert (S5 : is_slice b st) by (apply (chain_is_slice b Hv st Hc); intros e He; apply Hb; exact He).
    unfold stem_of. cbn [fst snd]. rewrite F3.
    assert (L3 : length (slice b (pair e0 - len + 1 - 1) (pair e0)) = len).
    { unfold slice. rewrite firstn_length, skipn_length. destruct (valid_entry b Hv e0 B0) as [Z|(A1 & A2 & _)]; [contradiction|]. lia. }
    assert (H3 : exists e3 t3, slice b (pair e0 - len + 1 - 1) (pair e0) = e3 :: t3 /\ idx e3 = pair e0 - len + 1).
    { destruct (slice b (pair e0 - len + 1 - 1) (pair e0)) as [|e3 t3] eqn:E; [cbn in L3; lia|]. exists e3, t3. split; [reflexivity|].
      unfold slice in E. destruct (skipn (pair e0 - len + 1 - 1) b) as [|e' t'] eqn:Es; [destruct (pair e0 - (pair e0 - len + 1 - 1)); discriminate|].
      destruct (pair e0 - (pair e0 - len + 1 - 1)); [discriminate|]. cbn in E. injection E as -> _.
      pose proof (skipn_nth_head _ _ _ _ _ Es) as Hn. rewrite (valid_idx b Hv _ _ Hn). lia. }
    destruct H3 as (e3 & t3 & E3 & I3).
    split; [apply strand_of_slice; exact S5|]. split; [apply strand_of_slice; apply slice_is_slice; exact Hv|].
    unfold strand_of. cbn [s_first s_last]. rewrite E3. rewrite <- E3 at 1. rewrite L3. destruct st as [|x t]; [discriminate|]. cbn in H0. injection H0 as ->.
    fold len. repeat split; try lia.
    - intros t0 Ht. destruct (nth_error (e0 :: t) t0) as [e|] eqn:E; [|apply nth_error_None in E; fold len in E; lia].
      destruct (chain_nth _ Hc t0 e e0 eq_refl E) as [Ie Pe]. rewrite <- Ie. rewrite (pair_at_idx b Hv e); [lia|]. apply Hb. eapply nth_error_In. exact E.
  Qed.
End Stem.

(* ---------------------------------------------------------------- every strand of every element is a faithful slice *)
Lemma chase_members : forall b lc used fuel loop i s, In s (chase b lc used loop i fuel) -> In s loop \/ In s lc.
Proof.
  intros b lc used. induction fuel as [|f IH]; intros loop i s H; cbn [chase] in H; [left; exact H|].
  destruct (find _ (succs b lc i)) as [j|]; [|left; exact H].
  destruct (nth_error lc j) as [sj|] eqn:Ej; [|left; exact H].
  apply IH in H. destruct H as [H|H]; [|right; exact H]. apply in_app_or in H. destruct H as [H|[<-|[]]]; [left; exact H|right; eapply nth_error_In; exact Ej].
Qed.

Theorem elements_faithful : forall b db, valid b = true ->
    let E := elements b db in
    (forall p, In p (el_stems E) -> strand_faithful b db (fst p) /\ strand_faithful b db (snd p)) /\
    (forall x, In x (el_single E) -> strand_faithful b db (fst (fst x))) /\
    (forall s, In s (el_hairpins E) -> strand_faithful b db s) /\
    (forall l s, In l (el_loops E) -> In s l -> strand_faithful b db s).
Proof.
  intros b db Hv. cbv zeta. unfold elements.
  destruct (stems b) as [|st0 sts0] eqn:Est; [cbn; repeat split; intros; contradiction|]. rewrite <- Est. clear st0 sts0 Est.
  cbv zeta. cbn [el_stems el_single el_hairpins el_loops].
  set (stems_ := map (stem_of b db) (stems b)). set (stops := stops_of stems_). set (lc := lc_of b db stops).
  assert (Hcand : forall c, In c (ok_of b stops) -> is_slice b c).
  { intros c Hc. unfold ok_of in Hc. apply filter_In in Hc. destruct Hc as [Hc _]. unfold cands_of in Hc. apply in_map_iff in Hc.
    destruct Hc as (ab & <- & _). apply slice_is_slice. exact Hv. }
  assert (Hlc : forall s, In s lc -> strand_faithful b db s).
  { intros s Hs. unfold lc, lc_of in Hs. apply in_map_iff in Hs. destruct Hs as (c & <- & Hc). apply filter_In in Hc. apply strand_of_slice. apply Hcand. apply Hc. }
  assert (Hloops : forall l s, In l (fst (loops_of b lc)) -> In s l -> In s lc).
  { assert (G : forall idxs acc, (forall l s, In l (fst acc) -> In s l -> In s lc) ->
                  forall l s, In l (fst (fold_left (loop_step b lc) idxs acc)) -> In s l -> In s lc).
    { induction idxs as [|i idxs IH]; intros acc Hacc; [exact Hacc|]. cbn [fold_left]. apply IH.
      destruct acc as [lp us]. unfold loop_step. destruct (nth_error lc i) as [s0|] eqn:E0; [|exact Hacc]. cbv zeta.
      match goal with |- context [if ?c then _ else _] => destruct c end; [|exact Hacc].
      cbn [fst]. intros l s Hl Hs. apply in_app_or in Hl. destruct Hl as [Hl|[<-|[]]]; [apply (Hacc l s Hl Hs)|].
      apply chase_members in Hs. destruct Hs as [[<-|[]]|Hs]; [eapply nth_error_In; exact E0|exact Hs]. }
    intros l s Hl Hs. apply (G (seq 0 (length lc)) ([], []) (fun l s H => match H with end) l s); [exact Hl|exact Hs]. }
  split; [|split; [|split]].
  - intros p Hp. unfold stems_ in Hp. apply in_map_iff in Hp. destruct Hp as (st & <- & Hst).
    assert (Hc : chain st) by (apply (runs_chain (paired53 b)); exact Hst). destruct (chain_nonempty st Hc) as [e0 H0].
    destruct (stem_strands b Hv db st e0 Hst H0) as (A & B & _). split; assumption.
  - intros x Hx. apply in_app_or in Hx. destruct Hx as [Hx|Hx].
    + destruct (0 <? hd 0 stops); [|destruct Hx]. destruct Hx as [<-|[]]. cbn [fst]. apply strand_of_slice.
      replace (firstn (hd 0 stops + 1) b) with (slice b 0 (hd 0 stops + 1)) by (unfold slice; rewrite Nat.sub_0_r; reflexivity). apply slice_is_slice. exact Hv.
    + apply in_app_or in Hx. destruct Hx as [Hx|Hx].
      * destruct (last stops 0 <? length b - 1); [|destruct Hx]. destruct Hx as [<-|[]]. cbn [fst]. apply strand_of_slice.
        replace (skipn (last stops 0) b) with (slice b (last stops 0) (last stops 0 + length b)).
        -- apply slice_is_slice. exact Hv.
        -- unfold slice. apply firstn_all2. rewrite skipn_length. lia.
      * apply in_map_iff in Hx. destruct Hx as (s & <- & Hs). cbn [fst]. apply filter_In in Hs. apply Hlc. apply Hs.
  - intros s Hs. apply in_map_iff in Hs. destruct Hs as (c & <- & Hc). apply filter_In in Hc. apply strand_of_slice. apply Hcand. apply Hc.
  - intros l s Hl Hs. apply Hlc. apply (Hloops l s Hl Hs).
Qed.

(* ---------------------------------------------------------------- hairpins and loops: what is reported is right *)
Definition interior_free (b : bpseq) (s : strand) : Prop := forall k, s_first s < k < s_last s -> pair_at b k = 0.

Lemma slice_nth : forall (A : Type) (l : list A) x y k, k < y - x -> nth_error (slice l x y) k = nth_error l (x + k).
Proof. intros A l x y k H. unfold slice. rewrite nth_error_firstn by exact H. apply nth_error_skipn. Qed.

Lemma strand_of_ends : forall b, valid b = true -> forall db x y e t, slice b x y = e :: t ->
    s_first (strand_of (slice b x y) db) = Datatypes.S x /\ s_last (strand_of (slice b x y) db) = x + length (slice b x y) /\
    nth_error b x = Some e.
Proof.
  intros b Hv db x y e t E. assert (Hx : nth_error b x = Some e).
  { unfold slice in E. destruct (skipn x b) as [|e' t'] eqn:Es; [destruct (y - x); discriminate|].
    destruct (y - x); [discriminate|]. cbn in E. injection E as -> _. eapply skipn_nth_head. exact Es. }
  unfold strand_of. cbn [s_first s_last]. rewrite E. rewrite (valid_idx b Hv x e Hx). repeat split; [cbn [length]; lia|exact Hx].
Qed.

Lemma interior_unpaired_free : forall b, valid b = true -> forall db x y, interior_unpaired (slice b x y) = true ->
    interior_free b (strand_of (slice b x y) db).
Proof.
  intros b Hv db x y H k Hk. destruct (slice b x y) as [|e t] eqn:E; [unfold strand_of in Hk; cbn in Hk; lia|].
  destruct (strand_of_ends b Hv db x y e t E) as (F & L & _). rewrite E in *. rewrite F, L in Hk. cbn [length] in Hk.
  unfold interior_unpaired in H. cbn [tl] in H. rewrite forallb_forall in H.
  (* position k (1-based) is entry number k - 1 of b, entry number k - 1 - x of the slice, number k - 2 - x of its tail *)
  assert (Hk' : k - 2 - x < length t - 1) by lia.
  destruct (nth_error t (k - 2 - x)) as [ek|] eqn:Ek; [|apply nth_error_None in Ek; lia].
  assert (In ek (removelast t)).
  { assert (G : forall (l : list entry) i a, i < length l - 1 -> nth_error l i = Some a -> In a (removelast l)).
    { clear. induction l as [|z l IH]; intros i a Hi Ha; [cbn in Hi; lia|]. destruct l as [|z' l]; [cbn in Hi; lia|].
      destruct i as [|i]; [cbn in Ha; injection Ha as <-; left; reflexivity|]. right. apply (IH i a); [cbn in *; lia|exact Ha]. }
    apply (G t (k - 2 - x) ek Hk' Ek). }
  specialize (H ek H0). apply Nat.eqb_eq in H.
  assert (Hb : nth_error b (k - 1) = Some ek).
  { assert (nth_error (slice b x y) (k - 1 - x) = Some ek) by (rewrite E; replace (k - 1 - x) with (Datatypes.S (k - 2 - x)) by lia; exact Ek).
    rewrite slice_nth in H1.
    - replace (x + (k - 1 - x)) with (k - 1) in H1 by lia. exact H1.
    - assert (length (slice b x y) <= y - x) by (unfold slice; rewrite firstn_length; lia). rewrite E in H2. cbn [length] in H2. lia. }
  unfold pair_at. destruct k as [|k]; [lia|]. replace (Datatypes.S k - 1) with k in Hb by lia. rewrite Hb. exact H.
Qed.

Lemma last_nth : forall (l : list entry) e d, l <> [] -> nth_error l (length l - 1) = Some e -> last l d = e.
Proof.
  induction l as [|z l IH]; intros e d Hn H; [contradiction|]. destruct l as [|z' l]; [cbn in H; injection H as <-; reflexivity|].
  cbn [last]. apply IH; [discriminate|]. cbn [length] in *. replace (Datatypes.S (Datatypes.S (length l)) - 1) with (Datatypes.S (length l)) in H by lia. cbn in H.
  replace (Datatypes.S (length l) - 1) with (length l) by lia. exact H.
Qed.

(* first position of a candidate strand pairs with its last position *)
Lemma is_hp_closing : forall b, valid b = true -> forall db x y, slice b x y <> [] ->
    (is_hp (slice b x y) = true <->
     pair_at b (s_first (strand_of (slice b x y) db)) = s_last (strand_of (slice b x y) db)).
Proof.
  intros b Hv db x y Hne. destruct (slice b x y) as [|e t] eqn:E; [contradiction|].
  destruct (strand_of_ends b Hv db x y e t E) as (F & L & Hx). rewrite E in F, L. rewrite F, L. cbn [length].
  unfold is_hp. rewrite Nat.eqb_eq.
  assert (Hl : exists el, nth_error (e :: t) (length t) = Some el /\ last (e :: t) e = el /\ idx el = x + Datatypes.S (length t)).
  { destruct (nth_error (e :: t) (length t)) as [el|] eqn:El; [|apply nth_error_None in El; cbn in El; lia]. exists el. split; [reflexivity|]. split.
    - apply last_nth; [discriminate|]. cbn [length]. replace (Datatypes.S (length t) - 1) with (length t) by lia. exact El.
    - rewrite <- E in El. rewrite slice_nth in El.
      + rewrite (valid_idx b Hv _ _ El). lia.
      + assert (length (slice b x y) <= y - x) by (unfold slice; rewrite firstn_length; lia). rewrite E in H. cbn [length] in H. lia. }
  destruct Hl as (el & _ & -> & Il). rewrite Il. unfold pair_at. replace (Datatypes.S x) with (Datatypes.S x) by reflexivity. rewrite Hx. reflexivity.
Qed.

Theorem hairpins_sound : forall b db, valid b = true -> forall s, In s (el_hairpins (elements b db)) ->
    pair_at b (s_first s) = s_last s /\ interior_free b s /\ s_first s < s_last s.
Proof.
  intros b db Hv s Hs. unfold elements in Hs. destruct (stems b) as [|st0 sts0] eqn:Est; [destruct Hs|]. rewrite <- Est in Hs. cbv zeta in Hs. cbn [el_hairpins] in Hs.
  apply in_map_iff in Hs. destruct Hs as (c & <- & Hc). apply filter_In in Hc. destruct Hc as [Hc Hp].
  unfold ok_of in Hc. apply filter_In in Hc. destruct Hc as [Hc Hi]. unfold cands_of in Hc. apply in_map_iff in Hc. destruct Hc as ([x y] & <- & _). cbn [fst snd] in *.
  assert (Hne : slice b x (y + 1) <> []) by (intros E; rewrite E in Hp; discriminate).
  split; [apply (is_hp_closing b Hv db x (y + 1) Hne); exact Hp|]. split; [apply interior_unpaired_free; assumption|].
  (* the first position pairs with the last one, and no position pairs with itself *)
  destruct (slice b x (y + 1)) as [|e t] eqn:E; [contradiction|].
  destruct (strand_of_ends b Hv db x (y + 1) e t E) as (F & L & Hx). rewrite <- E. rewrite F, L, E. cbn [length].
  destruct t as [|e' t']; [|cbn [length]; lia]. exfalso.
  unfold is_hp in Hp. cbn [last] in Hp. apply Nat.eqb_eq in Hp.
  destruct (valid_entry b Hv e (nth_error_In _ _ Hx)) as [Z|(_ & _ & Ne & _)]; [|contradiction].
  rewrite Z in Hp. rewrite (valid_idx b Hv x e Hx) in Hp. discriminate.
Qed.

(* ---------------------------------------------------------------- loops *)
Definition linked (b : bpseq) (l : list strand) : Prop :=
  forall k a c, nth_error l k = Some a -> nth_error l (Datatypes.S k) = Some c -> pair_at b (s_last a) = s_first c.

Lemma linked_snoc : forall b l si sj, l <> [] -> last l si = si -> linked b l -> pair_at b (s_last si) = s_first sj -> linked b (l ++ [sj]).
Proof.
  intros b l si sj Hne Hl Hlk Hp k a c Ha Hc.
  destruct (Nat.lt_ge_cases (Datatypes.S k) (length l)) as [L|G].
  - rewrite nth_error_app1 in Ha, Hc by lia. apply (Hlk k a c Ha Hc).
  - assert (k < length l) by (apply nth_error_Some; intros E; rewrite nth_error_app2 in Hc by lia; 
      assert (Datatypes.S k - length l = 0 \/ Datatypes.S k - length l > 0) as [Z|Z] by lia;
      [|destruct (Datatypes.S k - length l) as [|m] eqn:Em; [lia|destruct m; discriminate]];
      rewrite nth_error_app1 in Ha by (destruct (Nat.lt_ge_cases k (length l)); [assumption|lia]); congruence).
    assert (Ek : Datatypes.S k = length l) by lia.
    rewrite nth_error_app1 in Ha by lia. rewrite nth_error_app2 in Hc by lia. rewrite Ek, Nat.sub_diag in Hc. cbn in Hc. injection Hc as <-.
    assert (a = si); [|subst; exact Hp].
    assert (G2 : forall (m : list strand) d x, m <> [] -> nth_error m (length m - 1) = Some x -> last m d = x).
    { clear. induction m as [|z m IH]; intros d x Hn Hx; [contradiction|]. destruct m as [|z' m]; [cbn in Hx; injection Hx as <-; reflexivity|].
      cbn [last]. apply IH; [discriminate|]. cbn [length] in *. replace (Datatypes.S (Datatypes.S (length m)) - 1) with (Datatypes.S (length m)) in Hx by lia.
      replace (Datatypes.S (length m) - 1) with (length m) by lia. exact Hx. }
    rewrite <- Hl. symmetry. apply G2; [exact Hne|]. replace (length l - 1) with k by lia. exact Ha.
Qed.

Lemma succs_spec : forall b lc i j, In j (succs b lc i) ->
    exists si sj, nth_error lc i = Some si /\ nth_error lc j = Some sj /\ pair_at b (s_last si) = s_first sj.
Proof.
  intros b lc i j H. unfold succs in H. destruct (nth_error lc i) as [si|]; [|destruct H]. apply filter_In in H. destruct H as [_ H].
  apply andb_true_iff in H. destruct H as [_ H]. destruct (nth_error lc j) as [sj|]; [|discriminate]. apply Nat.eqb_eq in H.
  exists si, sj. repeat split. exact H.
Qed.

Lemma chase_linked : forall b lc used fuel loop i si, nth_error lc i = Some si -> loop <> [] -> last loop si = si -> linked b loop ->
    let r := chase b lc used loop i fuel in linked b r /\ r <> [] /\ hd_error r = hd_error loop.
Proof.
  intros b lc used. induction fuel as [|f IH]; intros loop i si Hi Hne Hl Hlk; cbv zeta; cbn [chase]; [auto|].
  destruct (find _ (succs b lc i)) as [j|] eqn:Ef; [|auto].
  apply find_some in Ef. destruct Ef as [Hj _]. destruct (succs_spec b lc i j Hj) as (si' & sj & Hi' & Hj' & Hp).
  rewrite Hi in Hi'. injection Hi' as <-. rewrite Hj'.
  destruct (IH (loop ++ [sj]) j sj Hj') as (A & B & C).
  - destruct loop; discriminate.
  - apply last_last.
  - apply (linked_snoc b loop si sj Hne Hl Hlk Hp).
  - split; [exact A|]. split; [exact B|]. rewrite C. destruct loop; [contradiction|reflexivity].
Qed.

Definition loop_ok (b : bpseq) (lc : list strand) (loop : list strand) : Prop :=
  exists s0 rest, loop = s0 :: rest /\ linked b loop /\ pair_at b (s_first s0) = s_last (last loop s0) /\
                  (forall s, In s loop -> In s lc) /\ existsb (fun s => negb (s_last s - s_first s <=? 1)) loop = true.

Theorem loops_ok : forall b lc loop, In loop (fst (loops_of b lc)) -> loop_ok b lc loop.
Proof.
  intros b lc. unfold loops_of.
  assert (G : forall idxs acc, (forall l, In l (fst acc) -> loop_ok b lc l) -> forall l, In l (fst (fold_left (loop_step b lc) idxs acc)) -> loop_ok b lc l).
  { induction idxs as [|i idxs IH]; intros acc Hacc; [exact Hacc|]. cbn [fold_left]. apply IH.
    destruct acc as [lp us]. unfold loop_step. destruct (nth_error lc i) as [s0|] eqn:E0; [|exact Hacc]. cbv zeta.
    destruct (chase_linked b lc us (length lc) [s0] i s0 E0) as (A & B & C); [discriminate|reflexivity|intros k a c Ha Hc; destruct k; discriminate|].
    set (loop := chase b lc us [s0] i (length lc)) in *.
    destruct ((pair_of_idx b (s_first s0) =? s_last (last loop s0)) && negb (forallb (fun s => s_last s - s_first s <=? 1) loop)) eqn:Acc; [|exact Hacc].
    apply andb_true_iff in Acc. destruct Acc as [Cl Sh]. apply Nat.eqb_eq in Cl.
    cbn [fst]. intros l Hl. apply in_app_or in Hl. destruct Hl as [Hl|[<-|[]]]; [apply Hacc; exact Hl|].
    destruct loop as [|h rest] eqn:El; [contradiction|]. cbn [hd_error] in C. injection C as ->. exists s0, rest. split; [reflexivity|]. split; [exact A|]. split; [exact Cl|]. split.
    - intros s Hs. rewrite <- El in Hs. apply chase_members in Hs. destruct Hs as [[<-|[]]|Hs]; [eapply nth_error_In; exact E0|exact Hs].
    - apply negb_true_iff in Sh. clear -Sh. induction (s0 :: rest) as [|z m IH]; [discriminate|]. cbn [forallb existsb] in *.
      destruct (s_last z - s_first z <=? 1); cbn [negb andb orb] in *; [apply IH; exact Sh|reflexivity]. }
  intros loop H. apply (G (seq 0 (length lc)) ([], []) (fun l H0 => match H0 with end) loop H).
Qed.

(* reported loops of a valid structure: at least two strands, cyclically base-paired ends, interiors unpaired *)
Theorem loops_sound : forall b db, valid b = true -> forall loop, In loop (el_loops (elements b db)) ->
    2 <= length loop /\ linked b loop /\
    (exists s0, hd_error loop = Some s0 /\ pair_at b (s_first s0) = s_last (last loop s0)) /\
    (forall s, In s loop -> interior_free b s).
Proof.
  intros b db Hv loop Hl. unfold elements in Hl. destruct (stems b) as [|st0 sts0] eqn:Est; [destruct Hl|]. rewrite <- Est in Hl. cbv zeta in Hl. cbn [el_loops] in Hl.
  set (stops := stops_of (map (stem_of b db) (stems b))) in *. set (lc := lc_of b db stops) in *.
  destruct (loops_ok b lc loop Hl) as (s0 & rest & -> & Lk & Cl & Sub & Long).
  assert (Hlc : forall s, In s lc -> exists x y, s = strand_of (slice b x y) db /\ interior_unpaired (slice b x y) = true /\ is_hp (slice b x y) = false).
  { intros s Hs. unfold lc, lc_of in Hs. apply in_map_iff in Hs. destruct Hs as (c & <- & Hc). apply filter_In in Hc. destruct Hc as [Hc Hn].
    unfold ok_of in Hc. apply filter_In in Hc. destruct Hc as [Hc Hi]. unfold cands_of in Hc. apply in_map_iff in Hc. destruct Hc as ([x y] & <- & _).
    exists x, (y + 1). cbn [fst snd] in *. split; [reflexivity|]. split; [exact Hi|apply negb_true_iff; exact Hn]. }
  split; [|split; [exact Lk|split; [exists s0; split; [reflexivity|exact Cl]|]]].
  - destruct rest as [|s1 rest]; [exfalso|cbn; lia]. cbn [last] in Cl. cbn [existsb] in Long. rewrite orb_false_r in Long. apply negb_true_iff in Long. apply Nat.leb_gt in Long.
    destruct (Hlc s0 (Sub s0 (or_introl eq_refl))) as (x & y & -> & _ & Nhp).
    assert (Hne : slice b x y <> []) by (intros E; rewrite E in Long; cbn in Long; lia).
    apply (is_hp_closing b Hv db x y Hne) in Cl. congruence.
  - intros s Hs. destruct (Hlc s (Sub s Hs)) as (x & y & -> & Hi & _). apply interior_unpaired_free; assumption.
Qed.
