(* C07: completeness of the hairpin list — every pair enclosing only unpaired nucleotides is reported as a hairpin. *)
From Coq Require Import String Ascii ZArith List Bool Arith Lia ZifyBool Sorted Permutation.
From RV Require Import Base.Val Gen.Common Model.Bpseq Model.AllDb Model.Elements Proofs.Stack Proofs.Encode Proofs.Regions Proofs.C16Comp Proofs.C07Main.
Import ListNotations.

(* ---------------------------------------------------------------- sorted, duplicate-free stops *)
Lemma insert_nat_sorted : forall x l, StronglySorted le l -> StronglySorted le (insert_nat x l).
Proof.
  intros x. induction l as [|y l IH]; intros H; cbn [insert_nat]; [constructor; constructor|].
  destruct (x <=? y) eqn:E.
  - apply Nat.leb_le in E. constructor; [exact H|]. inversion H as [|? ? _ Hy]; subst. constructor; [exact E|]. rewrite Forall_forall in *. intros z Hz. specialize (Hy z Hz). lia.
  - apply Nat.leb_gt in E. inversion H as [|? ? Hl Hy]; subst. constructor; [apply IH; exact Hl|].
    rewrite Forall_forall in *. intros z Hz. apply (Permutation_in _ (insert_nat_perm x l)) in Hz. destruct Hz as [<-|Hz]; [lia|apply Hy; exact Hz].
Qed.
Lemma sort_nat_sorted : forall l, StronglySorted le (sort_nat l).
Proof. induction l as [|x l IH]; [constructor|]. unfold sort_nat. cbn [fold_right]. fold (sort_nat l). apply insert_nat_sorted. exact IH. Qed.

Definition dedup_nat (l : list nat) : list nat := fold_right (fun x acc => if mem x acc then acc else x :: acc) [] l.
Lemma dedup_nat_spec : forall l, NoDup (dedup_nat l) /\ forall x, In x (dedup_nat l) <-> In x l.
Proof.
  induction l as [|y l (N & M)]; [split; [constructor|tauto]|]. unfold dedup_nat in *. cbn [fold_right].
  destruct (mem y (fold_right _ [] l)) eqn:E.
  - split; [exact N|]. intros x. rewrite M. cbn [In]. split; [auto|]. intros [<-|H]; [apply M; apply mem_iff; exact E|exact H].
  - split; [constructor; [intros H; apply mem_iff in H; congruence|exact N]|]. intros x. cbn [In]. rewrite M. tauto.
Qed.

Lemma strictly_sorted : forall l, StronglySorted le l -> NoDup l -> StronglySorted lt l.
Proof.
  induction l as [|x l IH]; intros S N; [constructor|]. inversion S as [|? ? Sl Hx]; subst. inversion N as [|? ? Hn N']; subst.
  constructor; [apply IH; assumption|]. rewrite Forall_forall in *. intros y Hy. specialize (Hx y Hy). assert (x <> y) by (intros ->; contradiction). lia.
Qed.

(* two members of a strictly sorted list with nothing between them are neighbours *)
Lemma neighbours_in_sorted : forall l a b, StronglySorted lt l -> In a l -> In b l -> a < b -> (forall x, In x l -> ~ (a < x < b)) ->
    In (a, b) (combine l (tl l)).
Proof.
  induction l as [|x l IH]; intros a b S Ha Hb Hab Hno; [destruct Ha|]. inversion S as [|? ? Sl Hx]; subst. rewrite Forall_forall in Hx.
  destruct Ha as [->|Ha].
  - destruct Hb as [->|Hb]; [lia|]. destruct l as [|y l]; [destruct Hb|]. cbn [tl combine]. left.
    assert (y = b); [|subst; reflexivity].
    destruct Hb as [->|Hb]; [reflexivity|exfalso]. inversion Sl as [|? ? _ Hy]; subst. rewrite Forall_forall in Hy. specialize (Hy b Hb).
    apply (Hno y); [right; left; reflexivity|]. specialize (Hx y (or_introl eq_refl)). lia.
  - destruct Hb as [->|Hb]; [specialize (Hx a Ha); lia|]. destruct l as [|y l]; [destruct Ha|]. cbn [tl combine]. right.
    apply IH; try assumption. intros z Hz. apply Hno. right. exact Hz.
Qed.

(* ---------------------------------------------------------------- what the stops are *)
Section Hairpins.
  Variable b : bpseq.
  Hypothesis Hv : valid b = true.
  Variable db : list ascii.

  Definition stem_ends (st : list entry) : list nat :=
    let s := stem_of b db st in [s_first (fst s) - 1; s_last (fst s) - 1; s_first (snd s) - 1; s_last (snd s) - 1].

  Lemma stops_spec : let stops := stops_of (map (stem_of b db) (stems b)) in
      StronglySorted lt stops /\ forall x, In x stops <-> exists st, In st (stems b) /\ In x (stem_ends st).
  Proof.
    cbv zeta. unfold stops_of. fold (dedup_nat (flat_map (fun s => [s_first (fst s) - 1; s_last (fst s) - 1; s_first (snd s) - 1; s_last (snd s) - 1]) (map (stem_of b db) (stems b)))).
    set (raw := flat_map _ (map (stem_of b db) (stems b))). destruct (dedup_nat_spec raw) as [N M]. pose proof (sort_nat_perm (dedup_nat raw)) as P.
    split.
    - apply strictly_sorted; [apply sort_nat_sorted|]. apply (Permutation_NoDup (Permutation_sym P)). exact N.
    - intros x. split.
      + intros H. apply (Permutation_in _ P) in H. apply M in H. unfold raw in H. apply in_flat_map in H. destruct H as (s & Hs & Hx).
        apply in_map_iff in Hs. destruct Hs as (st & <- & Hst). exists st. split; [exact Hst|exact Hx].
      + intros (st & Hst & Hx). apply (Permutation_in _ (Permutation_sym P)). apply M. unfold raw. apply in_flat_map. exists (stem_of b db st). split; [apply in_map; exact Hst|exact Hx].
  Qed.

  (* every stop is a paired position *)
  Lemma stop_paired : forall st x, In st (stems b) -> In x (stem_ends st) -> pair_at b (Datatypes.S x) <> 0 /\ x < length b.
  Proof.
    intros st x Hst Hx. assert (Hc : chain st) by (apply (runs_chain (paired53 b)); exact Hst). destruct (chain_nonempty st Hc) as [e0 H0].
    destruct (stem_strands b Hv db st e0 Hst H0) as (_ & _ & F5 & L5 & F3 & L3 & Mir & Ord). unfold stem_ends in Hx. cbv zeta in Hx. rewrite F5, L5, F3, L3 in Hx.
    assert (Hes : forall e, In e st -> In e b /\ pair e <> 0 /\ idx e < pair e).
    { intros e He. apply (es_in b). unfold es. rewrite <- (runs_concat (paired53 b)). apply in_concat. exists st. split; assumption. }
    set (len := length st) in *. assert (Len : 1 <= len) by (destruct st; [discriminate|cbn; lia]).
    destruct (nth_error st (len - 1)) as [el|] eqn:El; [|apply nth_error_None in El; lia].
    destruct (chain_nth st Hc (len - 1) el e0 H0 El) as [Il Pl].
    destruct (Hes e0 (nth_error_In _ _ H0)) as (B0 & N0 & L0). destruct (Hes el (nth_error_In _ _ El)) as (Bl & Nl & Ll).
    destruct (in_b_nth b Hv e0 B0) as [_ [I0 I0']]. destruct (in_b_nth b Hv el Bl) as [_ [I1 I1']].
    destruct (valid_entry b Hv e0 B0) as [Z|(A1 & A2 & A3 & A4)]; [contradiction|]. destruct (valid_entry b Hv el Bl) as [Z|(C1 & C2 & C3 & C4)]; [contradiction|].
    assert (P0 : pair_at b (idx e0) = pair e0) by (apply (pair_at_idx b Hv); exact B0). assert (P1 : pair_at b (idx el) = pair el) by (apply (pair_at_idx b Hv); exact Bl).
    destruct Hx as [<-|[<-|[<-|[<-|[]]]]].
    - replace (Datatypes.S (idx e0 - 1)) with (idx e0) by lia. rewrite P0. split; [exact N0|lia].
    - replace (Datatypes.S (idx e0 + len - 1 - 1)) with (idx el) by lia. rewrite P1. split; [exact Nl|lia].
    - replace (Datatypes.S (pair e0 - len + 1 - 1)) with (pair el) by lia. rewrite C4. split; lia.
    - replace (Datatypes.S (pair e0 - 1)) with (pair e0) by lia. rewrite A4. split; lia.
  Qed.

  (* the pair (i, j): i is the last 5' position of its stem and j the first 3' position *)
  Lemma closing_pair_is_stem_end : forall i j, i < j -> pair_at b i = j -> (forall k, i < k < j -> pair_at b k = 0) -> 1 <= i ->
      exists st, In st (stems b) /\ In (i - 1) (stem_ends st) /\ In (j - 1) (stem_ends st).
  Proof.
    intros i j Hij Hp Hin Hi.
    destruct (nth_error b (i - 1)) as [e|] eqn:Ee; [|unfold pair_at in Hp; destruct i; [lia|]; replace (Datatypes.S i - 1) with i in Ee by lia; rewrite Ee in Hp; lia].
    assert (Ie : idx e = i) by (rewrite (valid_idx b Hv _ _ Ee); lia).
    assert (Pe : pair e = j). { unfold pair_at in Hp. destruct i; [lia|]. replace (Datatypes.S i - 1) with i in Ee by lia. rewrite Ee in Hp. exact Hp. }
    assert (Hes : In e (paired53 b)) by (apply (es_in b); split; [eapply nth_error_In; exact Ee|lia]).
    destruct (es_run b e Hes) as (k & st & Hk & Hest & _ & Hc). assert (Hst : In st (stems b)) by (eapply nth_error_In; exact Hk).
    destruct (chain_nonempty st Hc) as [e0 H0]. destruct (stem_strands b Hv db st e0 Hst H0) as (_ & _ & F5 & L5 & F3 & L3 & Mir & Ord).
    exists st. split; [exact Hst|]. unfold stem_ends. cbv zeta. rewrite F5, L5, F3, L3.
    apply In_nth_error in Hest. destruct Hest as (t & Ht). destruct (chain_nth st Hc t e e0 H0 Ht) as [It Pt].
    assert (Lt : t < length st) by (apply nth_error_Some; congruence).
    (* e is the last entry of its stem: otherwise the next position would be paired *)
    assert (Last : t = length st - 1).
    { destruct (Nat.eq_dec t (length st - 1)) as [E|NE]; [exact E|exfalso].
      destruct (nth_error st (Datatypes.S t)) as [f|] eqn:Ef; [|apply nth_error_None in Ef; lia].
      destruct (chain_nth st Hc (Datatypes.S t) f e0 H0 Ef) as [If Pf].
      assert (Hf : In f (paired53 b)) by (rewrite <- (runs_concat (paired53 b)); apply in_concat; exists st; split; [exact Hst|eapply nth_error_In; exact Ef]).
      apply (es_in b) in Hf. destruct Hf as (Bf & Nf & Lf).
      assert (pair_at b (idx f) = pair f) by (apply (pair_at_idx b Hv); exact Bf).
      destruct (Nat.eq_dec (idx f) j) as [Ej|Nj]; [lia|]. specialize (Hin (idx f)). lia. }
    split; [right; left; lia|right; right; left; lia].
  Qed.

  Theorem hairpins_complete : forall i j, 1 <= i -> i < j -> pair_at b i = j -> (forall k, i < k < j -> pair_at b k = 0) ->
      In (strand_of (slice b (i - 1) j) db) (el_hairpins (elements b db)).
  Proof.
    intros i j Hi Hij Hp Hin. destruct (closing_pair_is_stem_end i j Hij Hp Hin Hi) as (st & Hst & Ei & Ej).
    unfold elements. destruct (stems b) as [|s0 ss] eqn:Est; [destruct Hst|]. rewrite <- Est in *. cbv zeta. cbn [el_hairpins].
    destruct stops_spec as [Ss Ms]. set (stops := stops_of (map (stem_of b db) (stems b))) in *.
    assert (Si : In (i - 1) stops) by (apply Ms; exists st; split; assumption).
    assert (Sj : In (j - 1) stops) by (apply Ms; exists st; split; assumption).
    assert (Nb : In (i - 1, j - 1) (combine stops (tl stops))).
    { apply neighbours_in_sorted; try assumption; [lia|]. intros x Hx Hbetween. apply Ms in Hx. destruct Hx as (st' & Hst' & Hx).
      destruct (stop_paired st' x Hst' Hx) as [Hpx _]. apply Hpx. apply Hin. lia. }
    assert (Jn : j <= length b).
    { apply Ms in Sj. destruct Sj as (st' & Hst' & Hx). destruct (stop_paired st' (j - 1) Hst' Hx). lia. }
    apply in_map_iff. exists (slice b (i - 1) j). split; [reflexivity|]. apply filter_In. split.
    - unfold ok_of. apply filter_In. split.
      + unfold cands_of. apply in_map_iff. exists (i - 1, j - 1). split; [cbn [fst snd]; f_equal; lia|exact Nb].
      + (* interior unpaired *)
        unfold interior_unpaired. apply forallb_forall. intros e He.
        assert (G : forall (l : list entry) x, In x (removelast (tl l)) -> exists k, 1 <= k /\ Datatypes.S k < length l /\ nth_error l k = Some x).
        { clear. intros l x H. destruct l as [|h t]; [destruct H|]. cbn [tl] in H.
          assert (G2 : forall (m : list entry) y, In y (removelast m) -> exists q, Datatypes.S q < Datatypes.S (length m) /\ Datatypes.S q <= length m - 0 /\ q < length m - 1 /\ nth_error m q = Some y).
          { induction m as [|z m IH]; intros y Hy; [destruct Hy|]. destruct m as [|z' m]; [destruct Hy|]. cbn [removelast] in Hy. destruct Hy as [<-|Hy].
            - exists 0. cbn. repeat split; lia.
            - destruct (IH y Hy) as (q & A & B & C & D). exists (Datatypes.S q). cbn [length] in *. repeat split; try lia. exact D. }
          destruct (G2 t x H) as (q & _ & _ & C & D). exists (Datatypes.S q). cbn [length]. repeat split; [lia|lia|exact D]. }
        destruct (G _ _ He) as (k & K1 & K2 & Kn).
        assert (Ls : length (slice b (i - 1) j) = j - (i - 1)) by (unfold slice; rewrite firstn_length, skipn_length; lia).
        rewrite slice_nth in Kn by lia. specialize (Hin (i + k)). rewrite Ls in K2.
        assert (Pk : pair_at b (i + k) = pair e). { unfold pair_at. replace (i + k) with (Datatypes.S (i - 1 + k)) by lia. rewrite Kn. reflexivity. }
        apply Nat.eqb_eq. rewrite <- Pk. apply Hin. lia.
    - (* closes on itself *)
      assert (Hne : slice b (i - 1) j <> []).
      { intros E. assert (length (slice b (i - 1) j) = j - (i - 1)) by (unfold slice; rewrite firstn_length, skipn_length; lia). rewrite E in H. cbn in H. lia. }
      apply (is_hp_closing b Hv db (i - 1) j Hne).
      destruct (slice b (i - 1) j) as [|e t] eqn:E; [contradiction|]. destruct (strand_of_ends b Hv db (i - 1) j e t E) as (F & L & _). rewrite <- E. rewrite F, L.
      assert (Ls : length (slice b (i - 1) j) = j - (i - 1)) by (unfold slice; rewrite firstn_length, skipn_length; lia). rewrite Ls.
      replace (Datatypes.S (i - 1)) with i by lia. rewrite Hp. lia.
  Qed.
End Hairpins.
