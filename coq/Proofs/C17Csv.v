(* C17: the CSV (and the printed report) list the clashes grouped by chain pair and, inside it, by residue pair.  Whatever the
   two grouping keys are, the grouped listing is a rearrangement of the clash list: nothing lost, nothing repeated. *)
From Coq Require Import List Bool Arith Lia Permutation.
Import ListNotations.

Section Rows.
  Context {A : Type}.

  (* grouping by a key, groups listed by first occurrence (a dict of lists filled in one pass) *)
  Fixpoint groups_fuel (same : A -> A -> bool) (fuel : nat) (rows : list A) : list (list A) :=
    match fuel, rows with
    | S f, a :: rest => (a :: filter (same a) rest) :: groups_fuel same f (filter (fun b => negb (same a b)) rest)
    | _, _ => []
    end.
  Definition groups (same : A -> A -> bool) (rows : list A) : list (list A) := groups_fuel same (length rows) rows.

  Lemma filter_length_le : forall (f : A -> bool) l, length (filter f l) <= length l.
  Proof. intros f l. induction l as [|x l IH]; cbn; [lia|]. destruct (f x); cbn; lia. Qed.

  Lemma partition_perm : forall (f : A -> bool) l, Permutation (filter f l ++ filter (fun x => negb (f x)) l) l.
  Proof.
    intros f l. induction l as [|x l IH]; cbn; [constructor|].
    destruct (f x); cbn; [constructor; exact IH|].
    eapply Permutation_trans; [apply Permutation_sym, Permutation_middle|]. constructor. exact IH.
  Qed.

  Lemma groups_fuel_perm : forall same fuel rows, length rows <= fuel -> Permutation (concat (groups_fuel same fuel rows)) rows.
  Proof.
    intros same. induction fuel as [|f IH]; intros rows Hl; [destruct rows; [constructor|cbn in Hl; lia]|].
    destruct rows as [|a rest]; [constructor|]. cbn [groups_fuel concat app]. constructor.
    eapply Permutation_trans; [apply Permutation_app_head, IH|apply partition_perm].
    cbn in Hl. pose proof (filter_length_le (fun b => negb (same a b)) rest). lia.
  Qed.

  Lemma groups_perm : forall same rows, Permutation (concat (groups same rows)) rows.
  Proof. intros same rows. apply groups_fuel_perm. constructor. Qed.

  Variables same_chains same_residues : A -> A -> bool.

  Definition grouped_rows (clashes : list A) : list A :=
    concat (map (fun g => concat (groups same_residues g)) (groups same_chains clashes)).

  Lemma concat_map_perm : forall (f : list A -> list A) (L : list (list A)),
      (forall g, Permutation (f g) g) -> Permutation (concat (map f L)) (concat L).
  Proof.
    intros f L H. induction L as [|g L IH]; [constructor|]. cbn [map concat].
    apply Permutation_app; [apply H|exact IH].
  Qed.

  Theorem grouped_rows_perm : forall clashes, Permutation (grouped_rows clashes) clashes.
  Proof.
    intros clashes. unfold grouped_rows.
    eapply Permutation_trans; [apply concat_map_perm; intros g; apply groups_perm|]. apply groups_perm.
  Qed.
End Rows.
