(* Layer A of C01: the per-type stack decoder, on an abstract word of bracket tokens, returns
   exactly the mated pairs in closing order whenever same-type pairs do not cross. *)
From Coq Require Import String Ascii ZArith List Bool Arith Lia.
From RV Require Import Base.Val Gen.Common Model.Bpseq.
Import ListNotations.

Inductive bchar := Dot | Open (t : nat) | Close (t : nat).

Definition lex (c : ascii) : bchar :=
  match index_of c opening with
  | Some t => Open t
  | None => match index_of c closing with Some t => Close t | None => Dot end
  end.

Fixpoint aparse (s : list bchar) (pos : nat) (st : nat -> list nat) (acc : list (nat * nat))
  : result (list (nat * nat) * (nat -> list nat)) :=
  match s with
  | [] => Ok (rev acc, st)
  | Dot :: s' => aparse s' (S pos) st acc
  | Open t :: s' => aparse s' (S pos) (upd st t (pos :: st t)) acc
  | Close t :: s' =>
      match st t with
      | [] => Raise IndexError
      | o :: r => aparse s' (S pos) (upd st t r) ((o, pos) :: acc)
      end
  end.

Lemma parse_aux_lex : forall s pos st acc, parse_aux s pos st acc = aparse (map lex s) pos st acc.
Proof.
  induction s as [|c s IH]; intros pos st acc; cbn [parse_aux map aparse]; [reflexivity|].
  unfold lex. destruct (index_of c opening) as [t|].
  - apply IH.
  - destruct (index_of c closing) as [t|].
    + destruct (st t); [reflexivity|apply IH].
    + apply IH.
Qed.

Section Decoder.
  Variable w : list bchar.
  Variable mate : nat -> nat.
  Let n := length w.
  Definition kind (p : nat) : bchar := nth p w Dot.

  Hypothesis Hopen : forall p t, p < n -> kind p = Open t ->
    p < mate p /\ mate p < n /\ kind (mate p) = Close t /\ mate (mate p) = p.
  Hypothesis Hclose : forall p t, p < n -> kind p = Close t ->
    mate p < p /\ kind (mate p) = Open t /\ mate (mate p) = p.
  (* same-type pairs do not cross *)
  Hypothesis Hnest : forall p q t, p < n -> q < n -> kind p = Open t -> kind q = Open t ->
    p < q -> q < mate p -> mate q < mate p.

  Definition is_open (t : nat) (k : nat) : bool :=
    match kind k with Open u => u =? t | _ => false end.
  Definition pending (t p k : nat) : bool := is_open t k && (p <=? mate k).
  Definition stack (t p : nat) : list nat := filter (pending t p) (rev (seq 0 p)).

  Lemma rev_seq_S : forall p, rev (seq 0 (S p)) = p :: rev (seq 0 p).
  Proof. intros p. rewrite seq_S, rev_app_distr. reflexivity. Qed.

  Lemma filter_ext_in' : forall (A : Type) (f g : A -> bool) (l : list A),
      (forall a, In a l -> f a = g a) -> filter f l = filter g l.
  Proof. intros. apply filter_ext_in. assumption. Qed.

  Lemma in_rev_seq : forall k p, In k (rev (seq 0 p)) -> k < p.
  Proof. intros k p H. apply in_rev in H. apply in_seq in H. lia. Qed.

  (* reading a position that is not an opener of type t and not the mate of a pending opener
     of type t leaves stack t unchanged *)
  Lemma stack_keep : forall t p, p < n -> is_open t p = false ->
      (forall k, k < p -> is_open t k = true -> mate k <> p) ->
      stack t (S p) = stack t p.
  Proof.
    intros t p Hp Hno Hm. unfold stack. rewrite rev_seq_S. cbn [filter].
    unfold pending at 1. rewrite Hno. cbn [andb].
    apply filter_ext_in'. intros k Hk. apply in_rev_seq in Hk.
    unfold pending. destruct (is_open t k) eqn:Ek; cbn [andb]; [|reflexivity].
    specialize (Hm k Hk Ek).
    destruct (Nat.leb_spec (S p) (mate k)), (Nat.leb_spec p (mate k)); try reflexivity; lia.
  Qed.

  Lemma is_open_true : forall t k, is_open t k = true -> kind k = Open t.
  Proof.
    unfold is_open. intros t k H. destruct (kind k) as [|u|u]; try discriminate.
    apply Nat.eqb_eq in H. subst. reflexivity.
  Qed.

  Lemma kind_lt : forall k, kind k <> Dot -> k < n.
  Proof.
    intros k H. destruct (Nat.lt_ge_cases k n) as [L|G]; [exact L|].
    exfalso. apply H. unfold kind. apply nth_overflow. exact G.
  Qed.

  Lemma is_open_lt : forall t k, is_open t k = true -> k < n.
  Proof. intros t k H. apply kind_lt. rewrite (is_open_true _ _ H). discriminate. Qed.

  Lemma stack_dot : forall t p, p < n -> kind p = Dot -> stack t (S p) = stack t p.
  Proof.
    intros t p Hp Hk. apply stack_keep; [exact Hp| |].
    - unfold is_open. rewrite Hk. reflexivity.
    - intros k Hkp Ho E. pose proof (is_open_true _ _ Ho) as Ko.
      destruct (Hopen k t (is_open_lt _ _ Ho) Ko) as (_ & _ & Hc & _).
      rewrite E, Hk in Hc. discriminate.
  Qed.

  Lemma stack_open_other : forall t u p, p < n -> kind p = Open u -> u <> t -> stack t (S p) = stack t p.
  Proof.
    intros t u p Hp Hk Hne. apply stack_keep; [exact Hp| |].
    - unfold is_open. rewrite Hk. apply Nat.eqb_neq. exact Hne.
    - intros k Hkp Ho E. pose proof (is_open_true _ _ Ho) as Ko.
      destruct (Hopen k t (is_open_lt _ _ Ho) Ko) as (_ & _ & Hc & _).
      rewrite E, Hk in Hc. discriminate.
  Qed.

  Lemma stack_close_other : forall t u p, p < n -> kind p = Close u -> u <> t -> stack t (S p) = stack t p.
  Proof.
    intros t u p Hp Hk Hne. apply stack_keep; [exact Hp| |].
    - unfold is_open. rewrite Hk. reflexivity.
    - intros k Hkp Ho E. pose proof (is_open_true _ _ Ho) as Ko.
      destruct (Hopen k t (is_open_lt _ _ Ho) Ko) as (_ & _ & Hc & _).
      rewrite E, Hk in Hc. injection Hc as Hc. apply Hne. exact Hc.
  Qed.

  Lemma stack_open_same : forall t p, p < n -> kind p = Open t -> stack t (S p) = p :: stack t p.
  Proof.
    intros t p Hp Hk. unfold stack. rewrite rev_seq_S. cbn [filter].
    destruct (Hopen p t Hp Hk) as (Hlt & _ & _ & _).
    assert (Hpend : pending t (S p) p = true).
    { unfold pending, is_open. rewrite Hk, Nat.eqb_refl. cbn [andb]. apply Nat.leb_le. lia. }
    rewrite Hpend. f_equal.
    apply filter_ext_in'. intros k Hkin. apply in_rev_seq in Hkin.
    unfold pending. destruct (is_open t k) eqn:Ek; cbn [andb]; [|reflexivity].
    pose proof (is_open_true _ _ Ek) as Ko.
    destruct (Hopen k t (is_open_lt _ _ Ek) Ko) as (_ & _ & Hc & _).
    assert (mate k <> p) by (intros E; rewrite E, Hk in Hc; discriminate).
    destruct (Nat.leb_spec (S p) (mate k)), (Nat.leb_spec p (mate k)); try reflexivity; lia.
  Qed.

  Lemma filter_nil : forall (A : Type) (f : A -> bool) (l : list A),
      (forall a, In a l -> f a = false) -> filter f l = [].
  Proof.
    intros A f l H. induction l as [|a l IH]; [reflexivity|].
    cbn [filter]. rewrite (H a (or_introl eq_refl)). apply IH. intros b Hb. apply H. right. exact Hb.
  Qed.

  (* the closer at p finds its own opener on top: anything pending above it would cross *)
  Lemma stack_close_same : forall t p, p < n -> kind p = Close t -> stack t p = mate p :: stack t (S p).
  Proof.
    intros t p Hp Hk.
    destruct (Hclose p t Hp Hk) as (Hm & Hmo & Hmm).
    remember (mate p) as m eqn:Em.
    assert (Hmn : m < n) by lia.
    assert (Hsplit : rev (seq 0 p) = rev (seq (S m) (p - S m)) ++ m :: rev (seq 0 m)).
    { replace p with (m + S (p - S m)) at 1 by lia.
      rewrite seq_app, rev_app_distr. cbn [seq rev].
      rewrite <- app_assoc. cbn [app]. rewrite Nat.add_0_l. reflexivity. }
    (* nothing strictly between m and p is pending, neither at p nor at S p *)
    assert (Hmid : forall q k, (q = p \/ q = S p) -> In k (rev (seq (S m) (p - S m))) -> pending t q k = false).
    { intros q k Hq Hin. apply in_rev in Hin. apply in_seq in Hin.
      unfold pending. destruct (is_open t k) eqn:Ek; cbn [andb]; [|reflexivity].
      pose proof (is_open_true _ _ Ek) as Ko.
      assert (Hkn : k < n) by lia.
      destruct (Hopen k t Hkn Ko) as (_ & _ & Hc & Hkk).
      assert (Hne : mate k <> p).
      { intros E. rewrite E in Hkk. lia. }
      pose proof (Hnest m k t Hmn Hkn Hmo Ko) as Hx.
      rewrite Hmm in Hx.
      apply Nat.leb_gt. destruct Hq; subst q; lia. }
    unfold stack. rewrite rev_seq_S. cbn [filter].
    assert (Hpp : pending t (S p) p = false).
    { unfold pending, is_open. rewrite Hk. reflexivity. }
    rewrite Hpp, Hsplit, !filter_app. cbn [filter].
    rewrite (filter_nil _ _ _ (fun k => Hmid p k (or_introl eq_refl))).
    rewrite (filter_nil _ _ _ (fun k => Hmid (S p) k (or_intror eq_refl))).
    cbn [app].
    assert (Hpm : pending t p m = true).
    { unfold pending, is_open. rewrite Hmo, Nat.eqb_refl. cbn [andb]. apply Nat.leb_le. lia. }
    assert (Hpm' : pending t (S p) m = false).
    { unfold pending, is_open. rewrite Hmo, Nat.eqb_refl. cbn [andb]. apply Nat.leb_gt. lia. }
    rewrite Hpm, Hpm'. f_equal.
    apply filter_ext_in'. intros k Hkin. apply in_rev_seq in Hkin.
    unfold pending. destruct (is_open t k) eqn:Ek; cbn [andb]; [|reflexivity].
    pose proof (is_open_true _ _ Ek) as Ko.
    destruct (Hopen k t (is_open_lt _ _ Ek) Ko) as (_ & _ & _ & Hkk).
    assert (mate k <> p) by (intros E; rewrite E in Hkk; lia).
    destruct (Nat.leb_spec (S p) (mate k)), (Nat.leb_spec p (mate k)); try reflexivity; lia.
  Qed.

  (* closed pairs in the order of their closing position, from p on *)
  Definition is_close (k : nat) : bool := match kind k with Close _ => true | _ => false end.
  Definition closed_from (p : nat) : list (nat * nat) :=
    map (fun q => (mate q, q)) (filter is_close (seq p (n - p))).

  Lemma skipn_nth_cons : forall p, p < n -> skipn p w = kind p :: skipn (S p) w.
  Proof.
    intros p Hp. unfold kind, n in *. clear Hopen Hclose Hnest.
    revert p Hp. induction w as [|c l IH]; intros p Hp; cbn [length] in Hp; [lia|].
    destruct p as [|p]; [reflexivity|]. cbn [skipn nth]. apply IH. lia.
  Qed.

  Lemma decode_from : forall k p st acc, k = n - p -> p <= n ->
      (forall t, st t = stack t p) ->
      exists st', aparse (skipn p w) p st acc = Ok (rev acc ++ closed_from p, st')
                  /\ forall t, st' t = stack t n.
  Proof.
    induction k as [|k IH]; intros p st acc Hk Hp Hst.
    - assert (p = n) by lia. subst p. unfold n at 1. rewrite skipn_all. cbn [aparse].
      exists st. split; [|exact Hst].
      unfold closed_from. replace (n - n) with 0 by lia. cbn. rewrite app_nil_r. reflexivity.
    - assert (Hpn : p < n) by lia.
      rewrite (skipn_nth_cons p Hpn).
      assert (Hcf : closed_from p = (if is_close p then [(mate p, p)] else []) ++ closed_from (S p)).
      { unfold closed_from. replace (n - p) with (S (n - S p)) by lia. cbn [seq filter].
        destruct (is_close p); reflexivity. }
      destruct (kind p) as [|t|t] eqn:Ekp; cbn [aparse].
      + destruct (IH (S p) st acc) as (st' & E & F); [lia|lia| |].
        { intros t. rewrite Hst. symmetry. apply stack_dot; assumption. }
        exists st'. split; [|exact F]. rewrite E, Hcf. unfold is_close. rewrite Ekp. reflexivity.
      + destruct (IH (S p) (upd st t (p :: st t)) acc) as (st' & E & F); [lia|lia| |].
        { intros u. unfold upd. destruct (Nat.eqb_spec u t) as [->|Hne].
          - rewrite Hst. symmetry. apply stack_open_same; assumption.
          - rewrite Hst. symmetry. apply (stack_open_other u t); auto. }
        exists st'. split; [|exact F]. rewrite E, Hcf. unfold is_close. rewrite Ekp. reflexivity.
      + rewrite (Hst t), (stack_close_same t p Hpn Ekp).
        destruct (IH (S p) (upd st t (stack t (S p))) ((mate p, p) :: acc)) as (st' & E & F); [lia|lia| |].
        { intros u. unfold upd. destruct (Nat.eqb_spec u t) as [->|Hne]; [reflexivity|].
          rewrite Hst. symmetry. apply (stack_close_other u t); auto. }
        exists st'. split; [|exact F]. rewrite E, Hcf. unfold is_close. rewrite Ekp.
        cbn [rev app]. rewrite <- app_assoc. reflexivity.
  Qed.

  Lemma stack_0 : forall t, stack t 0 = [].
  Proof. reflexivity. Qed.

  Lemma stack_n : forall t, stack t n = [].
  Proof.
    intros t. unfold stack. apply filter_nil. intros k Hk. apply in_rev_seq in Hk.
    unfold pending. destruct (is_open t k) eqn:Ek; cbn [andb]; [|reflexivity].
    destruct (Hopen k t Hk (is_open_true _ _ Ek)) as (_ & Hlt & _). apply Nat.leb_gt. exact Hlt.
  Qed.

  Theorem decode_word : exists st',
      aparse w 0 (fun _ => []) [] = Ok (closed_from 0, st') /\ forall t, st' t = [].
  Proof.
    destruct (decode_from n 0 (fun _ => []) [] ) as (st' & E & F); [lia|lia|reflexivity|].
    exists st'. split; [exact E|]. intros t. rewrite F. apply stack_n.
  Qed.
End Decoder.
