(* Generic facts about level assignments on a finite graph: lowering every vertex to its lowest free level
   keeps properness, never lowers the score and ends with every vertex at a level <= its degree. *)
From Coq Require Import String Ascii ZArith List Bool Arith Lia ZifyBool.
From RV Require Import Base.Val Gen.Common Model.Bpseq Model.Milp Proofs.Encode Proofs.Fcfs.
Import ListNotations.

Lemma find_first_from : forall (p : nat -> bool) len s f, find p (seq s len) = Some f ->
    s <= f /\ f < s + len /\ p f = true /\ forall o, s <= o -> o < f -> p o = false.
Proof.
  intros p. induction len as [|len IH]; intros s f H; [discriminate|]. cbn [seq find] in H.
  destruct (p s) eqn:Ps.
  - injection H as <-. repeat split; try lia; try assumption.
  - destruct (IH (S s) f H) as (A & B & C & D). repeat split; try lia; try assumption.
    intros o Ho Hlt. destruct (Nat.eq_dec o s) as [->|Hne]; [exact Ps|]. apply D; lia.
Qed.

(* pigeonhole: fewer used levels than levels => some level is free *)
Lemma first_free_exists : forall used levels, length used < levels -> exists f, first_free used levels = Some f.
Proof.
  intros used levels H. unfold first_free.
  destruct (find (fun o => negb (existsb (Nat.eqb o) used)) (seq 0 levels)) as [f|] eqn:E; [eauto|exfalso].
  assert (Hincl : incl (seq 0 levels) used).
  { intros o Ho. pose proof (find_none _ _ E o Ho) as Hn. cbn beta in Hn.
    apply negb_false_iff in Hn. apply existsb_exists in Hn.
    destruct Hn as (y & Hy & Heq). apply Nat.eqb_eq in Heq. subst. exact Hy. }
  pose proof (NoDup_incl_length (seq_NoDup levels 0) Hincl) as Hl. rewrite seq_length in Hl. lia.
Qed.

(* the free level found is the least one *)
Lemma first_free_least : forall used levels f, first_free used levels = Some f ->
    f < levels /\ ~ In f used /\ forall o, o < f -> In o used.
Proof.
  intros used levels f H. unfold first_free in H. apply find_first_from in H.
  destruct H as (_ & A & B & C). split; [lia|]. split.
  - intros Hin. apply negb_true_iff in B.
    assert (existsb (Nat.eqb f) used = true) by (apply existsb_exists; exists f; split; [exact Hin|apply Nat.eqb_refl]). congruence.
  - intros o Ho. specialize (C o (Nat.le_0_l _) Ho). apply negb_false_iff in C. apply existsb_exists in C.
    destruct C as (y & Hy & Heq). apply Nat.eqb_eq in Heq. subst. exact Hy.
Qed.

Section Graph.
  Variable adj : nat -> nat -> bool.
  Variable n : nat.
  Hypothesis adj_sym : forall i j, adj i j = adj j i.
  Hypothesis adj_irrefl : forall i, adj i i = false.

  Definition level (ord : list nat) (i : nat) : nat := nth i ord 0.
  Definition properP (ord : list nat) : Prop :=
    forall i j, i < n -> j < n -> adj i j = true -> level ord i <> level ord j.

  Definition nb_levels (ord : list nat) (i : nat) : list nat := map (level ord) (neighbours adj n i).

  Lemma in_neighbours : forall i j, In j (neighbours adj n i) <-> j < n /\ adj i j = true.
  Proof. intros i j. unfold neighbours. rewrite filter_In, in_seq. intuition lia. Qed.

  Lemma nb_levels_length : forall ord i, length (nb_levels ord i) = degree adj n i.
  Proof. intros. unfold nb_levels, degree. apply map_length. Qed.

  (* lowest level not taken by a neighbour, searched among degree+1 levels *)
  Definition lowest_free (ord : list nat) (i : nat) : nat :=
    match first_free (nb_levels ord i) (S (degree adj n i)) with Some f => f | None => level ord i end.

  Lemma lowest_free_spec : forall ord i, i < n -> properP ord ->
      lowest_free ord i <= degree adj n i /\ lowest_free ord i <= level ord i /\
      forall j, j < n -> adj i j = true -> level ord j <> lowest_free ord i.
  Proof.
    intros ord i Hi Hp. unfold lowest_free.
    destruct (first_free_exists (nb_levels ord i) (S (degree adj n i))) as [f Hf]; [rewrite nb_levels_length; lia|].
    rewrite Hf. apply first_free_least in Hf. destruct Hf as (A & B & C).
    split; [lia|]. split.
    - destruct (Nat.le_gt_cases f (level ord i)) as [L|G]; [exact L|exfalso].
      specialize (C (level ord i) G). unfold nb_levels in C. apply in_map_iff in C.
      destruct C as (j & Hj & Hin). apply in_neighbours in Hin. destruct Hin as [Hjn Hadj].
      apply (Hp i j Hi Hjn Hadj). symmetry. exact Hj.
    - intros j Hj Hadj E. apply B. unfold nb_levels. apply in_map_iff. exists j. split; [exact E|].
      apply in_neighbours. split; assumption.
  Qed.

  Lemma level_set_nth : forall ord i v j, i < length ord ->
      level (set_nth ord i v) j = if j =? i then v else level ord j.
  Proof.
    intros ord i v j Hi. unfold level. rewrite nth_set_nth.
    destruct (Nat.eqb_spec j i) as [->|Hne]; cbn [andb].
    - replace (i <? length ord) with true by (symmetry; apply Nat.ltb_lt; exact Hi). reflexivity.
    - reflexivity.
  Qed.

  (* move vertex i to its lowest free level *)
  Definition lower (ord : list nat) (i : nat) : list nat := set_nth ord i (lowest_free ord i).

  Lemma lower_proper : forall ord i, i < n -> length ord = n -> properP ord -> properP (lower ord i).
  Proof.
    intros ord i Hi Hlen Hp a b Ha Hb Hadj. unfold lower.
    destruct (lowest_free_spec ord i Hi Hp) as (_ & _ & Hfree).
    rewrite !level_set_nth by lia.
    destruct (Nat.eqb_spec a i) as [->|Hai], (Nat.eqb_spec b i) as [->|Hbi].
    - rewrite adj_irrefl in Hadj. discriminate.
    - intros E. apply (Hfree b Hb Hadj). symmetry. exact E.
    - rewrite adj_sym in Hadj. apply (Hfree a Ha Hadj).
    - apply Hp; assumption.
  Qed.

  Lemma lower_length : forall ord i, length (lower ord i) = length ord.
  Proof. intros. unfold lower. apply length_set_nth. Qed.

  (* one pass over all vertices *)
  Definition lower_all (ord : list nat) : list nat := fold_left lower (seq 0 n) ord.

  Lemma lower_pass : forall k ord, k <= n -> length ord = n -> properP ord ->
      let ord' := fold_left lower (seq 0 k) ord in
      length ord' = n /\ properP ord' /\
      (forall i, i < k -> level ord' i <= degree adj n i) /\
      (forall i, i < n -> level ord' i <= level ord i).
  Proof.
    induction k as [|k IH]; intros ord Hk Hlen Hp; cbn zeta.
    - cbn [seq fold_left]. repeat split; try assumption; intros; lia.
    - rewrite seq_S, fold_left_app. cbn [fold_left plus].
      destruct (IH ord (Nat.lt_le_incl _ _ Hk) Hlen Hp) as (L & P & D & M). cbn zeta in L, P, D, M.
      set (o1 := fold_left lower (seq 0 k) ord) in *.
      destruct (lowest_free_spec o1 k Hk P) as (A & B & _).
      split; [rewrite lower_length; exact L|]. split; [apply lower_proper; assumption|]. split.
      + intros i Hi. unfold lower. rewrite level_set_nth by lia.
        destruct (Nat.eqb_spec i k) as [->|Hne]; [exact A|]. apply D. lia.
      + intros i Hi. unfold lower. rewrite level_set_nth by lia.
        destruct (Nat.eqb_spec i k) as [->|Hne]; [specialize (M k Hi); lia|apply M; exact Hi].
  Qed.

  Theorem lower_all_spec : forall ord, length ord = n -> properP ord ->
      length (lower_all ord) = n /\ properP (lower_all ord) /\
      (forall i, i < n -> level (lower_all ord) i <= degree adj n i) /\
      (forall i, i < n -> level (lower_all ord) i <= level ord i).
  Proof. intros ord Hlen Hp. exact (lower_pass n ord (Nat.le_refl n) Hlen Hp). Qed.
End Graph.
