(* C15: the two PDB readers (parser.py, parser_v2.py) decode a line to the same residue identity, atom name and
   coordinates.  The column tables of the two readers are generated from their two source files. *)
From Coq Require Import String Ascii ZArith List Bool Arith Lia.
From RV Require Import Base.Val Base.PyStr Gen.Parser Gen.ParserV2 Model.Reader1 Model.PdbLine.
Import ListNotations.

Definition icode_text (o : option str) : str := match o with Some c => c | None => [space] end.

(* what the table-level reader reports, in terms of the residue-level reader's record *)
Definition agree (a : atom1) (p : parsed_rec) : Prop :=
  match a1_auth a with
  | Some id =>
      p_chain p = strip (i_chain id) /\ p_resseq p = Some (i_number id) /\ p_icode p = strip (icode_text (i_icode id)) /\
      p_resname p = i_resname id
  | None => False
  end /\
  p_name p = a1_name a /\
  (p_x p, p_y p, p_z p) = (Some (fst (fst (a1_pos a))), Some (snd (fst (a1_pos a))), Some (snd (a1_pos a))) /\
  p_occ p = a1_occ a /\ p_model p = a1_model a.

Lemma col_v1 : forall line,
    col line "name" = strip (colv1 line "name") /\ col line "resName" = strip (colv1 line "resName") /\
    col line "chainID" = strip (colv1 line "chainID") /\ col line "resSeq" = strip (colv1 line "resSeq") /\
    col line "iCode" = strip (colv1 line "iCode") /\ col line "x" = strip (colv1 line "x") /\ col line "y" = strip (colv1 line "y") /\
    col line "z" = strip (colv1 line "z") /\ col line "occupancy" = strip (colv1 line "occupancy") /\ col line "MODEL" = strip (colv1 line "MODEL").
Proof. intros line. repeat split; reflexivity. Qed.

Theorem readers_agree_on_line : forall m line a, decode_pdb_atom m line = Ok a -> agree a (parse_atom_line m line).
Proof.
  intros m line a H. unfold decode_pdb_atom in H. destruct (col_v1 line) as (Cn & Crn & Cc & Crs & Cic & Cx & Cy & Cz & Co & _).
  destruct (parse_z (strip (colv1 line "resSeq"))) as [n|] eqn:En; [|discriminate].
  destruct (parse_fixed 3 (strip (colv1 line "x"))) as [x|] eqn:Ex; [|discriminate].
  destruct (parse_fixed 3 (strip (colv1 line "y"))) as [y|] eqn:Ey; [|discriminate].
  destruct (parse_fixed 3 (strip (colv1 line "z"))) as [z|] eqn:Ez; [|discriminate].
  destruct (parse_fixed 2 (strip (colv1 line "occupancy"))) as [o|] eqn:Eo; [|discriminate].
  destruct (colv1 line "chainID") as [|c [|c2 cr]] eqn:Ec; try discriminate.
  destruct (colv1 line "iCode") as [|ic [|ic2 icr]] eqn:Ei; try discriminate.
  injection H as <-. unfold agree, parse_atom_line. cbn [a1_auth a1_name a1_pos a1_occ a1_model i_chain i_number i_icode i_resname
    p_chain p_resseq p_icode p_resname p_name p_x p_y p_z p_occ p_model fst snd].
  rewrite Cc, Crs, Cic, Crn, Cn, Cx, Cy, Cz, Co, En, Ex, Ey, Ez, Eo.
  repeat split.
  destruct (Ascii.eqb ic space) eqn:E; [apply Ascii.eqb_eq in E; subst; reflexivity|reflexivity].
Qed.

(* conversely: whenever the table-level reader finds all numbers on a line with a one-character chain and icode
   column, the residue-level reader decodes it *)
Theorem reader1_decodes_when_reader2_does : forall m line,
    p_resseq (parse_atom_line m line) <> None -> p_x (parse_atom_line m line) <> None -> p_y (parse_atom_line m line) <> None ->
    p_z (parse_atom_line m line) <> None -> p_occ (parse_atom_line m line) <> None -> 27 <= length line ->
    exists a, decode_pdb_atom m line = Ok a.
Proof.
  intros m line Hn Hx Hy Hz Ho Hl. unfold parse_atom_line in *. cbn [p_resseq p_x p_y p_z p_occ] in *.
  destruct (col_v1 line) as (_ & _ & _ & Crs & _ & Cx & Cy & Cz & Co & _). rewrite Crs in Hn. rewrite Cx in Hx. rewrite Cy in Hy. rewrite Cz in Hz. rewrite Co in Ho.
  unfold decode_pdb_atom.
  destruct (parse_z (strip (colv1 line "resSeq"))); [|contradiction]. destruct (parse_fixed 3 (strip (colv1 line "x"))); [|contradiction].
  destruct (parse_fixed 3 (strip (colv1 line "y"))); [|contradiction]. destruct (parse_fixed 3 (strip (colv1 line "z"))); [|contradiction].
  destruct (parse_fixed 2 (strip (colv1 line "occupancy"))); [|contradiction].
  assert (One : forall a, a < 27 -> exists c, substr line a (Datatypes.S a) = [c]).
  { intros a Ha. unfold substr. replace (Datatypes.S a - a) with 1 by lia. destruct (skipn a line) as [|c t] eqn:E.
    - assert (length (skipn a line) = 0) by (rewrite E; reflexivity). rewrite skipn_length in H. lia.
    - exists c. reflexivity. }
  change (colv1 line "chainID") with (substr line 21 22). change (colv1 line "iCode") with (substr line 26 27).
  destruct (One 21) as [c ->]; [lia|]. destruct (One 26) as [ic ->]; [lia|]. eexists. reflexivity.
Qed.

(* ---------------------------------------------------------------- whole files *)
(* the residue-level reader looks at the first characters of a line, the table-level reader at the stripped record-type
   column; a line is regular when the two views coincide (every line either reader is meant for) *)
Definition regular (line : str) : bool :=
  let rt := col line "record_type" in
  Bool.eqb (starts_with (list_ascii_of_string "MODEL") line) (str_eqb rt (list_ascii_of_string "MODEL")) &&
  Bool.eqb (starts_with (list_ascii_of_string "ATOM") line || starts_with (list_ascii_of_string "HETATM") line)
           (str_eqb rt (list_ascii_of_string "ATOM") || str_eqb rt (list_ascii_of_string "HETATM")).

Theorem readers_agree_on_file : forall lines m l, forallb regular lines = true -> decode_pdb m lines = Ok l ->
    Forall2 agree l (parse_lines m lines).
Proof.
  induction lines as [|line rest IH]; intros m l Hr H; cbn [decode_pdb parse_lines] in *; [injection H as <-; constructor|].
  cbn [forallb] in Hr. apply andb_true_iff in Hr. destruct Hr as [Hl Hr]. unfold regular in Hl. cbv zeta in Hl.
  apply andb_true_iff in Hl. destruct Hl as [R1 R2]. apply Bool.eqb_prop in R1, R2. rewrite <- R1, <- R2.
  destruct (starts_with (list_ascii_of_string "MODEL") line).
  - destruct (col_v1 line) as (_ & _ & _ & _ & _ & _ & _ & _ & _ & Cm). rewrite Cm.
    destruct (parse_z (strip (colv1 line "MODEL"))) as [m'|]; [|discriminate]. apply IH; assumption.
  - destruct (starts_with (list_ascii_of_string "ATOM") line || starts_with (list_ascii_of_string "HETATM") line).
    + destruct (decode_pdb_atom m line) as [a|e] eqn:Ea; [|discriminate]. destruct (decode_pdb m rest) as [l'|e] eqn:El; [|discriminate]. injection H as <-.
      constructor; [apply readers_agree_on_line; exact Ea|apply IH; [exact Hr|exact El]].
    + apply IH; assumption.
Qed.
