(* C09: the record layout of write_pdb.  The written file is exactly: for every maximal run of atoms with one model number,
   MODEL n, then for every maximal run of atoms with one chain id inside it the atom lines followed by one TER record built
   from the run's last atom, then ENDMDL; and END at the end of the file. *)
From Coq Require Import String Ascii ZArith List Bool Arith Lia.
From RV Require Import Base.Val Base.PyStr Gen.ParserV2 Model.PdbLine Model.Group2.
Import ListNotations.

Definition same_model (a b : atom_rec) : bool := (ar_model a =? ar_model b)%Z.
Definition same_chain (a b : atom_rec) : bool := str_eqb (ar_chain a) (ar_chain b).

(* models, and chains inside each model: maximal runs in file order *)
Definition blocks (l : list atom_rec) : list (list (list atom_rec)) := map (group_adj same_chain) (group_adj same_model l).

Definition ter_of (a : atom_rec) : str := ter_line (ar_serial a) (ar_resname a) (ar_chain a) (ar_resseq a) (ar_icode a).
Definition render_chain (run : list atom_rec) : list str :=
  match run with [] => [] | a :: _ => map format_line run ++ [ter_of (last run a)] end.
Definition render_model (mb : list (list atom_rec)) : list str :=
  match mb with
  | (a :: _) :: _ => [model_line (ar_model a)] ++ flat_map render_chain mb ++ [list_ascii_of_string "ENDMDL"]
  | _ => []
  end.
Definition render (l : list atom_rec) : list str := flat_map render_model (blocks l) ++ [list_ascii_of_string "END"].

(* the same text, told atom by atom: what follows atom p *)
Fixpoint rt (p : atom_rec) (l : list atom_rec) : list str :=
  match l with
  | [] => [ter_of p; list_ascii_of_string "ENDMDL"; list_ascii_of_string "END"]
  | a :: rest =>
      (if same_model p a then (if same_chain p a then [] else [ter_of p])
       else [ter_of p; list_ascii_of_string "ENDMDL"; model_line (ar_model a)]) ++ [format_line a] ++ rt a rest
  end.

Definition st_of (p : atom_rec) : wstate :=
  {| w_model := Some (ar_model p); w_chain := Some (ar_chain p); w_res := (ar_resseq p, ar_icode p, ar_resname p); w_serial := ar_serial p |}.

Lemma write_go_rt : ter_before_every_endmdl = true -> forall l p, write_go (st_of p) l = rt p l.
Proof.
  intros Hter. induction l as [|a rest IH]; intros p.
  - reflexivity.
  - cbn [rt]. unfold st_of. cbn [write_go w_model w_chain w_res w_serial]. unfold same_model, same_chain.
    destruct (ar_model p =? ar_model a)%Z eqn:M; cbn [negb w_model w_chain w_res w_serial app].
    + apply Z.eqb_eq in M. rewrite M. destruct (str_eqb (ar_chain p) (ar_chain a)) eqn:C; cbn [app].
      * f_equal. apply (IH a).
      * unfold close_chain. cbn [w_chain w_res w_serial app]. unfold ter_of. f_equal. f_equal. apply (IH a).
    + rewrite Hter. unfold close_chain. cbn [w_chain w_res w_serial w_model app]. unfold ter_of. f_equal. f_equal. f_equal. f_equal. apply (IH a).
Qed.

Lemma write_pdb_rt : ter_before_every_endmdl = true -> forall a rest,
    write_pdb (a :: rest) = [model_line (ar_model a); format_line a] ++ rt a rest.
Proof.
  intros Hter a rest. unfold write_pdb. cbn [write_go w_model w_chain w_res w_serial negb app]. f_equal. f_equal.
  apply (write_go_rt Hter rest a).
Qed.

(* ---------------------------------------------------------------- the block structure *)
Lemma group_adj_cons2 : forall (T : Type) (same : T -> T -> bool) a b rest,
    exists g gs, group_adj same (b :: rest) = (b :: g) :: gs /\
                 group_adj same (a :: b :: rest) = if same a b then (a :: b :: g) :: gs else [a] :: (b :: g) :: gs.
Proof.
  intros T same a b rest.
  assert (H : exists g gs, group_adj same (b :: rest) = (b :: g) :: gs).
  { cbn [group_adj]. destruct (group_adj same rest) as [|[|c g] gs]; [eexists [], []; reflexivity|eexists [], _; reflexivity|].
    destruct (same b c); eexists _, _; reflexivity. }
  destruct H as (g & gs & E). exists g, gs. split; [exact E|].
  change (group_adj same (a :: b :: rest)) with (match group_adj same (b :: rest) with
        | (b0 :: g0) :: gs0 => if same a b0 then (a :: b0 :: g0) :: gs0 else [a] :: (b0 :: g0) :: gs0
        | [] :: gs0 => [a] :: gs0 | [] => [[a]] end).
  rewrite E. reflexivity.
Qed.

Lemma same_model_eq : forall a b, same_model a b = true -> ar_model a = ar_model b.
Proof. intros a b H. apply Z.eqb_eq. exact H. Qed.

Lemma last_irrel : forall (A : Type) (l : list A) c a b, last (c :: l) a = last (c :: l) b.
Proof. intros A. induction l as [|x l IH]; intros c a b; [reflexivity|]. cbn [last]. apply (IH x). Qed.

Lemma render_chain_cons : forall a b h, render_chain (a :: b :: h) = format_line a :: render_chain (b :: h).
Proof.
  intros a b h. unfold render_chain. cbn [map app]. f_equal. f_equal. f_equal.
  change (last (a :: b :: h) a) with (last (b :: h) a). rewrite (last_irrel _ h b a b). reflexivity.
Qed.

Definition body (mb : list (list atom_rec)) : list str := flat_map render_chain mb ++ [list_ascii_of_string "ENDMDL"].

Lemma render_model_body : forall a g mb, render_model ((a :: g) :: mb) = model_line (ar_model a) :: body ((a :: g) :: mb).
Proof. reflexivity. Qed.

Lemma body_join : forall a b h hs, body ((a :: b :: h) :: hs) = format_line a :: body ((b :: h) :: hs).
Proof. intros. unfold body. cbn [flat_map]. rewrite render_chain_cons. reflexivity. Qed.

Lemma body_new_chain : forall a mb, body ([a] :: mb) = format_line a :: ter_of a :: body mb.
Proof. intros. reflexivity. Qed.

Lemma render_rt : forall rest a, render (a :: rest) = [model_line (ar_model a); format_line a] ++ rt a rest.
Proof.
  induction rest as [|b rest IH]; intros a.
  - reflexivity.
  - specialize (IH b). unfold render, blocks in *.
    destruct (group_adj_cons2 _ same_model a b rest) as (g & gs & Eb & Ea). rewrite Ea. rewrite Eb in IH.
    destruct (group_adj_cons2 _ same_chain a b g) as (h & hs & Fb & Fa).
    cbn [map flat_map] in IH. rewrite Fb, render_model_body in IH.
    set (X := flat_map render_model (map (group_adj same_chain) gs) ++ [list_ascii_of_string "END"]) in *.
    assert (IH' : body ((b :: h) :: hs) ++ X = format_line b :: rt b rest).
    { rewrite <- app_assoc in IH. fold X in IH.
      change ((model_line (ar_model b) :: body ((b :: h) :: hs)) ++ X) with (model_line (ar_model b) :: (body ((b :: h) :: hs) ++ X)) in IH.
      change ([model_line (ar_model b); format_line b] ++ rt b rest) with (model_line (ar_model b) :: format_line b :: rt b rest) in IH.
      apply (f_equal (@tl str)) in IH. exact IH. }
    cbn [rt]. destruct (same_model a b) eqn:M.
    + cbn [map flat_map]. rewrite Fa. fold X. rewrite (same_model_eq a b M).
      destruct (same_chain a b) eqn:C.
      * rewrite render_model_body, body_join. rewrite (same_model_eq a b M). rewrite <- app_assoc. fold X. cbn [app]. rewrite IH'. reflexivity.
      * rewrite render_model_body, body_new_chain. rewrite (same_model_eq a b M). rewrite <- app_assoc. fold X. cbn [app]. rewrite IH'. reflexivity.
    + cbn [map flat_map]. change (group_adj same_chain [a]) with [[a]]. rewrite Fb. rewrite (render_model_body a [] []), body_new_chain, (render_model_body b h hs).
      unfold body at 1. cbn [flat_map app]. fold X. rewrite <- app_assoc. fold X.
      change ((model_line (ar_model b) :: body ((b :: h) :: hs)) ++ X) with (model_line (ar_model b) :: (body ((b :: h) :: hs) ++ X)).
      rewrite IH'. reflexivity.
Qed.

(* the written file has exactly the block layout *)
Theorem write_pdb_layout : ter_before_every_endmdl = true -> forall l, write_pdb l = render l.
Proof.
  intros Hter [|a rest]; [reflexivity|]. rewrite (write_pdb_rt Hter), render_rt. reflexivity.
Qed.
