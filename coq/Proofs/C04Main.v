(* C04: the stacking list is the geometric definition applied to the neighbour pairs, each pair once, ordered. *)
From Coq Require Import String Ascii ZArith QArith List Bool Arith Lia Permutation Sorted.
From RV Require Import Base.Val Base.PyStr Gen.Common Gen.Annot Model.Geom Model.AllDb Model.Annot Proofs.SortGen Proofs.SortStr.
Import ListNotations.
Local Close Scope Q_scope.

Definition entries (rs : list res3) (order : list (nat * nat)) : list (nat * nat * string) :=
  flat_map (fun r => match fst r with Some e => [e] | None => [] end) (map (stack_pair rs (centres rs)) order).

Lemma stack_pair_bounds : forall rs cs ab e, fst (stack_pair rs cs ab) = Some e -> fst ab < length cs /\ snd ab < length cs.
Proof.
  intros rs cs ab e H. unfold stack_pair in H.
  destruct (nth_error cs (fst ab)) as [[i [si ki]]|] eqn:A; [|discriminate].
  destruct (nth_error cs (snd ab)) as [[j [sj kj]]|] eqn:B; [|discriminate].
  split; apply nth_error_Some; congruence.
Qed.

Theorem reported_iff : forall rs order e, (forall ab, In ab order -> fst ab < snd ab) ->
    (In e (so_stackings (find_stackings rs order)) <->
     exists ab, In ab order /\ fst (stack_pair rs (centres rs) ab) = Some e).
Proof.
  intros rs order e Hlt. unfold find_stackings. cbv zeta.
  destruct (length (centres rs) <? 2) eqn:L.
  - cbn [so_stackings]. split; [intros []|]. intros (ab & Hin & H). apply stack_pair_bounds in H. specialize (Hlt ab Hin).
    apply Nat.ltb_lt in L. lia.
  - cbn [so_stackings]. rewrite stable_sort_in, in_flat_map. split.
    + intros (r & Hr & He). apply in_map_iff in Hr. destruct Hr as (ab & <- & Hab). exists ab. split; [exact Hab|].
      destruct (fst (stack_pair rs (centres rs) ab)) as [e'|]; [|destruct He]. destruct He as [->|[]]. reflexivity.
    + intros (ab & Hab & H). exists (stack_pair rs (centres rs) ab). split; [apply in_map; exact Hab|]. rewrite H. left. reflexivity.
Qed.

(* what one neighbour pair contributes, in terms of the two decisions *)
Definition parallel (ni nj : vecZ) : tri := cos2_atleast cos2_normals_lo cos2_normals_hi ni nj.
Definition along (v ni nj : vecZ) : tri :=
  tri_or (angle_atmost cos2_vector_lo cos2_vector_hi v ni) (angle_atmost cos2_vector_lo cos2_vector_hi v nj).
Definition entry_of (i j : nat) (ri rj : res3) (ni nj : vecZ) : nat * nat * string :=
  if res_ltb ri rj then (i, j, if (0 <? dotZ ni nj)%Z then "upward" else "inward")%string
  else (j, i, if (0 <? dotZ ni nj)%Z then "downward" else "outward")%string.

Theorem stack_pair_decisions : forall rs cs a b i si ki j sj kj ri rj ni nj,
    nth_error cs a = Some (i, (si, ki)) -> nth_error cs b = Some (j, (sj, kj)) ->
    nth_error rs i = Some ri -> nth_error rs j = Some rj -> base_normal ri = Some ni -> base_normal rj = Some nj ->
    stack_pair rs cs (a, b) =
      match parallel ni nj, along (vsubZ (scale kj si) (scale ki sj)) ni nj with
      | No, _ => (None, false)
      | Near, No => (None, true)
      | Yes, No => (None, false)
      | Yes, Yes => (Some (entry_of i j ri rj ni nj), false)
      | _, _ => (Some (entry_of i j ri rj ni nj), true)
      end.
Proof.
  intros rs cs a b i si ki j sj kj ri rj ni nj A B Ri Rj Ni Nj. unfold stack_pair. cbn [fst snd].
  rewrite A, B, Ri, Rj, Ni, Nj. fold (parallel ni nj). cbv zeta. fold (along (vsubZ (scale kj si) (scale ki sj)) ni nj).
  unfold entry_of. destruct (parallel ni nj), (along (vsubZ (scale kj si) (scale ki sj)) ni nj); reflexivity.
Qed.

(* a pair is skipped silently only when data are missing *)
Theorem stack_pair_missing : forall rs cs a b,
    (forall i si ki j sj kj ri rj ni nj,
        nth_error cs a = Some (i, (si, ki)) -> nth_error cs b = Some (j, (sj, kj)) ->
        nth_error rs i = Some ri -> nth_error rs j = Some rj -> base_normal ri = Some ni -> base_normal rj = Some nj -> False) ->
    stack_pair rs cs (a, b) = (None, false).
Proof.
  intros rs cs a b H. unfold stack_pair. cbn [fst snd].
  destruct (nth_error cs a) as [[i [si ki]]|] eqn:A; [|reflexivity].
  destruct (nth_error cs b) as [[j [sj kj]]|] eqn:B; [|reflexivity].
  destruct (nth_error rs i) as [ri|] eqn:Ri; [|reflexivity]. destruct (nth_error rs j) as [rj|] eqn:Rj; [|reflexivity].
  destruct (base_normal ri) as [ni|] eqn:Ni; [|reflexivity]. destruct (base_normal rj) as [nj|] eqn:Nj; [|reflexivity].
  exfalso. eapply H; eauto.
Qed.

(* ---------------------------------------------------------------- centres: residue indices strictly increase *)
Lemma centres_increasing : forall rs, StronglySorted lt (map fst (centres rs)).
Proof.
  intros rs. unfold centres. generalize 0. induction rs as [|r rs IH]; intros s; [constructor|].
  cbn [length seq combine flat_map]. cbn [fst snd].
  assert (Lb : forall s x, In x (map fst (flat_map (fun ir : nat * res3 => match centroid (snd ir) with Some c => [(fst ir, c)] | None => [] end)
                                              (combine (seq s (length rs)) rs))) -> s <= x).
  { clear. induction rs as [|r rs IH]; intros s x H; [destruct H|]. cbn [length seq combine flat_map] in H. cbn [fst snd] in H.
    rewrite map_app in H. apply in_app_or in H. destruct H as [H|H].
    - destruct (centroid r); [|destruct H]. destruct H as [<-|[]]. cbn [fst]. apply Nat.le_refl.
    - apply IH in H. lia. }
  destruct (centroid r) as [c|]; cbn [app map fst]; [|apply IH].
  constructor; [apply IH|]. apply Forall_forall. intros x Hx. apply Lb in Hx. lia.
Qed.

Lemma ssorted_nth_lt : forall l a b x y, StronglySorted lt l -> a < b -> nth_error l a = Some x -> nth_error l b = Some y -> x < y.
Proof.
  induction l as [|h t IH]; intros a b x y H Hab Ha Hb; [destruct a; discriminate|].
  inversion H as [|? ? Ht Hall]; subst. destruct b as [|b]; [lia|]. cbn in Hb. destruct a as [|a]; cbn in Ha.
  - injection Ha as <-. rewrite Forall_forall in Hall. apply Hall. eapply nth_error_In. exact Hb.
  - apply (IH a b x y Ht); [lia|exact Ha|exact Hb].
Qed.

Lemma ssorted_nth_inj : forall l a b x, StronglySorted lt l -> nth_error l a = Some x -> nth_error l b = Some x -> a = b.
Proof.
  intros l a b x H Ha Hb. destruct (Nat.lt_trichotomy a b) as [L|[E|L]]; [|exact E|].
  - pose proof (ssorted_nth_lt l a b x x H L Ha Hb). lia.
  - pose proof (ssorted_nth_lt l b a x x H L Hb Ha). lia.
Qed.

(* the residue indices an entry names are those of its centres, lower centre index = lower residue index *)
Lemma stack_pair_ends : forall rs ab e, fst (stack_pair rs (centres rs) ab) = Some e ->
    exists i j, nth_error (map fst (centres rs)) (fst ab) = Some i /\ nth_error (map fst (centres rs)) (snd ab) = Some j /\
                ((fst (fst e) = i /\ snd (fst e) = j) \/ (fst (fst e) = j /\ snd (fst e) = i)).
Proof.
  intros rs ab e H. unfold stack_pair in H.
  destruct (nth_error (centres rs) (fst ab)) as [[i [si ki]]|] eqn:A; [|discriminate].
  destruct (nth_error (centres rs) (snd ab)) as [[j [sj kj]]|] eqn:B; [|discriminate].
  exists i, j. rewrite !nth_error_map, A, B. cbn [option_map fst]. split; [reflexivity|]. split; [reflexivity|].
  destruct (nth_error rs i) as [ri|]; [|discriminate]. destruct (nth_error rs j) as [rj|]; [|discriminate].
  destruct (base_normal ri) as [ni|]; [|discriminate]. destruct (base_normal rj) as [nj|]; [|discriminate].
  destruct (cos2_atleast cos2_normals_lo cos2_normals_hi ni nj); cbv zeta in H;
    try (destruct (tri_or _ _); cbn [fst] in H; try discriminate; injection H as <-; destruct (res_ltb ri rj); cbn; auto).
  discriminate.
Qed.

(* each neighbour pair gives at most one entry and different neighbour pairs name different residue pairs *)
Theorem reported_once : forall rs order, NoDup order -> (forall ab, In ab order -> fst ab < snd ab) ->
    NoDup (map fst (so_stackings (find_stackings rs order))).
Proof.
  intros rs order N Hlt.
  assert (P : Permutation (so_stackings (find_stackings rs order)) (if length (centres rs) <? 2 then [] else entries rs order)).
  { unfold find_stackings. cbv zeta. destruct (length (centres rs) <? 2); [apply Permutation_refl|]. cbn [so_stackings]. apply stable_sort_perm. }
  apply (Permutation_NoDup (Permutation_map fst (Permutation_sym P))).
  destruct (length (centres rs) <? 2); [constructor|]. clear P.
  pose proof (centres_increasing rs) as Inc. unfold entries.
  induction order as [|ab order IH]; [constructor|].
  inversion N as [|? ? Hn N']; subst. cbn [map flat_map]. rewrite map_app.
  assert (IH' : NoDup (map fst (flat_map (fun r => match fst r with Some e => [e] | None => [] end) (map (stack_pair rs (centres rs)) order)))).
  { apply IH; [exact N'|]. intros x Hx. apply Hlt. right. exact Hx. }
  destruct (fst (stack_pair rs (centres rs) ab)) as [e|] eqn:E; [|exact IH']. cbn [map app]. constructor; [|exact IH'].
  intros Hin. apply in_map_iff in Hin. destruct Hin as (e' & Ee & Hin). apply in_flat_map in Hin. destruct Hin as (r & Hr & He').
  apply in_map_iff in Hr. destruct Hr as (ab' & <- & Hab').
  destruct (fst (stack_pair rs (centres rs) ab')) as [e''|] eqn:E'; [|destruct He']. destruct He' as [->|[]].
  apply Hn. assert (ab' = ab); [|subst; exact Hab'].
  destruct (stack_pair_ends rs ab e E) as (i & j & A & B & C). destruct (stack_pair_ends rs ab' e' E') as (i' & j' & A' & B' & C').
  pose proof (Hlt ab (or_introl eq_refl)) as L. pose proof (Hlt ab' (or_intror Hab')) as L'.
  pose proof (ssorted_nth_lt _ _ _ _ _ Inc L A B) as Lij. pose proof (ssorted_nth_lt _ _ _ _ _ Inc L' A' B') as Lij'.
  assert (i' = i /\ j' = j) as [-> ->].
  { destruct e as [[x y] t], e' as [[x' y'] t']. cbn [fst snd] in *. injection Ee as -> ->.
    destruct C as [[-> ->]|[-> ->]], C' as [[-> ->]|[-> ->]]; try (split; reflexivity); lia. }
  destruct ab as [a b], ab' as [a' b']. cbn [fst snd] in *. f_equal; eapply ssorted_nth_inj; eassumption.
Qed.

(* ---------------------------------------------------------------- ordered *)
Lemma zltb_asym : forall a b, (a <? b)%Z = true -> (b <? a)%Z = false.
Proof. intros a b H. apply Z.ltb_lt in H. apply Z.ltb_ge. lia. Qed.

Lemma res_ltb_asym : forall a b, res_ltb a b = true -> res_ltb b a = false.
Proof.
  intros a b H. unfold res_ltb in *.
  destruct (r_model a <? r_model b)%Z eqn:M1; [rewrite (zltb_asym _ _ M1); reflexivity|].
  destruct (r_model b <? r_model a)%Z eqn:M2; [discriminate|].
  destruct (str_ltb (r_chain a) (r_chain b)) eqn:C1; [rewrite (sltb_asym _ _ C1); reflexivity|].
  destruct (str_ltb (r_chain b) (r_chain a)) eqn:C2; [discriminate|].
  destruct (r_number a <? r_number b)%Z eqn:N1; [rewrite (zltb_asym _ _ N1); reflexivity|].
  destruct (r_number b <? r_number a)%Z eqn:N2; [discriminate|].
  apply sltb_asym. exact H.
Qed.

Lemma stack_ltb_asym : forall rs a b, stack_ltb rs a b = true -> stack_ltb rs b a = false.
Proof.
  intros rs [[i1 j1] t1] [[i2 j2] t2] H. unfold stack_ltb in *.
  destruct (nth_error rs i1) as [ri1|]; [|discriminate]. destruct (nth_error rs i2) as [ri2|]; [|discriminate].
  destruct (nth_error rs j1) as [rj1|]; [|discriminate]. destruct (nth_error rs j2) as [rj2|]; [|discriminate].
  rewrite (Nat.eqb_sym i2 i1). destruct (i1 =? i2); [|apply res_ltb_asym; exact H].
  rewrite (Nat.eqb_sym j2 j1). destruct (j1 =? j2); [apply sltb_asym; exact H|apply res_ltb_asym; exact H].
Qed.

(* never descending: no entry is followed by one that sorts strictly before it (first residue, then second, by
   model/chain/number/insertion code) *)
Theorem reported_sorted : forall rs order,
    LocallySorted (fun x y => stack_ltb rs y x = false) (so_stackings (find_stackings rs order)).
Proof.
  intros rs order. unfold find_stackings. cbv zeta. destruct (length (centres rs) <? 2); [constructor|]. cbn [so_stackings].
  apply (stable_sort_sorted (stack_ltb rs) (stack_ltb_asym rs)).
Qed.

(* every entry lists the residue that sorts first first *)
Theorem entry_lower_first : forall i j ri rj ni nj, res_ltb rj ri = true ->
    entry_of i j ri rj ni nj = (j, i, if (0 <? dotZ ni nj)%Z then "downward" else "outward")%string.
Proof. intros. unfold entry_of. rewrite (res_ltb_asym _ _ H). reflexivity. Qed.

(* ---------------------------------------------------------------- the neighbour set the KD-tree is validated against *)
Lemma combine_seq_nth : forall (A : Type) (l : list A) s k x, In (k, x) (combine (seq s (length l)) l) -> s <= k /\ nth_error l (k - s) = Some x.
Proof.
  intros A. induction l as [|y l IH]; intros s k x H; [destruct H|]. cbn [length seq combine] in H. destruct H as [H|H].
  - injection H as <- <-. rewrite Nat.sub_diag. split; [lia|reflexivity].
  - apply IH in H. destruct H as [L E]. split; [lia|]. replace (k - s) with (Datatypes.S (k - Datatypes.S s)) by lia. exact E.
Qed.

Lemma nodup_flat_map : forall (A B : Type) (f : A -> list B) (l : list A),
    NoDup l -> (forall a, In a l -> NoDup (f a)) -> (forall a a' x, In a l -> In a' l -> In x (f a) -> In x (f a') -> a = a') ->
    NoDup (flat_map f l).
Proof.
  intros A B f. induction l as [|a l IH]; intros N Hf Hd; [constructor|]. cbn [flat_map]. inversion N as [|? ? Hn N']; subst.
  assert (G : forall l1 l2 : list B, NoDup l1 -> NoDup l2 -> (forall x, In x l1 -> ~ In x l2) -> NoDup (l1 ++ l2)).
  { induction l1 as [|x l1 IH1]; intros l2 N1 N2 D; [exact N2|]. inversion N1; subst. cbn. constructor.
    - intros Hin. apply in_app_or in Hin. destruct Hin as [Hin|Hin]; [contradiction|]. apply (D x (or_introl eq_refl)). exact Hin.
    - apply IH1; try assumption. intros y Hy. apply D. right. exact Hy. }
  apply G.
  - apply Hf. left. reflexivity.
  - apply IH; [exact N'|intros b Hb; apply Hf; right; exact Hb|]. intros b b' x Hb Hb'. apply Hd; right; assumption.
  - intros x Hx Hin. apply in_flat_map in Hin. destruct Hin as (b & Hb & Hxb).
    assert (a = b) by (apply (Hd a b x); [left; reflexivity|right; exact Hb|exact Hx|exact Hxb]). subst b. contradiction.
Qed.

Lemma combine_seq_nodup : forall (A : Type) (l : list A) s, NoDup (combine (seq s (length l)) l).
Proof.
  intros A. induction l as [|y l IH]; intros s; [constructor|]. cbn [length seq combine]. constructor; [|apply IH].
  intros H. apply combine_seq_nth in H. lia.
Qed.

Theorem neighbours_ok : forall rs, NoDup (stacking_neighbours rs) /\ forall ab, In ab (stacking_neighbours rs) -> fst ab < snd ab.
Proof.
  intros rs. unfold stacking_neighbours. cbv zeta. set (L := combine (seq 0 (length (centres rs))) (centres rs)).
  assert (NL : NoDup L) by apply combine_seq_nodup.
  assert (Fst : forall a b, In a L -> In b L -> fst a = fst b -> a = b).
  { intros [ia x] [ib y] Ha Hb E. cbn in E. subst ib. apply combine_seq_nth in Ha, Hb. destruct Ha as [_ Ha], Hb as [_ Hb]. congruence. }
  split.
  - apply nodup_flat_map; [exact NL| |].
    + intros a Ha. apply nodup_flat_map; [exact NL| |].
      * intros b _. destruct a as [ia [i [si ki]]], b as [jb [j [sj kj]]]. destruct (_ && _); [constructor; [intros []|constructor]|constructor].
      * intros b b' x Hb Hb' Hx Hx'. destruct a as [ia [i [si ki]]], b as [jb [j [sj kj]]], b' as [jb' [j' [sj' kj']]].
        destruct (_ && _) in Hx; [|destruct Hx]. destruct (_ && _) in Hx'; [|destruct Hx']. destruct Hx as [<-|[]]. destruct Hx' as [E|[]].
        apply Fst; try assumption. cbn. congruence.
    + intros a a' x Ha Ha' Hx Hx'. apply in_flat_map in Hx, Hx'. destruct Hx as (b & Hb & Hx). destruct Hx' as (b' & Hb' & Hx').
      destruct a as [ia [i [si ki]]], b as [jb [j [sj kj]]], a' as [ia' [i' [si' ki']]], b' as [jb' [j' [sj' kj']]].
      destruct (_ && _) in Hx; [|destruct Hx]. destruct (_ && _) in Hx'; [|destruct Hx']. destruct Hx as [<-|[]]. destruct Hx' as [E|[]].
      apply Fst; try assumption. cbn. congruence.
  - intros ab H. apply in_flat_map in H. destruct H as (a & Ha & H). apply in_flat_map in H. destruct H as (b & Hb & H).
    destruct a as [ia [i [si ki]]], b as [jb [j [sj kj]]]. destruct (ia <? jb) eqn:E; cbn [andb] in H; [|destruct H].
    destruct (Qle_bool _ _); [|destruct H]. destruct H as [<-|[]]. cbn. apply Nat.ltb_lt. exact E.
Qed.

(* with the order being any arrangement of the true neighbour set *)
Corollary reported_iff_neighbours : forall rs order e, Permutation order (stacking_neighbours rs) ->
    (In e (so_stackings (find_stackings rs order)) <->
     exists ab, In ab (stacking_neighbours rs) /\ fst (stack_pair rs (centres rs) ab) = Some e).
Proof.
  intros rs order e P. destruct (neighbours_ok rs) as [N L].
  rewrite reported_iff by (intros ab H; apply L; apply (Permutation_in _ P); exact H).
  split; intros (ab & H & E); exists ab; (split; [|exact E]); [apply (Permutation_in _ P)|apply (Permutation_in _ (Permutation_sym P))]; exact H.
Qed.

Corollary reported_once_neighbours : forall rs order, Permutation order (stacking_neighbours rs) ->
    NoDup (map fst (so_stackings (find_stackings rs order))).
Proof.
  intros rs order P. destruct (neighbours_ok rs) as [N L]. apply reported_once.
  - apply (Permutation_NoDup (Permutation_sym P)). exact N.
  - intros ab H. apply L. apply (Permutation_in _ P). exact H.
Qed.

(* the list does not depend on the order in which the neighbour pairs arrive, up to the position of equal-ranking entries:
   it is always a permutation of the same entries *)
Corollary reported_order_independent : forall rs o1 o2, Permutation o1 o2 ->
    Permutation (so_stackings (find_stackings rs o1)) (so_stackings (find_stackings rs o2)).
Proof.
  intros rs o1 o2 P. unfold find_stackings. cbv zeta. destruct (length (centres rs) <? 2); [apply Permutation_refl|]. cbn [so_stackings].
  eapply Permutation_trans; [apply stable_sort_perm|]. eapply Permutation_trans; [|apply Permutation_sym; apply stable_sort_perm].
  apply Permutation_flat_map. apply Permutation_map. exact P.
Qed.
