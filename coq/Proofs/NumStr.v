(* Decimal text of numbers: printing then parsing is the identity; lengths. *)
From Coq Require Import String Ascii ZArith NArith List Bool Arith Lia DecimalString DecimalN DecimalPos DecimalFacts Decimal.
From RV Require Import Base.PyStr.
Import ListNotations.

Definition chars (d : uint) : str := list_ascii_of_string (NilEmpty.string_of_uint d).

Fixpoint uval (d : uint) (acc : N) : N :=
  match d with
  | Nil => acc
  | D0 l => uval l (acc * 10 + 0) | D1 l => uval l (acc * 10 + 1) | D2 l => uval l (acc * 10 + 2) | D3 l => uval l (acc * 10 + 3)
  | D4 l => uval l (acc * 10 + 4) | D5 l => uval l (acc * 10 + 5) | D6 l => uval l (acc * 10 + 6) | D7 l => uval l (acc * 10 + 7)
  | D8 l => uval l (acc * 10 + 8) | D9 l => uval l (acc * 10 + 9)
  end%N.

Lemma digits_val_chars : forall d acc, digits_val (chars d) acc = Some (uval d acc).
Proof. induction d; intros acc; cbn [uval]; [reflexivity|..]; unfold chars in *; cbn [NilEmpty.string_of_uint list_ascii_of_string digits_val]; cbn; apply IHd. Qed.

Lemma all_digits_chars : forall d, forallb is_digit_char (chars d) = true.
Proof. induction d; unfold chars in *; cbn [NilEmpty.string_of_uint list_ascii_of_string forallb]; [reflexivity|..]; rewrite IHd; reflexivity. Qed.

Lemma uval_acc_pos : forall d p, uval d (Npos p) = Npos (Pos.of_uint_acc d p).
Proof. induction d; intros p; cbn [uval Pos.of_uint_acc]; [reflexivity|..]; rewrite <- IHd; f_equal; lia. Qed.

Lemma uval_of_uint : forall d, uval d 0 = Pos.of_uint d.
Proof.
  induction d; cbn [uval Pos.of_uint]; [reflexivity|exact IHd|..];
    match goal with |- uval ?l ?a = _ => replace a with (Npos (Pos.of_succ_nat (N.to_nat a - 1))) by (cbn; reflexivity) end;
    cbn; apply uval_acc_pos.
Qed.

Lemma to_uint_not_nil : forall n, N.to_uint n <> Nil.
Proof. intros [|p]; cbn; [discriminate|apply Unsigned.to_uint_nonnil]. Qed.

Lemma n_str_chars : forall n, n_str n = chars (N.to_uint n).
Proof.
  intros n. unfold n_str, chars, NilZero.string_of_uint. pose proof (to_uint_not_nil n) as H.
  destruct (N.to_uint n); [contradiction|..]; reflexivity.
Qed.

Theorem digits_val_n_str : forall n, digits_val (n_str n) 0 = Some n.
Proof.
  intros n. rewrite n_str_chars, digits_val_chars, uval_of_uint. f_equal.
  change (Pos.of_uint (N.to_uint n)) with (N.of_uint (N.to_uint n)). apply DecimalN.Unsigned.of_to.
Qed.

Theorem n_str_digits : forall n, forallb is_digit_char (n_str n) = true /\ n_str n <> [].
Proof.
  intros n. rewrite n_str_chars. split; [apply all_digits_chars|]. pose proof (to_uint_not_nil n) as H.
  unfold chars. destruct (N.to_uint n); [contradiction|..]; discriminate.
Qed.

(* ---------------------------------------------------------------- integers *)
Lemma digit_not_sign : forall c, is_digit_char c = true -> Ascii.eqb c "-"%char = false /\ Ascii.eqb c "+"%char = false /\ Ascii.eqb c "."%char = false /\ is_space_char c = false.
Proof.
  intros c H. unfold is_digit_char in H. cbv zeta in H. apply andb_true_iff in H. destruct H as [H1 H2]. apply Nat.leb_le in H1, H2.
  assert (G : forall k, k < 256 -> k < 48 \/ 57 < k -> Ascii.eqb c (ascii_of_nat k) = false).
  { intros k L Hk. apply Ascii.eqb_neq. intros ->. rewrite nat_ascii_embedding in H1, H2 by exact L. lia. }
  repeat split; [apply (G 45); lia|apply (G 43); lia|apply (G 46); lia|].
  unfold is_space_char. cbv zeta. repeat (apply orb_false_iff; split); try (apply andb_false_iff); try (apply Nat.eqb_neq; lia).
  - right. apply Nat.leb_gt. lia.
  - right. apply Nat.leb_gt. lia.
Qed.

Theorem parse_z_z_str : forall v, parse_z (z_str v) = Some v.
Proof.
  intros v. unfold z_str. destruct (n_str_digits (Z.abs_N v)) as [D NE].
  destruct (v <? 0)%Z eqn:E.
  - change (parse_z ("-"%char :: n_str (Z.abs_N v)) = Some v). unfold parse_z. change (Ascii.eqb "-" "-") with true. cbv iota.
    destruct (n_str (Z.abs_N v)) eqn:S; [contradiction|]. rewrite <- S, digits_val_n_str. cbn [option_map]. f_equal. apply Z.ltb_lt in E. lia.
  - change (parse_z (n_str (Z.abs_N v)) = Some v). unfold parse_z.
    destruct (n_str (Z.abs_N v)) as [|c r] eqn:S; [contradiction|]. cbn [forallb] in D. apply andb_true_iff in D. destruct D as [Dc _].
    destruct (digit_not_sign c Dc) as (A & B & _). rewrite A, B, <- S, digits_val_n_str. cbn [option_map]. f_equal. apply Z.ltb_ge in E. lia.
Qed.

(* ---------------------------------------------------------------- lengths *)
Fixpoint ulen (d : uint) : nat :=
  match d with Nil => 0 | D0 l | D1 l | D2 l | D3 l | D4 l | D5 l | D6 l | D7 l | D8 l | D9 l => Datatypes.S (ulen l) end.
Lemma chars_length : forall d, length (chars d) = ulen d.
Proof. induction d; unfold chars in *; cbn [NilEmpty.string_of_uint list_ascii_of_string length ulen]; [reflexivity|..]; f_equal; exact IHd. Qed.

Lemma uval_lower : forall d acc, (acc * pow10 (ulen d) <= uval d acc)%N.
Proof.
  induction d; intros acc; cbn [uval ulen pow10]; [lia|..];
    (eapply N.le_trans; [|apply IHd]); nia.
Qed.

(* N.to_uint is normalised: "0" or a first digit other than 0 *)
Lemma to_uint_head : forall n, N.to_uint n = D0 Nil \/ exists l k, (1 <= k)%N /\ uval (N.to_uint n) 0 = uval l k /\ ulen (N.to_uint n) = Datatypes.S (ulen l).
Proof.
  intros n. pose proof (DecimalPos.Unsigned.to_of (N.to_uint n)) as H.
  change (Pos.of_uint (N.to_uint n)) with (N.of_uint (N.to_uint n)) in H. rewrite DecimalN.Unsigned.of_to in H.
  (* H : N.to_uint n = unorm (N.to_uint n) *)
  assert (G : forall d, unorm d = D0 Nil \/ exists l k, (1 <= k)%N /\ uval (unorm d) 0 = uval l k /\ ulen (unorm d) = Datatypes.S (ulen l)).
  { clear. induction d; unfold unorm in *; cbn [nzhead] in *; [left; reflexivity|exact IHd|..];
      right; eexists; eexists; (split; [|split; [cbn [uval]; reflexivity|reflexivity]]); lia. }
  rewrite H. apply G.
Qed.

Theorem n_str_length : forall n k, (n < pow10 k)%N -> 1 <= k -> length (n_str n) <= k.
Proof.
  intros n k Hn Hk. rewrite n_str_chars, chars_length.
  destruct (to_uint_head n) as [E|(l & d & Hd & Hv & Hl)]; [rewrite E; cbn; lia|].
  rewrite Hl. pose proof (uval_lower l d) as L. rewrite <- Hv, uval_of_uint in L.
  change (Pos.of_uint (N.to_uint n)) with (N.of_uint (N.to_uint n)) in L. rewrite DecimalN.Unsigned.of_to in L.
  destruct (Nat.lt_ge_cases (ulen l) k) as [Lt|Ge]; [lia|exfalso].
  assert (pow10 k <= pow10 (ulen l))%N.
  { clear -Ge. induction Ge as [|m _ IH]; [lia|]. cbn [pow10]. lia. }
  nia.
Qed.

(* ---------------------------------------------------------------- fixed-point numbers *)
Lemma digits_val_pad0 : forall w s, digits_val (pad0 w s) 0 = digits_val s 0.
Proof. intros w s. unfold pad0. induction (w - length s) as [|k IH]; [reflexivity|]. cbn [repeat List.app digits_val]. exact IH. Qed.

Lemma take_until_dot_digits : forall s r, forallb is_digit_char s = true -> take_until_dot (s ++ "."%char :: r) = s.
Proof.
  induction s as [|c s IH]; intros r H; [reflexivity|]. cbn [forallb] in H. apply andb_true_iff in H. destruct H as [Hc Hs].
  change (take_until_dot (c :: (s ++ "."%char :: r)) = c :: s). cbn [take_until_dot].
  destruct (digit_not_sign c Hc) as (_ & _ & D & _). rewrite D. f_equal. apply IH. exact Hs.
Qed.

Lemma pow10_pos : forall d, (0 < pow10 d)%N.
Proof. induction d as [|d IH]; cbn [pow10]; lia. Qed.

Definition fixed_body (dec : nat) (v : Z) : str :=
  (if (v <? 0)%Z then ["-"%char] else []) ++ n_str (Z.abs_N v / pow10 dec) ++ ["."%char] ++ pad0 dec (n_str (Z.abs_N v mod pow10 dec)).

Theorem parse_fixed_body : forall dec v, 1 <= dec -> parse_fixed dec (fixed_body dec v) = Some v.
Proof.
  intros dec v Hdec. unfold fixed_body. set (a := Z.abs_N v). set (p := pow10 dec).
  destruct (n_str_digits (a / p)) as [Di NEi]. destruct (n_str_digits (a mod p)) as [Df NEf].
  assert (Lf : length (pad0 dec (n_str (a mod p))) = dec).
  { unfold pad0. rewrite app_length, repeat_length. assert (length (n_str (a mod p)) <= dec); [|lia].
    apply n_str_length; [|exact Hdec]. apply N.mod_lt. pose proof (pow10_pos dec). fold p in H. lia. }
  assert (Body : forall neg : bool, (parse_fixed dec ((if neg then ["-"%char] else []) ++ n_str (a / p) ++ ["."%char] ++ pad0 dec (n_str (a mod p))))
                             = Some (if neg then (- Z.of_N a)%Z else Z.of_N a)).
  { intros neg. unfold parse_fixed.
    assert (First : forall r, match n_str (a / p) ++ r with c :: r0 => if Ascii.eqb c "-"%char then (true, r0) else if Ascii.eqb c "+"%char then (false, r0) else (false, n_str (a / p) ++ r) | [] => (false, []) end = (false, n_str (a / p) ++ r)).
    { intros r. destruct (n_str (a / p)) as [|c s] eqn:S; [contradiction|]. cbn [List.app]. cbn [forallb] in Di. apply andb_true_iff in Di. destruct Di as [Dc _].
      destruct (digit_not_sign c Dc) as (A & B & _). rewrite A, B. reflexivity. }
    assert (Rest : forall (ng : bool),
               (let ip := take_until_dot (n_str (a / p) ++ ["."%char] ++ pad0 dec (n_str (a mod p))) in
                let rest := skipn (length ip) (n_str (a / p) ++ ["."%char] ++ pad0 dec (n_str (a mod p))) in
                let fp := match rest with _ :: f => f | [] => [] end in
                if (length ip =? 0) && (length fp =? 0) then None
                else if dec <? length fp then None
                else match digits_val ip 0, digits_val fp 0 with
                     | Some i, Some f => let v0 := (Z.of_N i * Z.of_N (pow10 dec) + Z.of_N f * Z.of_N (pow10 (dec - length fp)))%Z in Some (if ng then (- v0)%Z else v0)
                     | _, _ => None end) = Some (if ng then (- Z.of_N a)%Z else Z.of_N a)).
    { intros ng. cbv zeta. cbn [List.app]. rewrite (take_until_dot_digits _ _ Di).
      rewrite skipn_app, skipn_all, Nat.sub_diag. cbn [skipn List.app]. rewrite Lf.
      destruct (length (n_str (a / p)) =? 0) eqn:E0; [apply Nat.eqb_eq in E0; destruct (n_str (a / p)); [contradiction|discriminate]|]. cbn [andb].
      rewrite Nat.ltb_irrefl, digits_val_n_str, digits_val_pad0, digits_val_n_str, Nat.sub_diag. cbn [pow10]. fold p.
      assert (Z.of_N (a / p) * Z.of_N p + Z.of_N (a mod p) * Z.of_N 1 = Z.of_N a)%Z.
      { pose proof (N.div_mod a p) as DM. pose proof (pow10_pos dec). fold p in H. lia. }
      rewrite H. reflexivity. }
    destruct neg; cbn [List.app].
    - change (Ascii.eqb "-" "-") with true. cbv iota. apply (Rest true).
    - rewrite First. apply (Rest false). }
  destruct (v <? 0)%Z eqn:E.
  - rewrite (Body true). f_equal. apply Z.ltb_lt in E. unfold a. lia.
  - rewrite (Body false). f_equal. apply Z.ltb_ge in E. unfold a. lia.
Qed.
