(* Generic facts about the insertion sort the annotator model uses (Model.Annot.stable_sort). *)
From Coq Require Import List Bool Arith Lia Permutation Sorted.
From RV Require Import Model.Annot.
Import ListNotations.

Section Sort.
  Context {A : Type} (lt : A -> A -> bool).

  Lemma insert_sorted_perm : forall x l, Permutation (insert_sorted lt x l) (x :: l).
  Proof.
    intros x. induction l as [|y t IH]; cbn [insert_sorted]; [apply Permutation_refl|].
    destruct (lt y x); [|apply Permutation_refl].
    eapply Permutation_trans; [apply perm_skip; exact IH|apply perm_swap].
  Qed.

  Lemma stable_sort_perm : forall l, Permutation (stable_sort lt l) l.
  Proof.
    induction l as [|x l IH]; [apply Permutation_refl|]. unfold stable_sort. cbn [fold_right]. fold (stable_sort lt l).
    eapply Permutation_trans; [apply insert_sorted_perm|apply perm_skip; exact IH].
  Qed.

  Lemma stable_sort_in : forall l x, In x (stable_sort lt l) <-> In x l.
  Proof. intros l x. split; apply Permutation_in; [|apply Permutation_sym]; apply stable_sort_perm. Qed.

  (* never descending between neighbours: needs only asymmetry of lt *)
  Definition nondesc (x y : A) : Prop := lt y x = false.
  Hypothesis asym : forall a b, lt a b = true -> lt b a = false.

  Lemma insert_sorted_sorted : forall x l, LocallySorted nondesc l -> LocallySorted nondesc (insert_sorted lt x l).
  Proof.
    intros x. induction l as [|y t IH]; intros H; cbn [insert_sorted]; [constructor|].
    destruct (lt y x) eqn:E.
    - inversion H as [| |? z t' Ht Hyz]; subst.
      + cbn. constructor; [constructor|]. unfold nondesc. apply asym. exact E.
      + specialize (IH Ht). cbn [insert_sorted] in *. destruct (lt z x) eqn:E2.
        * constructor; [exact IH|exact Hyz].
        * constructor; [exact IH|]. unfold nondesc. apply asym. exact E.
    - constructor; [exact H|exact E].
  Qed.

  Theorem stable_sort_sorted : forall l, LocallySorted nondesc (stable_sort lt l).
  Proof.
    induction l as [|x l IH]; [constructor|]. unfold stable_sort. cbn [fold_right]. fold (stable_sort lt l).
    apply insert_sorted_sorted. exact IH.
  Qed.
End Sort.
