(* C02: the MILP of convert_to_dot_bracket — feasible 0/1 points are exactly the proper level assignments below
   the level bound, the objective is the score, the bound loses nothing, hence an optimal solver answer is
   optimal among ALL proper assignments. *)
From Coq Require Import String Ascii ZArith List Bool Arith Lia ZifyBool.
From RV Require Import Base.Val Gen.Common Model.Bpseq Model.Milp Proofs.Stack Proofs.Encode Proofs.Fcfs Proofs.Colouring.
Import ListNotations.

(* ---------------------------------------------------------------- sums *)
Fixpoint zsum (l : list Z) : Z := match l with [] => 0%Z | x :: t => (x + zsum t)%Z end.
Lemma zsum_fold : forall l, fold_right Z.add 0%Z l = zsum l.
Proof. induction l as [|x l IH]; [reflexivity|]. cbn [fold_right zsum]. rewrite IH. reflexivity. Qed.

Lemma zsum_app : forall a b, zsum (a ++ b) = (zsum a + zsum b)%Z.
Proof. induction a as [|x a IH]; intros b; cbn [app zsum]; [lia|]. rewrite IH. lia. Qed.

Lemma zsum_flat_map : forall (A B : Type) (f : A -> list B) (g : B -> Z) (l : list A),
    zsum (map g (flat_map f l)) = zsum (map (fun a => zsum (map g (f a))) l).
Proof.
  intros A B f g. induction l as [|a l IH]; [reflexivity|].
  cbn [flat_map map]. rewrite map_app, zsum_app, IH. reflexivity.
Qed.

Lemma zsum_ext : forall (A : Type) (f g : A -> Z) (l : list A), (forall a, In a l -> f a = g a) -> zsum (map f l) = zsum (map g l).
Proof.
  intros A f g. induction l as [|a l IH]; intros H; [reflexivity|]. cbn [map zsum].
  rewrite (H a (or_introl eq_refl)). f_equal. apply IH. intros b Hb. apply H. right. exact Hb.
Qed.

Lemma zsum_le : forall (A : Type) (f g : A -> Z) (l : list A), (forall a, In a l -> (f a <= g a)%Z) -> (zsum (map f l) <= zsum (map g l))%Z.
Proof.
  intros A f g. induction l as [|a l IH]; intros H; [cbn; lia|]. cbn [map zsum].
  pose proof (H a (or_introl eq_refl)). assert ((zsum (map f l) <= zsum (map g l))%Z) by (apply IH; intros b Hb; apply H; right; exact Hb).
  lia.
Qed.

Lemma list_prod_flat_map : forall (A B : Type) (l : list A) (l' : list B),
    list_prod l l' = flat_map (fun x => map (fun y => (x, y)) l') l.
Proof. intros A B l l'. induction l as [|x l IH]; [reflexivity|]. cbn [list_prod flat_map]. rewrite IH. reflexivity. Qed.

(* a list with exactly one element satisfying p *)
Lemma fold_no_true : forall (p : nat -> bool) l d, filter p l = [] -> fold_left (fun acc o => if p o then o else acc) l d = d.
Proof.
  intros p. induction l as [|h t IH]; intros d H; [reflexivity|]. cbn [filter] in H. cbn [fold_left].
  destruct (p h); [discriminate|]. apply IH. exact H.
Qed.
Lemma singleton_fold : forall (p : nat -> bool) l d a, filter p l = [a] -> fold_left (fun acc o => if p o then o else acc) l d = a.
Proof.
  intros p. induction l as [|h t IH]; intros d a H; [discriminate|]. cbn [filter] in H. cbn [fold_left].
  destruct (p h) eqn:Ph.
  - injection H as -> Ht. apply fold_no_true. exact Ht.
  - apply IH. exact H.
Qed.
Lemma sum_no_true : forall (p : nat -> bool) (f : nat -> Z) l, filter p l = [] -> zsum (map (fun o => if p o then f o else 0%Z) l) = 0%Z.
Proof.
  intros p f. induction l as [|h t IH]; intros H; [reflexivity|]. cbn [filter] in H. cbn [map zsum].
  destruct (p h); [discriminate|]. rewrite IH by exact H. lia.
Qed.
Lemma singleton_sum : forall (p : nat -> bool) (f : nat -> Z) l a, filter p l = [a] -> zsum (map (fun o => if p o then f o else 0%Z) l) = f a.
Proof.
  intros p f. induction l as [|h t IH]; intros a H; [discriminate|]. cbn [filter] in H. cbn [map zsum].
  destruct (p h) eqn:Ph.
  - injection H as -> Ht. rewrite sum_no_true by exact Ht. lia.
  - rewrite (IH a H). lia.
Qed.
Lemma length1 : forall (A : Type) (l : list A), length l = 1 -> exists a, l = [a].
Proof. intros A [|a [|b l]] H; try discriminate. eauto. Qed.

Lemma combine_map_seq : forall (A B : Type) (d : A) (rho : nat -> B) (rs : list A) s,
    combine rs (map rho (seq s (length rs))) = map (fun i => (nth (i - s) rs d, rho i)) (seq s (length rs)).
Proof.
  intros A B d rho. induction rs as [|r rs IH]; intros s; [reflexivity|].
  cbn [length seq map combine]. rewrite Nat.sub_diag. cbn [nth]. f_equal.
  rewrite IH. apply map_ext_in. intros i Hi. apply in_seq in Hi.
  replace (i - s) with (S (i - S s)) by lia. reflexivity.
Qed.

(* ---------------------------------------------------------------- the coefficient and the score *)
Definition coef (o : nat) (l : Z) : Z := match o with 0 => l | S _ => (- Z.of_nat o * l)%Z end.

(* pin: the objective coefficient of the source is +len on level 0 and -k*len on level k *)
Lemma obj_coef_coef : forall o l, obj_coef (Z.of_nat o) l = coef o l.
Proof.
  intros [|o] l; unfold obj_coef, coef.
  - change (Z.of_nat 0) with 0%Z. replace (0 =? 0)%Z with true by reflexivity. lia.
  - replace (Z.of_nat (S o) =? 0)%Z with false by lia. lia.
Qed.

Lemma score_as_sum : forall rs ord, score rs ord = zsum (map (fun ro => coef (snd ro) (rlen (fst ro))) (combine rs ord)).
Proof. intros. unfold score. rewrite zsum_fold. f_equal; try (apply map_ext; intros [r [|o]]; reflexivity). Qed.

Lemma coef_antitone : forall o o' l, (0 <= l)%Z -> o' <= o -> (coef o l <= coef o' l)%Z.
Proof. intros [|o] [|o'] l Hl Ho; unfold coef; try lia; nia. Qed.

Lemma rlen_nonneg : forall r, (0 <= rlen r)%Z.
Proof. intros [[j k] len]. unfold rlen. lia. Qed.

Lemma score_mono : forall rs ord ord', length ord = length rs -> length ord' = length rs ->
    (forall i, i < length rs -> nth i ord' 0 <= nth i ord 0) -> (score rs ord <= score rs ord')%Z.
Proof.
  induction rs as [|r rs IH]; intros ord ord' H1 H2 H; destruct ord as [|o ord], ord' as [|o' ord'];
    try (cbn [length] in H1, H2; lia).
  rewrite !score_as_sum. cbn [combine map zsum fst snd].
  pose proof (coef_antitone o o' (rlen r) (rlen_nonneg r) (H 0 ltac:(cbn; lia))) as Hc.
  assert (IH' : (score rs ord <= score rs ord')%Z).
  { apply IH; cbn [length] in *; try lia. intros i Hi. apply (H (S i)). cbn [length]. lia. }
  rewrite !score_as_sum in IH'. lia.
Qed.

(* ---------------------------------------------------------------- the conflict graph of the source *)
Lemma adj_db_sym : forall rs i j, adj_db rs i j = adj_db rs j i.
Proof. intros. unfold adj_db, adj_with. rewrite (Nat.min_comm j i), (Nat.max_comm j i), (Nat.eqb_sym j i). reflexivity. Qed.
Lemma adj_db_irrefl : forall rs i, adj_db rs i i = false.
Proof. intros. unfold adj_db, adj_with. rewrite Nat.eqb_refl. destruct (nth_error rs (Nat.min i i)), (nth_error rs (Nat.max i i)); reflexivity. Qed.

Lemma degree_le_max : forall adj n i, i < n -> degree adj n i <= max_degree adj n.
Proof.
  intros adj n i Hi. unfold max_degree.
  assert (G : forall l, In i l -> degree adj n i <= fold_right Nat.max 0 (map (degree adj n) l)).
  { induction l as [|h t IH]; intros Hin; [destruct Hin|]. cbn [map fold_right]. destruct Hin as [->|Hin]; [lia|]. specialize (IH Hin). lia. }
  apply G. apply in_seq. lia.
Qed.

(* ---------------------------------------------------------------- feasible points <-> proper assignments *)
Section Formulation.
  Variable rs : list region.
  Let n := length rs.
  Let m := max_order rs.
  Let adj := adj_db rs.

  Definition rb (x : point) (i : nat) : nat := fold_left (fun acc o => if x i o then o else acc) (seq 0 m) 0.

  Lemma readback_nth : forall x i, i < n -> nth i (readback rs x) 0 = rb x i.
  Proof.
    intros x i Hi. unfold readback. fold n m.
    rewrite (nth_indep _ 0 (rb x 0)) by (rewrite map_length, seq_length; exact Hi).
    change (rb x 0) with ((fun i0 => rb x i0) 0). rewrite map_nth. rewrite seq_nth by exact Hi. reflexivity.
  Qed.
  Lemma readback_length : forall x, length (readback rs x) = n.
  Proof. intros. unfold readback. rewrite map_length, seq_length. reflexivity. Qed.

  Lemma feasible_rows : forall x, feasible rs x = true ->
      (forall i, i < n -> filter (x i) (seq 0 m) = [rb x i] /\ rb x i < m /\ x i (rb x i) = true) /\
      (forall i j o, i < n -> j < n -> adj i j = true -> o < m -> ~ (x i o = true /\ x j o = true)).
  Proof.
    intros x H. unfold feasible in H. fold n m adj in H. apply andb_true_iff in H. destruct H as [H1 H2]. split.
    - intros i Hi. rewrite forallb_forall in H1. specialize (H1 i (proj2 (in_seq _ _ _) (conj (Nat.le_0_l _) Hi))).
      unfold one_level in H1. apply Nat.eqb_eq in H1. destruct (length1 _ _ H1) as [a Ha].
      assert (E : rb x i = a) by (unfold rb; apply singleton_fold; exact Ha).
      rewrite E. split; [exact Ha|].
      assert (Hin : In a (filter (x i) (seq 0 m))) by (rewrite Ha; left; reflexivity).
      apply filter_In in Hin. destruct Hin as [A B]. apply in_seq in A. split; [lia|exact B].
    - intros i j o Hi Hj Hadj Ho [Xi Xj].
      rewrite forallb_forall in H2. specialize (H2 i (proj2 (in_seq _ _ _) (conj (Nat.le_0_l _) Hi))).
      rewrite forallb_forall in H2. specialize (H2 j). rewrite (in_neighbours adj n) in H2. specialize (H2 (conj Hj Hadj)).
      rewrite forallb_forall in H2. specialize (H2 o (proj2 (in_seq _ _ _) (conj (Nat.le_0_l _) Ho))).
      rewrite Xi, Xj in H2. discriminate.
  Qed.

  (* every feasible point denotes a proper assignment below the level bound ... *)
  Theorem feasible_proper : forall x, feasible rs x = true ->
      properP adj n (readback rs x) /\ forall i, i < n -> nth i (readback rs x) 0 < m.
  Proof.
    intros x H. destruct (feasible_rows x H) as [R1 R2]. split.
    - intros i j Hi Hj Hadj E. unfold level in E. rewrite !readback_nth in E by assumption.
      destruct (R1 i Hi) as (_ & Li & Xi). destruct (R1 j Hj) as (_ & _ & Xj).
      apply (R2 i j (rb x i) Hi Hj Hadj Li). split; [exact Xi|rewrite E; exact Xj].
    - intros i Hi. rewrite readback_nth by exact Hi. apply (R1 i Hi).
  Qed.

  (* ... and its objective value is the score of that assignment *)
  Theorem objective_score : forall x, feasible rs x = true -> objective rs x = score rs (readback rs x).
  Proof.
    intros x H. destruct (feasible_rows x H) as [R1 _].
    unfold objective. fold n m. rewrite zsum_fold.
    rewrite list_prod_flat_map, zsum_flat_map.
    rewrite score_as_sum.
    assert (Hrb : readback rs x = map (fun i => rb x i) (seq 0 (length rs))) by reflexivity.
    rewrite Hrb. pose proof (combine_map_seq region nat ((0, 0, 0) : region) (fun i => rb x i) rs 0) as Hc. rewrite Hc. clear Hc. fold n.
    rewrite map_map. apply zsum_ext. intros i Hi. apply in_seq in Hi.
    rewrite map_map. cbn [fst snd]. rewrite Nat.sub_0_r.
    destruct (R1 i ltac:(lia)) as (F & _ & _).
    rewrite (singleton_sum (x i) (fun o => obj_coef (Z.of_nat o) (rlen (nth i rs (0, 0, 0)))) _ _ F).
    apply obj_coef_coef.
  Qed.

  (* conversely every proper assignment below the bound is a feasible point that reads back to itself *)
  Definition point_of_ord (ord : list nat) : point := fun i o => nth i ord 0 =? o.

  Lemma filter_eqb_seq : forall a len, a < len -> filter (fun o => a =? o) (seq 0 len) = [a].
  Proof.
    intros a len H. replace len with (a + S (len - S a)) by lia. rewrite seq_app, filter_app. cbn [seq filter plus].
    rewrite Nat.eqb_refl.
    rewrite (filter_nil _ (fun o => a =? o) (seq 0 a)) by (intros o Ho; apply in_seq in Ho; lia).
    rewrite (filter_nil _ (fun o => a =? o) (seq (S a) (len - S a))) by (intros o Ho; apply in_seq in Ho; lia).
    reflexivity.
  Qed.

  Theorem proper_feasible : forall ord, length ord = n -> properP adj n ord -> (forall i, i < n -> nth i ord 0 < m) ->
      feasible rs (point_of_ord ord) = true /\ readback rs (point_of_ord ord) = ord.
  Proof.
    intros ord Hlen Hp Hm.
    assert (F : forall i, i < n -> filter (point_of_ord ord i) (seq 0 m) = [nth i ord 0]).
    { intros i Hi. unfold point_of_ord. apply filter_eqb_seq. apply Hm. exact Hi. }
    split.
    - unfold feasible. fold n m adj. apply andb_true_iff. split.
      + apply forallb_forall. intros i Hi. apply in_seq in Hi. unfold one_level. rewrite F by lia. reflexivity.
      + apply forallb_forall. intros i Hi. apply in_seq in Hi.
        apply forallb_forall. intros j Hj. apply (in_neighbours adj n) in Hj. destruct Hj as [Hj Hadj].
        apply forallb_forall. intros o Ho. unfold point_of_ord.
        destruct (Nat.eqb_spec (nth i ord 0) o) as [E1|]; [|reflexivity].
        destruct (Nat.eqb_spec (nth j ord 0) o) as [E2|]; [|reflexivity].
        exfalso. apply (Hp i j ltac:(lia) Hj Hadj). unfold level. congruence.
    - apply (nth_ext _ _ 0 0); [rewrite readback_length; lia|].
      intros i Hi. rewrite readback_length in Hi. rewrite readback_nth by exact Hi.
      unfold rb. apply singleton_fold. apply F. exact Hi.
  Qed.

  (* the level bound loses nothing: any proper assignment, with any number of levels, is matched or beaten by one
     whose levels stay below max degree + 1 *)
  Theorem level_bound : forall ord, length ord = n -> properP adj n ord ->
      exists ord', length ord' = n /\ properP adj n ord' /\ (forall i, i < n -> nth i ord' 0 < m) /\ (score rs ord <= score rs ord')%Z.
  Proof.
    intros ord Hlen Hp.
    destruct (lower_all_spec adj n (adj_db_sym rs) (adj_db_irrefl rs) ord Hlen Hp) as (L & P & D & M).
    exists (lower_all adj n ord). repeat split; try assumption.
    - intros i Hi. specialize (D i Hi). unfold level in D.
      pose proof (degree_le_max adj n i Hi). unfold m, max_order. fold n adj.
      assert (max_order_slack = 1) by reflexivity. lia.
    - apply score_mono; try (unfold n in *; lia). intros i Hi. apply (M i). exact Hi.
  Qed.

  (* the solver's contract: an oracle, validated by the correspondence, never an axiom *)
  Definition solver_contract (x : point) : Prop :=
    feasible rs x = true /\ forall y, feasible rs y = true -> (objective rs y <= objective rs x)%Z.

  Theorem optimal_among_all : forall x, solver_contract x ->
      properP adj n (readback rs x) /\
      forall ord, length ord = n -> properP adj n ord -> (score rs ord <= score rs (readback rs x))%Z.
  Proof.
    intros x [Hf Hopt]. split; [apply (feasible_proper x Hf)|].
    intros ord Hlen Hp.
    destruct (level_bound ord Hlen Hp) as (ord' & L' & P' & B' & S').
    destruct (proper_feasible ord' L' P' B') as [Fy Ry].
    specialize (Hopt _ Fy). rewrite (objective_score _ Fy), (objective_score _ Hf), Ry in Hopt. lia.
  Qed.
End Formulation.

(* ---------------------------------------------------------------- link with C01's notion of properness *)
Lemma adj_db_crossing : forall rs i j ri rj, nth_error rs i = Some ri -> nth_error rs j = Some rj -> i <> j ->
    (adj_db rs i j = true <-> crossing ri rj).
Proof.
  intros rs i j ri rj Hi Hj Hne. unfold adj_db, adj_with.
  destruct (Nat.lt_ge_cases i j) as [L|G].
  - rewrite Nat.min_l, Nat.max_r by lia. rewrite Hi, Hj.
    replace (i =? j) with false by (symmetry; apply Nat.eqb_neq; exact Hne). cbn [negb andb].
    destruct ri as [[k l] a], rj as [[m n0] b]. cbn [conflicts_with]. apply conflict_db_spec.
  - rewrite Nat.min_r, Nat.max_l by lia. rewrite Hi, Hj.
    replace (i =? j) with false by (symmetry; apply Nat.eqb_neq; exact Hne). cbn [negb andb].
    destruct ri as [[k l] a], rj as [[m n0] b]. cbn [conflicts_with]. rewrite conflict_db_spec.
    split; apply crossing_sym.
Qed.

Lemma crossing_irrefl : forall r, ~ crossing r r.
Proof. intros [[k l] a]. unfold crossing. lia. Qed.

Lemma properP_proper : forall rs ord, length ord = length rs ->
    (properP (adj_db rs) (length rs) ord <-> proper rs ord).
Proof.
  intros rs ord Hlen. split.
  - intros Hp. split; [exact Hlen|]. intros i i' r r' o o' Hi Hi' Ho Ho' Hc.
    assert (Hne : i <> i') by (intros ->; rewrite Hi in Hi'; injection Hi' as <-; exact (crossing_irrefl _ Hc)).
    assert (Li : i < length rs) by (apply nth_error_Some; congruence).
    assert (Li' : i' < length rs) by (apply nth_error_Some; congruence).
    pose proof (Hp i i' Li Li' (proj2 (adj_db_crossing rs i i' r r' Hi Hi' Hne) Hc)) as Hd.
    unfold level in Hd. rewrite (nth_error_nth _ _ 0 Ho), (nth_error_nth _ _ 0 Ho') in Hd. exact Hd.
  - intros [_ Hp] i j Hi Hj Hadj.
    destruct (nth_error rs i) as [ri|] eqn:Ei; [|apply nth_error_None in Ei; lia].
    destruct (nth_error rs j) as [rj|] eqn:Ej; [|apply nth_error_None in Ej; lia].
    assert (Hne : i <> j) by (intros ->; rewrite adj_db_irrefl in Hadj; discriminate).
    destruct (nth_error ord i) as [oi|] eqn:Oi; [|apply nth_error_None in Oi; lia].
    destruct (nth_error ord j) as [oj|] eqn:Oj; [|apply nth_error_None in Oj; lia].
    unfold level. rewrite (nth_error_nth _ _ 0 Oi), (nth_error_nth _ _ 0 Oj).
    apply (Hp i j ri rj oi oj Ei Ej Oi Oj). apply (adj_db_crossing rs i j ri rj Ei Ej Hne). exact Hadj.
Qed.

(* ---------------------------------------------------------------- consequences *)
Lemma coef_strict : forall o o' l, (0 < l)%Z -> o' < o -> (coef o l < coef o' l)%Z.
Proof. intros [|o] [|o'] l Hl Ho; unfold coef; try lia; nia. Qed.

Lemma score_lower_strict : forall (rs : list region) ord i f, length ord = length rs -> i < length rs ->
    f < nth i ord 0 -> (0 < rlen (nth i rs ((0, 0, 0)%nat : region)))%Z -> (score rs ord < score rs (set_nth ord i f))%Z.
Proof.
  induction rs as [|r rs IH]; intros ord i f Hlen Hi Hf Hl; [cbn in Hi; lia|].
  destruct ord as [|o ord]; [discriminate|]. rewrite !score_as_sum.
  destruct i as [|i]; cbn [set_nth combine map zsum fst snd nth] in *.
  - pose proof (coef_strict o f (rlen r) Hl Hf). lia.
  - assert (H : (score rs ord < score rs (set_nth ord i f))%Z) by (apply IH; cbn [length] in *; try lia; assumption).
    rewrite !score_as_sum in H. lia.
Qed.

Section Consequences.
  Variable rs : list region.
  Let n := length rs.
  Let adj := adj_db rs.
  Variable x : point.
  Hypothesis Hcontract : solver_contract rs x.
  Let ord := readback rs x.

  (* never worse than first-come-first-served *)
  Theorem ge_fcfs : forall ordf, fcfs_orders rs = Ok ordf -> (score rs ordf <= score rs ord)%Z.
  Proof.
    intros ordf H. destruct (fcfs_orders_proper rs ordf H) as [Hp _].
    destruct (optimal_among_all rs x Hcontract) as [_ Hopt].
    apply Hopt; [apply Hp|]. apply properP_proper; [apply Hp|exact Hp].
  Qed.

  (* no stem could be moved to a lower level that is free among its crossing stems *)
  Theorem stable : (forall r, In r rs -> (0 < rlen r)%Z) ->
      forall i f, i < n -> f < nth i ord 0 -> ~ (forall j, j < n -> adj i j = true -> nth j ord 0 <> f).
  Proof.
    intros Hlen i f Hi Hf Hfree.
    destruct (optimal_among_all rs x Hcontract) as [Hp Hopt].
    assert (Hl : length ord = n) by apply readback_length.
    assert (Hp' : properP adj n (set_nth ord i f)).
    { intros a b Ha Hb Hadj. unfold level. rewrite !nth_set_nth. fold n in Hl. rewrite Hl.
      replace (i <? n) with true by (symmetry; apply Nat.ltb_lt; exact Hi).
      destruct (Nat.eqb_spec a i) as [->|Hai], (Nat.eqb_spec b i) as [->|Hbi]; cbn [andb].
      - unfold adj in Hadj. rewrite adj_db_irrefl in Hadj. discriminate.
      - intros E. apply (Hfree b Hb Hadj). symmetry. exact E.
      - unfold adj in Hadj. rewrite adj_db_sym in Hadj. apply (Hfree a Ha Hadj).
      - apply (Hp a b Ha Hb Hadj). }
    specialize (Hopt (set_nth ord i f) ltac:(rewrite length_set_nth; exact Hl) Hp').
    assert (Hr : (0 < rlen (nth i rs ((0, 0, 0)%nat : region)))%Z) by (apply Hlen; apply nth_In; exact Hi).
    pose proof (score_lower_strict rs ord i f Hl Hi Hf Hr) as Hs. unfold ord in *. lia.
  Qed.
End Consequences.
