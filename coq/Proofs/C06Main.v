(* C06: conflict resolution of the 3D->2D mapping terminates, only removes pairs, ends conflict-free and keeps every pair
   that conflicts with no other. *)
From Coq Require Import String Ascii ZArith List Bool Arith Lia.
From RV Require Import Base.Val Base.PyStr Gen.Common Model.Bpseq Model.AllDb Model.Annot Model.Mapping.
Import ListNotations.

Definition touches (r : nat) (p : lpair) : bool := (l_i p =? r) || (l_j p =? r).
Definition conflicted (can : list lpair) : option nat :=
  find (fun r => 1 <? length (dedup_pairs (filter (touches r) can))) (touched can).

Lemma resolve_unfold : forall rs fuel can,
    resolve rs fuel can =
      match fuel with
      | 0 => match conflicted can with Some _ => Raise OutOfFuel | None => Ok can end
      | Datatypes.S f => match conflicted can with
               | None => Ok can
               | Some r => match rev (stable_sort (worse rs) (dedup_pairs (filter (touches r) can))) with
                           | worst :: _ => resolve rs f (remove_first worst can)
                           | [] => Ok can end
               end
      end.
Proof. intros rs [|f] can; reflexivity. Qed.

Lemma lpair_eqb_refl : forall p, lpair_eqb p p = true.
Proof.
  intros p. unfold lpair_eqb. rewrite !Nat.eqb_refl.
  assert (E : forall s, PyStr.str_eqb s s = true) by (induction s as [|c s IH]; cbn; [reflexivity|rewrite Ascii.eqb_refl, IH; reflexivity]).
  rewrite E. destruct (l_sa p); cbn; [rewrite E|]; reflexivity.
Qed.

Lemma remove_first_length : forall p l, existsb (lpair_eqb p) l = true -> Datatypes.S (length (remove_first p l)) = length l.
Proof.
  intros p. induction l as [|q l IH]; intros H; [discriminate|]. cbn [remove_first existsb] in *.
  destruct (lpair_eqb p q); [reflexivity|]. cbn [orb] in H. cbn [length]. rewrite IH by exact H. reflexivity.
Qed.

Lemma remove_first_incl : forall p l x, In x (remove_first p l) -> In x l.
Proof.
  intros p. induction l as [|q l IH]; intros x H; [destruct H|]. cbn [remove_first] in H.
  destruct (lpair_eqb p q); [right; exact H|]. destruct H as [<-|H]; [left; reflexivity|right; apply IH; exact H].
Qed.

Lemma dedup_pairs_incl : forall l x, In x (dedup_pairs l) -> In x l.
Proof.
  intros l x. unfold dedup_pairs.
  assert (G : forall l acc, In x (fold_left (fun acc p => if existsb (lpair_eqb p) acc then acc else acc ++ [p]) l acc) -> In x acc \/ In x l).
  { induction l0 as [|p l0 IH]; intros acc H; cbn [fold_left] in H; [left; exact H|].
    destruct (existsb (lpair_eqb p) acc).
    - destruct (IH acc H); [left; assumption|right; right; assumption].
    - destruct (IH (acc ++ [p]) H) as [Hin|Hin]; [|right; right; exact Hin].
      apply in_app_or in Hin. destruct Hin as [Hin|[<-|[]]]; [left; exact Hin|right; left; reflexivity]. }
  intros H. destruct (G l [] H) as [[]|Hin]. exact Hin.
Qed.

Lemma in_existsb_eqb : forall p l, In p l -> existsb (lpair_eqb p) l = true.
Proof. intros p l H. apply existsb_exists. exists p. split; [exact H|apply lpair_eqb_refl]. Qed.

Lemma sorted_incl : forall rs l x, In x (stable_sort (worse rs) l) -> In x l.
Proof.
  intros rs. induction l as [|y l IH]; intros x H; [destruct H|]. unfold stable_sort in H. cbn [fold_right] in H. fold (stable_sort (worse rs) l) in H.
  assert (G : forall (s : list lpair) z, In x (insert_sorted (worse rs) z s) -> x = z \/ In x s).
  { induction s as [|w s IHs]; intros z Hz; cbn [insert_sorted] in Hz; [destruct Hz as [<-|[]]; left; reflexivity|].
    destruct (worse rs w z).
    - destruct Hz as [<-|Hz]; [right; left; reflexivity|]. destruct (IHs z Hz); [left; assumption|right; right; assumption].
    - destruct Hz as [<-|Hz]; [left; reflexivity|right; exact Hz]. }
  destruct (G _ _ H) as [->|Hin]; [left; reflexivity|right; apply IH; exact Hin].
Qed.

(* termination: as many rounds as there are canonical pairs always suffice *)
Theorem resolve_terminates : forall rs fuel can, length can <= fuel -> exists l, resolve rs fuel can = Ok l.
Proof.
  intros rs. induction fuel as [|f IH]; intros can H; rewrite resolve_unfold.
  - destruct can; [|cbn in H; lia]. cbn. eauto.
  - destruct (conflicted can) as [r|]; [|eauto].
    destruct (rev (stable_sort (worse rs) (dedup_pairs (filter (touches r) can)))) as [|worst t] eqn:E; [eauto|].
    apply IH.
    assert (Hin : In worst can).
    { assert (Hw : In worst (rev (stable_sort (worse rs) (dedup_pairs (filter (touches r) can))))) by (rewrite E; left; reflexivity).
      apply in_rev in Hw. apply sorted_incl in Hw. apply dedup_pairs_incl in Hw. apply filter_In in Hw. apply Hw. }
    pose proof (remove_first_length worst can (in_existsb_eqb _ _ Hin)). lia.
Qed.

(* the result only ever loses pairs, and ends with no residue in two distinct pairs *)
Theorem resolve_spec : forall rs fuel can l, resolve rs fuel can = Ok l ->
    (forall x, In x l -> In x can) /\ conflicted l = None.
Proof.
  intros rs. induction fuel as [|f IH]; intros can l H; rewrite resolve_unfold in H.
  - destruct (conflicted can) eqn:E; [discriminate|]. injection H as <-. split; [auto|exact E].
  - destruct (conflicted can) as [r|] eqn:E; [|injection H as <-; split; [auto|exact E]].
    destruct (rev (stable_sort (worse rs) (dedup_pairs (filter (touches r) can)))) as [|worst t] eqn:Er.
    + (* cannot happen: a conflicted residue has at least two pairs *)
      exfalso. unfold conflicted in E. apply find_some in E. destruct E as [_ E].
      assert (L : length (stable_sort (worse rs) (dedup_pairs (filter (touches r) can))) = 0) by (rewrite <- rev_length, Er; reflexivity).
      assert (G : forall (s : list lpair), length (stable_sort (worse rs) s) = length s).
      { induction s as [|w s IHs]; [reflexivity|]. unfold stable_sort. cbn [fold_right]. fold (stable_sort (worse rs) s).
        assert (G2 : forall (u : list lpair) z, length (insert_sorted (worse rs) z u) = Datatypes.S (length u)).
        { induction u as [|v u IHu]; intros z; cbn [insert_sorted]; [reflexivity|]. destruct (worse rs v z); cbn [length]; [rewrite IHu|]; reflexivity. }
        rewrite G2, IHs. reflexivity. }
      rewrite G in L. rewrite L in E. discriminate.
    + destruct (IH _ l H) as [A B]. split; [|exact B]. intros x Hx. eapply remove_first_incl. apply A. exact Hx.
Qed.

(* ---------------------------------------------------------------- a pair that conflicts with no other survives *)
Lemma pstr_eq : forall a b, PyStr.str_eqb a b = true <-> a = b.
Proof.
  induction a as [|x a IH]; intros [|y b]; cbn; split; try discriminate; try reflexivity.
  - intros H. apply andb_true_iff in H. destruct H as [H1 H2]. apply Ascii.eqb_eq in H1. apply IH in H2. subst. reflexivity.
  - intros H. injection H as -> ->. rewrite Ascii.eqb_refl. apply IH. reflexivity.
Qed.

Lemma lpair_eqb_eq : forall p q, lpair_eqb p q = true <-> p = q.
Proof.
  intros [i1 j1 w1 s1] [i2 j2 w2 s2]. unfold lpair_eqb. cbn [l_i l_j l_lw l_sa].
  rewrite !andb_true_iff, !Nat.eqb_eq, pstr_eq. split.
  - intros [[[-> ->] ->] H]. destruct s1 as [a|], s2 as [b|]; cbn in H; try discriminate; [apply pstr_eq in H; subst|]; reflexivity.
  - intros H. injection H as -> -> -> ->. repeat split; try reflexivity. destruct s2; cbn; [apply pstr_eq|]; reflexivity.
Qed.

Lemma dedup_pairs_spec : forall l, NoDup (dedup_pairs l) /\ forall x, In x (dedup_pairs l) <-> In x l.
Proof.
  intros l. unfold dedup_pairs.
  assert (G : forall l acc, NoDup acc ->
             NoDup (fold_left (fun acc p => if existsb (lpair_eqb p) acc then acc else acc ++ [p]) l acc) /\
             forall x, In x (fold_left (fun acc p => if existsb (lpair_eqb p) acc then acc else acc ++ [p]) l acc) <-> In x acc \/ In x l).
  { induction l0 as [|p l0 IH]; intros acc N; cbn [fold_left]; [split; [exact N|intros; cbn; intuition]|].
    destruct (existsb (lpair_eqb p) acc) eqn:E.
    - destruct (IH acc N) as [A B]. split; [exact A|]. intros x. rewrite B. cbn [In]. split; [intuition|].
      intros [H|[<-|H]]; auto. left. apply existsb_exists in E. destruct E as (q & Hq & Eq). apply lpair_eqb_eq in Eq. subst. exact Hq.
    - assert (Np : ~ In p acc) by (intros Hin; rewrite (in_existsb_eqb p acc Hin) in E; discriminate).
      assert (N' : NoDup (acc ++ [p])).
      { clear -N Np. induction acc as [|a acc IHa]; cbn; [constructor; [intros []|constructor]|].
        inversion N; subst. constructor.
        - intros Hin. apply in_app_or in Hin. destruct Hin as [Hin|[->|[]]]; [contradiction|]. apply Np. left. reflexivity.
        - apply IHa; [assumption|]. intros Hin. apply Np. right. exact Hin. }
      destruct (IH (acc ++ [p]) N') as [A B]. split; [exact A|]. intros x. rewrite B, in_app_iff. cbn [In]. intuition. }
  destruct (G l [] (NoDup_nil _)) as [A B]. split; [exact A|]. intros x. rewrite B. cbn. intuition.
Qed.

Definition unconflicted (can : list lpair) (p : lpair) : Prop :=
  forall q, In q can -> (touches (l_i p) q || touches (l_j p) q) = true -> q = p.

Lemma remove_first_keeps : forall w l p, In p l -> w <> p -> In p (remove_first w l).
Proof.
  intros w. induction l as [|q l IH]; intros p H Hne; [destruct H|]. cbn [remove_first].
  destruct (lpair_eqb w q) eqn:E.
  - apply lpair_eqb_eq in E. subst q. destruct H as [->|H]; [contradiction|exact H].
  - destruct H as [->|H]; [left; reflexivity|right; apply IH; assumption].
Qed.

Theorem resolve_keeps_unconflicted : forall rs fuel can l p,
    resolve rs fuel can = Ok l -> In p can -> unconflicted can p -> In p l.
Proof.
  intros rs. induction fuel as [|f IH]; intros can l p H Hin Hu; rewrite resolve_unfold in H.
  - destruct (conflicted can); [discriminate|]. injection H as <-. exact Hin.
  - destruct (conflicted can) as [r|] eqn:E; [|injection H as <-; exact Hin].
    destruct (rev (stable_sort (worse rs) (dedup_pairs (filter (touches r) can)))) as [|worst t] eqn:Er; [injection H as <-; exact Hin|].
    assert (Hw : In worst (dedup_pairs (filter (touches r) can))).
    { assert (Hw : In worst (rev (stable_sort (worse rs) (dedup_pairs (filter (touches r) can))))) by (rewrite Er; left; reflexivity).
      apply in_rev in Hw. eapply sorted_incl. exact Hw. }
    destruct (dedup_pairs_spec (filter (touches r) can)) as [Nd Md].
    assert (Hne : worst <> p).
    { intros ->. unfold conflicted in E. apply find_some in E. destruct E as [_ E]. apply Nat.ltb_lt in E.
      (* another pair touches r: it must equal p, contradicting NoDup *)
      pose proof (proj1 (Md p) Hw) as Hp. apply filter_In in Hp. destruct Hp as [_ Tp].
      destruct (dedup_pairs (filter (touches r) can)) as [|a [|b rest]] eqn:Ed; cbn in E; try lia.
      assert (Ha : a = p).
      { assert (Hia : In a (filter (touches r) can)) by (apply Md; left; reflexivity). apply filter_In in Hia. destruct Hia as [Hac Ta].
        apply Hu; [exact Hac|]. unfold touches in *. apply orb_true_iff in Tp. apply orb_true_iff in Ta. apply Nat.eqb_eq in Tp || idtac.
        destruct Tp as [Tp|Tp]; apply Nat.eqb_eq in Tp; rewrite Tp; destruct Ta as [Ta|Ta]; rewrite Ta; cbn; rewrite ?orb_true_r; reflexivity. }
      assert (Hb : b = p).
      { assert (Hib : In b (filter (touches r) can)) by (apply Md; right; left; reflexivity). apply filter_In in Hib. destruct Hib as [Hbc Tb].
        apply Hu; [exact Hbc|]. unfold touches in *. apply orb_true_iff in Tp. apply orb_true_iff in Tb.
        destruct Tp as [Tp|Tp]; apply Nat.eqb_eq in Tp; rewrite Tp; destruct Tb as [Tb|Tb]; rewrite Tb; cbn; rewrite ?orb_true_r; reflexivity. }
      subst a b. inversion Nd as [|? ? Hn _]; subst. apply Hn. left. reflexivity. }
    apply (IH _ l p H).
    + apply remove_first_keeps; assumption.
    + intros q Hq Tq. apply Hu; [eapply remove_first_incl; exact Hq|exact Tq].
Qed.
