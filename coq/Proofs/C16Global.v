(* C16, part 4: the product over the groups is exactly the set of globally greedy-stable level assignments. *)
From Coq Require Import String Ascii ZArith List Bool Arith Lia Permutation.
From RV Require Import Base.Val Gen.Common Model.Bpseq Model.Milp Model.AllDb Proofs.Encode Proofs.Fcfs Proofs.Colouring Proofs.FirstFit
     Proofs.C16Main Proofs.C16Comp.
Import ListNotations.

Definition lev (ord : list nat) (v : nat) : nat := nth v ord 0.

Lemma lev_ext : forall a b, length a = length b -> (forall v, v < length a -> lev a v = lev b v) -> a = b.
Proof.
  induction a as [|x a IH]; intros [|y b] L H; try discriminate; [reflexivity|]. cbn in L. f_equal.
  - apply (H 0). cbn. lia.
  - apply IH; [lia|]. intros v Hv. apply (H (Datatypes.S v)). cbn. lia.
Qed.

(* ---------------------------------------------------------------- set_orders *)
Lemma set_orders_cons : forall ord x c l lv, set_orders ord (x :: c) (l :: lv) = set_orders (set_nth ord x l) c lv.
Proof. reflexivity. Qed.

Lemma set_orders_length : forall c lv ord, length (set_orders ord c lv) = length ord.
Proof.
  induction c as [|x c IH]; intros lv ord; [reflexivity|]. destruct lv as [|l lv]; [reflexivity|].
  rewrite set_orders_cons, IH. apply length_set_nth.
Qed.

Lemma set_orders_outside : forall c lv ord v, ~ In v c -> lev (set_orders ord c lv) v = lev ord v.
Proof.
  induction c as [|x c IH]; intros lv ord v H; [reflexivity|]. destruct lv as [|l lv]; [reflexivity|].
  rewrite set_orders_cons, IH by (intros Hin; apply H; right; exact Hin). unfold lev. rewrite nth_set_nth.
  destruct (Nat.eqb_spec v x) as [->|Hne]; [exfalso; apply H; left; reflexivity|reflexivity].
Qed.

Lemma set_orders_inside : forall c lv ord, NoDup c -> length lv = length c -> (forall x, In x c -> x < length ord) ->
    map (lev (set_orders ord c lv)) c = lv.
Proof.
  induction c as [|x c IH]; intros lv ord N L B; destruct lv as [|l lv]; try discriminate; [reflexivity|].
  inversion N as [|? ? Hn N']; subst. rewrite set_orders_cons. cbn [map]. f_equal.
  - rewrite set_orders_outside by exact Hn. unfold lev. rewrite nth_set_nth, Nat.eqb_refl.
    replace (x <? length ord) with true by (symmetry; apply Nat.ltb_lt; apply B; left; reflexivity). reflexivity.
  - apply IH; [exact N'|cbn in L; lia|]. intros y Hy. rewrite length_set_nth. apply B. right. exact Hy.
Qed.

(* ---------------------------------------------------------------- product over groups *)
Section Product.
  Variable n : nat.

  Definition zero_outside (cs : list (list nat)) (ord : list nat) : Prop :=
    forall v, v < n -> (forall c, In c cs -> ~ In v c) -> lev ord v = 0.

  Lemma forall2_change : forall (f g : nat -> nat) cs (chs : list (list (list nat))),
      Forall (fun ck => forall x, In x ck -> f x = g x) cs ->
      Forall2 (fun c ch => In (map f c) ch) cs chs -> Forall2 (fun c ch => In (map g c) ch) cs chs.
  Proof.
    intros f g cs chs F H. induction H as [|c ch cs chs Hc _ IH]; [constructor|]. inversion F as [|? ? Fc F']; subst.
    constructor; [|apply IH; exact F']. replace (map g c) with (map f c); [exact Hc|]. apply map_ext_in. exact Fc.
  Qed.

  Theorem product_iff : forall cs chs,
      Forall2 (fun c ch => forall lv, In lv ch -> length lv = length c) cs chs ->
      Forall (fun c => NoDup c /\ forall x, In x c -> x < n) cs ->
      ForallOrdPairs (fun c1 c2 => forall x, In x c1 -> ~ In x c2) cs ->
      forall ord, In ord (product_orders n cs chs) <->
                  length ord = n /\ Forall2 (fun c ch => In (map (lev ord) c) ch) cs chs /\ zero_outside cs ord.
  Proof.
    intros cs chs H. induction H as [|c ch cs chs Hlen Hrest IH]; intros Hc Hd ord.
    - cbn [product_orders]. split.
      + intros [<-|[]]. split; [apply repeat_length|]. split; [constructor|]. intros v _ _. unfold lev. apply nth_repeat.
      + intros (L & _ & Z). left. apply lev_ext; [rewrite repeat_length; lia|]. intros v Hv. rewrite repeat_length in Hv.
        unfold lev at 1. rewrite nth_repeat. symmetry. apply Z; [exact Hv|intros c0 []].
    - inversion Hc as [|? ? [Nc Bc] Hc']; subst. inversion Hd as [|? ? Dc Hd']; subst. rewrite Forall_forall in Dc.
      cbn [product_orders]. rewrite in_flat_map. split.
      + intros (ord' & Ho' & Hin). apply in_map_iff in Hin. destruct Hin as (lv & <- & Hlv).
        apply (IH Hc' Hd') in Ho'. destruct Ho' as (L' & F' & Z').
        assert (Lv : length lv = length c) by (apply Hlen; exact Hlv).
        split; [rewrite set_orders_length; exact L'|]. split; [constructor|].
        * rewrite set_orders_inside; [exact Hlv|exact Nc|exact Lv|]. intros x Hx. rewrite L'. apply Bc. exact Hx.
        * apply (forall2_change (lev ord')); [|exact F']. apply Forall_forall. intros ck Hck x Hx. symmetry. apply set_orders_outside.
          intros Hin. apply (Dc ck Hck x Hin Hx).
        * intros v Hv Hout. rewrite set_orders_outside by (apply (Hout c); left; reflexivity). apply Z'; [exact Hv|].
          intros c0 Hc0. apply Hout. right. exact Hc0.
      + intros (L & F & Z). inversion F as [|? ? ? ? Fc F']; subst.
        set (ord' := set_orders ord c (repeat 0 (length c))).
        assert (Bo : forall x, In x c -> x < length ord) by (intros x Hx; rewrite L; apply Bc; exact Hx).
        assert (Zc : forall v, In v c -> lev ord' v = 0).
        { intros v Hv. assert (M : map (lev ord') c = repeat 0 (length c)) by (apply set_orders_inside; [exact Nc|apply repeat_length|exact Bo]).
          assert (In (lev ord' v) (map (lev ord') c)) by (apply in_map; exact Hv). rewrite M in H. apply repeat_spec in H. exact H. }
        exists ord'. split.
        * apply (IH Hc' Hd'). split; [unfold ord'; rewrite set_orders_length; exact L|]. split.
          -- apply (forall2_change (lev ord)); [|exact F']. apply Forall_forall. intros ck Hck x Hx. unfold ord'. symmetry. apply set_orders_outside.
             intros Hin. apply (Dc ck Hck x Hin Hx).
          -- intros v Hv Hout. destruct (in_dec Nat.eq_dec v c) as [Hin|Hnot]; [apply Zc; exact Hin|].
             unfold ord'. rewrite set_orders_outside by exact Hnot. apply Z; [exact Hv|]. intros c0 [<-|Hc0]; [exact Hnot|apply Hout; exact Hc0].
        * apply in_map_iff. exists (map (lev ord) c). split; [|exact Fc].
          apply lev_ext; [rewrite set_orders_length; unfold ord'; rewrite set_orders_length; reflexivity|].
          intros v _. destruct (in_dec Nat.eq_dec v c) as [Hin|Hnot].
          -- assert (M : map (lev (set_orders ord' c (map (lev ord) c))) c = map (lev ord) c).
             { apply set_orders_inside; [exact Nc|apply map_length|]. intros x Hx. unfold ord'. rewrite set_orders_length. apply Bo. exact Hx. }
             apply (ext_in_map M). exact Hin.
          -- rewrite set_orders_outside by exact Hnot. unfold ord'. apply set_orders_outside. exact Hnot.
  Qed.
End Product.

(* ---------------------------------------------------------------- local assignment of a group *)
Definition la (ord : list nat) (c : list nat) : assoc := combine c (map (lev ord) c).

Lemma la_in : forall ord c v o, In (v, o) (la ord c) <-> In v c /\ o = lev ord v.
Proof.
  intros ord. unfold la. induction c as [|x c IH]; intros v o; cbn [map combine In]; [tauto|]. rewrite IH. split.
  - intros [H|[H1 H2]]; [injection H as <- <-; auto|auto].
  - intros [[<-|H] ->]; [left; reflexivity|right; auto].
Qed.
Lemma la_keys : forall ord c, map fst (la ord c) = c.
Proof. intros ord. unfold la. induction c as [|x c IH]; cbn [map combine fst]; [reflexivity|]. f_equal. exact IH. Qed.

Lemma lookup_la : forall ord c v, In v c -> lookup (la ord c) v = lev ord v.
Proof.
  intros ord. unfold la. induction c as [|x c IH]; intros v H; [destruct H|]. cbn [map combine]. unfold lookup. cbn [find fst].
  destruct (Nat.eqb_spec x v) as [->|Hne]; [reflexivity|]. destruct H as [H|H]; [contradiction|]. apply IH. exact H.
Qed.

Definition good (adj : nat -> nat -> bool) (c lv : list nat) : Prop :=
  exists a, coloured_ok adj a /\ Permutation (map fst a) c /\ lv = canon a c.

Lemma good_iff_local : forall adj ord c, NoDup c -> (good adj c (map (lev ord) c) <-> coloured_ok adj (la ord c)).
Proof.
  intros adj ord c N. split.
  - intros (a & (Na & Pa & Ga) & P & E).
    assert (Same : forall v o, In (v, o) a <-> In (v, o) (la ord c)).
    { assert (Lk : forall v, In v c -> lookup a v = lev ord v).
      { intros v Hv. unfold canon in E. symmetry. apply (ext_in_map E). exact Hv. }
      assert (G : forall b, NoDup (map fst b) -> forall v o, In (v, o) b -> lookup b v = o).
      { clear. induction b as [|[w p] b IH]; intros Nb v o H; [destruct H|]. unfold lookup. cbn [find fst]. cbn [map fst] in Nb. inversion Nb as [|? ? Hn N']; subst.
        destruct (w =? v) eqn:E.
        - apply Nat.eqb_eq in E. subst w. destruct H as [H|H]; [injection H as <-; reflexivity|]. exfalso. apply Hn. apply (in_map fst) in H. exact H.
        - destruct H as [H|H]; [injection H as -> _; rewrite Nat.eqb_refl in E; discriminate|]. apply (IH N' v o H). }
      intros v o. rewrite la_in. split.
      - intros H. assert (Hv : In v c) by (apply (Permutation_in _ P); apply (in_map fst) in H; exact H).
        split; [exact Hv|]. rewrite <- (Lk v Hv). symmetry. apply G; assumption.
      - intros [Hv ->]. assert (Hk : In v (map fst a)) by (apply (Permutation_in _ (Permutation_sym P)); exact Hv).
        apply in_map_iff in Hk. destruct Hk as ([w o] & Ew & Hin). cbn in Ew. subst w. rewrite <- (Lk v Hv), (G a Na v o Hin). exact Hin. }
    split; [rewrite la_keys; exact N|]. split.
    + intros v o v' o' H1 H2. apply Pa; apply Same; assumption.
    + intros v o k H1 Hk. destruct (Ga v o k (proj2 (Same v o) H1) Hk) as (v' & Hv' & Ha). exists v'. split; [apply Same; exact Hv'|exact Ha].
  - intros Hok. exists (la ord c). split; [exact Hok|]. split; [rewrite la_keys; apply Permutation_refl|].
    unfold canon. apply map_ext_in. intros v Hv. symmetry. apply lookup_la. exact Hv.
Qed.

(* ---------------------------------------------------------------- global greedy-stability, split over the groups *)
Section Split.
  Variable adj : nat -> nat -> bool.
  Variable n : nat.
  Hypothesis adj_sym : forall i j, adj i j = adj j i.
  Hypothesis adj_lt : forall i j, adj i j = true -> i < n /\ j < n.

  Definition stableP (ord : list nat) : Prop :=
    (forall i j, adj i j = true -> lev ord i <> lev ord j) /\
    (forall i k, i < n -> k < lev ord i -> exists j, adj i j = true /\ lev ord j = k).

  Theorem stable_split : forall comps ord, comps_inv adj n n comps ->
      (stableP ord <-> (forall c, In c comps -> coloured_ok adj (la ord c)) /\ zero_outside n comps ord).
  Proof.
    intros comps ord (Ok & _ & Cover). split.
    - intros [P G]. split.
      + intros c Hc. destruct (Ok c Hc) as (Nc & Bc & Cl & _). split; [rewrite la_keys; exact Nc|]. split.
        * intros v o v' o' H1 H2 Ha. apply la_in in H1, H2. destruct H1 as [_ ->], H2 as [_ ->]. apply P. exact Ha.
        * intros v o k H1 Hk. apply la_in in H1. destruct H1 as [Hv ->]. destruct (G v k (Bc v Hv) Hk) as (j & Ha & Hj).
          exists j. split; [apply la_in; split; [apply (Cl v j Hv Ha)|symmetry; exact Hj]|exact Ha].
      + intros v Hv Hout. destruct (Nat.eq_dec (lev ord v) 0) as [E|NE]; [exact E|exfalso].
        destruct (G v 0 Hv) as (j & Ha & _); [lia|].
        destruct (Nat.eq_dec (degree adj n v) 0) as [D|D].
        * rewrite (degree_zero adj n adj_lt) in D. rewrite D in Ha. discriminate.
        * destruct (Cover v Hv D) as (c & Hc & Hvc). apply (Hout c Hc Hvc).
    - intros [L Z]. split.
      + intros i j Ha. destruct (adj_lt i j Ha) as [Hi _].
        assert (D : degree adj n i <> 0) by (intros D; rewrite (degree_zero adj n adj_lt) in D; rewrite D in Ha; discriminate).
        destruct (Cover i Hi D) as (c & Hc & Hic). destruct (Ok c Hc) as (_ & _ & Cl & _). destruct (L c Hc) as (_ & P & _).
        apply (P i (lev ord i) j (lev ord j)); [apply la_in; auto|apply la_in; split; [apply (Cl i j Hic Ha)|reflexivity]|exact Ha].
      + intros i k Hi Hk. destruct (existsb (mem i) comps) eqn:E.
        * apply existsb_exists in E. destruct E as (c & Hc & Hm). apply mem_iff in Hm. destruct (L c Hc) as (_ & _ & G).
          destruct (G i (lev ord i) k) as (v' & Hv' & Ha); [apply la_in; auto|exact Hk|]. apply la_in in Hv'. destruct Hv' as [_ ->]. exists v'. auto.
        * exfalso. assert (lev ord i = 0); [|lia]. apply Z; [exact Hi|]. intros c Hc Hin.
          assert (existsb (mem i) comps = true); [|congruence]. apply existsb_exists. exists c. split; [exact Hc|apply mem_iff; exact Hin].
  Qed.

  (* boolean form used by the independent characterisation *)
  Lemma stableb_iff : forall ord, length ord = n -> (stableb adj ord = true <-> stableP ord).
  Proof.
    intros ord L. unfold stableb, properb. cbv zeta. rewrite L, andb_true_iff. split.
    - intros [P G]. rewrite forallb_forall in P, G. split.
      + intros i j Ha. destruct (adj_lt i j Ha) as [Hi Hj].
        specialize (P i (proj2 (in_seq n 0 i) (conj (Nat.le_0_l _) Hi))). rewrite forallb_forall in P.
        specialize (P j (proj2 (in_seq n 0 j) (conj (Nat.le_0_l _) Hj))). rewrite Ha in P. cbn in P. apply negb_true_iff in P. apply Nat.eqb_neq in P. exact P.
      + intros i k Hi Hk. specialize (G i (proj2 (in_seq n 0 i) (conj (Nat.le_0_l _) Hi))). rewrite forallb_forall in G.
        specialize (G k (proj2 (in_seq (nth i ord 0) 0 k) (conj (Nat.le_0_l _) Hk))). apply existsb_exists in G. destruct G as (j & _ & Hj).
        apply andb_true_iff in Hj. destruct Hj as [Ha Hj]. apply Nat.eqb_eq in Hj. exists j. split; assumption.
    - intros [P G]. split; apply forallb_forall; intros i Hi; apply forallb_forall.
      + intros j Hj. destruct (adj i j) eqn:Ha; [|reflexivity]. cbn. apply negb_true_iff. apply Nat.eqb_neq. apply P. exact Ha.
      + intros k Hk. apply in_seq in Hi, Hk. destruct (G i k) as (j & Ha & Hj); [lia|unfold lev; lia|].
        apply existsb_exists. exists j. split; [apply in_seq; destruct (adj_lt i j Ha); lia|]. rewrite Ha. cbn. apply Nat.eqb_eq. exact Hj.
  Qed.

  (* a greedy-stable level never exceeds the number of crossing stems *)
  Lemma stable_le_degree : forall ord i, stableP ord -> i < n -> lev ord i <= degree adj n i.
  Proof.
    intros ord i [_ G] Hi.
    assert (I : incl (seq 0 (lev ord i)) (map (lev ord) (neighbours adj n i))).
    { intros k Hk. apply in_seq in Hk. destruct (G i k Hi) as (j & Ha & Hj); [lia|]. apply in_map_iff. exists j. split; [exact Hj|apply (in_nbrs adj n adj_lt); exact Ha]. }
    pose proof (NoDup_incl_length (seq_NoDup (lev ord i) 0) I) as Hl. rewrite seq_length, map_length in Hl. exact Hl.
  Qed.
End Split.

(* ---------------------------------------------------------------- the exhaustive candidate list *)
Lemma assignments_iff : forall bounds ord,
    In ord (assignments bounds) <-> length ord = length bounds /\ forall i, i < length bounds -> nth i ord 0 <= nth i bounds 0.
Proof.
  induction bounds as [|bd rest IH]; intros ord; cbn [assignments].
  - split; [intros [<-|[]]; split; [reflexivity|intros i Hi; cbn in Hi; lia]|]. intros [L _]. destruct ord; [left; reflexivity|discriminate].
  - rewrite in_flat_map. split.
    + intros (tl & Htl & H). apply in_map_iff in H. destruct H as (o & <- & Ho). apply IH in Htl. destruct Htl as [L B]. apply in_seq in Ho.
      split; [cbn; lia|]. intros [|i] Hi; cbn; [lia|]. apply B. cbn in Hi. lia.
    + intros [L B]. destruct ord as [|o tl]; [discriminate|]. exists tl. split.
      * apply IH. split; [cbn in L; lia|]. intros i Hi. apply (B (Datatypes.S i)). cbn. lia.
      * apply in_map_iff. exists o. split; [reflexivity|]. apply in_seq. specialize (B 0). cbn in B. lia.
Qed.
