(* C17: the report's per-residue / per-chain maxima (clashfinder.main keeps a running maximum per key while it walks
   the clash list): for every key the reported value is attained by one of the listed clashes of that key and no
   listed clash of that key exceeds it; every key with a clash is reported, once. *)
From Coq Require Import ZArith QArith List Bool Arith Lia.
From RV Require Import Base.Val Model.Clash.
Import ListNotations.
Local Open Scope Q_scope.

Definition keyeq (k k' : nat * nat) : bool := (fst k =? fst k')%nat && (snd k =? snd k')%nat.
Lemma keyeq_eq : forall k k', keyeq k k' = true <-> k = k'.
Proof.
  intros [a b] [c d]. unfold keyeq. cbn. rewrite andb_true_iff, !Nat.eqb_eq. split; [intros [-> ->]; reflexivity|intros H; injection H as -> ->; auto].
Qed.

Definition Inv (l : list ((nat * nat) * Q)) (m : list ((nat * nat) * Q)) : Prop :=
  NoDup (map fst m) /\
  (forall k, In k (map fst m) <-> In k (map fst l)) /\
  (forall k mv, In (k, mv) m -> (forall v, In (k, v) l -> v <= mv) /\ exists v, In (k, v) l /\ v == mv).

Lemma upd_max_keys : forall k v m x, In x (map fst (upd_max k v m)) <-> x = k \/ In x (map fst m).
Proof.
  intros k v. induction m as [|[k' v'] t IH]; intros x.
  - cbn. intuition.
  - cbn [upd_max]. fold (keyeq k k'). destruct (keyeq k k') eqn:E.
    + apply keyeq_eq in E. subst k'. cbn. intuition.
    + cbn [map fst In]. rewrite IH. intuition.
Qed.

Lemma upd_max_nodup : forall k v m, NoDup (map fst m) -> NoDup (map fst (upd_max k v m)).
Proof.
  intros k v. induction m as [|[k' v'] t IH]; intros H.
  - cbn. constructor; [intros []|constructor].
  - cbn [upd_max]. fold (keyeq k k'). destruct (keyeq k k') eqn:E; [exact H|].
    cbn [map fst] in *. inversion H as [|? ? Hn Ht]; subst. constructor; [|apply IH; exact Ht].
    intros Hin. apply upd_max_keys in Hin. destruct Hin as [->|Hin]; [|contradiction].
    assert (keyeq k k = true) by (apply keyeq_eq; reflexivity). congruence.
Qed.

Lemma upd_max_in : forall k v m k0 mv, NoDup (map fst m) -> In (k0, mv) (upd_max k v m) ->
    (k0 <> k /\ In (k0, mv) m) \/
    (k0 = k /\ ((~ In k (map fst m) /\ mv = (if Qle_bool 0 v then v else 0)) \/
                (exists v', In (k, v') m /\ mv = (if Qle_bool v' v then v else v')))).
Proof.
  intros k v. induction m as [|[k' v'] t IH]; intros k0 mv Hnd Hin.
  - cbn in Hin. destruct Hin as [Hin|[]]. injection Hin as <- <-. right. split; [reflexivity|]. left. split; [intros []|reflexivity].
  - cbn [upd_max] in Hin. fold (keyeq k k') in Hin. cbn [map fst] in Hnd. inversion Hnd as [|? ? Hn Ht]; subst.
    destruct (keyeq k k') eqn:E.
    + apply keyeq_eq in E. subst k'. destruct Hin as [Hin|Hin].
      * injection Hin as <- <-. right. split; [reflexivity|]. right. exists v'. split; [left; reflexivity|reflexivity].
      * left. split; [|right; exact Hin]. intros ->. apply Hn. apply in_map_iff. exists (k, mv). split; [reflexivity|exact Hin].
    + destruct Hin as [Hin|Hin].
      * injection Hin as <- <-. left. split; [|left; reflexivity]. intros ->.
        assert (keyeq k k = true) by (apply keyeq_eq; reflexivity). congruence.
      * destruct (IH k0 mv Ht Hin) as [[Hne Hi]|[-> [[Hni ->]|(v'' & Hi & ->)]]].
        -- left. split; [exact Hne|right; exact Hi].
        -- right. split; [reflexivity|]. left. split; [|reflexivity]. cbn. intros [->|Hi]; [|contradiction].
           assert (keyeq k k = true) by (apply keyeq_eq; reflexivity). congruence.
        -- right. split; [reflexivity|]. right. exists v''. split; [right; exact Hi|reflexivity].
Qed.

Lemma Qle_bool_false : forall a b, Qle_bool a b = false -> b < a.
Proof. intros a b H. apply Qnot_le_lt. intros Hle. apply Qle_bool_iff in Hle. congruence. Qed.

Lemma upd_max_inv : forall l m k v, 0 <= v -> Inv l m -> Inv (l ++ [(k, v)]) (upd_max k v m).
Proof.
  intros l m k v Hv (Hnd & Hkeys & Hmax). split; [apply upd_max_nodup; exact Hnd|]. split.
  - intros x. rewrite upd_max_keys, map_app, in_app_iff, Hkeys. cbn. intuition.
  - intros k0 mv Hin. destruct (upd_max_in k v m k0 mv Hnd Hin) as [[Hne Hi]|[-> [[Hni ->]|(v' & Hi & ->)]]].
    + destruct (Hmax k0 mv Hi) as [Hub (w & Hw & Ew)]. split.
      * intros x Hx. apply in_app_iff in Hx. destruct Hx as [Hx|[Hx|[]]]; [apply Hub; exact Hx|]. injection Hx as -> ->. congruence.
      * exists w. split; [apply in_or_app; left; exact Hw|exact Ew].
    + assert (Hq : Qle_bool 0 v = true) by (apply Qle_bool_iff; exact Hv). rewrite Hq. split.
      * intros x Hx. apply in_app_iff in Hx. destruct Hx as [Hx|[Hx|[]]].
        -- exfalso. apply Hni. apply Hkeys. apply in_map_iff. exists (k, x). split; [reflexivity|exact Hx].
        -- injection Hx as ->. apply Qle_refl.
      * exists v. split; [apply in_or_app; right; left; reflexivity|reflexivity].
    + destruct (Hmax k v' Hi) as [Hub (w & Hw & Ew)]. destruct (Qle_bool v' v) eqn:E.
      * apply Qle_bool_iff in E. split.
        -- intros x Hx. apply in_app_iff in Hx. destruct Hx as [Hx|[Hx|[]]].
           ++ eapply Qle_trans; [apply Hub; exact Hx|exact E].
           ++ injection Hx as ->. apply Qle_refl.
        -- exists v. split; [apply in_or_app; right; left; reflexivity|reflexivity].
      * apply Qle_bool_false in E. split.
        -- intros x Hx. apply in_app_iff in Hx. destruct Hx as [Hx|[Hx|[]]]; [apply Hub; exact Hx|].
           injection Hx as ->. apply Qlt_le_weak. exact E.
        -- exists w. split; [apply in_or_app; left; exact Hw|exact Ew].
Qed.

Lemma fold_inv : forall l done m, Forall (fun kv => 0 <= snd kv) l -> Inv done m ->
    Inv (done ++ l) (fold_left (fun m kv => upd_max (fst kv) (snd kv) m) l m).
Proof.
  induction l as [|[k v] l IH]; intros done m Hnn H; [rewrite app_nil_r; exact H|].
  inversion Hnn as [|? ? Hv Hnn']; subst. cbn [fold_left fst snd].
  replace (done ++ (k, v) :: l) with ((done ++ [(k, v)]) ++ l) by (rewrite <- app_assoc; reflexivity).
  apply IH; [exact Hnn'|]. apply upd_max_inv; [exact Hv|exact H].
Qed.

(* every key with a listed clash is reported exactly once; its value is the sum of one of that key's listed clashes
   and no listed clash of that key has a larger sum *)
Theorem group_max_spec : forall l, Forall (fun kv => 0 <= snd kv) l ->
    NoDup (map fst (group_max l)) /\
    (forall k, In k (map fst (group_max l)) <-> In k (map fst l)) /\
    (forall k mv, In (k, mv) (group_max l) -> (forall v, In (k, v) l -> v <= mv) /\ exists v, In (k, v) l /\ v == mv).
Proof.
  intros l H. unfold group_max. apply (fold_inv l [] [] H).
  split; [constructor|]. split; [intros k; reflexivity|]. intros k mv [].
Qed.
