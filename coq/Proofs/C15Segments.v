(* C15: connected_residues of the table-level reader (Model/Group2.segments): the residues of a chain, in order, are cut
   exactly where the O3'-P test fails; pieces of a single residue are dropped; nothing else is lost or reordered. *)
From Coq Require Import List Bool Arith Lia.
From RV Require Import Model.Group2.
Import ListNotations.

Section Seg.
  Context {R : Type} (conn : R -> R -> bool).

  (* the same walk, keeping the one-residue pieces *)
  Fixpoint runs_go (cur : list R) (rs : list R) : list (list R) :=
    match rs with
    | [] => match cur with [] => [] | _ => [rev cur] end
    | r :: rest =>
        match cur with
        | [] => runs_go [r] rest
        | prev :: _ => if conn prev r then runs_go (r :: cur) rest else rev cur :: runs_go [r] rest
        end
    end.

  Definition long (s : list R) : bool := 2 <=? length s.

  Lemma segments_go_filter : forall rs cur, segments_go conn cur rs = filter long (runs_go cur rs).
  Proof.
    induction rs as [|r rest IH]; intros cur.
    - cbn [segments_go runs_go]. destruct cur as [|p c]; [reflexivity|]. cbn [filter]. unfold long. rewrite rev_length. reflexivity.
    - cbn [segments_go runs_go]. destruct cur as [|p c]; [apply IH|].
      destruct (conn p r); [apply IH|]. cbn [filter]. unfold long at 1. rewrite rev_length, IH.
      destruct (2 <=? length (p :: c)); reflexivity.
  Qed.

  (* nothing is lost or reordered by the walk *)
  Lemma runs_go_concat : forall rs cur, concat (runs_go cur rs) = rev cur ++ rs.
  Proof.
    induction rs as [|r rest IH]; intros cur.
    - cbn [runs_go]. destruct cur as [|p c]; [reflexivity|]. cbn [concat]. rewrite !app_nil_r. reflexivity.
    - cbn [runs_go]. destruct cur as [|p c]; [rewrite IH; reflexivity|].
      destruct (conn p r).
      + rewrite IH. cbn [rev]. rewrite <- app_assoc. reflexivity.
      + cbn [concat]. rewrite IH. reflexivity.
  Qed.

  Inductive linked : list R -> Prop :=
  | l_nil : linked []
  | l_one : forall x, linked [x]
  | l_cons : forall x y l, conn x y = true -> linked (y :: l) -> linked (x :: y :: l).

  Lemma linked_snoc : forall l p x, linked (l ++ [p]) -> conn p x = true -> linked ((l ++ [p]) ++ [x]).
  Proof.
    induction l as [|a l IH]; intros p x H Hc.
    - cbn. constructor; [exact Hc|constructor].
    - destruct l as [|b l].
      + cbn in *. inversion H; subst. constructor; [assumption|]. constructor; [exact Hc|constructor].
      + cbn [app] in *. inversion H; subst. constructor; [assumption|]. apply (IH p x); assumption.
  Qed.

  (* inside a piece every residue is connected to the next one *)
  Lemma runs_go_linked : forall rs cur, linked (rev cur) -> Forall linked (runs_go cur rs).
  Proof.
    induction rs as [|r rest IH]; intros cur H.
    - cbn [runs_go]. destruct cur; constructor; [exact H|constructor].
    - cbn [runs_go]. destruct cur as [|p c]; [apply IH; constructor|].
      destruct (conn p r) eqn:E.
      + apply IH. cbn [rev] in *. apply linked_snoc; assumption.
      + constructor; [exact H|]. apply IH. constructor.
  Qed.

  (* a cut is made only where the O3'-P test fails: the last residue of a piece is not connected to the first of the next *)
  Inductive cuts_ok : list (list R) -> Prop :=
  | c_nil : cuts_ok []
  | c_one : forall s, cuts_ok [s]
  | c_cons : forall s t l, (forall p h, hd_error (rev s) = Some p -> hd_error t = Some h -> conn p h = false) ->
                           cuts_ok (t :: l) -> cuts_ok (s :: t :: l).

  Lemma runs_go_hd : forall rs cur, cur <> [] -> exists tl more, runs_go cur rs = (rev cur ++ tl) :: more.
  Proof.
    induction rs as [|r rest IH]; intros cur Hne.
    - destruct cur as [|p c]; [congruence|]. exists [], []. cbn [runs_go]. rewrite app_nil_r. reflexivity.
    - destruct cur as [|p c]; [congruence|]. cbn [runs_go]. destruct (conn p r).
      + destruct (IH (r :: p :: c)) as (tl & more & E); [discriminate|]. exists (r :: tl), more. rewrite E.
        cbn [rev]. rewrite <- !app_assoc. reflexivity.
      + exists [], (runs_go [r] rest). rewrite app_nil_r. reflexivity.
  Qed.

  Lemma runs_go_cuts : forall rs cur, cuts_ok (runs_go cur rs).
  Proof.
    induction rs as [|r rest IH]; intros cur.
    - cbn [runs_go]. destruct cur; constructor.
    - cbn [runs_go]. destruct cur as [|p c]; [apply IH|]. destruct (conn p r) eqn:E; [apply IH|].
      destruct (runs_go_hd rest [r]) as (tl & more & E2); [discriminate|].
      pose proof (IH [r]) as Hc. rewrite E2 in *. constructor; [|exact Hc].
      intros p0 h Hp Hh. rewrite rev_involutive in Hp. cbn in Hp, Hh. injection Hp as <-. injection Hh as <-. exact E.
  Qed.

  Theorem segments_spec : forall rs,
      segments conn rs = filter long (runs_go [] rs) /\ concat (runs_go [] rs) = rs /\
      Forall linked (runs_go [] rs) /\ cuts_ok (runs_go [] rs) /\
      Forall (fun s => 2 <= length s /\ linked s) (segments conn rs).
  Proof.
    intros rs. unfold segments. repeat split.
    - apply segments_go_filter.
    - apply (runs_go_concat rs []).
    - apply runs_go_linked. constructor.
    - apply runs_go_cuts.
    - rewrite segments_go_filter. apply Forall_forall. intros s Hs. apply filter_In in Hs. destruct Hs as [Hin Hl].
      split; [unfold long in Hl; apply Nat.leb_le in Hl; exact Hl|].
      pose proof (runs_go_linked rs [] l_nil) as F. rewrite Forall_forall in F. apply F. exact Hin.
  Qed.
End Seg.
