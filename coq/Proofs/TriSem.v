(* Meaning of the three-valued angle decisions of the annotator model, first over Q (as computed), then over R as a
   statement about the squared cosine of the angle between the two vectors. *)
From Coq Require Import ZArith QArith Qreals Reals List Bool Lia Lra.
From RV Require Import Gen.Annot Model.Geom Model.Annot Proofs.BandsR.
Import ListNotations.
Local Close Scope Q_scope.
Local Open Scope Z_scope.

Lemma norm2Z_nonneg : forall a : vecZ, 0 <= norm2Z a.
Proof. intros [[x y] z]. unfold norm2Z, norm2, dot, vx, vy, vz. cbn [fst snd]. nia. Qed.

(* squared cosine of the angle between two integer vectors *)
Definition cosang2 (a b : vecZ) : R := (IZR (dotZ a b * dotZ a b) / IZR (norm2Z a * norm2Z b))%R.

Lemma Q2R_inject_Z : forall z, Q2R (inject_Z z) = IZR z.
Proof. intros z. unfold Q2R, inject_Z. cbn. lra. Qed.

Lemma qle_scaled : forall (q : Q) (s l : Z), 0 < s -> Qle_bool (q * inject_Z s) (inject_Z l) = true -> (Q2R q <= IZR l / IZR s)%R.
Proof.
  intros q s l Hs H. apply Qle_bool_iff in H. apply Qle_Rle in H. rewrite Q2R_mult, !Q2R_inject_Z in H.
  assert (0 < IZR s)%R by (apply IZR_lt; exact Hs).
  apply Rmult_le_reg_r with (r := IZR s); [assumption|]. unfold Rdiv. rewrite Rmult_assoc, Rinv_l by lra. lra.
Qed.
Lemma qgt_scaled : forall (q : Q) (s l : Z), 0 < s -> Qle_bool (q * inject_Z s) (inject_Z l) = false -> (IZR l / IZR s < Q2R q)%R.
Proof.
  intros q s l Hs H. assert (G : (inject_Z l < q * inject_Z s)%Q).
  { apply Qnot_le_lt. intros C. apply Qle_bool_iff in C. congruence. }
  apply Qlt_Rlt in G. rewrite Q2R_mult, !Q2R_inject_Z in G.
  assert (0 < IZR s)%R by (apply IZR_lt; exact Hs).
  apply Rmult_lt_reg_r with (r := IZR s); [assumption|]. unfold Rdiv. rewrite Rmult_assoc, Rinv_l by lra. lra.
Qed.

Definition degenerate (a b : vecZ) : Prop := norm2Z a = 0 \/ norm2Z b = 0.

Lemma nondegenerate_pos : forall a b, norm2Z a <> 0 -> norm2Z b <> 0 -> 0 < norm2Z a * norm2Z b.
Proof. intros a b Ha Hb. pose proof (norm2Z_nonneg a). pose proof (norm2Z_nonneg b). nia. Qed.

Theorem cos2_below_meaning : forall lo hi a b,
    match cos2_below lo hi a b with
    | Yes => ~ degenerate a b /\ (cosang2 a b < Q2R lo)%R /\ (cosang2 a b < Q2R hi)%R
    | Near => ~ degenerate a b /\ (Q2R lo <= cosang2 a b)%R /\ (cosang2 a b < Q2R hi)%R
    | No => degenerate a b \/ (Q2R hi <= cosang2 a b)%R
    end.
Proof.
  intros lo hi a b. unfold cos2_below. cbv zeta.
  destruct (norm2Z a =? 0) eqn:Ea; [left; left; apply Z.eqb_eq; exact Ea|].
  destruct (norm2Z b =? 0) eqn:Eb; [left; right; apply Z.eqb_eq; exact Eb|]. cbn [orb].
  apply Z.eqb_neq in Ea, Eb. pose proof (nondegenerate_pos a b Ea Eb) as Hs.
  assert (ND : ~ degenerate a b) by (intros [H|H]; contradiction).
  destruct (Qle_bool (hi * inject_Z (norm2Z a * norm2Z b)) (inject_Z (dotZ a b * dotZ a b))) eqn:E1.
  - right. apply qle_scaled; assumption.
  - destruct (Qle_bool (lo * inject_Z (norm2Z a * norm2Z b)) (inject_Z (dotZ a b * dotZ a b))) eqn:E2.
    + split; [exact ND|]. split; [apply qle_scaled|apply qgt_scaled]; assumption.
    + split; [exact ND|]. split; apply qgt_scaled; assumption.
Qed.

Theorem cos2_atleast_meaning : forall lo hi a b,
    match cos2_atleast lo hi a b with
    | Yes => ~ degenerate a b /\ (Q2R hi <= cosang2 a b)%R
    | Near => ~ degenerate a b /\ (Q2R lo <= cosang2 a b)%R /\ (cosang2 a b < Q2R hi)%R
    | No => degenerate a b \/ (cosang2 a b < Q2R lo)%R
    end.
Proof.
  intros lo hi a b. unfold cos2_atleast. pose proof (cos2_below_meaning lo hi a b) as M.
  destruct (cos2_below lo hi a b).
  - right. apply M.
  - destruct (norm2Z a =? 0) eqn:Ea; [left; left; apply Z.eqb_eq; exact Ea|].
    destruct (norm2Z b =? 0) eqn:Eb; [left; right; apply Z.eqb_eq; exact Eb|]. cbn [orb].
    apply Z.eqb_neq in Ea, Eb. destruct M as [[H|H]|H]; try contradiction.
    split; [intros [H'|H']; contradiction|exact H].
  - exact M.
Qed.

Theorem angle_atmost_meaning : forall lo hi v n,
    match angle_atmost lo hi v n with
    | Yes => 0 < dotZ v n /\ ~ degenerate v n /\ (Q2R hi <= cosang2 v n)%R
    | Near => 0 < dotZ v n /\ ~ degenerate v n /\ (Q2R lo <= cosang2 v n)%R /\ (cosang2 v n < Q2R hi)%R
    | No => dotZ v n <= 0 \/ degenerate v n \/ (cosang2 v n < Q2R lo)%R
    end.
Proof.
  intros lo hi v n. unfold angle_atmost. destruct (dotZ v n <=? 0) eqn:E; [left; apply Z.leb_le; exact E|].
  apply Z.leb_gt in E. pose proof (cos2_atleast_meaning lo hi v n) as M. destruct (cos2_atleast lo hi v n).
  - split; [exact E|exact M].
  - right. exact M.
  - split; [exact E|exact M].
Qed.

(* with the generated bands: in degrees *)
Local Open Scope R_scope.
Definition c2 (x : R) : R := cos (deg x) ^ 2.

Corollary window_meaning : forall n v,
    match in_window n v with
    | Yes => ~ degenerate n v /\ cosang2 n v < c2 (Q2R hbond_angle_lo)
    | Near => ~ degenerate n v /\ c2 (Q2R hbond_angle_lo + eps) < cosang2 n v < c2 (Q2R hbond_angle_lo - eps)
    | No => degenerate n v \/ c2 (Q2R hbond_angle_lo) < cosang2 n v
    end.
Proof.
  intros n v. unfold in_window. pose proof (cos2_below_meaning cos2_window_lo cos2_window_hi n v) as M.
  destruct window_band as (B1 & B2 & B3 & B4). unfold c2.
  destruct (cos2_below cos2_window_lo cos2_window_hi n v).
  - destruct M as (A & B & C). split; [exact A|lra].
  - destruct M as [A|A]; [left; exact A|right; lra].
  - destruct M as (A & B & C). split; [exact A|lra].
Qed.

Corollary normals_meaning : forall a b,
    match cos2_atleast cos2_normals_lo cos2_normals_hi a b with
    | Yes => ~ degenerate a b /\ c2 (Q2R stacking_normals_angle) < cosang2 a b
    | Near => ~ degenerate a b /\ c2 (Q2R stacking_normals_angle + eps) < cosang2 a b < c2 (Q2R stacking_normals_angle - eps)
    | No => degenerate a b \/ cosang2 a b < c2 (Q2R stacking_normals_angle)
    end.
Proof.
  intros a b. pose proof (cos2_atleast_meaning cos2_normals_lo cos2_normals_hi a b) as M.
  destruct normals_band as (B1 & B2 & B3 & B4). unfold c2.
  destruct (cos2_atleast cos2_normals_lo cos2_normals_hi a b).
  - destruct M as (A & B). split; [exact A|lra].
  - destruct M as [A|A]; [left; exact A|right; lra].
  - destruct M as (A & B & C). split; [exact A|lra].
Qed.

Corollary vector_meaning : forall v n,
    match angle_atmost cos2_vector_lo cos2_vector_hi v n with
    | Yes => (0 < dotZ v n)%Z /\ ~ degenerate v n /\ c2 (Q2R stacking_vector_angle) < cosang2 v n
    | Near => (0 < dotZ v n)%Z /\ ~ degenerate v n /\ c2 (Q2R stacking_vector_angle + eps) < cosang2 v n < c2 (Q2R stacking_vector_angle - eps)
    | No => (dotZ v n <= 0)%Z \/ degenerate v n \/ cosang2 v n < c2 (Q2R stacking_vector_angle)
    end.
Proof.
  intros v n. pose proof (angle_atmost_meaning cos2_vector_lo cos2_vector_hi v n) as M.
  destruct vector_band as (B1 & B2 & B3 & B4). unfold c2.
  destruct (angle_atmost cos2_vector_lo cos2_vector_hi v n).
  - destruct M as (A & B & C). split; [exact A|split; [exact B|lra]].
  - destruct M as [A|[A|A]]; [left; exact A|right; left; exact A|right; right; lra].
  - destruct M as (A & B & C & D). split; [exact A|split; [exact B|lra]].
Qed.
