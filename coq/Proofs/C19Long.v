(* C19: beyond the swept lengths.  Every label of seven or more characters - over ANY alphabet - is kept as an 'other'
   interaction: after the optional n prefix and a suffix at least five characters remain, and every recognised form has three
   or four.  Together with the exhaustive sweeps up to length six this covers every label string. *)
From Coq Require Import String Ascii ZArith List Bool Arith Lia ZifyBool.
From RV Require Import Base.Val Base.PyStr Gen.Common Gen.Adapter Model.Fr3d Proofs.C19Main.
Import ListNotations.

Ltac crush_other :=
  repeat (cbn -[Ascii.eqb is_digit_char lower_char upper_char Z.of_nat Z.eqb Z.geb ends_with removelast length] in *;
          match goal with
          | |- Ok ?x = Ok ?x => reflexivity
          | H : Some _ = None |- _ => discriminate H
          | H : None = Some _ |- _ => discriminate H
          | H : true = false |- _ => discriminate H
          | H : false = true |- _ => discriminate H
          | H : (Z.of_nat (length _) =? _)%Z = true |- _ => exfalso; cbn [length removelast] in H; lia
          | |- context [if ?b then _ else _] => destruct b eqn:?
          | |- context [match ?x with _ => _ end] => destruct x eqn:?
          end).

Theorem unify_long : forall s, 7 <= length s -> unify s = Ok (LS "other", None).
Proof.
  intros s H. destruct s as [|c0 [|c1 [|c2 [|c3 [|c4 [|c5 [|c6 tl]]]]]]]; cbn [length] in H; try lia.
  clear H. unfold unify. crush_other. all: reflexivity.
Qed.
