(* C15/C09: files written by write_pdb are regular, so the residue-level reader decodes them to the written atoms too. *)
From Coq Require Import String Ascii ZArith List Bool Arith Lia.
From RV Require Import Base.Val Base.PyStr Gen.Parser Gen.ParserV2 Model.Reader1 Model.PdbLine Proofs.NumStr Proofs.C09Main Proofs.C15Main.
Import ListNotations.

Lemma regular_atom_line : forall a, row_ok a = true -> regular (format_line a) = true.
Proof.
  intros a H. unfold row_ok in H. apply andb_true_iff in H. destruct H as [H _]. apply andb_true_iff in H. destruct H as [F T].
  unfold regular. cbv zeta. rewrite (atom_line_type a F). destruct (line_80 a F) as [_ E]. rewrite E. unfold fields. cbn [concat].
  unfold atom_type in T. apply orb_true_iff in T. destruct T as [T|T]; apply str_eqb_eq' in T; rewrite T; reflexivity.
Qed.

Lemma regular_ter : forall s rn ch rs ic, regular (ter_line s rn ch rs ic) = true.
Proof.
  intros. unfold regular. cbv zeta. rewrite rt_col. unfold ter_line, ljust, substr. cbn [skipn Nat.sub].
  change (list_ascii_of_string "TER   ") with ["T"; "E"; "R"; " "; " "; " "]%char. cbn [app firstn]. reflexivity.
Qed.

Lemma regular_model : forall m, regular (model_line m) = true.
Proof.
  intros m. unfold regular. cbv zeta. rewrite rt_col. unfold model_line.
  change (list_ascii_of_string "MODEL     ") with ["M"; "O"; "D"; "E"; "L"; " "; " "; " "; " "; " "]%char.
  unfold substr. cbn [skipn Nat.sub app firstn]. reflexivity.
Qed.

Lemma regular_close_chain : forall st, forallb regular (close_chain st) = true.
Proof. intros st. unfold close_chain. destruct (w_chain st); [|reflexivity]. destruct (w_res st) as [[rs ic] rn]. cbn [forallb]. rewrite regular_ter. reflexivity. Qed.

Lemma write_go_regular : forall l st, (forall a, In a l -> row_ok a = true) -> forallb regular (write_go st l) = true.
Proof.
  induction l as [|a l IH]; intros st Hok; cbn [write_go].
  - rewrite !forallb_app, regular_close_chain. destruct (w_model st); reflexivity.
  - cbv zeta. rewrite !forallb_app. cbn [forallb]. rewrite (regular_atom_line a (Hok a (or_introl eq_refl))), IH by (intros b Hb; apply Hok; right; exact Hb).
    rewrite !andb_true_r. apply andb_true_iff. split.
    + destruct (match w_model st with Some m => negb (m =? ar_model a)%Z | None => true end); [|reflexivity].
      rewrite forallb_app. cbn [forallb]. rewrite regular_model. rewrite andb_true_r.
      destruct (w_model st); [|reflexivity]. rewrite forallb_app. destruct ter_before_every_endmdl; [rewrite regular_close_chain|]; reflexivity.
    + match goal with |- forallb regular (match w_chain ?s with Some ch => _ | None => _ end) = true => destruct (w_chain s) as [ch|] eqn:Ech; [|reflexivity]; destruct (str_eqb ch (ar_chain a)); [reflexivity|apply regular_close_chain] end.
Qed.

Theorem written_files_regular : forall l, (forall a, In a l -> row_ok a = true) -> forallb regular (write_pdb l) = true.
Proof. intros l H. unfold write_pdb. destruct l as [|a l]; [reflexivity|]. apply write_go_regular. exact H. Qed.

(* both readers on a written file: whatever the residue-level reader decodes agrees, atom by atom, with what was written *)
Theorem both_readers_on_written_file : forall l l1, (forall a, In a l -> row_ok a = true) ->
    decode_pdb 1 (write_pdb l) = Ok l1 -> Forall2 agree l1 (map (fun a => expected (ar_model a) a) l).
Proof.
  intros l l1 Hok H. rewrite <- (file_roundtrip l Hok). apply readers_agree_on_file; [apply written_files_regular; exact Hok|exact H].
Qed.
