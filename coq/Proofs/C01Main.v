(* Assembly of C01: lossless encoding for every proper level assignment, and for FCFS. *)
From Coq Require Import String Ascii ZArith List Bool Arith Lia ZifyBool.
From RV Require Import Base.Val Gen.Common Model.Bpseq Model.Spec2D
     Proofs.Stack Proofs.Encode Proofs.Fcfs Proofs.Regions.
Import ListNotations.

Lemma list_eqb_refl : forall l, list_eqb pair_eqb l l = true.
Proof.
  induction l as [|[a b] l IH]; [reflexivity|]. cbn [list_eqb]. rewrite IH.
  unfold pair_eqb. cbn [fst snd]. rewrite !Nat.eqb_refl. reflexivity.
Qed.

Lemma list_eqb_eq : forall l l', list_eqb pair_eqb l l' = true -> l = l'.
Proof.
  induction l as [|[a b] l IH]; intros [|[a' b'] l'] H; try discriminate; [reflexivity|].
  cbn [list_eqb] in H. apply andb_true_iff in H. destruct H as [H1 H2].
  unfold pair_eqb in H1. cbn [fst snd] in H1. apply andb_true_iff in H1. destruct H1 as [A B].
  apply Nat.eqb_eq in A, B. subst. f_equal. apply IH. exact H2.
Qed.

(* pin: every character of the bracket table and the dot belong to the decoder's alphabet *)
Lemma brackets_in_alphabet : forall o, o < length brackets ->
    in_alphabet (bopen o) = true /\ in_alphabet (bclose o) = true.
Proof.
  assert (H : forallb (fun o => in_alphabet (bopen o) && in_alphabet (bclose o)) (seq 0 (length brackets)) = true)
    by (vm_compute; reflexivity).
  intros o Ho. rewrite forallb_forall in H. specialize (H o). rewrite in_seq in H.
  apply andb_true_iff. apply H. lia.
Qed.

Lemma last_cover_alphabet : forall rs ord p c,
    (forall o, In o ord -> o < length brackets) ->
    last_cover rs ord p = Some c -> in_alphabet c = true.
Proof.
  induction rs as [|r rs IH]; intros ord p c Hl H; [discriminate|].
  destruct ord as [|o ord]; [discriminate|]. cbn [last_cover] in H.
  destruct (last_cover rs ord p) as [c'|] eqn:E.
  - injection H as <-. eapply IH; [|exact E]. intros o' Ho'. apply Hl. right. exact Ho'.
  - unfold cover1 in H. destruct (brackets_in_alphabet o (Hl o (or_introl eq_refl))) as [A B].
    destruct (in5b r (S p)); [injection H as <-; exact A|].
    destruct (in3b r (S p)); [injection H as <-; exact B|discriminate].
Qed.

Lemma forallb_nth : forall (A : Type) (f : A -> bool) (l : list A) d,
    (forall p, p < length l -> f (nth p l d) = true) -> forallb f l = true.
Proof.
  intros A f l d H. apply forallb_forall. intros x Hx. apply (In_nth _ _ d) in Hx.
  destruct Hx as (p & Hp & <-). apply H. exact Hp.
Qed.

(* ---------------------------------------------------------------- main theorems *)

Theorem encode_decode : forall b ord,
    valid b = true -> proper (regions b) ord -> (forall o, In o ord -> o < length brackets) ->
    exists s, make_db b (regions b) ord = Ok s /\
              length s = length b /\ parse_db s = Ok (pairs0 b) /\ balanced s = true /\
              forallb in_alphabet s = true /\ lossless b s = true.
Proof.
  intros b ord Hv Hp Hl.
  pose proof (regions_of_valid_wf b Hv) as Hwf.
  destruct Hp as [Hlen Hpp].
  destruct (make_structure_char (regions b) ord (repeat dot (length b)) Hlen) as (s & E & L & C).
  { intros r Hr. rewrite repeat_length. apply Hwf. exact Hr. }
  { exact Hl. }
  exists s. unfold make_db.
  destruct (written_decodes (length b) (regions b) ord s Hwf (conj Hlen Hpp) Hl E) as (A1 & A2 & A3).
  rewrite (decoded_of_valid b Hv) in A2.
  assert (A4 : forallb in_alphabet s = true).
  { apply (forallb_nth _ _ _ dot). intros p Hp'.
    destruct (written_char (length b) (regions b) ord s Hwf (conj Hlen Hpp) Hl E) as [_ Ch].
    rewrite Ch. destruct (last_cover (regions b) ord p) as [c|] eqn:Ec.
    - eapply last_cover_alphabet; eassumption.
    - vm_compute. reflexivity. }
  repeat split; try assumption.
  unfold lossless. rewrite A1, Nat.eqb_refl, A4, A3, A2, list_eqb_refl. reflexivity.
Qed.

(* the boolean checker used on implementation outputs means what it says *)
Theorem lossless_sound : forall b s, lossless b s = true ->
    length s = length b /\ forallb in_alphabet s = true /\ balanced s = true /\ parse_db s = Ok (pairs0 b).
Proof.
  intros b s H. unfold lossless in H.
  apply andb_true_iff in H. destruct H as [H H4].
  apply andb_true_iff in H. destruct H as [H H3].
  apply andb_true_iff in H. destruct H as [H1 H2].
  apply Nat.eqb_eq in H1. repeat split; try assumption.
  destruct (parse_db s) as [ps|]; [|discriminate]. f_equal. apply list_eqb_eq. exact H4.
Qed.

Theorem fcfs_lossless : forall b s, valid b = true -> fcfs b = Ok s -> lossless b s = true.
Proof.
  intros b s Hv H. unfold fcfs, bind in H.
  destruct (fcfs_orders (regions b)) as [ord|] eqn:E; [|discriminate].
  destruct (fcfs_orders_proper _ _ E) as [Hp Hl].
  destruct (encode_decode b ord Hv Hp) as (s' & E' & _ & _ & _ & _ & Hs').
  - intros o Ho. rewrite Forall_forall in Hl. specialize (Hl o Ho).
    assert (fcfs_levels <= length brackets) by (vm_compute; lia). lia.
  - rewrite E' in H. injection H as <-. exact Hs'.
Qed.

(* more than fcfs_levels mutually crossing stems: a refusal, never a wrong string *)
Theorem fcfs_refuses_cleanly : forall b e, valid b = true -> fcfs b = Raise e -> e = StopIteration.
Proof.
  intros b e Hv H. unfold fcfs, bind in H.
  destruct (fcfs_orders (regions b)) as [ord|e'] eqn:E.
  - destruct (fcfs_orders_proper _ _ E) as [Hp Hl].
    destruct (encode_decode b ord Hv Hp) as (s' & E' & _).
    + intros o Ho. rewrite Forall_forall in Hl. specialize (Hl o Ho).
      assert (fcfs_levels <= length brackets) by (vm_compute; lia). lia.
    + rewrite E' in H. discriminate.
  - injection H as <-. eapply fcfs_orders_only_stops. exact E.
Qed.

(* the improper assignment of the design's negative example really loses pairs *)
Example improper_loses_pairs :
  let b := map (fun x => {| idx := fst x; nt := "A"%char; pair := snd x |})
               [(1,7);(2,6);(3,0);(4,9);(5,10);(6,2);(7,1);(8,0);(9,4);(10,5)] in
  valid b = true /\ regions b = [(1,7,2);(4,9,1);(5,10,1)] /\
  (exists s, make_db b (regions b) [0;1;2] = Ok s /\ lossless b s = true) /\
  (exists s, make_db b (regions b) [0;1;1] = Ok s /\ lossless b s = false).
Proof. vm_compute. repeat split; eexists; split; reflexivity. Qed.
