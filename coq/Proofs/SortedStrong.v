(* C04 / C11: "sorted" in the strong sense.  When no two residues of the structure share an identity (model, chain, number,
   insertion code) the sort key of the reported stackings is a strict total order on (first residue, second residue, label),
   so the reported list is strongly sorted: no entry is followed, anywhere later, by one that sorts strictly before it. *)
From Coq Require Import String Ascii ZArith List Bool Arith Lia Sorted.
From RV Require Import Base.Val Base.PyStr Gen.Common Gen.Annot Model.Geom Model.AllDb Model.Annot Proofs.SortStr Proofs.ResOrder Proofs.C04Main.
Import ListNotations.

Lemma locally_to_strongly : forall (A : Type) (R : A -> A -> Prop) (P : A -> Prop),
    (forall x y z, P x -> P y -> P z -> R x y -> R y z -> R x z) ->
    forall l, Forall P l -> LocallySorted R l -> StronglySorted R l.
Proof.
  intros A R P T. induction l as [|x l IH]; intros HP HS; [constructor|].
  inversion HP as [|? ? Px Pl]; subst.
  assert (Sl : LocallySorted R l) by (inversion HS; subst; [constructor|assumption]).
  specialize (IH Pl Sl). constructor; [exact IH|].
  destruct l as [|y l]; [constructor|]. inversion HS as [| |? ? ? _ Rxy]; subst.
  constructor; [exact Rxy|]. inversion IH as [|? ? _ Hy]; subst. inversion Pl as [|? ? Py Pl']; subst.
  rewrite Forall_forall in Hy, Pl' |- *. intros z Hz. apply (T x y z Px Py (Pl' z Hz) Rxy (Hy z Hz)).
Qed.

Section Stack.
  Variable rs : list res3.
  Hypothesis Hnd : NoDup (map res_key rs).

  Definition valid_entry (e : nat * nat * string) : Prop :=
    exists ri rj, nth_error rs (fst (fst e)) = Some ri /\ nth_error rs (snd (fst e)) = Some rj.

  Definition okey (i : nat) := match nth_error rs i with Some r => res_key r | None => (0%Z, ([], (0%Z, []))) end.
  Definition skey (e : nat * nat * string) := (okey (fst (fst e)), (okey (snd (fst e)), S (snd e))).
  Definition slex := lex key_ltb (lex key_ltb str_ltb).

  Lemma slex_strict_total : strict_total slex.
  Proof. apply lex_strict_total; [apply key_ltb_strict_total|]. apply lex_strict_total; [apply key_ltb_strict_total|apply str_ltb_strict_total]. Qed.

  Lemma same_index_or_keys_differ : forall i j ri rj, nth_error rs i = Some ri -> nth_error rs j = Some rj ->
      (i = j /\ ri = rj) \/ (i <> j /\ res_key ri <> res_key rj).
  Proof.
    intros i j ri rj Hi Hj. destruct (Nat.eq_dec i j) as [->|Ne]; [left; split; [reflexivity|congruence]|right; split; [exact Ne|]].
    intros E. apply Ne. pose proof Hnd as N. rewrite NoDup_nth_error in N. apply N.
    - rewrite map_length. apply nth_error_Some. congruence.
    - rewrite !nth_error_map, Hi, Hj. cbn. congruence.
  Qed.

  Lemma level : forall i1 i2 r1 r2 (rest : bool), nth_error rs i1 = Some r1 -> nth_error rs i2 = Some r2 ->
      (if i1 =? i2 then rest else res_ltb r1 r2) =
      (if key_ltb (res_key r1) (res_key r2) then true else if key_ltb (res_key r2) (res_key r1) then false else rest).
  Proof.
    intros i1 i2 r1 r2 rest H1 H2. pose proof key_ltb_strict_total as S.
    destruct (same_index_or_keys_differ i1 i2 r1 r2 H1 H2) as [[-> ->]|[Ne Kne]].
    - rewrite Nat.eqb_refl, (st_irrefl _ S). reflexivity.
    - apply Nat.eqb_neq in Ne. rewrite Ne, res_ltb_key.
      destruct (key_ltb (res_key r1) (res_key r2)) eqn:E1; [reflexivity|].
      destruct (key_ltb (res_key r2) (res_key r1)) eqn:E2; [reflexivity|].
      exfalso. apply Kne. apply (st_total _ S); assumption.
  Qed.

  Lemma stack_ltb_lex : forall a b, valid_entry a -> valid_entry b -> stack_ltb rs a b = slex (skey a) (skey b).
  Proof.
    intros [[i1 j1] t1] [[i2 j2] t2] (ri1 & rj1 & Hi1 & Hj1) (ri2 & rj2 & Hi2 & Hj2). cbn [fst snd] in *.
    unfold stack_ltb, slex, skey, okey, lex. cbn [fst snd]. rewrite Hi1, Hi2, Hj1, Hj2.
    rewrite (level i1 i2 ri1 ri2 _ Hi1 Hi2). rewrite (level j1 j2 rj1 rj2 _ Hj1 Hj2). reflexivity.
  Qed.

  Lemma nondesc_trans : forall x y z, valid_entry x -> valid_entry y -> valid_entry z ->
      stack_ltb rs y x = false -> stack_ltb rs z y = false -> stack_ltb rs z x = false.
  Proof.
    intros x y z Vx Vy Vz H1 H2. rewrite stack_ltb_lex in * by assumption.
    apply (st_negtrans _ _ slex_strict_total (skey z) (skey y) (skey x)); assumption.
  Qed.

  Lemma stack_pair_valid : forall cs ij e, fst (stack_pair rs cs ij) = Some e -> valid_entry e.
  Proof.
    intros cs ij e. unfold stack_pair.
    destruct (nth_error cs (fst ij)) as [[i [si ki]]|]; [|discriminate]. destruct (nth_error cs (snd ij)) as [[j [sj kj]]|]; [|discriminate].
    destruct (nth_error rs i) as [ri|] eqn:Ri; [|discriminate]. destruct (nth_error rs j) as [rj|] eqn:Rj; [|discriminate].
    destruct (base_normal ri) as [v|]; [|discriminate]. destruct (base_normal rj) as [v0|]; [|discriminate].
    assert (Fin : forall same : bool, valid_entry (if res_ltb ri rj then (i, j, if same then "upward" else "inward")%string
                                                  else (j, i, if same then "downward" else "outward")%string)).
    { intros same. destruct (res_ltb ri rj); cbn [fst snd]; [exists ri, rj|exists rj, ri]; split; assumption. }
    destruct (cos2_atleast cos2_normals_lo cos2_normals_hi v v0) eqn:D1; [|discriminate|].
    - destruct (tri_or _ _) eqn:D2; [|discriminate|]; cbn [fst]; intros H; injection H as <-; apply Fin.
    - destruct (tri_or _ _) eqn:D2; [|discriminate|]; cbn [fst]; intros H; injection H as <-; apply Fin.
  Qed.

  Theorem stackings_strongly_sorted : forall order,
      StronglySorted (fun x y => stack_ltb rs y x = false) (so_stackings (find_stackings rs order)).
  Proof.
    intros order. apply (locally_to_strongly _ _ valid_entry).
    - intros x y z Vx Vy Vz H1 H2. apply (nondesc_trans x y z); assumption.
    - unfold find_stackings. cbv zeta. destruct (length (centres rs) <? 2); [constructor|]. cbn [so_stackings].
      apply Forall_forall. intros e He. apply SortGen.stable_sort_in in He. apply in_flat_map in He. destruct He as (r & Hr & He).
      apply in_map_iff in Hr. destruct Hr as (ij & <- & _).
      destruct (fst (stack_pair rs (centres rs) ij)) as [e'|] eqn:E; [|destruct He]. destruct He as [<-|[]].
      apply (stack_pair_valid _ _ _ E).
    - apply reported_sorted.
  Qed.
End Stack.

(* ---------------------------------------------------------------- base pairs *)
From RV Require Import Proofs.SortGen Proofs.C03Hbonds Proofs.C03Occupy Proofs.C03Main Proofs.C11Main.

Section Pairs.
  Variable rs : list res3.
  Hypothesis Hnd : NoDup (map res_key rs).

  Definition valid_label (l : label) : Prop :=
    match l with (i, j, _, _, _) => exists ri rj, nth_error rs i = Some ri /\ nth_error rs j = Some rj end.
  Definition pkey (l : label) := match l with (i, j, _, _, _) => (okey rs i, (okey rs j, lw_of l)) end.

  Lemma pair_ltb_lex : forall a b, valid_label a -> valid_label b -> pair_ltb rs a b = slex (pkey a) (pkey b).
  Proof.
    intros [[[[i1 j1] c1] e1] f1] [[[[i2 j2] c2] e2] f2] (ri1 & rj1 & Hi1 & Hj1) (ri2 & rj2 & Hi2 & Hj2).
    unfold pair_ltb, slex, pkey, okey, lex. cbn [fst snd]. rewrite Hi1, Hi2, Hj1, Hj2.
    rewrite (level rs Hnd i1 i2 ri1 ri2 _ Hi1 Hi2). rewrite (level rs Hnd j1 j2 rj1 rj2 _ Hj1 Hj2). reflexivity.
  Qed.

  Lemma pair_nondesc_trans : forall x y z, valid_label x -> valid_label y -> valid_label z ->
      pair_ltb rs y x = false -> pair_ltb rs z y = false -> pair_ltb rs z x = false.
  Proof.
    intros x y z Vx Vy Vz H1 H2. rewrite pair_ltb_lex in * by assumption.
    apply (st_negtrans _ _ slex_strict_total (pkey z) (pkey y) (pkey x)); assumption.
  Qed.

  Lemma hlabels_valid : forall h l, In l (hlabels rs h) -> valid_label l.
  Proof.
    intros h l H. unfold hlabels, labels_of in H.
    destruct (nth_error rs (h_i h)) as [ri|] eqn:Ri; [|destruct H]. destruct (nth_error rs (h_j h)) as [rj|] eqn:Rj; [|destruct H].
    destruct (edges_of ri (h_ni h)) as [ei|]; [|destruct H]. destruct (edges_of rj (h_nj h)) as [ej|]; [|destruct H].
    destruct (detect_cis_trans ri rj) as [d|]; [|destruct H].
    destruct (res_ltb ri rj); cbn [fst] in H; apply in_flat_map in H; destruct H as (a & _ & H); apply in_map_iff in H; destruct H as (b & <- & _);
      cbn; [exists ri, rj|exists rj, ri]; split; assumption.
  Qed.

  Theorem pairs_strongly_sorted : forall order, 2 <= length (candidates rs) ->
      exists ls, po_pairs (find_pairs rs order) = map (pair_of rs) ls /\ StronglySorted (fun x y => pair_ltb rs y x = false) ls.
  Proof.
    intros order G. exists (stable_sort (pair_ltb rs) (chosen rs order)). split; [apply find_pairs_pairs; exact G|].
    apply (locally_to_strongly _ _ valid_label).
    - intros x y z Vx Vy Vz H1 H2. apply (pair_nondesc_trans x y z); assumption.
    - apply Forall_forall. intros l Hl. apply stable_sort_in in Hl.
      destruct (chosen_pairs_spec rs order) as [Hj _]. destruct (Hj l Hl) as (_ & h1 & _ & _ & _ & _ & Hin & _).
      apply (hlabels_valid h1 l Hin).
    - apply (stable_sort_sorted (pair_ltb rs) (pair_ltb_asym rs)).
  Qed.
End Pairs.
