(* C16, part 6: the list always contains the first-come-first-served notation and the optimal notation, and is the single
   round-bracket string when no two stems cross. *)
From Coq Require Import String Ascii ZArith List Bool Arith Lia Permutation.
From RV Require Import Base.Val Gen.Common Model.Bpseq Model.Milp Model.AllDb Proofs.Stack Proofs.Encode Proofs.Fcfs Proofs.Colouring Proofs.FirstFit
     Proofs.C02Main Proofs.C13Main Proofs.SortStr Proofs.C16Main Proofs.C16Comp Proofs.C16Global Proofs.C16Final.
Import ListNotations.

(* pin: the three conflict tests of the source are one and the same expression *)
Lemma adj_all_is_adj_db : forall rs, adj_all rs = adj_db rs.
Proof. reflexivity. Qed.

Definition grundy_in (l : list (region * nat)) : Prop :=
  forall r o k, In (r, o) l -> k < o -> exists r', In (r', k) l /\ crossing r r'.

Lemma fcfs_go_grundy : forall rest done res,
    fcfs_go done rest = Ok res -> grundy_in done ->
    exists tl, res = rev (map snd done) ++ tl /\ length tl = length rest /\ grundy_in (rev done ++ combine rest tl).
Proof.
  induction rest as [|r rest IH]; intros done res H Hg.
  - cbn [fcfs_go] in H. injection H as <-. exists []. rewrite !app_nil_r. repeat split; auto.
    intros a o k Ha Hk. apply in_rev in Ha. destruct (Hg a o k Ha Hk) as (r' & Hr' & Hc). exists r'. split; [apply in_rev in Hr'; exact Hr'|exact Hc].
  - cbn [fcfs_go] in H.
    destruct (first_free _ fcfs_levels) as [o|] eqn:E; [|discriminate].
    apply first_free_least in E. destruct E as (_ & _ & Hleast).
    destruct (IH ((r, o) :: done) res H) as (tl & Hres & Hlen & Hgi).
    + intros a oa k [Ha|Ha] Hk.
      * injection Ha as <- <-. specialize (Hleast k Hk). apply in_map_iff in Hleast. destruct Hleast as ([q oq] & Eq & Hin). cbn in Eq. subst oq.
        apply filter_In in Hin. destruct Hin as [Hin Hcf]. cbn [fst] in Hcf. apply conflicts_with_fcfs in Hcf. exists q. split; [right; exact Hin|exact Hcf].
      * destruct (Hg a oa k Ha Hk) as (r' & Hr' & Hc). exists r'. split; [right; exact Hr'|exact Hc].
    + exists (o :: tl). cbn [map rev snd] in Hres. rewrite <- app_assoc in Hres. cbn [app] in Hres.
      split; [exact Hres|]. split; [cbn [length]; lia|]. cbn [rev] in Hgi. rewrite <- app_assoc in Hgi. exact Hgi.
Qed.

Theorem fcfs_orders_grundy : forall rs ord, fcfs_orders rs = Ok ord -> length ord = length rs /\ grundy_in (combine rs ord).
Proof.
  intros [|r rs] ord H.
  - cbn in H. injection H as <-. split; [reflexivity|]. intros ? ? ? [].
  - cbn [fcfs_orders] in H. destruct (fcfs_go_grundy rs [(r, 0)] ord H) as (tl & Hres & Hlen & Hg).
    + intros a oa k [Ha|[]] Hk. injection Ha as <- <-. lia.
    + cbn in Hres. subst ord. split; [cbn; lia|exact Hg].
Qed.

Lemma combine_nth_error : forall (A B : Type) (la : list A) (lb : list B) j a b,
    nth_error (combine la lb) j = Some (a, b) -> nth_error la j = Some a /\ nth_error lb j = Some b.
Proof.
  induction la as [|x la IH]; intros lb j a b H; [destruct j; discriminate|]. destruct lb as [|y lb]; [destruct j; discriminate|].
  destruct j as [|j]; cbn in *; [injection H as <- <-; auto|apply IH; exact H].
Qed.

(* a proper assignment with the first-fit property over the region list is greedy-stable in the sense of C16 *)
Lemma stable_of_lists : forall rs ord, proper rs ord -> grundy_in (combine rs ord) -> stableP (adj_all rs) (length rs) ord.
Proof.
  intros rs ord Hp Hg. pose proof Hp as [Hlen _]. apply properP_proper in Hp; [|exact Hlen]. rewrite adj_all_is_adj_db. split.
  - intros i j Ha. assert (Hb : i < length rs /\ j < length rs) by (apply adj_all_lt; rewrite adj_all_is_adj_db; exact Ha).
    apply (Hp i j (proj1 Hb) (proj2 Hb) Ha).
  - intros i k Hi Hk. unfold lev in *.
    destruct (nth_error rs i) as [ri|] eqn:Ri; [|apply nth_error_None in Ri; lia].
    destruct (nth_error ord i) as [oi|] eqn:Oi; [|apply nth_error_None in Oi; lia].
    rewrite (nth_error_nth _ _ 0 Oi) in Hk.
    destruct (Hg ri oi k) as (r' & Hr' & Hc); [eapply nth_error_In; apply nth_error_combine; eassumption|exact Hk|].
    apply In_nth_error in Hr'. destruct Hr' as (j & Hj). apply combine_nth_error in Hj. destruct Hj as [Rj Oj].
    exists j. split; [|apply (nth_error_nth _ _ 0 Oj)].
    assert (Hne : i <> j) by (intros ->; rewrite Ri in Rj; injection Rj as <-; exact (crossing_irrefl _ Hc)).
    apply (adj_db_crossing rs i j ri r' Ri Rj Hne). exact Hc.
Qed.

Lemma sr_ok_inv : forall (A B : Type) (f : A -> result B) l ss, sequence_results (map f l) = Ok ss -> Forall2 (fun x s => f x = Ok s) l ss.
Proof.
  intros A B f. induction l as [|x l IH]; intros ss H; cbn [map sequence_results] in H; [injection H as <-; constructor|].
  destruct (f x) as [s|e] eqn:E; [|discriminate]. destruct (sequence_results (map f l)) as [ss'|e] eqn:E2; [|discriminate]. injection H as <-.
  constructor; [exact E|apply IH; reflexivity].
Qed.

(* every greedy-stable assignment's string is in the list *)
Lemma stable_string_in_all_db : forall b L ord s,
    has_conflict (adj_all (regions b)) (length (regions b)) = true -> all_db b = Ok L ->
    length ord = length (regions b) -> stableP (adj_all (regions b)) (length (regions b)) ord ->
    make_db b (regions b) ord = Ok s -> In s L.
Proof.
  intros b L ord s Hc H Hl Hs Hm. unfold all_db in H. cbv zeta in H. rewrite Hc in H. cbn [negb] in H.
  destruct (all_orders_spec (regions b)) as (ords & E & M). rewrite E in H.
  destruct (sequence_results (map (make_db b (regions b)) ords)) as [ss|e] eqn:Es; [|discriminate]. injection H as <-.
  apply sort_dedup_spec. apply sr_ok_inv in Es.
  assert (Hin : In ord ords) by (apply M; split; assumption).
  clear -Es Hin Hm. induction Es as [|x s' l ss Hx _ IH]; [destruct Hin|]. destruct Hin as [->|Hin]; [left; congruence|right; apply IH; exact Hin].
Qed.

Theorem fcfs_in_all_db : forall b L s,
    has_conflict (adj_all (regions b)) (length (regions b)) = true -> all_db b = Ok L -> fcfs b = Ok s -> In s L.
Proof.
  intros b L s Hc H Hf. unfold fcfs, bind in Hf. destruct (fcfs_orders (regions b)) as [ordf|e] eqn:E; [|discriminate].
  destruct (fcfs_orders_proper _ _ E) as [Hp _]. destruct (fcfs_orders_grundy _ _ E) as [Hl Hg].
  apply (stable_string_in_all_db b L ordf s Hc H Hl (stable_of_lists _ _ Hp Hg) Hf).
Qed.

Theorem optimal_in_all_db : forall b L x s,
    has_conflict (adj_all (regions b)) (length (regions b)) = true -> all_db b = Ok L ->
    solver_contract (regions b) x -> (forall r, In r (regions b) -> (0 < rlen r)%Z) ->
    make_db b (regions b) (readback (regions b) x) = Ok s -> In s L.
Proof.
  intros b L x s Hc H Hx Hpos Hm. set (rs := regions b) in *.
  destruct (optimal_among_all rs x Hx) as [Hp _].
  apply (stable_string_in_all_db b L (readback rs x) s Hc H (readback_length rs x)); [|exact Hm].
  rewrite adj_all_is_adj_db. split.
  - intros i j Ha. assert (Hb : i < length rs /\ j < length rs) by (apply adj_all_lt; rewrite adj_all_is_adj_db; exact Ha).
    apply (Hp i j (proj1 Hb) (proj2 Hb) Ha).
  - intros i k Hi Hk. unfold lev in *.
    destruct (existsb (fun j => adj_db rs i j && (nth j (readback rs x) 0 =? k)) (seq 0 (length rs))) eqn:Ex.
    + apply existsb_exists in Ex. destruct Ex as (j & _ & Hj). apply andb_true_iff in Hj. destruct Hj as [Ha Hj]. apply Nat.eqb_eq in Hj. exists j. auto.
    + exfalso. apply (stable rs x Hx Hpos i k Hi Hk). intros j Hj Ha Hlev.
      assert (existsb (fun j => adj_db rs i j && (nth j (readback rs x) 0 =? k)) (seq 0 (length rs)) = true); [|congruence].
      apply existsb_exists. exists j. split; [apply in_seq; lia|]. rewrite Ha. cbn. apply Nat.eqb_eq. exact Hlev.
Qed.

(* no crossing stems: the list is the one FCFS string, and its level list is all zeros (round brackets only) *)
Theorem no_conflict_single : forall b, has_conflict (adj_all (regions b)) (length (regions b)) = false ->
    all_db b = match fcfs b with Ok s => Ok [s] | Raise e => Raise e end.
Proof. intros b H. unfold all_db. cbv zeta. rewrite H. reflexivity. Qed.

Theorem no_conflict_fcfs_zero : forall rs, has_conflict (adj_all rs) (length rs) = false -> fcfs_orders rs = Ok (repeat 0 (length rs)).
Proof.
  intros rs H. rewrite adj_all_is_adj_db in H.
  assert (NC : forall r r', In r rs -> In r' rs -> ~ crossing r r').
  { intros r r' Hr Hr' Hc. apply In_nth_error in Hr, Hr'. destruct Hr as (i & Hi). destruct Hr' as (j & Hj).
    assert (Li : i < length rs) by (apply nth_error_Some; congruence). assert (Lj : j < length rs) by (apply nth_error_Some; congruence).
    destruct (Nat.eq_dec i j) as [->|Hne]; [rewrite Hi in Hj; injection Hj as <-; exact (crossing_irrefl _ Hc)|].
    pose proof (no_conflict_no_adj rs i j H Li Lj) as Ha. apply (adj_db_crossing rs i j r r' Hi Hj Hne) in Hc. congruence. }
  assert (G : forall rest done, (forall r q, In r rest -> In q done -> ~ crossing r (fst q)) ->
                                (forall r r', In r rest -> In r' rest -> ~ crossing r r') ->
                                fcfs_go done rest = Ok (rev (map snd done) ++ repeat 0 (length rest))).
  { induction rest as [|r rest IH]; intros done Hn Hr; cbn [fcfs_go length repeat]; [rewrite app_nil_r; reflexivity|].
    assert (F : filter (fun q => conflicts_with conflict_fcfs r (fst q)) done = []).
    { clear -Hn. induction done as [|q done IHd]; [reflexivity|]. cbn [filter].
      destruct (conflicts_with conflict_fcfs r (fst q)) eqn:E.
      - exfalso. apply conflicts_with_fcfs in E. apply (Hn r q); [left; reflexivity|left; reflexivity|exact E].
      - apply IHd. intros r0 q0 Hr0 Hq0. apply Hn; [exact Hr0|right; exact Hq0]. }
    rewrite F. cbn [map]. replace (first_free [] fcfs_levels) with (Some 0) by reflexivity.
    rewrite IH.
    - cbn [map snd rev]. rewrite <- app_assoc. reflexivity.
    - intros r0 q Hr0 [<-|Hq]; [cbn [fst]; apply Hr; [right; exact Hr0|left; reflexivity]|apply Hn; [right; exact Hr0|exact Hq]].
    - intros r0 r1 H0 H1. apply Hr; right; assumption. }
  destruct rs as [|r rs]; [reflexivity|]. cbn [fcfs_orders length repeat]. rewrite G; [reflexivity| |].
  - intros r0 q Hr0 [<-|[]]. cbn [fst]. apply NC; [right; exact Hr0|left; reflexivity].
  - intros r0 r1 H0 H1. apply NC; right; assumption.
Qed.

Theorem all_db_nodup : forall b L, all_db b = Ok L -> NoDup L.
Proof.
  intros b L H. unfold all_db in H. cbv zeta in H.
  destruct (negb (has_conflict (adj_all (regions b)) (length (regions b)))).
  - destruct (fcfs b); [injection H as <-; constructor; [intros []|constructor]|discriminate].
  - destruct (all_orders (regions b)); [|discriminate]. destruct (sequence_results _); [|discriminate]. injection H as <-. apply sort_dedup_nodup.
Qed.

(* membership, spelled out: the strings of the list are exactly the encodings of the greedy-stable level assignments *)
Theorem all_db_members : forall b L, has_conflict (adj_all (regions b)) (length (regions b)) = true -> all_db b = Ok L ->
    forall s, In s L <-> exists ord, length ord = length (regions b) /\ stableP (adj_all (regions b)) (length (regions b)) ord /\
                                   make_db b (regions b) ord = Ok s.
Proof.
  intros b L Hc H s. split.
  - intros Hin. unfold all_db in H. cbv zeta in H. rewrite Hc in H. cbn [negb] in H.
    destruct (all_orders_spec (regions b)) as (ords & E & M). rewrite E in H.
    destruct (sequence_results (map (make_db b (regions b)) ords)) as [ss|e] eqn:Es; [|discriminate]. injection H as <-.
    apply (proj2 (sort_dedup_spec ss) s) in Hin. apply sr_ok_inv in Es.
    assert (G : exists ord, In ord ords /\ make_db b (regions b) ord = Ok s).
    { clear -Es Hin. induction Es as [|x s' l ss Hx _ IH]; [destruct Hin|]. destruct Hin as [<-|Hin]; [exists x; split; [left; reflexivity|exact Hx]|].
      destruct (IH Hin) as (o & Ho & Hm). exists o. split; [right; exact Ho|exact Hm]. }
    destruct G as (ord & Ho & Hm). apply M in Ho. destruct Ho as [Hl Hs]. exists ord. auto.
  - intros (ord & Hl & Hs & Hm). apply (stable_string_in_all_db b L ord s Hc H Hl Hs Hm).
Qed.
