(* C10: fitting to PDB limits, on the model of the algorithm the source spells out. *)
From Coq Require Import String Ascii ZArith List Bool Arith Lia.
From RV Require Import Base.Val Base.PyStr Gen.ParserV2 Model.Fit Proofs.C20Main.
Import ListNotations.

Theorem fits_unchanged : forall is_pdb t, fits is_pdb t = true -> fit is_pdb t = Unchanged.
Proof. intros. unfold fit. rewrite H. reflexivity. Qed.

Lemma renumber_frame : forall l cur last,
    map f_id (renumber cur last l) = map f_id l /\ map f_chain (renumber cur last l) = map f_chain l /\
    map f_resseq (renumber cur last l) = map f_resseq l /\ map f_icode (renumber cur last l) = map f_icode l.
Proof.
  induction l as [|r l IH]; intros cur last; [repeat split; reflexivity|].
  cbn [renumber map f_id f_chain f_resseq f_icode].
  destruct (IH (cur + match last with Some c => if str_eqb c (f_chain r) then 0 else 1 | None => 0 end + 1)%Z (Some (f_chain r))) as (A & B & C & D).
  repeat split; f_equal; assumption.
Qed.

(* a fitted table keeps every atom, in order (f_id stands for all the fields fitting does not touch) *)
Theorem fitted_frame : forall is_pdb t t', fit is_pdb t = Fitted t' -> map f_id t' = map f_id t /\ length t' = length t.
Proof.
  intros is_pdb t t' H. unfold fit in H.
  destruct (fits is_pdb t); [discriminate|].
  destruct (_ <? _)%Z; [discriminate|]. destruct (_ <? _); [discriminate|]. destruct (existsb _ _); [discriminate|].
  injection H as <-. cbv zeta.
  match goal with |- context [renumber 0 None ?l] => destruct (renumber_frame l 0%Z None) as (A & _); set (ml := l) in * end.
  split.
  - rewrite A. unfold ml. rewrite map_map. apply map_ext. intros r. reflexivity.
  - rewrite <- (map_length f_id (renumber 0 None ml)), A. unfold ml. rewrite !map_length. reflexivity.
Qed.

(* first-seen unique list: no duplicates, same members *)
Lemma uniq_strs_spec : forall l seen, NoDup seen ->
    NoDup (uniq_strs l seen) /\ forall x, In x (uniq_strs l seen) <-> In x seen \/ In x l.
Proof.
  induction l as [|y l IH]; intros seen N; cbn [uniq_strs].
  - split; [apply NoDup_rev; exact N|]. intros x. rewrite <- in_rev. split; [auto|intros [H|[]]; exact H].
  - destruct (mem_str y seen) eqn:E.
    + destruct (IH seen N) as [A B]. split; [exact A|]. intros x. rewrite B. split; [intros [H|H]; auto; right; right; exact H|].
      intros [H|[<-|H]]; auto. left. unfold mem_str in E. apply existsb_exists in E. destruct E as (z & Hz & Ez). apply str_eqb_eq in Ez. subst. exact Hz.
    + assert (Ny : ~ In y seen).
      { intros Hin. unfold mem_str in E. assert (existsb (str_eqb y) seen = true); [|congruence].
        apply existsb_exists. exists y. split; [exact Hin|apply str_eqb_refl]. }
      destruct (IH (y :: seen) (NoDup_cons y Ny N)) as [A B]. split; [exact A|]. intros x. rewrite B. cbn [In]. intuition.
Qed.

Lemma index_of_str_nth : forall l x, In x l -> nth_error l (index_of_str x l) = Some x.
Proof.
  induction l as [|y l IH]; intros x H; [destruct H|]. cbn [index_of_str].
  destruct (str_eqb x y) eqn:E; [apply str_eqb_eq in E; subst; reflexivity|].
  destruct H as [<-|H]; [rewrite str_eqb_refl in E; discriminate|]. cbn. apply IH. exact H.
Qed.

(* pin + theorem: the chain renaming is one-to-one (and one character wide) whenever there are at most 62 chains *)
Theorem chain_renaming_injective : forall t c1 c2,
    length (unique_chains t) <= length chain_alphabet ->
    In c1 (map f_chain t) -> In c2 (map f_chain t) ->
    new_chain (unique_chains t) c1 = new_chain (unique_chains t) c2 -> c1 = c2.
Proof.
  assert (Halpha : NoDup chain_alphabet).
  { apply (NoDup_map_inv nat_of_ascii). vm_compute.
    repeat (constructor; [cbn; intuition discriminate|]). constructor. }
  intros t c1 c2 Hlen H1 H2 E. unfold unique_chains in *.
  destruct (uniq_strs_spec (map f_chain t) [] (NoDup_nil _)) as [N M].
  assert (I1 : In c1 (uniq_strs (map f_chain t) [])) by (apply M; right; exact H1).
  assert (I2 : In c2 (uniq_strs (map f_chain t) [])) by (apply M; right; exact H2).
  pose proof (index_of_str_nth _ _ I1) as N1. pose proof (index_of_str_nth _ _ I2) as N2.
  unfold new_chain in E.
  assert (L1 : index_of_str c1 (uniq_strs (map f_chain t) []) < length chain_alphabet) by (assert (index_of_str c1 (uniq_strs (map f_chain t) []) < length (uniq_strs (map f_chain t) [])) by (apply nth_error_Some; congruence); lia).
  assert (L2 : index_of_str c2 (uniq_strs (map f_chain t) []) < length chain_alphabet) by (assert (index_of_str c2 (uniq_strs (map f_chain t) []) < length (uniq_strs (map f_chain t) [])) by (apply nth_error_Some; congruence); lia).
  destruct (nth_error chain_alphabet (index_of_str c1 _)) as [a1|] eqn:A1; [|apply nth_error_None in A1; lia].
  destruct (nth_error chain_alphabet (index_of_str c2 _)) as [a2|] eqn:A2; [|apply nth_error_None in A2; lia].
  injection E as ->.
  assert (Eq : index_of_str c1 (uniq_strs (map f_chain t) []) = index_of_str c2 (uniq_strs (map f_chain t) [])).
  { apply (proj1 (NoDup_nth_error chain_alphabet) Halpha); [exact L1|congruence]. }
  rewrite Eq in N1. congruence.
Qed.

Theorem new_chain_one_char : forall chains c, length (new_chain chains c) <= 1.
Proof. intros. unfold new_chain. destruct (nth_error chain_alphabet _); cbn; lia. Qed.
