(* C12: the object machine (heap of shared Entry cells + caches) answers every call history exactly as the pure
   reference interpreter does on the original contents — provided without_isolated edits fresh cells. *)
From Coq Require Import String Ascii ZArith List Bool Arith Lia.
From RV Require Import Base.Val Gen.Common Model.Bpseq Model.AllDb Model.Elements Model.Obj Proofs.Encode.
Import ListNotations.

Section History.
  Variable dbo : bpseq -> list ascii.
  Hypothesis Hfresh : isolated_copy_fresh = true.

  (* what it means for a machine object to represent the pure content p *)
  Definition obj_ok (h : list entry) (ob : object) (p : bpseq) : Prop :=
    view h ob = p /\ snap ob = pairs_items p /\
    (forall d, c_db ob = Some d -> d = dbo p) /\ (forall r, c_fcfs ob = Some r -> r = fcfs p) /\
    (forall c, In c (cells ob) -> c < length h).

  Lemma view_ext : forall h extra ob, (forall c, In c (cells ob) -> c < length h) -> view (h ++ extra) ob = view h ob.
  Proof.
    intros h extra ob H. unfold view. apply map_ext_in. intros c Hc. apply app_nth1. apply H. exact Hc.
  Qed.

  Lemma obj_ok_ext : forall h extra ob p, obj_ok h ob p -> obj_ok (h ++ extra) ob p.
  Proof.
    intros h extra ob p (V & S & D & F & C). repeat split; try assumption.
    - rewrite view_ext by exact C. exact V.
    - intros c Hc. rewrite app_length. specialize (C c Hc). lia.
  Qed.

  Lemma new_object_ok : forall h b, obj_ok (fst (new_object h b)) (snd (new_object h b)) b.
  Proof.
    intros h b. unfold new_object. cbn [fst snd]. repeat split; cbn [cells snap c_db c_fcfs]; try discriminate.
    - unfold view. cbn [cells]. apply (nth_ext _ _ dummy dummy).
      + rewrite map_length, seq_length. reflexivity.
      + intros i Hi. rewrite map_length, seq_length in Hi.
        rewrite (nth_indep _ dummy (nth 0 (h ++ b) dummy)) by (rewrite map_length, seq_length; exact Hi).
        change (nth 0 (h ++ b) dummy) with ((fun c => nth c (h ++ b) dummy) 0). rewrite map_nth.
        rewrite seq_nth by exact Hi. rewrite app_nth2 by lia. f_equal. lia.
    - intros c Hc. apply in_seq in Hc. rewrite app_length. lia.
  Qed.

  Definition rel (s : state) (ps : list bpseq) : Prop := Forall2 (obj_ok (heap s)) (objs s) ps.

  Lemma Forall2_set_nth : forall (A B : Type) (R : A -> B -> Prop) l l' k a b,
      Forall2 R l l' -> nth_error l' k = Some b -> R a b -> Forall2 R (set_nth l k a) l'.
  Proof.
    intros A B R l l' k a b H. revert k. induction H as [|x y l l' Hxy Hl IH]; intros k Hk Hab; [destruct k; discriminate|].
    destruct k as [|k]; cbn in *.
    - injection Hk as ->. constructor; assumption.
    - constructor; [assumption|]. apply IH; assumption.
  Qed.

  Lemma Forall2_nth_error : forall (A B : Type) (R : A -> B -> Prop) l l' k a,
      Forall2 R l l' -> nth_error l k = Some a -> exists b, nth_error l' k = Some b /\ R a b.
  Proof.
    intros A B R l l' k a H. revert k. induction H as [|x y l l' Hxy Hl IH]; intros k Hk; [destruct k; discriminate|].
    destruct k as [|k]; cbn in *; [injection Hk as ->; eauto|]. apply IH. exact Hk.
  Qed.

  Lemma Forall2_ext_heap : forall h extra obs ps, Forall2 (obj_ok h) obs ps -> Forall2 (obj_ok (h ++ extra)) obs ps.
  Proof. intros h extra obs ps H. induction H; constructor; [apply obj_ok_ext; assumption|assumption]. Qed.

  (* filling the dot-bracket cache keeps the representation, and the value obtained is the oracle's *)
  Lemma force_db_ok : forall h ob p, obj_ok h ob p ->
      obj_ok h (fst (force_db dbo h ob)) p /\ snd (force_db dbo h ob) = dbo p /\
      cells (fst (force_db dbo h ob)) = cells ob.
  Proof.
    intros h ob p Hok. pose proof Hok as (V & S & D & F & C). unfold force_db.
    destruct (c_db ob) as [d|] eqn:E in |- *; cbn [fst snd].
    - split; [exact Hok|]. split; [apply D; exact E|reflexivity].
    - repeat split; cbn [cells snap c_db c_fcfs]; try assumption.
      + intros d Hd. injection Hd as <-. rewrite V. reflexivity.
      + rewrite V. reflexivity.
  Qed.

  (* a structure without isolated pairs is its own without_isolated *)
  Lemma no_iso_identity : forall b, iso_positions b = [] -> without_isolated b = b.
  Proof.
    intros b H. unfold without_isolated.
    assert (E : flat_map (fun st => match st with [e] => [idx e; pair e] | _ => [] end) (stems b) = []).
    { unfold iso_positions in H. induction (stems b) as [|st l IH]; [reflexivity|].
      cbn [flat_map] in *. apply app_eq_nil in H. destruct H as [H1 H2].
      destruct st as [|e [|f st]]; try discriminate; cbn [app]; apply IH; exact H2. }
    rewrite E. rewrite <- (map_id b) at 2. apply map_ext. intros e. reflexivity.
  Qed.

  Lemma rel_length : forall s ps, rel s ps -> length (objs s) = length ps.
  Proof. intros s ps H. unfold rel in H. induction H; cbn; [reflexivity|lia]. Qed.

  Theorem step_refines : forall s ps k o,
      rel s ps ->
      let '(s', a) := step dbo s k o in
      let '(ps', a') := pure_step dbo ps k o in
      a = a' /\ rel s' ps'.
  Proof.
    intros s ps k o R. unfold step, pure_step.
    destruct (nth_error (objs s) k) as [ob|] eqn:Eo;
      [|apply nth_error_None in Eo; rewrite (rel_length s ps R) in Eo; apply nth_error_None in Eo; rewrite Eo; split; [reflexivity|exact R]].
    destruct (Forall2_nth_error _ _ _ _ _ _ _ R Eo) as (p & Ep & Hob). rewrite Ep.
    pose proof Hob as (V & S & D & F & C).
    destruct (force_db_ok (heap s) ob p Hob) as (Hob' & Hdb & Hcells).
    assert (Rset : rel {| heap := heap s; objs := set_obj (objs s) k (fst (force_db dbo (heap s) ob)) |} ps).
    { unfold rel, set_obj. cbn [heap objs]. eapply Forall2_set_nth; eassumption. }
    destruct o; cbn zeta.
    - (* str *) rewrite V. split; [reflexivity|exact R].
    - (* pairs *) rewrite S. split; [reflexivity|exact R].
    - (* sequence *) rewrite V. split; [reflexivity|exact R].
    - (* dot_bracket *) destruct (force_db dbo (heap s) ob) as [ob' d] eqn:Ef. cbn [fst snd] in *. split; [reflexivity|exact Rset].
    - (* fcfs *)
      destruct (c_fcfs ob) as [r|] eqn:Ec.
      + rewrite (F r eq_refl). split; [reflexivity|exact R].
      + rewrite V. split; [reflexivity|]. unfold rel, set_obj. cbn [heap objs].
        eapply Forall2_set_nth; [exact R|exact Ep|].
        repeat split; cbn [cells snap c_db c_fcfs]; try assumption. intros r Hr. injection Hr as <-. reflexivity.
    - (* all_dot_brackets *) destruct (force_db dbo (heap s) ob) as [ob' d] eqn:Ef. cbn [fst snd] in *. split; [reflexivity|exact Rset].
    - (* elements *) destruct (force_db dbo (heap s) ob) as [ob' d] eqn:Ef. cbn [fst snd] in *. split; [reflexivity|exact Rset].
    - (* without_isolated *)
      destruct (force_db dbo (heap s) ob) as [ob' d] eqn:Ef. cbn [fst snd] in *.
      rewrite V.
      destruct (iso_positions p) as [|i0 iso] eqn:Ei.
      + rewrite (no_iso_identity p Ei). split; [reflexivity|].
        unfold rel. cbn [heap objs]. apply Forall2_app; [exact Rset|]. constructor; [exact Hob'|constructor].
      + rewrite Hfresh.
        pose proof (new_object_ok (heap s) (without_isolated p)) as Hn.
        destruct (new_object (heap s) (without_isolated p)) as [h' nob] eqn:En. cbn [fst snd] in Hn.
        split; [reflexivity|]. unfold rel. cbn [heap objs].
        assert (Eh : h' = heap s ++ without_isolated p) by (unfold new_object in En; injection En as <- _; reflexivity).
        apply Forall2_app; [|constructor; [exact Hn|constructor]].
        rewrite Eh. apply Forall2_ext_heap. exact Rset.
    - (* without_pseudoknots *)
      destruct (force_db dbo (heap s) ob) as [ob' d] eqn:Ef. cbn [fst snd] in *.
      rewrite V, Hdb.
      destruct (without_pseudoknots_of p (dbo p)) as [b'|e] eqn:Ew.
      + pose proof (new_object_ok (heap s) b') as Hn.
        destruct (new_object (heap s) b') as [h' nob] eqn:En. cbn [fst snd] in Hn.
        split; [reflexivity|]. unfold rel. cbn [heap objs].
        assert (Eh : h' = heap s ++ b') by (unfold new_object in En; injection En as <- _; reflexivity).
        apply Forall2_app; [|constructor; [exact Hn|constructor]].
        rewrite Eh. apply Forall2_ext_heap. exact Rset.
      + split; [reflexivity|exact Rset].
  Qed.


  (* every call history: the machine's answers are the pure interpreter's answers *)
  Theorem run_refines : forall h s ps, rel s ps -> run dbo s h = pure_run dbo ps h.
  Proof.
    induction h as [|[k o] h IH]; intros s ps R; [reflexivity|].
    cbn [run pure_run]. rewrite (rel_length s ps R).
    pose proof (step_refines s ps (k mod length ps) o R) as H.
    destruct (step dbo s (k mod length ps) o) as [s' a].
    destruct (pure_step dbo ps (k mod length ps) o) as [ps' a'].
    destruct H as [-> R']. f_equal. apply IH. exact R'.
  Qed.

  Theorem history_pure : forall b h, run dbo (init b) h = pure_run dbo [b] h.
  Proof.
    intros b h. apply run_refines. unfold init, rel.
    pose proof (new_object_ok [] b) as Hn. destruct (new_object [] b) as [h0 ob] eqn:E. cbn [fst snd heap objs] in *.
    constructor; [exact Hn|constructor].
  Qed.
End History.
