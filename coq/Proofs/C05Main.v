(* C05: the whole annotation (model level, exact on the integer grid) is unchanged by a motion p |-> M p + t whenever M is
   linear and preserves dot and cross products — every rotation of the grid (the 24 signed axis permutations of
   determinant 1) followed by any translation. *)
From Coq Require Import String Ascii ZArith QArith List Bool Arith Lia.
From RV Require Import Base.Val Base.PyStr Gen.Common Gen.Annot Model.Geom Model.AllDb Model.Annot.
Import ListNotations.
Local Close Scope Q_scope.
Local Open Scope Z_scope.

Definition vaddZ := vadd Z Z.add.

Section Motion.
  Variable M : vecZ -> vecZ.
  Variable t : vecZ.
  Hypothesis M_add : forall a b, M (vaddZ a b) = vaddZ (M a) (M b).
  Hypothesis M_sub : forall a b, M (vsubZ a b) = vsubZ (M a) (M b).
  Hypothesis M_scale : forall k a, M (scale k a) = scale k (M a).
  Hypothesis M_dot : forall a b, dotZ (M a) (M b) = dotZ a b.
  Hypothesis M_cross : forall a b, crossZ (M a) (M b) = M (crossZ a b).

  Definition T (p : vecZ) : vecZ := vaddZ (M p) t.

  Lemma vsub_add_cancel : forall a b c : vecZ, vsubZ (vaddZ a c) (vaddZ b c) = vsubZ a b.
  Proof. intros [[a1 a2] a3] [[b1 b2] b3] [[c1 c2] c3]. unfold vsubZ, vaddZ, vsub, vadd, vx, vy, vz. cbn [fst snd]. f_equal; [f_equal|]; lia. Qed.

  Lemma T_sub : forall a b, vsubZ (T a) (T b) = M (vsubZ a b).
  Proof. intros a b. unfold T. rewrite vsub_add_cancel, M_sub. reflexivity. Qed.

  Lemma M_norm2 : forall a, norm2Z (M a) = norm2Z a.
  Proof. intros a. unfold norm2Z, norm2. apply M_dot. Qed.

  Lemma T_dist2 : forall a b, dist2Z (T a) (T b) = dist2Z a b.
  Proof. intros a b. unfold dist2Z, dist2. fold vsubZ. fold norm2Z. rewrite T_sub. apply M_norm2. Qed.

  (* ---------------------------------------------------------------- decisions *)
  Lemma cos2_below_M : forall lo hi n v, cos2_below lo hi (M n) (M v) = cos2_below lo hi n v.
  Proof. intros. unfold cos2_below. rewrite !M_norm2, M_dot. reflexivity. Qed.
  Lemma in_window_M : forall n v, in_window (M n) (M v) = in_window n v.
  Proof. intros. apply cos2_below_M. Qed.
  Lemma cos2_atleast_M : forall lo hi a b, cos2_atleast lo hi (M a) (M b) = cos2_atleast lo hi a b.
  Proof. intros. unfold cos2_atleast. rewrite cos2_below_M, !M_norm2. reflexivity. Qed.
  Lemma angle_atmost_M : forall lo hi v n, angle_atmost lo hi (M v) (M n) = angle_atmost lo hi v n.
  Proof. intros. unfold angle_atmost. rewrite M_dot, cos2_atleast_M. reflexivity. Qed.

  Lemma torsion_is_cis_T : forall p1 p2 p3 p4, torsion_is_cis (T p1) (T p2) (T p3) (T p4) = torsion_is_cis p1 p2 p3 p4.
  Proof.
    intros. unfold torsion_is_cis.
    change (n1l2Z (T p1) (T p2) (T p3) (T p4)) with (norm2Z (crossZ (vsubZ (T p2) (T p1)) (vsubZ (T p3) (T p2)))).
    change (n2l2Z (T p1) (T p2) (T p3) (T p4)) with (norm2Z (crossZ (vsubZ (T p3) (T p2)) (vsubZ (T p4) (T p3)))).
    change (t1xZ (T p1) (T p2) (T p3) (T p4)) with (dotZ (crossZ (vsubZ (T p2) (T p1)) (vsubZ (T p3) (T p2))) (crossZ (vsubZ (T p3) (T p2)) (vsubZ (T p4) (T p3)))).
    rewrite !T_sub, !M_cross, !M_norm2, M_dot. reflexivity.
  Qed.

  (* ---------------------------------------------------------------- residues *)
  Definition move_res (r : res3) : res3 :=
    {| r_model := r_model r; r_chain := r_chain r; r_number := r_number r; r_icode := r_icode r; r_letter := r_letter r;
       r_atoms := map (fun a => (fst a, T (snd a))) (r_atoms r) |}.

  Lemma find_atom_move : forall r nm, find_atom (move_res r) nm = option_map T (find_atom r nm).
  Proof.
    intros r nm. unfold find_atom, move_res. cbn [r_atoms]. induction (r_atoms r) as [|[n p] l IH]; [reflexivity|].
    cbn [map find fst snd]. destruct (str_eqb n nm); [reflexivity|exact IH].
  Qed.

  Lemma base_normal_move : forall r, base_normal (move_res r) = option_map M (base_normal r).
  Proof.
    intros r. unfold base_normal. change (r_letter (move_res r)) with (r_letter r). rewrite !find_atom_move.
    destruct (is_purine_like (r_letter r)).
    - destruct (find_atom r (S "N9")) as [a|]; [|reflexivity]. destruct (find_atom r (S "N7")) as [b|]; [|reflexivity]. destruct (find_atom r (S "N3")) as [c|]; [|reflexivity].
      cbn [option_map]. rewrite !T_sub, M_cross. reflexivity.
    - destruct (find_atom r (S "N1")) as [a|]; [|reflexivity]. destruct (find_atom r (S "C4")) as [b|]; [|reflexivity]. destruct (find_atom r (S "O2")) as [c|]; [|reflexivity].
      cbn [option_map]. rewrite !T_sub, M_cross. reflexivity.
  Qed.

  Lemma glyco_n_move : forall r, glyco_n (move_res r) = option_map T (glyco_n r).
  Proof. intros r. unfold glyco_n. change (r_letter (move_res r)) with (r_letter r). destruct (is_purine_like (r_letter r)); apply find_atom_move. Qed.

  Lemma detect_cis_trans_move : forall ri rj, detect_cis_trans (move_res ri) (move_res rj) = detect_cis_trans ri rj.
  Proof.
    intros ri rj. unfold detect_cis_trans. rewrite !find_atom_move, !glyco_n_move.
    destruct (find_atom ri (S "C1'")); [|reflexivity]. destruct (find_atom rj (S "C1'")); [|reflexivity].
    destruct (glyco_n ri); [|reflexivity]. destruct (glyco_n rj); [|reflexivity]. cbn [option_map]. rewrite torsion_is_cis_T. reflexivity.
  Qed.

  Lemma bph_class_move : forall r nm d a, bph_class (move_res r) nm (T d) (T a) = bph_class r nm d a.
  Proof.
    intros r nm d a. unfold bph_class. change (r_letter (move_res r)) with (r_letter r).
    destruct (find _ bph_ladder) as [[k [n|[[x y] [kc kt]]]]|]; [reflexivity| |reflexivity].
    rewrite !find_atom_move. destruct (find_atom r (S x)); [|reflexivity]. destruct (find_atom r (S y)); [|reflexivity]. cbn [option_map].
    rewrite torsion_is_cis_T. reflexivity.
  Qed.

  Lemma res_ltb_move : forall a b, res_ltb (move_res a) (move_res b) = res_ltb a b.
  Proof. reflexivity. Qed.
  Lemma edges_of_move : forall r a, edges_of (move_res r) a = edges_of r a.
  Proof. reflexivity. Qed.

  (* ---------------------------------------------------------------- candidates *)
  Definition move_cand (c : cand) : cand := {| c_res := c_res c; c_name := c_name c; c_pos := T (c_pos c); c_acceptor := c_acceptor c |}.

  Lemma candidates_of_move : forall i r, candidates_of i (move_res r) = map move_cand (candidates_of i r).
  Proof.
    intros i r. unfold candidates_of. change (r_letter (move_res r)) with (r_letter r). cbv zeta.
    set (accs := names_of base_acceptors (r_letter r) ++ map S ribose_acceptors ++ map S phosphate_acceptors).
    generalize (accs ++ names_of base_donors (r_letter r)) as l. intros l.
    induction l as [|nm l IH]; [reflexivity|]. cbn [flat_map]. rewrite map_app, <- IH, find_atom_move.
    destruct (find_atom r nm); reflexivity.
  Qed.

  Lemma candidates_move : forall rs, candidates (map move_res rs) = map move_cand (candidates rs).
  Proof.
    intros rs. unfold candidates. rewrite map_length. generalize 0%nat. induction rs as [|r rs IH]; intros s; [reflexivity|].
    cbn [map length seq combine flat_map fst snd]. rewrite map_app, candidates_of_move, IH. reflexivity.
  Qed.

  (* ---------------------------------------------------------------- the scan *)
  Lemma step_pair_move : forall rs cs st ij, step_pair (map move_res rs) (map move_cand cs) st ij = step_pair rs cs st ij.
  Proof.
    intros rs cs st ij. unfold step_pair. rewrite !nth_error_map.
    destruct (nth_error cs (fst ij)) as [ci|]; [|reflexivity]. destruct (nth_error cs (snd ij)) as [cj|]; [|reflexivity].
    cbn [option_map move_cand c_res c_name c_pos c_acceptor].
    destruct (Bool.eqb (c_acceptor ci) (c_acceptor cj)); [reflexivity|]. destruct (c_res ci =? c_res cj)%nat; [reflexivity|].
    rewrite !nth_error_map. destruct (nth_error rs (c_res ci)) as [ri|]; [|reflexivity]. destruct (nth_error rs (c_res cj)) as [rj|]; [|reflexivity].
    cbn [option_map]. destruct (c_acceptor ci); cbv zeta; rewrite !bph_class_move, !base_normal_move;
      (destruct (base_normal ri) as [ni|]; destruct (base_normal rj) as [nj|]; cbn [option_map]; try reflexivity);
      rewrite T_sub, !in_window_M; reflexivity.
  Qed.

  Lemma scan_move : forall rs order st,
      fold_left (step_pair (map move_res rs) (candidates (map move_res rs))) order st = fold_left (step_pair rs (candidates rs)) order st.
  Proof.
    intros rs order. rewrite candidates_move. induction order as [|ij order IH]; intros st; [reflexivity|]. cbn [fold_left]. rewrite step_pair_move. apply IH.
  Qed.

  Lemma labels_of_move : forall rs h, labels_of (map move_res rs) h = labels_of rs h.
  Proof.
    intros rs h. unfold labels_of. rewrite !nth_error_map. destruct (nth_error rs (h_i h)) as [ri|]; [|reflexivity]. destruct (nth_error rs (h_j h)) as [rj|]; [|reflexivity].
    cbn [option_map]. rewrite !edges_of_move, detect_cis_trans_move, res_ltb_move. reflexivity.
  Qed.

  Lemma stable_sort_ext : forall (A : Type) (lt lt' : A -> A -> bool) l, (forall a b, lt a b = lt' a b) -> stable_sort lt l = stable_sort lt' l.
  Proof.
    intros A lt lt' l H. unfold stable_sort. induction l as [|x l IH]; [reflexivity|]. cbn [fold_right]. rewrite IH.
    generalize (fold_right (insert_sorted lt') [] l) as m. induction m as [|y m IHm]; [reflexivity|]. cbn [insert_sorted]. rewrite H, IHm. reflexivity.
  Qed.

  Lemma pair_ltb_move : forall rs a b, pair_ltb (map move_res rs) a b = pair_ltb rs a b.
  Proof.
    intros rs [[[[i1 j1] c1] e1] f1] [[[[i2 j2] c2] e2] f2]. unfold pair_ltb. rewrite !nth_error_map.
    destruct (nth_error rs i1); [|reflexivity]. destruct (nth_error rs i2); [|reflexivity]. destruct (nth_error rs j1); [|reflexivity]. destruct (nth_error rs j2); reflexivity.
  Qed.
  Lemma triple_ltb_move : forall rs a b, triple_ltb (map move_res rs) a b = triple_ltb rs a b.
  Proof.
    intros rs [[d1 a1] k1] [[d2 a2] k2]. unfold triple_ltb. rewrite !nth_error_map.
    destruct (nth_error rs d1); [|reflexivity]. destruct (nth_error rs d2); [|reflexivity]. destruct (nth_error rs a1); [|reflexivity]. destruct (nth_error rs a2); reflexivity.
  Qed.
  Lemma saenger_of_move : forall rs l, saenger_of (map move_res rs) l = saenger_of rs l.
  Proof.
    intros rs [[[[i j] c] e] f]. unfold saenger_of. rewrite !nth_error_map. destruct (nth_error rs i); [|reflexivity]. destruct (nth_error rs j); reflexivity.
  Qed.

  (* base pairs, base-phosphate and base-ribose contacts, and the undecided flag: all unchanged *)
  Theorem find_pairs_invariant : forall rs order, find_pairs (map move_res rs) order = find_pairs rs order.
  Proof.
    intros rs order. unfold find_pairs. cbv zeta. rewrite candidates_move, map_length, <- candidates_move, scan_move.
    destruct (length (candidates rs) <? 2)%nat; [reflexivity|].
    unfold merge_and_clean. rewrite !(stable_sort_ext _ _ _ _ (triple_ltb_move rs)), (stable_sort_ext _ _ _ _ (pair_ltb_move rs)).
    rewrite (map_ext _ _ (labels_of_move rs)). f_equal. apply map_ext. intros [[[[i j] c] e] f]. rewrite saenger_of_move. reflexivity.
  Qed.

  (* ---------------------------------------------------------------- stackings *)
  Lemma M_zero : M (0, 0, 0) = (0, 0, 0).
  Proof.
    pose proof (M_sub (0, 0, 0) (0, 0, 0)) as H. change (vsubZ (0, 0, 0) (0, 0, 0)) with ((0, 0, 0) : vecZ) in H.
    destruct (M (0, 0, 0)) as [[a b] c]. unfold vsubZ, vsub, vx, vy, vz in H. cbn [fst snd] in H. injection H as -> -> ->. repeat f_equal; lia.
  Qed.

  Lemma sum_T : forall ps acc k, fold_left (fun a p => vadd Z Z.add a p) (map T ps) (vaddZ (M acc) (scale k t))
                                 = vaddZ (M (fold_left (fun a p => vadd Z Z.add a p) ps acc)) (scale (k + Z.of_nat (length ps)) t).
  Proof.
    induction ps as [|p ps IH]; intros acc k; cbn [map fold_left length]; [rewrite Z.add_0_r; reflexivity|].
    replace (vadd Z Z.add (vaddZ (M acc) (scale k t)) (T p)) with (vaddZ (M (vadd Z Z.add acc p)) (scale (k + 1) t)).
    - rewrite IH. f_equal. f_equal. lia.
    - fold vaddZ. rewrite M_add. unfold T. destruct (M acc) as [[a1 a2] a3], (M p) as [[p1 p2] p3], t as [[t1 t2] t3].
      unfold vaddZ, vadd, scale, vscale, vx, vy, vz. cbn [fst snd]. f_equal; [f_equal|]; lia.
  Qed.

  Lemma centroid_move : forall r, centroid (move_res r) = option_map (fun sk => (vaddZ (M (fst sk)) (scale (snd sk) t), snd sk)) (centroid r).
  Proof.
    intros r. unfold centroid. change (r_letter (move_res r)) with (r_letter r). cbv zeta.
    set (names := names_of base_atoms (r_letter r)).
    assert (E : flat_map (fun nm => match find_atom (move_res r) nm with Some p => [p] | None => [] end) names
                = map T (flat_map (fun nm => match find_atom r nm with Some p => [p] | None => [] end) names)).
    { induction names as [|nm l IH]; [reflexivity|]. cbn [flat_map]. rewrite map_app, <- IH, find_atom_move. destruct (find_atom r nm); reflexivity. }
    rewrite E. clear E. generalize (flat_map (fun nm => match find_atom r nm with Some p => [p] | None => [] end) names) as l. intros l.
    destruct l as [|p ps]; [reflexivity|].
    assert (S0 : fold_left (fun a q => vadd Z Z.add a q) (map T (p :: ps)) (0, 0, 0)
                 = vaddZ (M (fold_left (fun a q => vadd Z Z.add a q) (p :: ps) (0, 0, 0))) (scale (Z.of_nat (length (p :: ps))) t)).
    { pose proof (sum_T (p :: ps) (0, 0, 0) 0) as H. rewrite M_zero in H. replace (vaddZ (0, 0, 0) (scale 0 t)) with ((0, 0, 0) : vecZ) in H; [exact H|].
      destruct t as [[t1 t2] t3]. reflexivity. }
    change (match map T (p :: ps) with [] => None | _ :: _ => Some (fold_left (fun acc q => vadd Z Z.add acc q) (map T (p :: ps)) (0, 0, 0), Z.of_nat (length (map T (p :: ps)))) end)
      with (Some (fold_left (fun acc q => vadd Z Z.add acc q) (map T (p :: ps)) (0, 0, 0), Z.of_nat (length (map T (p :: ps))))).
    rewrite S0, map_length. reflexivity.
  Qed.

  Definition move_centre (c : nat * (vecZ * Z)) : nat * (vecZ * Z) := (fst c, (vaddZ (M (fst (snd c))) (scale (snd (snd c)) t), snd (snd c))).

  Lemma centres_move : forall rs, centres (map move_res rs) = map move_centre (centres rs).
  Proof.
    intros rs. unfold centres. rewrite map_length. generalize 0%nat. induction rs as [|r rs IH]; intros s; [reflexivity|].
    cbn [map length seq combine flat_map fst snd]. rewrite map_app, IH, centroid_move. destruct (centroid r) as [[sm k]|]; reflexivity.
  Qed.

  Lemma offset_move : forall si ki sj kj,
      vsubZ (scale kj (vaddZ (M si) (scale ki t))) (scale ki (vaddZ (M sj) (scale kj t))) = M (vsubZ (scale kj si) (scale ki sj)).
  Proof.
    intros si ki sj kj. rewrite M_sub, !M_scale. destruct (M si) as [[a1 a2] a3], (M sj) as [[b1 b2] b3], t as [[t1 t2] t3].
    unfold vsubZ, vaddZ, vsub, vadd, scale, vscale, vx, vy, vz. cbn [fst snd]. f_equal; [f_equal|]; lia.
  Qed.

  Lemma stack_pair_move : forall rs ij, stack_pair (map move_res rs) (map move_centre (centres rs)) ij = stack_pair rs (centres rs) ij.
  Proof.
    intros rs ij. unfold stack_pair. rewrite !nth_error_map.
    destruct (nth_error (centres rs) (fst ij)) as [[i [si ki]]|]; [|reflexivity]. destruct (nth_error (centres rs) (snd ij)) as [[j [sj kj]]|]; [|reflexivity].
    cbn [option_map move_centre fst snd]. rewrite !nth_error_map.
    destruct (nth_error rs i) as [ri|]; [|reflexivity]. destruct (nth_error rs j) as [rj|]; [|reflexivity]. cbn [option_map].
    rewrite !base_normal_move. destruct (base_normal ri) as [ni|]; [|reflexivity]. destruct (base_normal rj) as [nj|]; [|reflexivity]. cbn [option_map].
    rewrite cos2_atleast_M, offset_move, !angle_atmost_M, M_dot, res_ltb_move. reflexivity.
  Qed.

  Lemma stack_ltb_move : forall rs a b, stack_ltb (map move_res rs) a b = stack_ltb rs a b.
  Proof.
    intros rs [[i1 j1] t1] [[i2 j2] t2]. unfold stack_ltb. rewrite !nth_error_map.
    destruct (nth_error rs i1); [|reflexivity]. destruct (nth_error rs i2); [|reflexivity]. destruct (nth_error rs j1); [|reflexivity]. destruct (nth_error rs j2); reflexivity.
  Qed.

  Theorem find_stackings_invariant : forall rs order, find_stackings (map move_res rs) order = find_stackings rs order.
  Proof.
    intros rs order. unfold find_stackings. cbv zeta. rewrite centres_move, map_length.
    destruct (length (centres rs) <? 2)%nat; [reflexivity|].
    rewrite (map_ext _ _ (stack_pair_move rs)), (stable_sort_ext _ _ _ _ (stack_ltb_move rs)). reflexivity.
  Qed.

  (* the neighbour sets the KD-tree is validated against are unchanged too *)
  Lemma within2_T : forall thr a b, within2 thr (T a) (T b) = within2 thr a b.
  Proof. intros. unfold within2. rewrite T_dist2. reflexivity. Qed.

  Theorem hbond_neighbours_invariant : forall rs, hbond_neighbours (map move_res rs) = hbond_neighbours rs.
  Proof.
    intros rs. unfold hbond_neighbours. rewrite candidates_move, map_map. cbn [move_cand c_pos].
    change (map (fun x => T (c_pos x)) (candidates rs)) with (map (fun x => T (c_pos x)) (candidates rs)). rewrite <- (map_map c_pos T).
    generalize (map c_pos (candidates rs)) as pts. intros pts. unfold neighbour_pairs. rewrite map_length.
    set (F := fun (ia jb : nat * vecZ) => if (fst ia <? fst jb)%nat && within2 hbond_max_distance (snd ia) (snd jb) then [(fst ia, fst jb)] else []).
    assert (Inner : forall a (l2 : list (nat * vecZ)), flat_map (F (fst a, T (snd a))) (map (fun p => (fst p, T (snd p))) l2) = flat_map (F a) l2).
    { intros a. induction l2 as [|b l2 IH2]; [reflexivity|]. cbn [map flat_map]. rewrite IH2. f_equal. unfold F. cbn [fst snd]. rewrite within2_T. reflexivity. }
    assert (G : forall (l1 l2 : list (nat * vecZ)),
               flat_map (fun ia => flat_map (F ia) (map (fun p => (fst p, T (snd p))) l2)) (map (fun p => (fst p, T (snd p))) l1)
               = flat_map (fun ia => flat_map (F ia) l2) l1).
    { induction l1 as [|a l1 IH1]; intros l2; [reflexivity|]. cbn [map flat_map]. rewrite IH1, Inner. reflexivity. }
    assert (C : forall s (l : list vecZ), combine (seq s (length l)) (map T l) = map (fun p => (fst p, T (snd p))) (combine (seq s (length l)) l)).
    { intros s l. revert s. induction l as [|x l IH]; intros s; [reflexivity|]. cbn [length seq map combine fst snd]. rewrite IH. reflexivity. }
    rewrite C. apply G.
  Qed.
End Motion.

(* ---------------------------------------------------------------- instances: every translation, a 120-degree and a 90-degree rotation *)
Definition rot_cyc (v : vecZ) : vecZ := (vy Z v, vz Z v, vx Z v).
Definition rot_z90 (v : vecZ) : vecZ := (- vy Z v, vx Z v, vz Z v).

Lemma vec_eq : forall a1 a2 a3 b1 b2 b3 : Z, a1 = b1 -> a2 = b2 -> a3 = b3 -> (a1, a2, a3) = (b1, b2, b3).
Proof. intros; subst; reflexivity. Qed.

Ltac vec_solve := intros; repeat match goal with v : vecZ |- _ => destruct v as [[? ?] ?] | v : vec Z |- _ => destruct v as [[? ?] ?] end;
  unfold rot_cyc, rot_z90, vaddZ, vsubZ, dotZ, crossZ, scale, vscale, vadd, vsub, dot, cross, vx, vy, vz; cbn [fst snd]; first [apply vec_eq; ring | ring].

Theorem translation_invariant : forall t rs o1 o2,
    find_pairs (map (move_res (fun v => v) t) rs) o1 = find_pairs rs o1 /\ find_stackings (map (move_res (fun v => v) t) rs) o2 = find_stackings rs o2.
Proof. intros t rs o1 o2. split; [apply find_pairs_invariant|apply find_stackings_invariant]; intros; reflexivity. Qed.

Theorem rotation_cyc_invariant : forall t rs o1 o2,
    find_pairs (map (move_res rot_cyc t) rs) o1 = find_pairs rs o1 /\ find_stackings (map (move_res rot_cyc t) rs) o2 = find_stackings rs o2.
Proof. intros t rs o1 o2. split; [apply find_pairs_invariant|apply find_stackings_invariant]; vec_solve. Qed.

Theorem rotation_z90_invariant : forall t rs o1 o2,
    find_pairs (map (move_res rot_z90 t) rs) o1 = find_pairs rs o1 /\ find_stackings (map (move_res rot_z90 t) rs) o2 = find_stackings rs o2.
Proof. intros t rs o1 o2. split; [apply find_pairs_invariant|apply find_stackings_invariant]; vec_solve. Qed.
