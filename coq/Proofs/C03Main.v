(* C03: the reported base pairs are supported by at least two distinct justified contacts on the edges they name, are
   edge-exclusive, and maximal. *)
From Coq Require Import String Ascii ZArith QArith List Bool Arith Lia Permutation.
From RV Require Import Base.Val Base.PyStr Gen.Common Gen.Annot Model.Geom Model.AllDb Model.Annot
     Proofs.SortGen Proofs.C03Occupy Proofs.C03Hbonds.
Import ListNotations.
Local Close Scope Q_scope.

(* ---------------------------------------------------------------- ordered-pairs predicate under append *)
Lemma fop_snoc : forall (A : Type) (R : A -> A -> Prop) l x, ForallOrdPairs R l -> (forall a, In a l -> R a x) -> ForallOrdPairs R (l ++ [x]).
Proof.
  intros A R. induction l as [|y l IH]; intros x H Hx; cbn [app]; [constructor; [constructor|constructor]|].
  inversion H as [|? ? Hy Hl]; subst. constructor.
  - apply Forall_app. split; [exact Hy|]. constructor; [apply Hx; left; reflexivity|constructor].
  - apply IH; [exact Hl|]. intros a Ha. apply Hx. right. exact Ha.
Qed.
Lemma fop_split : forall (A : Type) (R : A -> A -> Prop) pre a mid b post, ForallOrdPairs R (pre ++ a :: mid ++ b :: post) -> R a b.
Proof.
  intros A R. induction pre as [|p pre IH]; intros a mid b post H; cbn [app] in H; inversion H as [|? ? Ha Hl]; subst.
  - rewrite Forall_forall in Ha. apply Ha. apply in_or_app. right. left. reflexivity.
  - eapply IH. exact Hl.
Qed.

(* ---------------------------------------------------------------- the scan *)
Definition init_state : pstate := {| used := []; hbonds := []; bphs := []; brs := []; near := false |}.
Definition scan (rs : list res3) (order : list (nat * nat)) : pstate := fold_left (step_pair rs (candidates rs)) order init_state.
Definition distinct_contacts (l : list hbond) : Prop := ForallOrdPairs (fun a b => same_hbond a b = false) l.

Lemma scan_inv : forall rs cs order st seen,
    (forall h, In h (hbonds st) -> justified rs cs seen h) -> (hbond_dedup = true -> distinct_contacts (hbonds st)) ->
    (forall h, In h (hbonds (fold_left (step_pair rs cs) order st)) -> justified rs cs (seen ++ order) h) /\
    (hbond_dedup = true -> distinct_contacts (hbonds (fold_left (step_pair rs cs) order st))).
Proof.
  intros rs cs. induction order as [|ij order IH]; intros st seen J D; cbn [fold_left].
  - rewrite app_nil_r. split; assumption.
  - replace (seen ++ ij :: order) with ((seen ++ [ij]) ++ order) by (rewrite <- app_assoc; reflexivity).
    assert (Mono : forall h, justified rs cs seen h -> justified rs cs (seen ++ [ij]) h).
    { intros h (x & ci & cj & ri & rj & ni & nj & Hin & Rest). exists x, ci, cj, ri, rj, ni, nj. split; [apply in_or_app; left; exact Hin|exact Rest]. }
    apply IH.
    + intros h Hh. destruct (step_pair_hbonds rs cs st ij) as [E|(ci & cj & ri & rj & ni & nj & A1 & A2 & A3 & A4 & A5 & A6 & A7 & A8 & A9 & A10 & A11 & E)];
        rewrite E in Hh; [apply Mono; apply J; exact Hh|].
      apply in_app_or in Hh. destruct Hh as [Hh|[<-|[]]]; [apply Mono; apply J; exact Hh|].
      exists ij, ci, cj, ri, rj, ni, nj. repeat split; try assumption. apply in_or_app. right. left. reflexivity.
    + intros Hd. specialize (D Hd).
      destruct (step_pair_hbonds rs cs st ij) as [E|(ci & cj & ri & rj & ni & nj & A1 & A2 & A3 & A4 & A5 & A6 & A7 & A8 & A9 & A10 & A11 & E)];
        rewrite E; [exact D|].
      apply fop_snoc; [exact D|]. intros a Ha. specialize (A11 Hd).
      destruct (same_hbond a (mk_hbond ci cj)) eqn:S1; [|reflexivity].
      assert (existsb (fun h => same_hbond h (mk_hbond ci cj)) (hbonds st) = true); [|congruence].
      apply existsb_exists. exists a. split; assumption.
Qed.

Theorem scan_spec : forall rs order,
    (forall h, In h (hbonds (scan rs order)) -> justified rs (candidates rs) order h) /\
    (hbond_dedup = true -> distinct_contacts (hbonds (scan rs order))).
Proof.
  intros rs order. unfold scan. apply (scan_inv rs (candidates rs) order init_state []).
  - intros h [].
  - intros _. constructor.
Qed.

Lemma justified_ends : forall rs cs order h, justified rs cs order h -> h_i h <> h_j h.
Proof. intros rs cs order h (ij & ci & cj & ri & rj & ni & nj & _ & _ & _ & _ & Hne & _ & _ & _ & _ & _ & _ & ->). exact Hne. Qed.

(* ---------------------------------------------------------------- labels of one contact *)
Definition hlabels (rs : list res3) (h : hbond) : list label := fst (labels_of rs h).

(* pin over the generated table: no edge string repeats a letter *)
Lemma edges_nodup : forall r atom e, edges_of r atom = Some e -> NoDup e.
Proof.
  assert (T : forallb (fun kv => forallb (fun ae => let e := S (snd ae) in
                 forallb (fun k => negb (existsb (Ascii.eqb (nth k e " "%char)) (firstn k e))) (seq 0 (length e))) (snd kv)) base_edges = true)
    by (vm_compute; reflexivity).
  assert (G : forall e : list ascii, forallb (fun k => negb (existsb (Ascii.eqb (nth k e " "%char)) (firstn k e))) (seq 0 (length e)) = true -> NoDup e).
  { intros e. induction e as [|x e IH] using rev_ind; intros H; [constructor|].
    rewrite forallb_forall in H.
    assert (NoDup e).
    { apply IH. apply forallb_forall. intros k Hk. apply in_seq in Hk. specialize (H k). rewrite app_length in H. cbn in H.
      assert (Hin : In k (seq 0 (length e + 1))) by (apply in_seq; lia). specialize (H Hin).
      rewrite app_nth1 in H by lia. rewrite firstn_app in H. replace (k - length e) with 0 in H by lia. cbn [firstn] in H. rewrite app_nil_r in H. exact H. }
    assert (~ In x e).
    { specialize (H (length e)). assert (Hin : In (length e) (seq 0 (length (e ++ [x])))) by (rewrite app_length; cbn; apply in_seq; lia).
      specialize (H Hin). rewrite app_nth2 in H by lia. rewrite Nat.sub_diag in H. cbn [nth] in H.
      rewrite firstn_app, firstn_all, Nat.sub_diag in H. cbn [firstn] in H. rewrite app_nil_r in H.
      intros Hx. apply negb_true_iff in H. assert (existsb (Ascii.eqb x) e = true); [|congruence].
      apply existsb_exists. exists x. split; [exact Hx|apply Ascii.eqb_refl]. }
    clear -H0 H1. induction e as [|y e IHe]; cbn; [constructor; [intros []|constructor]|].
    inversion H0; subst. constructor.
    - intros Hin. apply in_app_or in Hin. destruct Hin as [Hin|[->|[]]]; [contradiction|]. apply H1. left. reflexivity.
    - apply IHe; [assumption|]. intros Hin. apply H1. right. exact Hin. }
  intros r atom e H. unfold edges_of, table_get in H.
  destruct (find (fun kv => str_eqb (S (fst kv)) (r_letter r)) base_edges) as [kv|] eqn:F1; [|discriminate].
  destruct (find (fun kv0 => str_eqb (S (fst kv0)) atom) (snd kv)) as [ae|] eqn:F2; [|discriminate]. injection H as <-.
  apply find_some in F1, F2. destruct F1 as [I1 _]. destruct F2 as [I2 _].
  rewrite forallb_forall in T. specialize (T kv I1). rewrite forallb_forall in T. specialize (T ae I2). cbv zeta in T. apply G. exact T.
Qed.

Lemma nodup_product : forall (A B C : Type) (f : A -> B -> C) la lb,
    (forall a a' b b', f a b = f a' b' -> a = a' /\ b = b') -> NoDup la -> NoDup lb ->
    NoDup (flat_map (fun a => map (fun b => f a b) lb) la).
Proof.
  intros A B C f la lb Inj Na Nb. induction la as [|a la IH]; [constructor|]. inversion Na; subst. cbn [flat_map].
  apply nodup_app.
  - clear -Inj Nb. induction lb as [|b lb IHb]; [constructor|]. inversion Nb; subst. cbn. constructor; [|apply IHb; assumption].
    intros Hin. apply in_map_iff in Hin. destruct Hin as (b' & E & Hb'). apply Inj in E. destruct E as [_ ->]. contradiction.
  - apply IH. assumption.
  - intros x Hx Hin. apply in_map_iff in Hx. destruct Hx as (b & <- & Hb). apply in_flat_map in Hin. destruct Hin as (a' & Ha' & Hin).
    apply in_map_iff in Hin. destruct Hin as (b' & E & _). apply Inj in E. destruct E as [-> _]. contradiction.
Qed.

Theorem hlabels_nodup : forall rs h, NoDup (hlabels rs h).
Proof.
  intros rs h. unfold hlabels, labels_of.
  destruct (nth_error rs (h_i h)) as [ri|]; [|constructor]. destruct (nth_error rs (h_j h)) as [rj|]; [|constructor].
  destruct (edges_of ri (h_ni h)) as [ei|] eqn:Ei; [|constructor]. destruct (edges_of rj (h_nj h)) as [ej|] eqn:Ej; [|constructor].
  destruct (detect_cis_trans ri rj) as [d|]; [|constructor].
  apply edges_nodup in Ei, Ej.
  destruct (res_ltb ri rj); cbn [fst]; apply nodup_product; try assumption; intros a a' b b' E; injection E as -> ->; split; reflexivity.
Qed.

(* a label of a contact names its two residues (lower first), an edge of each of the two atoms, and the cis/trans decision *)
Theorem hlabels_meaning : forall rs h l, In l (hlabels rs h) ->
    exists ri rj ei ej d a b,
      nth_error rs (h_i h) = Some ri /\ nth_error rs (h_j h) = Some rj /\
      edges_of ri (h_ni h) = Some ei /\ edges_of rj (h_nj h) = Some ej /\ detect_cis_trans ri rj = Some d /\
      In a ei /\ In b ej /\
      l = (if res_ltb ri rj then (h_i h, h_j h, match d with No => false | _ => true end, a, b)
           else (h_j h, h_i h, match d with No => false | _ => true end, b, a)).
Proof.
  intros rs h l H. unfold hlabels, labels_of in H.
  destruct (nth_error rs (h_i h)) as [ri|] eqn:Ri; [|destruct H]. destruct (nth_error rs (h_j h)) as [rj|] eqn:Rj; [|destruct H].
  destruct (edges_of ri (h_ni h)) as [ei|] eqn:Ei; [|destruct H]. destruct (edges_of rj (h_nj h)) as [ej|] eqn:Ej; [|destruct H].
  destruct (detect_cis_trans ri rj) as [d|] eqn:Dt; [|destruct H].
  exists ri, rj, ei, ej, d.
  destruct (res_ltb ri rj); cbn [fst] in H; apply in_flat_map in H; destruct H as (a & Ha & H); apply in_map_iff in H; destruct H as (b & <- & Hb);
    exists a, b; repeat split; try assumption; reflexivity.
Qed.

Lemma hlabels_ends : forall rs h l, h_i h <> h_j h -> In l (hlabels rs h) -> ends_differ l.
Proof.
  intros rs h l Hne H. apply hlabels_meaning in H. destruct H as (ri & rj & ei & ej & d & a & b & _ & _ & _ & _ & _ & _ & _ & ->).
  destruct (res_ltb ri rj); cbn; congruence.
Qed.

(* ---------------------------------------------------------------- counting over contacts *)
Lemma count_label_app : forall l a b, count_label l (a ++ b) = count_label l a + count_label l b.
Proof. intros l. induction a as [|x a IH]; intros b; cbn [app count_label]; [reflexivity|]. rewrite IH. lia. Qed.

Lemma count_label_in : forall l ls, 1 <= count_label l ls <-> In l ls.
Proof.
  intros l. induction ls as [|x ls IH]; cbn [count_label In]; [split; [lia|intros []]|].
  destruct (label_eqb x l) eqn:E.
  - apply label_eqb_eq in E. subst. split; [auto|lia].
  - apply label_eqb_neq in E. rewrite <- IH. split; [intros H; right; lia|intros [H|H]; [contradiction|lia]].
Qed.

Lemma count_label_nodup : forall l ls, NoDup ls -> count_label l ls <= 1.
Proof.
  intros l. induction ls as [|x ls IH]; intros N; cbn [count_label]; [lia|]. inversion N; subst. specialize (IH H2).
  destruct (label_eqb x l) eqn:E; [|lia]. apply label_eqb_eq in E. subst.
  assert (count_label l ls = 0); [|lia]. destruct (count_label l ls) eqn:C; [reflexivity|]. exfalso. apply H1. apply count_label_in. lia.
Qed.

Lemma count_two_contacts : forall (f : hbond -> list label) l hs, (forall h, NoDup (f h)) -> 2 <= count_label l (flat_map f hs) ->
    exists pre h1 mid h2 post, hs = pre ++ h1 :: mid ++ h2 :: post /\ In l (f h1) /\ In l (f h2).
Proof.
  intros f l. induction hs as [|h hs IH]; intros N H; cbn [flat_map count_label] in H; [lia|].
  rewrite count_label_app in H. pose proof (count_label_nodup l (f h) (N h)) as L1.
  destruct (count_label l (f h)) as [|c] eqn:C.
  - destruct (IH N) as (pre & h1 & mid & h2 & post & -> & A & B); [lia|]. exists (h :: pre), h1, mid, h2, post. repeat split; assumption.
  - assert (I1 : In l (f h)) by (apply count_label_in; lia).
    assert (I2 : In l (flat_map f hs)) by (apply count_label_in; lia).
    apply in_flat_map in I2. destruct I2 as (h2 & Hh2 & I2). apply in_split in Hh2. destruct Hh2 as (mid & post & ->).
    exists [], h, mid, h2, post. repeat split; assumption.
Qed.

(* ---------------------------------------------------------------- find_pairs *)
Definition labs (rs : list res3) (order : list (nat * nat)) : list label := flat_map (hlabels rs) (hbonds (scan rs order)).
Definition chosen (rs : list res3) (order : list (nat * nat)) : list label := chosen_of (labs rs order).
Definition pair_of (rs : list res3) (l : label) : nat * nat * str * option str :=
  match l with (i, j, _, _, _) => (i, j, lw_of l, saenger_of rs l) end.

Lemma flat_map_map : forall (A B C : Type) (g : A -> B) (f : B -> list C) l, flat_map f (map g l) = flat_map (fun x => f (g x)) l.
Proof. intros. induction l as [|x l IH]; [reflexivity|]. cbn. rewrite IH. reflexivity. Qed.

Theorem find_pairs_pairs : forall rs order, 2 <= length (candidates rs) ->
    po_pairs (find_pairs rs order) = map (pair_of rs) (stable_sort (pair_ltb rs) (chosen rs order)).
Proof.
  intros rs order H. unfold find_pairs. cbv zeta. apply Nat.ltb_ge in H. rewrite H. cbn [po_pairs].
  unfold chosen, chosen_of, counted_of, labs, scan, init_state. rewrite flat_map_map. reflexivity.
Qed.

Theorem find_pairs_small : forall rs order, length (candidates rs) < 2 -> po_pairs (find_pairs rs order) = [].
Proof. intros rs order H. unfold find_pairs. cbv zeta. apply Nat.ltb_lt in H. rewrite H. reflexivity. Qed.

Lemma labs_ends : forall rs order l, In l (labs rs order) -> ends_differ l.
Proof.
  intros rs order l H. unfold labs in H. apply in_flat_map in H. destruct H as (h & Hh & Hl).
  apply (hlabels_ends rs h l); [|exact Hl]. eapply justified_ends. apply (proj1 (scan_spec rs order)). exact Hh.
Qed.

(* the main statement about the chosen labels *)
Theorem chosen_pairs_spec : forall rs order,
    (* geometrically justified: two different contacts, both justified, both carrying the label *)
    (forall l, In l (chosen rs order) ->
       ends_differ l /\
       exists h1 h2, In h1 (hbonds (scan rs order)) /\ In h2 (hbonds (scan rs order)) /\
                     (hbond_dedup = true -> same_hbond h1 h2 = false) /\
                     In l (hlabels rs h1) /\ In l (hlabels rs h2) /\
                     justified rs (candidates rs) order h1 /\ justified rs (candidates rs) order h2) /\
    (* edge-exclusive *)
    NoDup (flat_map slots (chosen rs order)) /\
    (* maximal *)
    (forall l, min_hbonds <= count_label l (labs rs order) ->
       In l (chosen rs order) \/ exists l' s, In l' (chosen rs order) /\ In s (slots l) /\ In s (slots l')).
Proof.
  intros rs order. destruct (chosen_spec (labs rs order) (labs_ends rs order)) as (A & B & C). fold (chosen rs order) in *.
  destruct (scan_spec rs order) as [J D].
  split; [|split; [exact A|exact C]].
  intros l Hl. specialize (B l Hl).
  assert (Hin : In l (labs rs order)) by (apply count_label_in; unfold min_hbonds in B; lia).
  split; [apply (labs_ends rs order l Hin)|].
  destruct (count_two_contacts (hlabels rs) l (hbonds (scan rs order)) (hlabels_nodup rs) B) as (pre & h1 & mid & h2 & post & E & I1 & I2).
  assert (M1 : In h1 (hbonds (scan rs order))) by (rewrite E; apply in_or_app; right; left; reflexivity).
  assert (M2 : In h2 (hbonds (scan rs order))) by (rewrite E; apply in_or_app; right; right; apply in_or_app; right; left; reflexivity).
  exists h1, h2. repeat split; try assumption; [|apply J; exact M1|apply J; exact M2].
  intros Hd. specialize (D Hd). rewrite E in D. apply fop_split in D. exact D.
Qed.

(* reported = chosen, reordered *)
Theorem reported_is_chosen : forall rs order p, 2 <= length (candidates rs) ->
    (In p (po_pairs (find_pairs rs order)) <-> exists l, In l (chosen rs order) /\ p = pair_of rs l).
Proof.
  intros rs order p H. rewrite find_pairs_pairs by exact H. rewrite in_map_iff. split.
  - intros (l & <- & Hl). exists l. split; [apply stable_sort_in in Hl; exact Hl|reflexivity].
  - intros (l & Hl & ->). exists l. split; [reflexivity|apply stable_sort_in; exact Hl].
Qed.

(* ---------------------------------------------------------------- the distance half: the validated neighbour set *)
From RV Require Import Proofs.ListAux.

Theorem neighbour_pairs_iff : forall thr pts a b,
    In (a, b) (neighbour_pairs thr pts) <->
    a < b /\ exists pa pb, nth_error pts a = Some pa /\ nth_error pts b = Some pb /\ within2 thr pa pb = true.
Proof.
  intros thr pts a b. unfold neighbour_pairs. rewrite in_flat_map. split.
  - intros ([ia pa] & Ha & H). apply in_flat_map in H. destruct H as ([jb pb] & Hb & H). cbn [fst snd] in H.
    destruct (ia <? jb) eqn:L; cbn [andb] in H; [|destruct H]. destruct (within2 thr pa pb) eqn:W; [|destruct H].
    destruct H as [H|[]]. injection H as -> ->. apply in_combine_seq in Ha, Hb. rewrite Nat.sub_0_r in Ha, Hb.
    split; [apply Nat.ltb_lt; exact L|]. exists pa, pb. repeat split; [apply Ha|apply Hb|exact W].
  - intros (L & pa & pb & Ha & Hb & W). exists (a, pa). split; [apply in_combine_seq; rewrite Nat.sub_0_r; split; [lia|exact Ha]|].
    apply in_flat_map. exists (b, pb). split; [apply in_combine_seq; rewrite Nat.sub_0_r; split; [lia|exact Hb]|].
    cbn [fst snd]. apply Nat.ltb_lt in L. rewrite L, W. left. reflexivity.
Qed.

(* a justified contact drawn from the true neighbour set is within the distance threshold *)
Theorem justified_within : forall rs order h, (forall ij, In ij order -> In ij (hbond_neighbours rs)) ->
    justified rs (candidates rs) order h ->
    exists ci cj, h = mk_hbond ci cj /\ In ci (candidates rs) /\ In cj (candidates rs) /\ within2 hbond_max_distance (c_pos ci) (c_pos cj) = true.
Proof.
  intros rs order h Sub (ij & ci & cj & ri & rj & ni & nj & Hin & Ci & Cj & _ & _ & _ & _ & _ & _ & _ & _ & ->).
  exists ci, cj. split; [reflexivity|]. split; [eapply nth_error_In; exact Ci|]. split; [eapply nth_error_In; exact Cj|].
  specialize (Sub ij Hin). destruct ij as [a b]. unfold hbond_neighbours in Sub. apply neighbour_pairs_iff in Sub.
  destruct Sub as (_ & pa & pb & Ha & Hb & W). cbn [fst snd] in Ci, Cj.
  rewrite nth_error_map, Ci in Ha. rewrite nth_error_map, Cj in Hb. cbn in Ha, Hb. injection Ha as <-. injection Hb as <-. exact W.
Qed.
