(* C05: the annotation does not depend on the order in which the atoms of a residue are listed (atom names being unique
   inside a residue): every model function reads a residue only through its identity fields and find_atom. *)
From Coq Require Import String Ascii ZArith QArith List Bool Arith Lia Permutation.
From RV Require Import Base.Val Base.PyStr Gen.Common Gen.Annot Model.Geom Model.AllDb Model.Annot Proofs.C05Main.
Import ListNotations.
Local Close Scope Q_scope.

Definition same_res (r r' : res3) : Prop :=
  r_model r' = r_model r /\ r_chain r' = r_chain r /\ r_number r' = r_number r /\ r_icode r' = r_icode r /\ r_letter r' = r_letter r /\
  forall nm, find_atom r' nm = find_atom r nm.

(* reordering atoms with unique names gives the same residue in this sense *)
Lemma find_perm_gen : forall (A : Type) (p : A -> bool) (l l' : list A), Permutation l l' ->
    (forall a b, In a l -> In b l -> p a = true -> p b = true -> a = b) -> find p l = find p l'.
Proof.
  intros A p l l' P. induction P as [|x l l' P IH|x y l|l l' l'' P1 IH1 P2 IH2]; intros U.
  - reflexivity.
  - cbn [find]. destruct (p x); [reflexivity|]. apply IH. intros a b Ha Hb. apply U; right; assumption.
  - cbn [find]. destruct (p y) eqn:Ey, (p x) eqn:Ex; try reflexivity. f_equal. apply U; cbn; auto.
  - rewrite IH1 by exact U. apply IH2. intros a b Ha Hb. apply U; apply (Permutation_in _ (Permutation_sym P1)); assumption.
Qed.

Lemma find_perm : forall (l l' : list (str * vecZ)) nm, NoDup (map fst l) -> Permutation l l' ->
    find (fun a => str_eqb (fst a) nm) l = find (fun a => str_eqb (fst a) nm) l'.
Proof.
  intros l l' nm N P. apply find_perm_gen; [exact P|]. intros a b Ha Hb Ea Eb.
  assert (G : forall a b : str, str_eqb a b = true -> a = b).
  { induction a0 as [|c a0 IHa]; intros [|d b0] H; cbn in H; try discriminate; [reflexivity|]. apply andb_true_iff in H. destruct H as [H1 H2]. apply Ascii.eqb_eq in H1. f_equal; [exact H1|apply IHa; exact H2]. }
  apply G in Ea, Eb.
  assert (Inj : forall (m : list (str * vecZ)) x y, NoDup (map fst m) -> In x m -> In y m -> fst x = fst y -> x = y).
  { clear. induction m as [|z m IH]; intros x y N Hx Hy E; [destruct Hx|]. cbn [map] in N. inversion N as [|? ? Hn N']; subst.
    destruct Hx as [->|Hx], Hy as [->|Hy]; [reflexivity| | |apply IH; assumption].
    - exfalso. apply Hn. rewrite E. apply in_map. exact Hy.
    - exfalso. apply Hn. rewrite <- E. apply in_map. exact Hx. }
  apply (Inj l a b N Ha Hb). exact (eq_trans Ea (eq_sym Eb)).
Qed.

Theorem reordered_same : forall r atoms', NoDup (map fst (r_atoms r)) -> Permutation (r_atoms r) atoms' ->
    same_res r {| r_model := r_model r; r_chain := r_chain r; r_number := r_number r; r_icode := r_icode r; r_letter := r_letter r; r_atoms := atoms' |}.
Proof.
  intros r atoms' N P. repeat split. intros nm. unfold find_atom. cbn [r_atoms]. rewrite (find_perm _ _ nm N P). reflexivity.
Qed.

Section Same.
  Lemma base_normal_same : forall r r', same_res r r' -> base_normal r' = base_normal r.
  Proof. intros r r' (_ & _ & _ & _ & L & F). unfold base_normal. rewrite L, !F. reflexivity. Qed.
  Lemma glyco_n_same : forall r r', same_res r r' -> glyco_n r' = glyco_n r.
  Proof. intros r r' (_ & _ & _ & _ & L & F). unfold glyco_n. rewrite L, !F. reflexivity. Qed.
  Lemma detect_same : forall ri ri' rj rj', same_res ri ri' -> same_res rj rj' -> detect_cis_trans ri' rj' = detect_cis_trans ri rj.
  Proof.
    intros ri ri' rj rj' Hi Hj. unfold detect_cis_trans. rewrite (glyco_n_same _ _ Hi), (glyco_n_same _ _ Hj).
    destruct Hi as (_ & _ & _ & _ & _ & Fi). destruct Hj as (_ & _ & _ & _ & _ & Fj). rewrite Fi, Fj. reflexivity.
  Qed.
  Lemma bph_class_same : forall r r' nm d a, same_res r r' -> bph_class r' nm d a = bph_class r nm d a.
  Proof. intros r r' nm d a (_ & _ & _ & _ & L & F). unfold bph_class. rewrite L. destruct (find _ bph_ladder) as [[k [n|[[x y] [kc kt]]]]|]; [reflexivity| |reflexivity]. rewrite !F. reflexivity. Qed.
  Lemma res_ltb_same : forall a a' b b', same_res a a' -> same_res b b' -> res_ltb a' b' = res_ltb a b.
  Proof.
    intros a a' b b' (M1 & C1 & N1 & I1 & _) (M2 & C2 & N2 & I2 & _). unfold res_ltb, icode_or_space. rewrite M1, C1, N1, I1, M2, C2, N2, I2. reflexivity.
  Qed.
  Lemma edges_of_same : forall r r' a, same_res r r' -> edges_of r' a = edges_of r a.
  Proof. intros r r' a (_ & _ & _ & _ & L & _). unfold edges_of. rewrite L. reflexivity. Qed.
  Lemma candidates_of_same : forall i r r', same_res r r' -> candidates_of i r' = candidates_of i r.
  Proof.
    intros i r r' (_ & _ & _ & _ & L & F). unfold candidates_of. rewrite L. cbv zeta. apply flat_map_ext. intros nm. rewrite F. reflexivity.
  Qed.
  Lemma centroid_same : forall r r', same_res r r' -> centroid r' = centroid r.
  Proof.
    intros r r' (_ & _ & _ & _ & L & F). unfold centroid. rewrite L. cbv zeta.
    rewrite (flat_map_ext _ (fun nm => match find_atom r nm with Some p => [p] | None => [] end)) by (intros nm; rewrite F; reflexivity). reflexivity.
  Qed.

  Lemma Forall2_length : forall (A B : Type) (R : A -> B -> Prop) l l', Forall2 R l l' -> length l = length l'.
  Proof. intros A B R l l' H. induction H; cbn; [reflexivity|f_equal; assumption]. Qed.

  Lemma nth_same_gen : forall rs rs', Forall2 same_res rs rs' -> forall i,
      match nth_error rs i, nth_error rs' i with Some r, Some r' => same_res r r' | None, None => True | _, _ => False end.
  Proof.
    intros rs rs' H. induction H as [|r r' l l' Hr _ IH]; intros i; [destruct i; exact I|]. destruct i as [|i]; [exact Hr|apply IH].
  Qed.
  Lemma candidates_same_gen : forall rs rs', Forall2 same_res rs rs' -> candidates rs' = candidates rs.
  Proof.
    intros rs rs' H. unfold candidates. rewrite <- (Forall2_length _ _ _ _ _ H). generalize 0%nat. induction H as [|r r' l l' Hr _ IH]; intros s; [reflexivity|].
    cbn [length seq combine flat_map fst snd]. rewrite (candidates_of_same s r r' Hr), IH. reflexivity.
  Qed.
  Lemma centres_same_gen : forall rs rs', Forall2 same_res rs rs' -> centres rs' = centres rs.
  Proof.
    intros rs rs' H. unfold centres. rewrite <- (Forall2_length _ _ _ _ _ H). generalize 0%nat. induction H as [|r r' l l' Hr _ IH]; intros s; [reflexivity|].
    cbn [length seq combine flat_map fst snd]. rewrite (centroid_same r r' Hr), IH. reflexivity.
  Qed.

  Variables rs rs' : list res3.
  Hypothesis Hrs : Forall2 same_res rs rs'.
  Definition nth_same := nth_same_gen rs rs' Hrs.
  Definition candidates_same := candidates_same_gen rs rs' Hrs.
  Definition centres_same := centres_same_gen rs rs' Hrs.

  Lemma step_pair_same : forall cs st ij, step_pair rs' cs st ij = step_pair rs cs st ij.
  Proof.
    intros cs st ij. unfold step_pair. destruct (nth_error cs (fst ij)) as [ci|]; [|reflexivity]. destruct (nth_error cs (snd ij)) as [cj|]; [|reflexivity].
    destruct (Bool.eqb (c_acceptor ci) (c_acceptor cj)); [reflexivity|]. destruct (c_res ci =? c_res cj); [reflexivity|].
    pose proof (nth_same (c_res ci)) as Hi. pose proof (nth_same (c_res cj)) as Hj.
    destruct (nth_error rs (c_res ci)) as [ri|], (nth_error rs' (c_res ci)) as [ri'|]; try contradiction; [|reflexivity].
    destruct (nth_error rs (c_res cj)) as [rj|], (nth_error rs' (c_res cj)) as [rj'|]; try contradiction; [|reflexivity].
    destruct (c_acceptor ci); cbv zeta; rewrite ?(bph_class_same _ _ _ _ _ Hi), ?(bph_class_same _ _ _ _ _ Hj), (base_normal_same _ _ Hi), (base_normal_same _ _ Hj); reflexivity.
  Qed.

  Lemma labels_of_same : forall h, labels_of rs' h = labels_of rs h.
  Proof.
    intros h. unfold labels_of. pose proof (nth_same (h_i h)) as Hi. pose proof (nth_same (h_j h)) as Hj.
    destruct (nth_error rs (h_i h)) as [ri|], (nth_error rs' (h_i h)) as [ri'|]; try contradiction; [|reflexivity].
    destruct (nth_error rs (h_j h)) as [rj|], (nth_error rs' (h_j h)) as [rj'|]; try contradiction; [|reflexivity].
    rewrite (edges_of_same _ _ _ Hi), (edges_of_same _ _ _ Hj), (detect_same _ _ _ _ Hi Hj), (res_ltb_same _ _ _ _ Hi Hj). reflexivity.
  Qed.

  Ltac four i1 i2 j1 j2 :=
    pose proof (nth_same i1) as H1; pose proof (nth_same i2) as H2; pose proof (nth_same j1) as H3; pose proof (nth_same j2) as H4;
    destruct (nth_error rs i1), (nth_error rs' i1); try contradiction; try reflexivity;
    destruct (nth_error rs i2), (nth_error rs' i2); try contradiction; try reflexivity;
    destruct (nth_error rs j1), (nth_error rs' j1); try contradiction; try reflexivity;
    destruct (nth_error rs j2), (nth_error rs' j2); try contradiction; try reflexivity.

  Lemma pair_ltb_same : forall a b, pair_ltb rs' a b = pair_ltb rs a b.
  Proof.
    intros [[[[i1 j1] c1] e1] f1] [[[[i2 j2] c2] e2] f2]. unfold pair_ltb. four i1 i2 j1 j2.
    rewrite (res_ltb_same _ _ _ _ H3 H4), (res_ltb_same _ _ _ _ H1 H2). reflexivity.
  Qed.
  Lemma triple_ltb_same : forall a b, triple_ltb rs' a b = triple_ltb rs a b.
  Proof.
    intros [[d1 a1] k1] [[d2 a2] k2]. unfold triple_ltb. four d1 d2 a1 a2.
    rewrite (res_ltb_same _ _ _ _ H3 H4), (res_ltb_same _ _ _ _ H1 H2). reflexivity.
  Qed.
  Lemma stack_ltb_same : forall a b, stack_ltb rs' a b = stack_ltb rs a b.
  Proof.
    intros [[i1 j1] t1] [[i2 j2] t2]. unfold stack_ltb. four i1 i2 j1 j2.
    rewrite (res_ltb_same _ _ _ _ H3 H4), (res_ltb_same _ _ _ _ H1 H2). reflexivity.
  Qed.
  Lemma saenger_of_same : forall l, saenger_of rs' l = saenger_of rs l.
  Proof.
    intros [[[[i j] c] e] f]. unfold saenger_of. pose proof (nth_same i) as Hi. pose proof (nth_same j) as Hj.
    destruct (nth_error rs i) as [ri|], (nth_error rs' i) as [ri'|]; try contradiction; [|reflexivity].
    destruct (nth_error rs j) as [rj|], (nth_error rs' j) as [rj'|]; try contradiction; [|reflexivity].
    destruct Hi as (_ & _ & _ & _ & Li & _). destruct Hj as (_ & _ & _ & _ & Lj & _). rewrite Li, Lj. reflexivity.
  Qed.

  Theorem find_pairs_same : forall order, find_pairs rs' order = find_pairs rs order.
  Proof.
    intros order. unfold find_pairs. cbv zeta. rewrite candidates_same.
    assert (Sc : forall o st, fold_left (step_pair rs' (candidates rs)) o st = fold_left (step_pair rs (candidates rs)) o st).
    { induction o as [|ij o IH]; intros st; [reflexivity|]. cbn [fold_left]. rewrite step_pair_same. apply IH. }
    rewrite Sc. destruct (length (candidates rs) <? 2); [reflexivity|].
    unfold merge_and_clean. rewrite !(stable_sort_ext _ _ _ _ triple_ltb_same), (stable_sort_ext _ _ _ _ pair_ltb_same).
    rewrite (map_ext _ _ labels_of_same). f_equal. apply map_ext. intros [[[[i j] c] e] f]. rewrite saenger_of_same. reflexivity.
  Qed.

  Lemma stack_pair_same : forall cs ij, stack_pair rs' cs ij = stack_pair rs cs ij.
  Proof.
    intros cs ij. unfold stack_pair. destruct (nth_error cs (fst ij)) as [[i [si ki]]|]; [|reflexivity]. destruct (nth_error cs (snd ij)) as [[j [sj kj]]|]; [|reflexivity].
    pose proof (nth_same i) as Hi. pose proof (nth_same j) as Hj.
    destruct (nth_error rs i) as [ri|], (nth_error rs' i) as [ri'|]; try contradiction; [|reflexivity].
    destruct (nth_error rs j) as [rj|], (nth_error rs' j) as [rj'|]; try contradiction; [|reflexivity].
    rewrite (base_normal_same _ _ Hi), (base_normal_same _ _ Hj), (res_ltb_same _ _ _ _ Hi Hj). reflexivity.
  Qed.

  Theorem find_stackings_same : forall order, find_stackings rs' order = find_stackings rs order.
  Proof.
    intros order. unfold find_stackings. cbv zeta. rewrite centres_same. destruct (length (centres rs) <? 2); [reflexivity|].
    rewrite (map_ext _ _ (stack_pair_same (centres rs))), (stable_sort_ext _ _ _ _ stack_ltb_same). reflexivity.
  Qed.
End Same.
