(* C11: well-formedness of the lists find_pairs returns — pairs join two residues, lower residue first, no repeats,
   sorted; base-phosphate / base-ribose contacts join two residues and carry at most one class per residue pair. *)
From Coq Require Import String Ascii ZArith QArith List Bool Arith Lia Permutation Sorted.
From RV Require Import Base.Val Base.PyStr Gen.Common Gen.Annot Model.Geom Model.AllDb Model.Annot
     Proofs.SortGen Proofs.SortStr Proofs.C03Occupy Proofs.C03Hbonds Proofs.C03Main Proofs.C04Main.
Import ListNotations.
Local Close Scope Q_scope.

(* ---------------------------------------------------------------- base pairs *)
Lemma chosen_nodup : forall rs order, NoDup (chosen rs order).
Proof.
  intros rs order. destruct (chosen_pairs_spec rs order) as (_ & N & _).
  induction (chosen rs order) as [|l ls IH]; [constructor|]. cbn [flat_map] in N.
  assert (Hl : exists s, In s (slots l)) by (destruct l as [[[[i j] c] e1] e2]; eexists; left; reflexivity). destruct Hl as [s Hs].
  constructor.
  - intros Hin. assert (In s (flat_map slots ls)) by (apply in_flat_map; exists l; split; assumption).
    clear -N Hs H. induction (slots l) as [|x t IHt]; [destruct Hs|]. cbn [app] in N. inversion N as [|? ? Hn N']; subst.
    destruct Hs as [->|Hs]; [apply Hn; apply in_or_app; right; exact H|apply IHt; assumption].
  - apply IH. clear -N. induction (slots l) as [|x t IHt]; [exact N|]. cbn [app] in N. inversion N; subst. apply IHt. assumption.
Qed.

Lemma pair_of_inj : forall rs l l', pair_of rs l = pair_of rs l' -> l = l'.
Proof.
  intros rs [[[[i j] c] e1] e2] [[[[i' j'] c'] e1'] e2'] H. unfold pair_of, lw_of in H. injection H as -> -> Hc -> -> _.
  destruct c, c'; try discriminate; reflexivity.
Qed.

Theorem pairs_no_repeat : forall rs order, NoDup (po_pairs (find_pairs rs order)).
Proof.
  intros rs order. destruct (Nat.lt_ge_cases (length (candidates rs)) 2) as [L|G]; [rewrite find_pairs_small by exact L; constructor|].
  rewrite find_pairs_pairs by exact G. apply FinFun.Injective_map_NoDup; [intros a b; apply pair_of_inj|].
  apply (Permutation_NoDup (Permutation_sym (stable_sort_perm (pair_ltb rs) (chosen rs order)))). apply chosen_nodup.
Qed.

Theorem pairs_two_residues : forall rs order i j lw sa, In (i, j, lw, sa) (po_pairs (find_pairs rs order)) -> i <> j.
Proof.
  intros rs order i j lw sa H. destruct (Nat.lt_ge_cases (length (candidates rs)) 2) as [L|G]; [rewrite find_pairs_small in H by exact L; destruct H|].
  apply (reported_is_chosen rs order _ G) in H. destruct H as (l & Hl & E). destruct (chosen_pairs_spec rs order) as (A & _ & _).
  destruct (A l Hl) as [Hd _]. destruct l as [[[[i' j'] c] e1] e2]. cbn in E, Hd. injection E as -> -> _ _. exact Hd.
Qed.

(* lower residue first: a label is built as (h_i, h_j) only if residue h_i sorts before h_j, otherwise swapped *)
Theorem pairs_lower_first : forall rs order i j lw sa, In (i, j, lw, sa) (po_pairs (find_pairs rs order)) ->
    exists ri rj, nth_error rs i = Some ri /\ nth_error rs j = Some rj /\ res_ltb rj ri = false.
Proof.
  intros rs order i j lw sa H. destruct (Nat.lt_ge_cases (length (candidates rs)) 2) as [L|G]; [rewrite find_pairs_small in H by exact L; destruct H|].
  apply (reported_is_chosen rs order _ G) in H. destruct H as (l & Hl & E). destruct (chosen_pairs_spec rs order) as (A & _ & _).
  destruct (A l Hl) as (_ & h1 & _ & _ & _ & _ & L1 & _). apply hlabels_meaning in L1.
  destruct L1 as (ri & rj & ei & ej & d & a & b & Ri & Rj & _ & _ & _ & _ & _ & El).
  destruct (res_ltb ri rj) eqn:Lt; subst l; cbn in E; injection E as -> -> _ _.
  - exists ri, rj. repeat split; try assumption. apply res_ltb_asym. exact Lt.
  - exists rj, ri. repeat split; assumption.
Qed.

Lemma pair_ltb_asym : forall rs a b, pair_ltb rs a b = true -> pair_ltb rs b a = false.
Proof.
  intros rs [[[[i1 j1] c1] e1] f1] [[[[i2 j2] c2] e2] f2] H. unfold pair_ltb in *.
  destruct (nth_error rs i1) as [ri1|]; [|discriminate]. destruct (nth_error rs i2) as [ri2|]; [|discriminate].
  destruct (nth_error rs j1) as [rj1|]; [|discriminate]. destruct (nth_error rs j2) as [rj2|]; [|discriminate].
  rewrite (Nat.eqb_sym i2 i1). destruct (i1 =? i2); [|apply res_ltb_asym; exact H].
  rewrite (Nat.eqb_sym j2 j1). destruct (j1 =? j2); [apply sltb_asym; exact H|apply res_ltb_asym; exact H].
Qed.

Theorem pairs_sorted : forall rs order, 2 <= length (candidates rs) ->
    exists ls, po_pairs (find_pairs rs order) = map (pair_of rs) ls /\ LocallySorted (fun x y => pair_ltb rs y x = false) ls.
Proof.
  intros rs order G. exists (stable_sort (pair_ltb rs) (chosen rs order)). split; [apply find_pairs_pairs; exact G|].
  apply (stable_sort_sorted (pair_ltb rs) (pair_ltb_asym rs)).
Qed.

(* ---------------------------------------------------------------- base-phosphate and base-ribose contacts *)
Lemma merge_classes_le1 : forall l, length (merge_classes l) <= 1.
Proof.
  assert (G : forall l2 : list nat, length (match l2 with x :: _ :: _ => [x] | _ => l2 end) <= 1) by (intros [|a [|b t]]; cbn; lia).
  intros l. unfold merge_classes. cbv zeta. apply G.
Qed.

Lemma group_keys_nodup : forall l acc, NoDup (map fst acc) -> NoDup (map fst (group_classes l acc)).
Proof.
  induction l as [|[[d a] k] l IH]; intros acc N; cbn [group_classes]; [exact N|]. apply IH.
  clear IH. induction acc as [|[[d' a'] ks] m IHm]; [cbn; constructor; [intros []|constructor]|].
  cbn [map fst] in N. inversion N as [|? ? Hn N']; subst.
  destruct ((d =? d') && (a =? a')) eqn:E; cbn [map fst].
  - constructor; assumption.
  - constructor; [|apply IHm; exact N']. intros Hin.
    assert (G : forall m0, In (d', a') (map fst ((fix upd (m : list (nat * nat * list nat)) : list (nat * nat * list nat) :=
                 match m with
                 | [] => [(d, a, [k])]
                 | (d'0, a'0, ks0) :: m' => if (d =? d'0) && (a =? a'0) then (d'0, a'0, oset_add k ks0) :: m' else (d'0, a'0, ks0) :: upd m'
                 end) m0)) -> (d', a') = (d, a) \/ In (d', a') (map fst m0)).
    { induction m0 as [|[[d2 a2] ks2] m0 IH0]; cbn; [intros [H|[]]; left; symmetry; exact H|].
      destruct ((d =? d2) && (a =? a2)); cbn [map fst In]; [intros [H|H]; auto|intros [H|H]; [auto|destruct (IH0 H); auto]]. }
    destruct (G m Hin) as [H|H]; [|contradiction]. injection H as -> ->. rewrite !Nat.eqb_refl in E. discriminate.
Qed.

(* a residue pair carries at most one class *)
Theorem contacts_one_class : forall rs l, NoDup (map (fun t => (fst (fst t), snd (fst t))) (merge_and_clean rs l)).
Proof.
  intros rs l. unfold merge_and_clean. set (g := group_classes _ []).
  assert (N : NoDup (map fst g)) by (apply group_keys_nodup; constructor).
  induction g as [|[[d a] ks] g IH]; [constructor|]. cbn [flat_map map fst snd]. rewrite map_app. cbn [map fst] in N. inversion N as [|? ? Hn N']; subst.
  pose proof (merge_classes_le1 ks) as L. destruct (merge_classes ks) as [|k [|k2 t]]; cbn [map app fst snd length] in *; [apply IH; exact N'| |lia].
  constructor; [|apply IH; exact N']. intros Hin. apply in_map_iff in Hin. destruct Hin as ([[d2 a2] k2] & E & Hin). cbn in E. injection E as -> ->.
  apply in_flat_map in Hin. destruct Hin as ([[d3 a3] ks3] & Hg & Hin). apply in_map_iff in Hin. destruct Hin as (k3 & E & _). cbn in E. injection E as -> -> _.
  apply Hn. apply in_map_iff. exists (d, a, ks3). split; [reflexivity|exact Hg].
Qed.

(* contacts join two different residues *)
Definition contacts_apart (l : list (nat * nat * nat)) : Prop := forall d a k, In (d, a, k) l -> d <> a.

Lemma step_pair_contacts : forall rs cs st ij, contacts_apart (bphs st) -> contacts_apart (brs st) ->
    contacts_apart (bphs (step_pair rs cs st ij)) /\ contacts_apart (brs (step_pair rs cs st ij)).
Proof.
  intros rs cs st ij Hb Hr. unfold step_pair.
  destruct (nth_error cs (fst ij)) as [ci|]; [|auto]. destruct (nth_error cs (snd ij)) as [cj|]; [|auto].
  destruct (Bool.eqb (c_acceptor ci) (c_acceptor cj)); [auto|].
  destruct (c_res ci =? c_res cj) eqn:Res; [auto|]. apply Nat.eqb_neq in Res.
  destruct (nth_error rs (c_res ci)) as [ri|]; [|auto]. destruct (nth_error rs (c_res cj)) as [rj|]; [|auto].
  assert (Add : forall l d a k, contacts_apart l -> d <> a -> contacts_apart (l ++ [(d, a, k)])).
  { intros l d a k Hl Hne d' a' k' Hin. apply in_app_or in Hin. destruct Hin as [Hin|[E|[]]]; [apply (Hl d' a' k' Hin)|injection E as <- <- _; exact Hne]. }
  destruct (c_acceptor ci); cbv zeta.
  - destruct ((in_names phosphate_acceptors (c_name ci) || in_names phosphate_acceptors (c_name cj)) && negb (is_used (used st) ci) && negb (is_used (used st) cj)).
    { destruct (bph_class rj (c_name cj) (c_pos cj) (c_pos ci)) as [[k d]|]; cbn [bphs brs]; [split; [apply Add; [exact Hb|congruence]|exact Hr]|auto]. }
    destruct ((in_names ribose_acceptors (c_name ci) || in_names ribose_acceptors (c_name cj)) && negb (is_used (used st) ci) && negb (is_used (used st) cj)).
    { destruct (bph_class rj (c_name cj) (c_pos cj) (c_pos ci)) as [[k d]|]; cbn [bphs brs]; [split; [exact Hb|apply Add; [exact Hr|congruence]]|auto]. }
    destruct (base_normal ri); [|auto]. destruct (base_normal rj); [|auto].
    destruct (tri_and _ _); [|auto|auto]. destruct (hbond_dedup && _); auto.
  - destruct ((in_names phosphate_acceptors (c_name ci) || in_names phosphate_acceptors (c_name cj)) && negb (is_used (used st) ci) && negb (is_used (used st) cj)).
    { destruct (bph_class ri (c_name ci) (c_pos ci) (c_pos cj)) as [[k d]|]; cbn [bphs brs]; [split; [apply Add; [exact Hb|congruence]|exact Hr]|auto]. }
    destruct ((in_names ribose_acceptors (c_name ci) || in_names ribose_acceptors (c_name cj)) && negb (is_used (used st) ci) && negb (is_used (used st) cj)).
    { destruct (bph_class ri (c_name ci) (c_pos ci) (c_pos cj)) as [[k d]|]; cbn [bphs brs]; [split; [exact Hb|apply Add; [exact Hr|congruence]]|auto]. }
    destruct (base_normal ri); [|auto]. destruct (base_normal rj); [|auto].
    destruct (tri_and _ _); [|auto|auto]. destruct (hbond_dedup && _); auto.
Qed.

Lemma scan_contacts : forall rs order, contacts_apart (bphs (scan rs order)) /\ contacts_apart (brs (scan rs order)).
Proof.
  intros rs order. unfold scan.
  assert (G : forall order st, contacts_apart (bphs st) -> contacts_apart (brs st) ->
                contacts_apart (bphs (fold_left (step_pair rs (candidates rs)) order st)) /\ contacts_apart (brs (fold_left (step_pair rs (candidates rs)) order st))).
  { induction order0 as [|ij order0 IH]; intros st Hb Hr; [auto|]. cbn [fold_left]. destruct (step_pair_contacts rs (candidates rs) st ij Hb Hr). apply IH; assumption. }
  apply G; intros d a k [].
Qed.

Lemma group_keys_from : forall l acc d a ks, In (d, a, ks) (group_classes l acc) ->
    (exists ks', In (d, a, ks') acc) \/ (exists k, In (d, a, k) l).
Proof.
  induction l as [|[[d0 a0] k0] l IH]; intros acc d a ks H; cbn [group_classes] in H; [left; eauto|].
  apply IH in H. destruct H as [(ks' & H)|(k & H)]; [|right; exists k; right; exact H].
  assert (G : forall m, In (d, a, ks') ((fix upd (m : list (nat * nat * list nat)) : list (nat * nat * list nat) :=
                 match m with
                 | [] => [(d0, a0, [k0])]
                 | (d'0, a'0, ks0) :: m' => if (d0 =? d'0) && (a0 =? a'0) then (d'0, a'0, oset_add k0 ks0) :: m' else (d'0, a'0, ks0) :: upd m'
                 end) m) -> (d, a) = (d0, a0) \/ exists ks'', In (d, a, ks'') m).
  { induction m as [|[[d2 a2] ks2] m IHm]; cbn; [intros [E|[]]; injection E as <- <- _; left; reflexivity|].
    destruct ((d0 =? d2) && (a0 =? a2)); cbn [In].
    - intros [E|Hin]; [injection E as <- <- _; right; eexists; left; reflexivity|right; eexists; right; exact Hin].
    - intros [E|Hin]; [injection E as <- <- <-; right; eexists; left; reflexivity|]. destruct (IHm Hin) as [E|(ks'' & Hk)]; [left; exact E|right; eexists; right; exact Hk]. }
  destruct (G acc H) as [E|Hk]; [injection E as -> ->; right; exists k0; left; reflexivity|left; exact Hk].
Qed.

Theorem contacts_two_residues : forall rs order d a k,
    In (d, a, k) (po_bph (find_pairs rs order)) \/ In (d, a, k) (po_br (find_pairs rs order)) -> d <> a.
Proof.
  intros rs order d a k H. unfold find_pairs in H. cbv zeta in H. destruct (length (candidates rs) <? 2); [destruct H as [[]|[]]|].
  cbn [po_bph po_br] in H. destruct (scan_contacts rs order) as [Hb Hr]. unfold scan, init_state in Hb, Hr.
  assert (G : forall l, contacts_apart l -> In (d, a, k) (merge_and_clean rs l) -> d <> a).
  { intros l Hl Hin. unfold merge_and_clean in Hin. apply in_flat_map in Hin. destruct Hin as ([[d' a'] ks] & Hg & Hin). apply in_map_iff in Hin.
    destruct Hin as (k' & E & _). cbn in E. injection E as -> -> _.
    apply group_keys_from in Hg. destruct Hg as [(ks' & [])|(k0 & Hk)]. apply (proj1 (stable_sort_in (triple_ltb rs) l (d, a, k0))) in Hk. apply (Hl d a k0 Hk). }
  destruct H as [H|H]; [apply (G _ Hb H)|apply (G _ Hr H)].
Qed.
