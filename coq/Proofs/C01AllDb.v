(* C01 x C16: every member of the all-dot-brackets list is a lossless encoding of the structure. *)
From Coq Require Import String Ascii ZArith List Bool Arith Lia Permutation.
From RV Require Import Base.Val Gen.Common Model.Bpseq Model.Spec2D Model.Milp Model.AllDb Proofs.Stack Proofs.Encode Proofs.Fcfs Proofs.Regions
     Proofs.C01Main Proofs.Colouring Proofs.C02Main Proofs.C16Global Proofs.C16Final Proofs.C16Contains.
Import ListNotations.

Lemma make_structure_levels : forall rs ord s s', make_structure s rs ord = Ok s' -> length ord = length rs ->
    forall o, In o ord -> o < length brackets.
Proof.
  induction rs as [|[[j k] n] rs IH]; intros ord s s' H L o Ho; [destruct ord; [destruct Ho|discriminate]|].
  destruct ord as [|o0 ord]; [discriminate|]. cbn [make_structure] in H.
  destruct (nth_error brackets o0) as [[bo bc]|] eqn:E; [|discriminate].
  destruct Ho as [<-|Ho]; [apply nth_error_Some; congruence|]. apply (IH ord _ _ H); [cbn in L; lia|exact Ho].
Qed.

Theorem all_db_members_lossless : forall b L s, valid b = true -> all_db b = Ok L -> In s L -> lossless b s = true.
Proof.
  intros b L s Hv H Hin. destruct (has_conflict (adj_all (regions b)) (length (regions b))) eqn:Hc.
  - destruct (proj1 (all_db_members b L Hc H s) Hin) as (ord & Hl & [P _] & Hm).
    assert (Hp : proper (regions b) ord).
    { apply properP_proper; [exact Hl|]. intros i j Hi Hj Ha. unfold level. rewrite <- adj_all_is_adj_db in Ha. apply (P i j Ha). }
    assert (Hlev : forall o, In o ord -> o < length brackets) by (unfold make_db in Hm; apply (make_structure_levels _ _ _ _ Hm Hl)).
    destruct (encode_decode b ord Hv Hp Hlev) as (s0 & E0 & _ & _ & _ & _ & Hloss). rewrite Hm in E0. injection E0 as <-. exact Hloss.
  - rewrite (no_conflict_single b Hc) in H. destruct (fcfs b) as [s0|e] eqn:E; [|discriminate]. injection H as <-. destruct Hin as [<-|[]].
    apply (fcfs_lossless b s0 Hv E).
Qed.
