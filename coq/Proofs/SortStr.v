(* C14: the sorted, de-duplicated list of strings does not depend on the order in which the strings arrive
   (so the iteration order of the hash-ordered set of solutions cannot reach the output). *)
From Coq Require Import String Ascii ZArith List Bool Arith Lia Permutation.
From RV Require Import Base.Val Gen.Common Model.Bpseq Model.AllDb.
Import ListNotations.

Lemma ascii_nat_inj : forall a b, nat_of_ascii a = nat_of_ascii b -> a = b.
Proof. intros a b H. rewrite <- (ascii_nat_embedding a), <- (ascii_nat_embedding b), H. reflexivity. Qed.

Lemma seqb_eq : forall a b, str_eqb a b = true <-> a = b.
Proof.
  induction a as [|x a IH]; intros [|y b]; cbn; split; try discriminate; try reflexivity.
  - intros H. apply andb_true_iff in H. destruct H as [H1 H2]. apply Ascii.eqb_eq in H1. apply IH in H2. subst. reflexivity.
  - intros H. injection H as -> ->. rewrite Ascii.eqb_refl. apply IH. reflexivity.
Qed.

Lemma sltb_irrefl : forall a, str_ltb a a = false.
Proof. induction a as [|x a IH]; cbn [str_ltb]; [reflexivity|]. rewrite Nat.ltb_irrefl. exact IH. Qed.

Lemma sltb_trichotomy : forall a b, str_ltb a b = true \/ a = b \/ str_ltb b a = true.
Proof.
  induction a as [|x a IH]; intros [|y b]; cbn [str_ltb]; auto.
  destruct (Nat.ltb_spec (nat_of_ascii x) (nat_of_ascii y)); [auto|].
  destruct (Nat.ltb_spec (nat_of_ascii y) (nat_of_ascii x)); [auto|].
  assert (x = y) by (apply ascii_nat_inj; lia). subst.
  destruct (IH b) as [H1|[->|H1]]; auto.
Qed.

Lemma sltb_asym : forall a b, str_ltb a b = true -> str_ltb b a = false.
Proof.
  induction a as [|x a IH]; intros [|y b] H; cbn [str_ltb] in *; try discriminate; try reflexivity.
  destruct (Nat.ltb_spec (nat_of_ascii x) (nat_of_ascii y)).
  - replace (nat_of_ascii y <? nat_of_ascii x) with false by (symmetry; apply Nat.ltb_ge; lia).
    replace (nat_of_ascii x <? nat_of_ascii y) with true by (symmetry; apply Nat.ltb_lt; lia). reflexivity.
  - destruct (Nat.ltb_spec (nat_of_ascii y) (nat_of_ascii x)); [discriminate|].
    replace (nat_of_ascii x <? nat_of_ascii y) with false by (symmetry; apply Nat.ltb_ge; lia). apply IH. exact H.
Qed.

Lemma sltb_trans : forall a b c, str_ltb a b = true -> str_ltb b c = true -> str_ltb a c = true.
Proof.
  induction a as [|x a IH]; intros [|y b] [|z c] H1 H2; cbn [str_ltb] in *; try discriminate; try reflexivity.
  destruct (Nat.ltb_spec (nat_of_ascii x) (nat_of_ascii y)), (Nat.ltb_spec (nat_of_ascii y) (nat_of_ascii z)).
  - replace (nat_of_ascii x <? nat_of_ascii z) with true by (symmetry; apply Nat.ltb_lt; lia). reflexivity.
  - destruct (Nat.ltb_spec (nat_of_ascii z) (nat_of_ascii y)); [discriminate|].
    replace (nat_of_ascii x <? nat_of_ascii z) with true by (symmetry; apply Nat.ltb_lt; lia). reflexivity.
  - destruct (Nat.ltb_spec (nat_of_ascii y) (nat_of_ascii x)); [discriminate|].
    replace (nat_of_ascii x <? nat_of_ascii z) with true by (symmetry; apply Nat.ltb_lt; lia). reflexivity.
  - destruct (Nat.ltb_spec (nat_of_ascii y) (nat_of_ascii x)); [discriminate|].
    destruct (Nat.ltb_spec (nat_of_ascii z) (nat_of_ascii y)); [discriminate|].
    replace (nat_of_ascii x <? nat_of_ascii z) with false by (symmetry; apply Nat.ltb_ge; lia).
    replace (nat_of_ascii z <? nat_of_ascii x) with false by (symmetry; apply Nat.ltb_ge; lia).
    eapply IH; eassumption.
Qed.

(* strictly increasing lists *)
Inductive ssorted : list (list ascii) -> Prop :=
| ss_nil : ssorted []
| ss_one : forall x, ssorted [x]
| ss_cons : forall x y l, str_ltb x y = true -> ssorted (y :: l) -> ssorted (x :: y :: l).

Lemma ssorted_head_lt : forall x l, ssorted (x :: l) -> forall y, In y l -> str_ltb x y = true.
Proof.
  intros x l. revert x. induction l as [|z l IH]; intros x H y Hy; [destruct Hy|].
  inversion H; subst. destruct Hy as [<-|Hy]; [assumption|]. eapply sltb_trans; [eassumption|]. apply IH; assumption.
Qed.

Lemma insert_str_spec : forall x l, ssorted l ->
    ssorted (insert_str x l) /\ forall y, In y (insert_str x l) <-> y = x \/ In y l.
Proof.
  intros x. induction l as [|z l IH]; intros H.
  - cbn. split; [constructor|]. intros y. cbn. intuition.
  - cbn [insert_str]. destruct (str_eqb x z) eqn:E.
    + apply seqb_eq in E. subst. split; [exact H|]. intros y. cbn. intuition.
    + destruct (str_ltb x z) eqn:L.
      * split; [constructor; assumption|]. intros y. cbn. intuition.
      * assert (Hz : str_ltb z x = true).
        { destruct (sltb_trichotomy x z) as [T|[->|T]]; [congruence| |exact T]. rewrite (proj2 (seqb_eq z z) eq_refl) in E. discriminate. }
        assert (Hl : ssorted l) by (inversion H; subst; [constructor|assumption]).
        destruct (IH Hl) as [A B]. split.
        -- destruct (insert_str x l) as [|w r] eqn:Ei; [constructor|]. constructor; [|exact A].
           assert (Hw : In w (w :: r)) by (left; reflexivity).
           apply B in Hw. destruct Hw as [->|Hw]; [exact Hz|]. eapply ssorted_head_lt; eassumption.
        -- intros y. cbn [In]. rewrite B. intuition.
Qed.

Lemma sort_dedup_spec : forall l, ssorted (sort_dedup_str l) /\ forall y, In y (sort_dedup_str l) <-> In y l.
Proof.
  induction l as [|x l [A B]]; [split; [constructor|intros; reflexivity]|].
  unfold sort_dedup_str. cbn [fold_right]. fold (sort_dedup_str l).
  destruct (insert_str_spec x (sort_dedup_str l) A) as [C D]. split; [exact C|].
  intros y. rewrite D, B. cbn. intuition.
Qed.

(* two strictly increasing lists with the same members are equal *)
Lemma ssorted_unique : forall l l', ssorted l -> ssorted l' -> (forall y, In y l <-> In y l') -> l = l'.
Proof.
  induction l as [|x l IH]; intros l' H H' E.
  - destruct l' as [|z l']; [reflexivity|]. exfalso. apply (proj2 (E z)). left. reflexivity.
  - destruct l' as [|z l']; [exfalso; apply (proj1 (E x)); left; reflexivity|].
    assert (Hl : ssorted l) by (inversion H; subst; [constructor|assumption]).
    assert (Hl' : ssorted l') by (inversion H'; subst; [constructor|assumption]).
    assert (x = z).
    { destruct (proj1 (E x) (or_introl eq_refl)) as [->|Hx]; [reflexivity|].
      destruct (proj2 (E z) (or_introl eq_refl)) as [->|Hz]; [reflexivity|].
      pose proof (ssorted_head_lt z l' H' x Hx) as A. pose proof (ssorted_head_lt x l H z Hz) as B.
      rewrite (sltb_asym _ _ A) in B. discriminate. }
    subst z. f_equal. apply IH; try assumption. intros y. split; intros Hy.
    + destruct (proj1 (E y) (or_intror Hy)) as [->|Hy']; [|exact Hy'].
      pose proof (ssorted_head_lt y l H y Hy) as A. rewrite sltb_irrefl in A. discriminate.
    + destruct (proj2 (E y) (or_intror Hy)) as [->|Hy']; [|exact Hy'].
      pose proof (ssorted_head_lt y l' H' y Hy) as A. rewrite sltb_irrefl in A. discriminate.
Qed.

(* the result depends only on the SET of strings: any order of arrival, any multiplicity *)
Theorem sort_dedup_set_invariant : forall l l', (forall y, In y l <-> In y l') -> sort_dedup_str l = sort_dedup_str l'.
Proof.
  intros l l' E. destruct (sort_dedup_spec l) as [A B]. destruct (sort_dedup_spec l') as [A' B'].
  apply ssorted_unique; try assumption. intros y. rewrite B, B'. apply E.
Qed.

Theorem sort_dedup_permutation : forall l l', Permutation l l' -> sort_dedup_str l = sort_dedup_str l'.
Proof.
  intros l l' P. apply sort_dedup_set_invariant. intros y. split; intros H.
  - eapply Permutation_in; eassumption.
  - eapply Permutation_in; [apply Permutation_sym; exact P|exact H].
Qed.

Theorem sort_dedup_nodup : forall l, NoDup (sort_dedup_str l).
Proof.
  intros l. destruct (sort_dedup_spec l) as [A _]. induction A as [| |x y r Hxy Hs IH]; [constructor|constructor; [intros []|constructor]|].
  constructor; [|exact IH]. intros [->|Hin].
  - rewrite sltb_irrefl in Hxy. discriminate.
  - pose proof (ssorted_head_lt y r Hs x Hin) as B. rewrite (sltb_asym _ _ Hxy) in B. discriminate.
Qed.
