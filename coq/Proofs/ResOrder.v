(* The residue order (model, chain, number, insertion code) used by every sort of the annotation is a strict total order on
   residue identities: lexicographic combination of strict total orders. *)
From Coq Require Import String Ascii ZArith List Bool Arith Lia.
From RV Require Import Base.Val Base.PyStr Gen.Common Model.Geom Model.AllDb Model.Annot Proofs.SortStr.
Import ListNotations.

Record strict_total {A : Type} (lt : A -> A -> bool) : Prop := {
  st_irrefl : forall a, lt a a = false;
  st_trans : forall a b c, lt a b = true -> lt b c = true -> lt a c = true;
  st_total : forall a b, lt a b = false -> lt b a = false -> a = b }.

Lemma st_asym : forall A (lt : A -> A -> bool), strict_total lt -> forall a b, lt a b = true -> lt b a = false.
Proof.
  intros A lt S a b H. destruct (lt b a) eqn:E; [|reflexivity]. pose proof (st_trans lt S a b a H E) as T. rewrite (st_irrefl lt S) in T. discriminate.
Qed.

(* negative transitivity: "not below" is transitive *)
Lemma st_negtrans : forall A (lt : A -> A -> bool), strict_total lt -> forall a b c, lt a b = false -> lt b c = false -> lt a c = false.
Proof.
  intros A lt S a b c H1 H2. destruct (lt a c) eqn:E; [|reflexivity]. exfalso.
  destruct (lt b a) eqn:E2.
  - rewrite (st_trans lt S b a c E2 E) in H2. discriminate.
  - pose proof (st_total lt S a b H1 E2). subst b. congruence.
Qed.

Definition lex {A B : Type} (lt1 : A -> A -> bool) (lt2 : B -> B -> bool) (x y : A * B) : bool :=
  if lt1 (fst x) (fst y) then true else if lt1 (fst y) (fst x) then false else lt2 (snd x) (snd y).

Lemma lex_strict_total : forall A B (lt1 : A -> A -> bool) (lt2 : B -> B -> bool),
    strict_total lt1 -> strict_total lt2 -> strict_total (lex lt1 lt2).
Proof.
  intros A B lt1 lt2 S1 S2. split.
  - intros [a b]. unfold lex. cbn. rewrite (st_irrefl lt1 S1). apply (st_irrefl lt2 S2).
  - intros [a1 a2] [b1 b2] [c1 c2]. unfold lex. cbn [fst snd]. intros H1 H2.
    destruct (lt1 a1 b1) eqn:Eab.
    + destruct (lt1 b1 c1) eqn:Ebc.
      * rewrite (st_trans lt1 S1 _ _ _ Eab Ebc). reflexivity.
      * destruct (lt1 c1 b1) eqn:Ecb; [discriminate|]. pose proof (st_total lt1 S1 _ _ Ebc Ecb). subst c1. rewrite Eab. reflexivity.
    + destruct (lt1 b1 a1) eqn:Eba; [discriminate|]. pose proof (st_total lt1 S1 _ _ Eab Eba). subst b1.
      destruct (lt1 a1 c1) eqn:Eac; [reflexivity|]. destruct (lt1 c1 a1) eqn:Eca; [discriminate|].
      exact (st_trans lt2 S2 _ _ _ H1 H2).
  - intros [a1 a2] [b1 b2]. unfold lex. cbn [fst snd]. intros H1 H2.
    destruct (lt1 a1 b1) eqn:Eab; [discriminate|]. destruct (lt1 b1 a1) eqn:Eba; [discriminate|].
    pose proof (st_total lt1 S1 _ _ Eab Eba). subst b1. rewrite (st_total lt2 S2 _ _ H1 H2). reflexivity.
Qed.

Lemma Zltb_strict_total : strict_total Z.ltb.
Proof. split; intros; lia. Qed.

Lemma str_ltb_strict_total : strict_total str_ltb.
Proof.
  split.
  - apply sltb_irrefl.
  - apply sltb_trans.
  - intros a b H1 H2. destruct (sltb_trichotomy a b) as [T|[T|T]]; [congruence|exact T|congruence].
Qed.

Definition res_key (r : res3) : Z * (str * (Z * str)) := (r_model r, (r_chain r, (r_number r, icode_or_space r))).
Definition key_ltb := lex Z.ltb (lex str_ltb (lex Z.ltb str_ltb)).

Lemma res_ltb_key : forall a b, res_ltb a b = key_ltb (res_key a) (res_key b).
Proof. intros a b. reflexivity. Qed.

Lemma key_ltb_strict_total : strict_total key_ltb.
Proof.
  apply lex_strict_total; [apply Zltb_strict_total|]. apply lex_strict_total; [apply str_ltb_strict_total|].
  apply lex_strict_total; [apply Zltb_strict_total|apply str_ltb_strict_total].
Qed.

Theorem res_ltb_order :
  (forall a, res_ltb a a = false) /\
  (forall a b c, res_ltb a b = true -> res_ltb b c = true -> res_ltb a c = true) /\
  (forall a b, res_ltb a b = false -> res_ltb b a = false -> res_key a = res_key b) /\
  (forall a b c, res_ltb a b = false -> res_ltb b c = false -> res_ltb a c = false).
Proof.
  pose proof key_ltb_strict_total as S. repeat split.
  - intros a. rewrite res_ltb_key. apply (st_irrefl _ S).
  - intros a b c. rewrite !res_ltb_key. apply (st_trans _ S).
  - intros a b. rewrite !res_ltb_key. apply (st_total _ S).
  - intros a b c. rewrite !res_ltb_key. apply (st_negtrans _ _ S).
Qed.
