(* C09: the PDB atom line — 80 columns, and reading a written line gives back every field. *)
From Coq Require Import String Ascii ZArith NArith List Bool Arith Lia.
From RV Require Import Base.Val Base.PyStr Gen.ParserV2 Model.PdbLine Proofs.NumStr.
Import ListNotations.

(* ---------------------------------------------------------------- strip *)
Definition cleanb (s : str) : bool :=
  match s with [] => true | c :: _ => negb (is_space_char c) && negb (is_space_char (last s c)) end.

Lemma lstrip_spaces : forall k s, lstrip (repeat space k ++ s) = lstrip s.
Proof. induction k as [|k IH]; intros s; [reflexivity|]. cbn [repeat app lstrip]. change (is_space_char space) with true. cbv iota. apply IH. Qed.

Lemma lstrip_all_spaces : forall k, lstrip (repeat space k) = [].
Proof. intros k. rewrite <- (app_nil_r (repeat space k)), lstrip_spaces. reflexivity. Qed.

Lemma rev_repeat : forall (A : Type) (x : A) k, rev (repeat x k) = repeat x k.
Proof.
  intros A x. induction k as [|k IH]; [reflexivity|]. cbn [repeat rev]. rewrite IH. clear IH.
  induction k as [|k IH]; [reflexivity|]. cbn [repeat app]. f_equal. exact IH.
Qed.

Lemma last_rev_head : forall (s : str) c d, rev (c :: s) = last (c :: s) d :: rev (removelast (c :: s)).
Proof.
  intros s c d. rewrite (app_removelast_last d (l := c :: s)) at 1 by discriminate. rewrite rev_app_distr. reflexivity.
Qed.

Theorem strip_padded : forall j k s, cleanb s = true -> strip (repeat space j ++ s ++ repeat space k) = s.
Proof.
  intros j k s H. unfold strip. rewrite lstrip_spaces. destruct s as [|c s].
  - cbn [app]. rewrite lstrip_all_spaces. reflexivity.
  - cbn [cleanb] in H. apply andb_true_iff in H. destruct H as [H1 H2]. apply negb_true_iff in H1, H2.
    change ((c :: s) ++ repeat space k) with (c :: (s ++ repeat space k)). cbn [lstrip]. rewrite H1.
    change (c :: s ++ repeat space k) with ((c :: s) ++ repeat space k). rewrite rev_app_distr, rev_repeat, lstrip_spaces.
    rewrite (last_rev_head s c c). cbn [lstrip]. rewrite H2. rewrite <- (last_rev_head s c c). apply rev_involutive.
Qed.

Corollary strip_rjust : forall w s, cleanb s = true -> strip (rjust w s) = s.
Proof. intros w s H. unfold rjust. rewrite <- (app_nil_r s) at 2. apply (strip_padded _ 0 s H). Qed.
Corollary strip_ljust : forall w s, cleanb s = true -> strip (ljust w s) = s.
Proof. intros w s H. unfold ljust. apply (strip_padded 0 _ s H). Qed.
Corollary strip_clean : forall s, cleanb s = true -> strip s = s.
Proof. intros s H. rewrite <- (app_nil_r s) at 1. apply (strip_padded 0 0 s H). Qed.

Lemma ljust_length : forall w s, length s <= w -> length (ljust w s) = w.
Proof. intros w s H. unfold ljust. rewrite app_length, repeat_length. lia. Qed.
Lemma rjust_length : forall w s, length s <= w -> length (rjust w s) = w.
Proof. intros w s H. unfold rjust. rewrite app_length, repeat_length. lia. Qed.

(* ---------------------------------------------------------------- a field of a concatenation *)
Definition sum (l : list nat) : nat := fold_right Nat.add 0 l.

Lemma substr_concat : forall (fs : list str) (ws : list nat) k, Forall2 (fun f w => length f = w) fs ws -> k < length fs ->
    substr (concat fs) (sum (firstn k ws)) (sum (firstn (Datatypes.S k) ws)) = nth k fs [].
Proof.
  intros fs ws k F. revert k. induction F as [|f w fs ws Hf _ IH]; intros k Hk; [cbn in Hk; lia|].
  destruct k as [|k].
  - cbn [firstn sum fold_right concat nth]. unfold substr. rewrite Nat.add_0_r, Nat.sub_0_r. cbn [skipn].
    rewrite firstn_app, <- Hf, firstn_all, Nat.sub_diag. cbn [firstn]. apply app_nil_r.
  - cbn [concat nth]. cbn [length] in Hk. rewrite <- (IH k) by lia.
    change (sum (firstn (Datatypes.S k) (w :: ws))) with (w + sum (firstn k ws)).
    change (sum (firstn (Datatypes.S (Datatypes.S k)) (w :: ws))) with (w + sum (firstn (Datatypes.S k) ws)).
    unfold substr. replace (w + sum (firstn (Datatypes.S k) ws) - (w + sum (firstn k ws))) with (sum (firstn (Datatypes.S k) ws) - sum (firstn k ws)) by lia.
    f_equal. rewrite skipn_app, <- Hf. rewrite (skipn_all2 f) by lia. cbn [app]. f_equal. lia.
Qed.

(* ---------------------------------------------------------------- the line *)
Definition widths : list nat := [6; 5; 1; 4; 1; 3; 1; 1; 4; 1; 3; 8; 8; 8; 6; 6; 10; 2; 2].

Definition fields (a : atom_rec) : list str :=
  [ljust 6 (ar_type a); rjust 5 (z_str (ar_serial a)); [space]; fmt_name (ar_name a);
   ljust 1 (firstn 1 (ar_alt a)); rjust 3 (ar_resname a); [space]; ljust 1 (firstn 1 (ar_chain a));
   rjust 4 (z_str (ar_resseq a)); ljust 1 (firstn 1 (ar_icode a)); repeat space 3;
   fmt_fixed 8 3 (ar_x a); fmt_fixed 8 3 (ar_y a); fmt_fixed 8 3 (ar_z a);
   fmt_fixed 6 2 (ar_occ a); fmt_fixed 6 2 (ar_b a); repeat space 10;
   rjust 2 (ar_element a); fmt_charge (ar_charge a)].

Lemma format_line_fields : forall a, format_line a = ljust 80 (concat (fields a)).
Proof. intros a. unfold format_line, fields. cbn [concat]. rewrite app_nil_r. reflexivity. Qed.

Definition textok (w : nat) (s : str) : bool := cleanb s && (length s <=? w).
Definition fixedok (w d : nat) (v : Z) : bool := length (fixed_body d v) <=? w.
Definition chargeok (c : str) : bool :=
  match c with [] => true | _ => cleanb c && (length c <=? 2) && match charge_int c with None => true | Some _ => false end end.

Definition fits (a : atom_rec) : bool :=
  textok 6 (ar_type a) && (length (z_str (ar_serial a)) <=? 5) && textok 4 (ar_name a) && textok 1 (ar_alt a) &&
  textok 3 (ar_resname a) && textok 1 (ar_chain a) && (length (z_str (ar_resseq a)) <=? 4) && textok 1 (ar_icode a) &&
  fixedok 8 3 (ar_x a) && fixedok 8 3 (ar_y a) && fixedok 8 3 (ar_z a) && fixedok 6 2 (ar_occ a) && fixedok 6 2 (ar_b a) &&
  textok 2 (ar_element a) && chargeok (ar_charge a).

Lemma fmt_fixed_body : forall w d v, fmt_fixed w d v = rjust w (fixed_body d v).
Proof. reflexivity. Qed.

Lemma fmt_name_spec : forall n, textok 4 n = true -> length (fmt_name n) = 4 /\ strip (fmt_name n) = n.
Proof.
  intros n H. unfold textok in H. apply andb_true_iff in H. destruct H as [C L]. apply Nat.leb_le in L. unfold fmt_name.
  destruct ((length n <? 4) && match n with c :: _ => is_alpha_char c | [] => false end) eqn:E.
  - apply andb_true_iff in E. destruct E as [E _]. apply Nat.ltb_lt in E. split.
    + apply ljust_length. cbn [length]. lia.
    + unfold ljust. change (space :: n) with (repeat space 1 ++ n). rewrite <- app_assoc. apply strip_padded. exact C.
  - split; [apply ljust_length; exact L|apply strip_ljust; exact C].
Qed.

Lemma firstn_short : forall (A : Type) k (l : list A), length l <= k -> firstn k l = l.
Proof. intros A k l H. apply firstn_all2. exact H. Qed.

Lemma fmt_charge_spec : forall c, chargeok c = true -> length (fmt_charge c) = 2 /\ strip (fmt_charge c) = c.
Proof.
  intros c H. unfold chargeok in H. unfold fmt_charge. destruct c as [|x c]; [split; reflexivity|].
  apply andb_true_iff in H. destruct H as [H N]. apply andb_true_iff in H. destruct H as [C L]. apply Nat.leb_le in L.
  destruct (charge_int (x :: c)); [discriminate|]. rewrite (strip_clean _ C), (firstn_short _ 2 _ L).
  split; [apply rjust_length; exact L|apply strip_rjust; exact C].
Qed.

Lemma last_indep : forall (A : Type) (l : list A) d d', l <> [] -> last l d = last l d'.
Proof. intros A. induction l as [|x l IH]; intros d d' H; [contradiction|]. destruct l as [|y l]; [reflexivity|]. cbn [last]. apply IH. discriminate. Qed.

Lemma fixed_clean : forall d v, cleanb (fixed_body d v) = true.
Proof.
  intros d v. unfold fixed_body. destruct (n_str_digits (Z.abs_N v / pow10 d)) as [Di NEi].
  assert (Hlast : forall pre, is_space_char (last (pre ++ n_str (Z.abs_N v / pow10 d) ++ ["."%char] ++ pad0 d (n_str (Z.abs_N v mod pow10 d))) "."%char) = false).
  { intros pre. rewrite !app_assoc. destruct (n_str_digits (Z.abs_N v mod pow10 d)) as [Df NEf]. unfold pad0.
    rewrite app_assoc. destruct (exists_last NEf) as (t & x & S). rewrite S in Df |- *.
    rewrite app_assoc, last_last. rewrite forallb_app in Df. apply andb_true_iff in Df. destruct Df as [_ Df]. cbn [forallb] in Df. rewrite andb_true_r in Df.
    apply (digit_not_sign x Df). }
  destruct (v <? 0)%Z.
  - cbn [app cleanb]. change (is_space_char "-") with false. cbn [negb andb].
    specialize (Hlast ["-"%char]). cbn [app] in Hlast.
    rewrite (last_indep _ _ "."%char "-"%char) in Hlast by discriminate. rewrite Hlast. reflexivity.
  - cbn [app]. destruct (n_str (Z.abs_N v / pow10 d)) as [|c r] eqn:S; [contradiction|]. cbn [app cleanb].
    cbn [forallb] in Di. apply andb_true_iff in Di. destruct Di as [Dc _]. destruct (digit_not_sign c Dc) as (_ & _ & _ & Sp). rewrite Sp. cbn [negb andb].
    specialize (Hlast []). cbn [app] in Hlast.
    rewrite (last_indep _ _ "."%char c) in Hlast by discriminate. rewrite Hlast. reflexivity.
Qed.

Lemma z_str_clean : forall v, cleanb (z_str v) = true.
Proof.
  intros v. unfold z_str. destruct (n_str_digits (Z.abs_N v)) as [D NE].
  assert (Hlast : forall pre d0, is_space_char (last (pre ++ n_str (Z.abs_N v)) d0) = false).
  { intros pre d0. destruct (exists_last NE) as (t & x & S). rewrite S in D |- *.
    rewrite app_assoc, last_last. rewrite forallb_app in D. apply andb_true_iff in D. destruct D as [_ D]. cbn [forallb] in D. rewrite andb_true_r in D.
    apply (digit_not_sign x D). }
  destruct (v <? 0)%Z.
  - cbn [app cleanb]. change (is_space_char "-") with false. cbn [negb andb]. specialize (Hlast ["-"%char] "-"%char). cbn [app] in Hlast. rewrite Hlast. reflexivity.
  - cbn [app]. destruct (n_str (Z.abs_N v)) as [|c r] eqn:S; [contradiction|]. cbn [cleanb].
    cbn [forallb] in D. apply andb_true_iff in D. destruct D as [Dc _]. destruct (digit_not_sign c Dc) as (_ & _ & _ & Sp). rewrite Sp. cbn [negb andb].
    specialize (Hlast [] c). cbn [app] in Hlast. rewrite Hlast. reflexivity.
Qed.

(* every field has its width *)
Lemma fields_widths : forall a, fits a = true -> Forall2 (fun f w => length f = w) (fields a) widths.
Proof.
  intros a H. unfold fits in H. repeat (apply andb_true_iff in H; destruct H as [H ?]).
  unfold textok, fixedok in *.
  repeat match goal with Hx : (_ && _) = true |- _ => apply andb_true_iff in Hx; destruct Hx end.
  repeat match goal with Hx : (_ <=? _) = true |- _ => apply Nat.leb_le in Hx end.
  unfold fields, widths.
  repeat constructor; try reflexivity;
    try (apply ljust_length; assumption); try (apply rjust_length; assumption);
    try (apply ljust_length; rewrite firstn_length; lia);
    try (rewrite fmt_fixed_body; apply rjust_length; assumption).
  - apply fmt_name_spec. unfold textok. apply andb_true_iff. split; [assumption|apply Nat.leb_le; assumption].
  - apply fmt_charge_spec. assumption.
Qed.

Theorem line_80 : forall a, fits a = true -> length (format_line a) = 80 /\ format_line a = concat (fields a).
Proof.
  intros a H. pose proof (fields_widths a H) as F.
  assert (L : length (concat (fields a)) = 80).
  { assert (G : forall fs ws, Forall2 (fun (f : str) w => length f = w) fs ws -> length (concat fs) = sum ws).
    { intros fs ws F0. induction F0 as [|f w fs ws Hf _ IH]; [reflexivity|]. cbn [concat sum fold_right]. rewrite app_length, Hf. f_equal. exact IH. }
    rewrite (G _ _ F). reflexivity. }
  rewrite format_line_fields. unfold ljust. rewrite L. cbn [Nat.sub repeat]. rewrite app_nil_r. split; [exact L|reflexivity].
Qed.

Lemma field_at : forall a k, fits a = true -> k < 19 ->
    substr (format_line a) (sum (firstn k widths)) (sum (firstn (Datatypes.S k) widths)) = nth k (fields a) [].
Proof.
  intros a k H Hk. destruct (line_80 a H) as [_ E]. rewrite E. apply substr_concat; [apply fields_widths; exact H|exact Hk].
Qed.

Lemma field_at' : forall a k lo hi, fits a = true -> k < 19 -> lo = sum (firstn k widths) -> hi = sum (firstn (Datatypes.S k) widths) ->
    substr (format_line a) lo hi = nth k (fields a) [].
Proof. intros a k lo hi H Hk -> ->. apply field_at; assumption. Qed.

Definition expected (m : Z) (a : atom_rec) : parsed_rec :=
  {| p_type := ar_type a; p_serial := Some (ar_serial a); p_name := ar_name a; p_alt := ar_alt a; p_resname := ar_resname a;
     p_chain := ar_chain a; p_resseq := Some (ar_resseq a); p_icode := ar_icode a;
     p_x := Some (ar_x a); p_y := Some (ar_y a); p_z := Some (ar_z a); p_occ := Some (ar_occ a); p_b := Some (ar_b a);
     p_element := ar_element a; p_charge := ar_charge a; p_model := m |}.

Theorem line_roundtrip : forall m a, fits a = true -> parse_atom_line m (format_line a) = expected m a.
Proof.
  intros m a H. pose proof H as H0. unfold fits in H0. repeat (apply andb_true_iff in H0; destruct H0 as [H0 ?]).
  unfold textok in *.
  repeat match goal with Hx : (_ && _) = true |- _ => apply andb_true_iff in Hx; destruct Hx end.
  repeat match goal with Hx : (_ <=? _) = true |- _ => apply Nat.leb_le in Hx end.
  unfold parse_atom_line, expected, col.
  change (find (fun kv => String.eqb (fst kv) "record_type") pdb_slices) with (Some ("record_type"%string, (0, 6))).
  change (find (fun kv => String.eqb (fst kv) "serial") pdb_slices) with (Some ("serial"%string, (6, 11))).
  change (find (fun kv => String.eqb (fst kv) "name") pdb_slices) with (Some ("name"%string, (12, 16))).
  change (find (fun kv => String.eqb (fst kv) "altLoc") pdb_slices) with (Some ("altLoc"%string, (16, 17))).
  change (find (fun kv => String.eqb (fst kv) "resName") pdb_slices) with (Some ("resName"%string, (17, 20))).
  change (find (fun kv => String.eqb (fst kv) "chainID") pdb_slices) with (Some ("chainID"%string, (21, 22))).
  change (find (fun kv => String.eqb (fst kv) "resSeq") pdb_slices) with (Some ("resSeq"%string, (22, 26))).
  change (find (fun kv => String.eqb (fst kv) "iCode") pdb_slices) with (Some ("iCode"%string, (26, 27))).
  change (find (fun kv => String.eqb (fst kv) "x") pdb_slices) with (Some ("x"%string, (30, 38))).
  change (find (fun kv => String.eqb (fst kv) "y") pdb_slices) with (Some ("y"%string, (38, 46))).
  change (find (fun kv => String.eqb (fst kv) "z") pdb_slices) with (Some ("z"%string, (46, 54))).
  change (find (fun kv => String.eqb (fst kv) "occupancy") pdb_slices) with (Some ("occupancy"%string, (54, 60))).
  change (find (fun kv => String.eqb (fst kv) "tempFactor") pdb_slices) with (Some ("tempFactor"%string, (60, 66))).
  change (find (fun kv => String.eqb (fst kv) "element") pdb_slices) with (Some ("element"%string, (76, 78))).
  change (find (fun kv => String.eqb (fst kv) "charge") pdb_slices) with (Some ("charge"%string, (78, 80))).
  cbv iota beta.
  rewrite (field_at' a 0 0 6 H), (field_at' a 1 6 11 H), (field_at' a 3 12 16 H), (field_at' a 4 16 17 H), (field_at' a 5 17 20 H),
          (field_at' a 7 21 22 H), (field_at' a 8 22 26 H), (field_at' a 9 26 27 H), (field_at' a 11 30 38 H), (field_at' a 12 38 46 H),
          (field_at' a 13 46 54 H), (field_at' a 14 54 60 H), (field_at' a 15 60 66 H), (field_at' a 17 76 78 H), (field_at' a 18 78 80 H)
    by (first [lia | reflexivity]).
  cbn [nth fields].
  rewrite !fmt_fixed_body. rewrite !strip_rjust by (first [apply fixed_clean | apply z_str_clean | assumption]).
  rewrite !strip_ljust by (first [assumption | rewrite firstn_short by assumption; assumption]).
  rewrite !firstn_short by assumption.
  rewrite !parse_z_z_str, !parse_fixed_body by lia.
  destruct (fmt_name_spec (ar_name a)) as [_ ->]; [unfold textok; apply andb_true_iff; split; [assumption|apply Nat.leb_le; assumption]|].
  destruct (fmt_charge_spec (ar_charge a)) as [_ ->]; [assumption|].
  reflexivity.
Qed.

(* ---------------------------------------------------------------- whole files *)
Definition atom_type (t : str) : bool := str_eqb t (list_ascii_of_string "ATOM") || str_eqb t (list_ascii_of_string "HETATM").
Definition row_ok (a : atom_rec) : bool := fits a && atom_type (ar_type a) && (length (z_str (ar_model a)) <=? 4).

Lemma str_eqb_eq' : forall a b, str_eqb a b = true <-> a = b.
Proof.
  induction a as [|x a IH]; intros [|y b]; cbn; split; try discriminate; try reflexivity.
  - intros H. apply andb_true_iff in H. destruct H as [H1 H2]. apply Ascii.eqb_eq in H1. apply IH in H2. subst. reflexivity.
  - intros H. injection H as -> ->. rewrite Ascii.eqb_refl. apply IH. reflexivity.
Qed.

Lemma rt_col : forall line, col line "record_type" = strip (substr line 0 6).
Proof. reflexivity. Qed.

Lemma atom_line_type : forall a, fits a = true -> col (format_line a) "record_type" = ar_type a.
Proof.
  intros a H. rewrite rt_col, (field_at' a 0 0 6 H) by (first [lia|reflexivity]). cbn [nth fields].
  unfold fits in H. repeat (apply andb_true_iff in H; destruct H as [H ?]).
  apply strip_ljust. exact H.
Qed.

Lemma parse_atom_row : forall cur a rest, row_ok a = true ->
    parse_lines cur (format_line a :: rest) = expected cur a :: parse_lines cur rest.
Proof.
  intros cur a rest H. unfold row_ok in H. apply andb_true_iff in H. destruct H as [H _]. apply andb_true_iff in H. destruct H as [F T].
  cbn [parse_lines]. rewrite (atom_line_type a F).
  assert (NM : str_eqb (ar_type a) (list_ascii_of_string "MODEL") = false).
  { unfold atom_type in T. apply orb_true_iff in T. destruct T as [T|T]; apply str_eqb_eq' in T; rewrite T; reflexivity. }
  rewrite NM. unfold atom_type in T. rewrite T. rewrite (line_roundtrip cur a F). reflexivity.
Qed.

Lemma parse_skip : forall cur line rest,
    (let rt := col line "record_type" in
     str_eqb rt (list_ascii_of_string "MODEL") = false /\ str_eqb rt (list_ascii_of_string "ATOM") = false /\ str_eqb rt (list_ascii_of_string "HETATM") = false) ->
    parse_lines cur (line :: rest) = parse_lines cur rest.
Proof. intros cur line rest (A & B & C). cbn [parse_lines]. rewrite A, B, C. reflexivity. Qed.

Lemma ter_skipped : forall cur s rn ch rs ic rest, parse_lines cur (ter_line s rn ch rs ic :: rest) = parse_lines cur rest.
Proof.
  intros. apply parse_skip. cbv zeta. rewrite rt_col. unfold ter_line, ljust, substr. cbn [skipn Nat.sub].
  change (list_ascii_of_string "TER   ") with ["T"; "E"; "R"; " "; " "; " "]%char. cbn [app firstn]. repeat split; reflexivity.
Qed.

Lemma endmdl_skipped : forall cur rest, parse_lines cur (list_ascii_of_string "ENDMDL" :: rest) = parse_lines cur rest.
Proof. intros. apply parse_skip. repeat split; reflexivity. Qed.

Lemma end_parsed : forall cur, parse_lines cur [list_ascii_of_string "END"] = [].
Proof. reflexivity. Qed.

Lemma model_parsed : forall cur m rest, length (z_str m) <= 4 -> parse_lines cur (model_line m :: rest) = parse_lines m rest.
Proof.
  intros cur m rest H. cbn [parse_lines]. rewrite rt_col. unfold model_line.
  change (list_ascii_of_string "MODEL     ") with ["M"; "O"; "D"; "E"; "L"; " "; " "; " "; " "; " "]%char.
  unfold substr at 1. cbn [skipn Nat.sub app firstn].
  change (str_eqb (strip ["M"; "O"; "D"; "E"; "L"; " "]%char) (list_ascii_of_string "MODEL")) with true. cbv iota.
  match goal with |- context [col ?l "MODEL"] => change (col l "MODEL") with (strip (substr l 10 14)) end.
  unfold substr. cbn [skipn app Nat.sub]. rewrite firstn_all2 by (rewrite (rjust_length 4 (z_str m) H); lia).
  rewrite strip_rjust by apply z_str_clean. rewrite parse_z_z_str. reflexivity.
Qed.

Lemma close_chain_skipped : forall cur st rest, parse_lines cur (close_chain st ++ rest) = parse_lines cur rest.
Proof. intros cur st rest. unfold close_chain. destruct (w_chain st); [|reflexivity]. destruct (w_res st) as [[rs ic] rn]. cbn [app]. apply ter_skipped. Qed.

Lemma write_go_parsed : forall l st cur, (forall a, In a l -> row_ok a = true) -> (w_model st = None \/ w_model st = Some cur) ->
    parse_lines cur (write_go st l) = map (fun a => expected (ar_model a) a) l.
Proof.
  induction l as [|a l IH]; intros st cur Hok Hm.
  - cbn [write_go map]. rewrite close_chain_skipped. destruct (w_model st); [cbn [app]; rewrite endmdl_skipped|cbn [app]]; apply end_parsed.
  - cbn [write_go map]. cbv zeta.
    assert (Ha : row_ok a = true) by (apply Hok; left; reflexivity). pose proof Ha as Ha'. unfold row_ok in Ha'. apply andb_true_iff in Ha'. destruct Ha' as [_ Lm]. apply Nat.leb_le in Lm.
    set (new_model := match w_model st with Some m => negb (m =? ar_model a)%Z | None => true end).
    destruct new_model eqn:NM.
    + (* a new model: optional TER + ENDMDL, then MODEL *)
      assert (Pre : forall rest, parse_lines cur ((match w_model st with
                          | Some _ => (if ter_before_every_endmdl then close_chain st else []) ++ [list_ascii_of_string "ENDMDL"]
                          | None => [] end ++ [model_line (ar_model a)]) ++ rest) = parse_lines (ar_model a) rest).
      { intros rest. destruct (w_model st).
        - rewrite <- !app_assoc. destruct ter_before_every_endmdl; [rewrite close_chain_skipped|]; cbn [app]; rewrite endmdl_skipped; apply model_parsed; exact Lm.
        - cbn [app]. apply model_parsed. exact Lm. }
      rewrite Pre. cbn [w_chain app]. rewrite (parse_atom_row _ a _ Ha). f_equal. apply IH; [intros b Hb; apply Hok; right; exact Hb|right; reflexivity].
    + assert (Ecur : w_model st = Some (ar_model a)).
      { unfold new_model in NM. destruct (w_model st) as [m|]; [|discriminate]. apply negb_false_iff in NM. apply Z.eqb_eq in NM. subst. reflexivity. }
      assert (cur = ar_model a) by (destruct Hm as [Hm|Hm]; rewrite Hm in Ecur; [discriminate|injection Ecur as ->; reflexivity]). subst cur.
      cbn [app].
      assert (Ter : forall rest, parse_lines (ar_model a) (match w_chain st with Some ch => if str_eqb ch (ar_chain a) then [] else close_chain st | None => [] end ++ rest) = parse_lines (ar_model a) rest).
      { intros rest. destruct (w_chain st) as [ch|] eqn:Ech; [|reflexivity]. destruct (str_eqb ch (ar_chain a)); [reflexivity|apply close_chain_skipped]. }
      rewrite Ter. cbn [app]. rewrite (parse_atom_row _ a _ Ha). f_equal. apply IH; [intros b Hb; apply Hok; right; exact Hb|right; exact Ecur].
Qed.

Theorem file_roundtrip : forall l, (forall a, In a l -> row_ok a = true) ->
    parse_pdb (write_pdb l) = map (fun a => expected (ar_model a) a) l.
Proof.
  intros l H. unfold parse_pdb, write_pdb. destruct l as [|a l]; [reflexivity|]. apply write_go_parsed; [exact H|left; reflexivity].
Qed.

(* TER records are 80 columns wide too *)
Theorem ter_80 : forall s rn ch rs ic, length (z_str (s + 1)) <= 5 -> length (strip rn) <= 3 -> length ch <= 1 -> length (z_str rs) <= 4 -> length ic <= 1 ->
    length (ter_line s rn ch rs ic) = 80.
Proof.
  intros s rn ch rs ic H1 H2 H3 H4 H5. unfold ter_line. apply ljust_length.
  rewrite !app_length, (rjust_length 5 _ H1), (rjust_length 3 _ H2), (rjust_length 4 _ H4), repeat_length. cbn [length list_ascii_of_string]. lia.
Qed.
