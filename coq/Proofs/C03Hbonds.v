(* C03, first stage: every hydrogen bond the scan records is geometrically justified, joins two residues, and is recorded once. *)
From Coq Require Import String Ascii ZArith QArith List Bool Arith Lia Permutation.
From RV Require Import Base.Val Base.PyStr Gen.Common Gen.Annot Model.Geom Model.AllDb Model.Annot.
Import ListNotations.
Local Close Scope Q_scope.

Definition mk_hbond (ci cj : cand) : hbond := {| h_i := c_res ci; h_j := c_res cj; h_ni := c_name ci; h_nj := c_name cj |}.

(* what must hold of a recorded contact: it comes from a neighbour pair of candidate atoms, one donor and one acceptor, on two
   different residues, both with a base normal, and the donor-acceptor line is inside the angular window of both normals *)
Definition justified (rs : list res3) (cs : list cand) (order : list (nat * nat)) (h : hbond) : Prop :=
  exists ij ci cj ri rj ni nj,
    In ij order /\ nth_error cs (fst ij) = Some ci /\ nth_error cs (snd ij) = Some cj /\
    c_acceptor ci <> c_acceptor cj /\ c_res ci <> c_res cj /\
    nth_error rs (c_res ci) = Some ri /\ nth_error rs (c_res cj) = Some rj /\
    base_normal ri = Some ni /\ base_normal rj = Some nj /\
    in_window ni (vsubZ (c_pos ci) (c_pos cj)) = Yes /\ in_window nj (vsubZ (c_pos ci) (c_pos cj)) = Yes /\
    h = mk_hbond ci cj.

Definition same_hbond (a b : hbond) : bool :=
  ((h_i a =? h_i b) && (h_j a =? h_j b) && str_eqb (h_ni a) (h_ni b) && str_eqb (h_nj a) (h_nj b)) ||
  ((h_i a =? h_j b) && (h_j a =? h_i b) && str_eqb (h_ni a) (h_nj b) && str_eqb (h_nj a) (h_ni b)).

Lemma existsb_ext' : forall (A : Type) (f g : A -> bool) l, (forall x, f x = g x) -> existsb f l = existsb g l.
Proof. intros A f g l H. induction l as [|x l IH]; [reflexivity|]. cbn. rewrite H, IH. reflexivity. Qed.

Lemma tri_and_yes : forall a b, tri_and a b = Yes -> a = Yes /\ b = Yes.
Proof. intros [] []; cbn; intros H; try discriminate; split; reflexivity. Qed.

(* one step either leaves the list of contacts alone or appends one justified, new contact *)
Lemma step_pair_hbonds : forall rs cs st ij,
    hbonds (step_pair rs cs st ij) = hbonds st \/
    exists ci cj ri rj ni nj,
      nth_error cs (fst ij) = Some ci /\ nth_error cs (snd ij) = Some cj /\
      c_acceptor ci <> c_acceptor cj /\ c_res ci <> c_res cj /\
      nth_error rs (c_res ci) = Some ri /\ nth_error rs (c_res cj) = Some rj /\
      base_normal ri = Some ni /\ base_normal rj = Some nj /\
      in_window ni (vsubZ (c_pos ci) (c_pos cj)) = Yes /\ in_window nj (vsubZ (c_pos ci) (c_pos cj)) = Yes /\
      (hbond_dedup = true -> existsb (fun h => same_hbond h (mk_hbond ci cj)) (hbonds st) = false) /\
      hbonds (step_pair rs cs st ij) = hbonds st ++ [mk_hbond ci cj].
Proof.
  intros rs cs st ij. unfold step_pair.
  destruct (nth_error cs (fst ij)) as [ci|] eqn:Ci; [|left; reflexivity].
  destruct (nth_error cs (snd ij)) as [cj|] eqn:Cj; [|left; reflexivity].
  destruct (Bool.eqb (c_acceptor ci) (c_acceptor cj)) eqn:Acc; [left; reflexivity|].
  destruct (c_res ci =? c_res cj) eqn:Res; [left; reflexivity|].
  destruct (nth_error rs (c_res ci)) as [ri|] eqn:Ri; [|left; reflexivity].
  destruct (nth_error rs (c_res cj)) as [rj|] eqn:Rj; [|left; reflexivity].
  destruct (c_acceptor ci) eqn:Ai.
  - cbv zeta.
    destruct ((in_names phosphate_acceptors (c_name ci) || in_names phosphate_acceptors (c_name cj)) && negb (is_used (used st) ci) && negb (is_used (used st) cj)).
    { left. destruct (bph_class rj (c_name cj) (c_pos cj) (c_pos ci)) as [[k d]|]; reflexivity. }
    destruct ((in_names ribose_acceptors (c_name ci) || in_names ribose_acceptors (c_name cj)) && negb (is_used (used st) ci) && negb (is_used (used st) cj)).
    { left. destruct (bph_class rj (c_name cj) (c_pos cj) (c_pos ci)) as [[k d]|]; reflexivity. }
    destruct (base_normal ri) as [ni|] eqn:Ni; [|left; reflexivity]. destruct (base_normal rj) as [nj|] eqn:Nj; [|left; reflexivity].
    destruct (tri_and (in_window ni (vsubZ (c_pos ci) (c_pos cj))) (in_window nj (vsubZ (c_pos ci) (c_pos cj)))) eqn:W; [|left; reflexivity|left; reflexivity].
    apply tri_and_yes in W. destruct W as [W1 W2].
    match goal with |- context [existsb ?f (hbonds st)] => destruct (existsb f (hbonds st)) eqn:Ex end.
    + destruct hbond_dedup eqn:Dd; cbn [andb]; [left; reflexivity|].
      right. exists ci, cj, ri, rj, ni, nj. rewrite Ai. repeat split; try assumption; try reflexivity.
      * intros E. rewrite <- E in Acc. discriminate.
      * apply Nat.eqb_neq. exact Res.
      * intros Hd. discriminate.
    + rewrite andb_false_r. right. exists ci, cj, ri, rj, ni, nj. rewrite Ai. repeat split; try assumption; try reflexivity.
      * intros E. rewrite <- E in Acc. discriminate.
      * apply Nat.eqb_neq. exact Res.
      * intros _. rewrite <- Ex. apply existsb_ext'. intros h. unfold same_hbond, mk_hbond. cbn [h_i h_j h_ni h_nj]. reflexivity.
  - cbv zeta.
    destruct ((in_names phosphate_acceptors (c_name ci) || in_names phosphate_acceptors (c_name cj)) && negb (is_used (used st) ci) && negb (is_used (used st) cj)).
    { left. destruct (bph_class ri (c_name ci) (c_pos ci) (c_pos cj)) as [[k d]|]; reflexivity. }
    destruct ((in_names ribose_acceptors (c_name ci) || in_names ribose_acceptors (c_name cj)) && negb (is_used (used st) ci) && negb (is_used (used st) cj)).
    { left. destruct (bph_class ri (c_name ci) (c_pos ci) (c_pos cj)) as [[k d]|]; reflexivity. }
    destruct (base_normal ri) as [ni|] eqn:Ni; [|left; reflexivity]. destruct (base_normal rj) as [nj|] eqn:Nj; [|left; reflexivity].
    destruct (tri_and (in_window ni (vsubZ (c_pos ci) (c_pos cj))) (in_window nj (vsubZ (c_pos ci) (c_pos cj)))) eqn:W; [|left; reflexivity|left; reflexivity].
    apply tri_and_yes in W. destruct W as [W1 W2].
    match goal with |- context [existsb ?f (hbonds st)] => destruct (existsb f (hbonds st)) eqn:Ex end.
    + destruct hbond_dedup eqn:Dd; cbn [andb]; [left; reflexivity|].
      right. exists ci, cj, ri, rj, ni, nj. rewrite Ai. repeat split; try assumption; try reflexivity.
      * intros E. rewrite <- E in Acc. discriminate.
      * apply Nat.eqb_neq. exact Res.
      * intros Hd. discriminate.
    + rewrite andb_false_r. right. exists ci, cj, ri, rj, ni, nj. rewrite Ai. repeat split; try assumption; try reflexivity.
      * intros E. rewrite <- E in Acc. discriminate.
      * apply Nat.eqb_neq. exact Res.
      * intros _. rewrite <- Ex. apply existsb_ext'. intros h. unfold same_hbond, mk_hbond. cbn [h_i h_j h_ni h_nj]. reflexivity.
Qed.
