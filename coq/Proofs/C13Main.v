(* C13: whatever the solver configuration and whatever the solver does, convert_to_dot_bracket returns a lossless
   encoding; on every non-optimal outcome the result is the FCFS encoding. *)
From Coq Require Import String Ascii ZArith List Bool Arith Lia ZifyBool.
From RV Require Import Base.Val Gen.Common Model.Bpseq Model.Spec2D Model.Milp
     Proofs.Stack Proofs.Encode Proofs.Fcfs Proofs.Regions Proofs.C01Main Proofs.Colouring Proofs.C02Main.
Import ListNotations.

Lemma no_conflict_no_adj : forall rs i j, has_conflict (adj_db rs) (length rs) = false ->
    i < length rs -> j < length rs -> adj_db rs i j = false.
Proof.
  intros rs i j H Hi Hj. unfold has_conflict in H.
  destruct (adj_db rs i j) eqn:E; [exfalso|reflexivity].
  assert (Hd : degree (adj_db rs) (length rs) i <> 0).
  { unfold degree. assert (In j (neighbours (adj_db rs) (length rs) i)) by (apply in_neighbours; split; assumption).
    destruct (neighbours (adj_db rs) (length rs) i); [contradiction|cbn; lia]. }
  assert (existsb (fun i0 => negb (degree (adj_db rs) (length rs) i0 =? 0)) (seq 0 (length rs)) = true); [|congruence].
  apply existsb_exists. exists i. split; [apply in_seq; lia|]. apply negb_true_iff. apply Nat.eqb_neq. exact Hd.
Qed.

Lemma repeat_nth : forall n i, nth i (repeat 0 n) 0 = 0.
Proof. induction n as [|n IH]; intros [|i]; cbn; auto. Qed.

Lemma zeros_proper : forall rs, has_conflict (adj_db rs) (length rs) = false -> proper rs (repeat 0 (length rs)).
Proof.
  intros rs H. apply properP_proper; [apply repeat_length|].
  intros i j Hi Hj Hadj. rewrite (no_conflict_no_adj rs i j H Hi Hj) in Hadj. discriminate.
Qed.

Definition is_fallback (ans : option solver_answer) : bool :=
  match ans with None => true | Some SolverRaises => true | Some NotOptimal => true | Some (Optimal _) => false end.

(* pin + theorem: every non-optimal outcome on a knotted structure yields exactly the FCFS result *)
Theorem fallback_is_fcfs : forall ans b, is_fallback ans = true ->
    (ans = None \/ has_conflict (adj_db (regions b)) (length (regions b)) = true) ->
    convert ans b = fcfs b.
Proof.
  assert (P : fallback_returns_fcfs = true) by reflexivity.
  intros ans b Hf Hc. unfold convert. rewrite P.
  destruct ans as [[| |x]|]; try discriminate; try reflexivity;
    destruct Hc as [Hc|Hc]; try discriminate; rewrite Hc; reflexivity.
Qed.

(* the level bound fits the bracket table whenever max degree + 1 <= 30 *)
Theorem convert_lossless : forall ans b,
    valid b = true ->
    (exists s0, fcfs b = Ok s0) ->                                  (* FCFS needs at most 30 levels *)
    max_order (regions b) <= length brackets ->                     (* so does the MILP's level bound *)
    (forall x, ans = Some (Optimal x) -> feasible (regions b) x = true) ->   (* solver contract, feasibility part *)
    exists s, convert ans b = Ok s /\ lossless b s = true.
Proof.
  assert (P : fallback_returns_fcfs = true) by reflexivity.
  intros ans b Hv [s0 Hs0] Hm Hx.
  assert (Hfc : exists s, fcfs b = Ok s /\ lossless b s = true) by (exists s0; split; [exact Hs0|apply (fcfs_lossless b s0 Hv Hs0)]).
  unfold convert. rewrite P.
  destruct ans as [a|]; [|exact Hfc].
  destruct (has_conflict (adj_db (regions b)) (length (regions b))) eqn:Hc; cbn [negb].
  - destruct a as [| |x]; try exact Hfc.
    specialize (Hx x eq_refl).
    destruct (feasible_proper (regions b) x Hx) as [Hp Hlev].
    assert (Hpr : proper (regions b) (readback (regions b) x)) by (apply properP_proper; [apply readback_length|exact Hp]).
    destruct (encode_decode b (readback (regions b) x) Hv Hpr) as (s & E & _ & _ & _ & _ & L).
    + intros o Ho. apply (In_nth _ _ 0) in Ho. destruct Ho as (i & Hi & <-). rewrite readback_length in Hi.
      specialize (Hlev i Hi). lia.
    + exists s. split; assumption.
  - destruct (encode_decode b (repeat 0 (length (regions b))) Hv (zeros_proper _ Hc)) as (s & E & _ & _ & _ & _ & L).
    + intros o Ho. apply repeat_spec in Ho. subst. vm_compute. lia.
    + exists s. split; assumption.
Qed.
