(* FCFS produces a proper level assignment below the number of available levels, or refuses
   with StopIteration; it never produces an improper one. *)
From Coq Require Import String Ascii ZArith List Bool Arith Lia ZifyBool.
From RV Require Import Base.Val Gen.Common Model.Bpseq Proofs.Stack Proofs.Encode.
Import ListNotations.

Definition proper_in (l : list (region * nat)) : Prop :=
  forall r o r' o', In (r, o) l -> In (r', o') l -> crossing r r' -> o <> o'.

Lemma crossing_sym : forall r r', crossing r r' -> crossing r' r.
Proof. intros [[k l] a] [[m n] b]. unfold crossing. lia. Qed.

Lemma nth_error_combine : forall (A B : Type) (la : list A) (lb : list B) i a b,
    nth_error la i = Some a -> nth_error lb i = Some b -> nth_error (combine la lb) i = Some (a, b).
Proof.
  induction la as [|x la IH]; intros lb i a b Ha Hb; [destruct i; discriminate|].
  destruct lb as [|y lb]; [destruct i; discriminate|].
  destruct i as [|i]; cbn in *; [congruence|]. apply IH; assumption.
Qed.

Lemma proper_in_proper : forall rs ord, length ord = length rs -> proper_in (combine rs ord) -> proper rs ord.
Proof.
  intros rs ord Hlen H. split; [exact Hlen|].
  intros i i' r r' o o' Hi Hi' Ho Ho' Hc.
  apply (H r o r' o'); [| |exact Hc]; eapply nth_error_In; apply nth_error_combine; eassumption.
Qed.

Lemma first_free_spec : forall used levels o, first_free used levels = Some o -> o < levels /\ ~ In o used.
Proof.
  intros used levels o H. unfold first_free in H. apply find_some in H. destruct H as [Hin Hb].
  apply in_seq in Hin. split; [lia|]. intros Hu.
  apply negb_true_iff in Hb. assert (existsb (Nat.eqb o) used = true); [|congruence].
  apply existsb_exists. exists o. split; [exact Hu|apply Nat.eqb_refl].
Qed.

Lemma conflicts_with_fcfs : forall r q, conflicts_with conflict_fcfs r q = true <-> crossing r q.
Proof. intros [[k l] a] [[m n] b]. cbn [conflicts_with]. apply conflict_fcfs_spec. Qed.

Lemma fcfs_go_spec : forall rest done res,
    fcfs_go done rest = Ok res ->
    proper_in done -> (forall r o, In (r, o) done -> o < fcfs_levels) ->
    exists tl, res = rev (map snd done) ++ tl /\ length tl = length rest /\
               proper_in (rev done ++ combine rest tl) /\ Forall (fun o => o < fcfs_levels) tl.
Proof.
  induction rest as [|r rest IH]; intros done res H Hp Hl.
  - cbn [fcfs_go] in H. injection H as <-. exists []. rewrite !app_nil_r. repeat split; auto.
    intros a o a' o' Ha Ha'. apply Hp; apply in_rev; assumption.
  - cbn [fcfs_go] in H.
    destruct (first_free _ fcfs_levels) as [o|] eqn:E; [|discriminate].
    apply first_free_spec in E. destruct E as [Ho Hnot].
    destruct (IH ((r, o) :: done) res H) as (tl & Hres & Hlen & Hpi & Hall).
    + intros a oa a' oa' [Ha|Ha] [Ha'|Ha'] Hc.
      * injection Ha as <- <-. injection Ha' as <- <-. destruct r as [[k l] x]. cbn [crossing] in Hc. lia.
      * injection Ha as <- <-. intros ->. apply Hnot. apply in_map_iff. exists (a', oa'). split; [reflexivity|].
        apply filter_In. split; [exact Ha'|]. cbn [fst]. apply conflicts_with_fcfs. exact Hc.
      * injection Ha' as <- <-. intros <-. apply Hnot. apply in_map_iff. exists (a, oa). split; [reflexivity|].
        apply filter_In. split; [exact Ha|]. cbn [fst]. apply conflicts_with_fcfs. apply crossing_sym. exact Hc.
      * apply (Hp a oa a' oa'); assumption.
    + intros a oa [Ha|Ha]; [injection Ha as <- <-; exact Ho|eapply Hl; exact Ha].
    + exists (o :: tl). cbn [map rev snd] in Hres. rewrite <- app_assoc in Hres. cbn [app] in Hres.
      split; [exact Hres|]. split; [cbn [length]; lia|]. split.
      * cbn [rev] in Hpi. rewrite <- app_assoc in Hpi. exact Hpi.
      * constructor; assumption.
Qed.

Theorem fcfs_orders_proper : forall rs ord,
    fcfs_orders rs = Ok ord ->
    proper rs ord /\ Forall (fun o => o < fcfs_levels) ord.
Proof.
  intros [|r rs] ord H.
  - cbn in H. injection H as <-. split; [|constructor]. apply proper_in_proper; [reflexivity|].
    intros ? ? ? ? [].
  - cbn [fcfs_orders] in H.
    assert (L0 : 0 < fcfs_levels) by (vm_compute; lia).
    destruct (fcfs_go_spec rs [(r, 0)] ord H) as (tl & Hres & Hlen & Hpi & Hall).
    + intros a oa a' oa' [Ha|[]] [Ha'|[]] Hc. injection Ha as <- <-. injection Ha' as <- <-.
      destruct r as [[k l] x]. cbn [crossing] in Hc. lia.
    + intros a oa [Ha|[]]. injection Ha as <- <-. exact L0.
    + cbn in Hres. subst ord. split.
      * apply proper_in_proper; [cbn [length]; lia|]. exact Hpi.
      * constructor; assumption.
Qed.

Theorem fcfs_orders_only_stops : forall rs e, fcfs_orders rs = Raise e -> e = StopIteration.
Proof.
  assert (G : forall rest done e, fcfs_go done rest = Raise e -> e = StopIteration).
  { induction rest as [|r rest IH]; intros done e H; cbn [fcfs_go] in H; [discriminate|].
    destruct (first_free _ fcfs_levels); [eapply IH; exact H|congruence]. }
  intros [|r rs] e H; cbn [fcfs_orders] in H; [discriminate|]. eapply G. exact H.
Qed.
