(* C20: editing one mmCIF item touches nothing else (document level). *)
From Coq Require Import String Ascii ZArith List Bool Arith Lia.
From RV Require Import Base.Val Base.PyStr Model.Bpseq Model.CifDoc Proofs.Encode.
Import ListNotations.

Lemma str_eqb_refl : forall s, str_eqb s s = true.
Proof. induction s as [|c s IH]; [reflexivity|]. cbn. rewrite Ascii.eqb_refl, IH. reflexivity. Qed.
Lemma str_eqb_eq : forall a b, str_eqb a b = true -> a = b.
Proof.
  induction a as [|x a IH]; intros [|y b] H; try discriminate; [reflexivity|].
  cbn in H. apply andb_true_iff in H. destruct H as [H1 H2]. apply Ascii.eqb_eq in H1. subst. f_equal. apply IH. exact H2.
Qed.

Lemma index_str_spec : forall x l i, index_str x l = Some i -> nth_error l i = Some x /\ forall k, k < i -> nth_error l k <> Some x.
Proof.
  intros x. induction l as [|y l IH]; intros i H; [discriminate|]. cbn in H.
  destruct (str_eqb x y) eqn:E.
  - injection H as <-. apply str_eqb_eq in E. subst. split; [reflexivity|]. intros k Hk. lia.
  - destruct (index_str x l) as [j|] eqn:Ej; [|discriminate]. injection H as <-.
    destruct (IH j eq_refl) as [A B]. split; [exact A|].
    intros [|k] Hk; cbn.
    + intros Hx. injection Hx as ->. rewrite str_eqb_refl in E. discriminate.
    + apply B. lia.
Qed.

(* ---------------------------------------------------------------- replace_cat: every other category is kept, in place *)
Lemma replace_cat_frame : forall d c' k c, nth_error d k = Some c -> str_eqb (c_name c) (c_name c') = false ->
    nth_error (replace_cat d c') k = Some c.
Proof. intros d c' k c H E. unfold replace_cat. rewrite nth_error_map, H. cbn. rewrite E. reflexivity. Qed.
Lemma replace_cat_target : forall d c' k c, nth_error d k = Some c -> str_eqb (c_name c) (c_name c') = true ->
    nth_error (replace_cat d c') k = Some c'.
Proof. intros d c' k c H E. unfold replace_cat. rewrite nth_error_map, H. cbn. rewrite E. reflexivity. Qed.
Lemma replace_cat_length : forall d c', length (replace_cat d c') = length d.
Proof. intros. unfold replace_cat. apply map_length. Qed.

(* ---------------------------------------------------------------- copy *)
Lemma copy_row_spec : forall i j row v, nth_error row i = Some v -> j <= length row ->
    nth_error (copy_row i j row) j = Some v /\
    (forall k, k <> j -> k < length row -> nth_error (copy_row i j row) k = nth_error row k) /\
    length (copy_row i j row) = (if length row =? j then S (length row) else length row).
Proof.
  intros i j row v Hi Hj. unfold copy_row. rewrite Hi.
  destruct (Nat.leb_spec (length row) j) as [L|G].
  - assert (j = length row) by lia. subst j. rewrite Nat.eqb_refl. repeat split.
    + rewrite nth_error_app2 by lia. rewrite Nat.sub_diag. reflexivity.
    + intros k Hk Hlt. rewrite nth_error_app1 by lia. reflexivity.
    + rewrite app_length. cbn. lia.
  - replace (length row =? j) with false by (symmetry; apply Nat.eqb_neq; lia). repeat split.
    + apply nth_error_nth' with (d := v) in G as Hn. clear Hn.
      assert (Hs : forall (l : list str) k x, k < length l -> nth_error (set_nth l k x) k = Some x).
      { induction l as [|a l IH]; intros [|k] x Hk; cbn in *; try lia; [reflexivity|]. apply IH. lia. }
      apply Hs. exact G.
    + intros k Hk Hlt.
      assert (Hs : forall (l : list str) a b x, a <> b -> nth_error (set_nth l b x) a = nth_error l a).
      { induction l as [|y l IH]; intros [|a] [|b] x Hab; cbn; try reflexivity; try lia. apply IH. lia. }
      apply Hs. exact Hk.
    + apply length_set_nth.
Qed.

Theorem copy_absent_untouched : forall d cat from to,
    find_cat d cat = None \/ (exists c, find_cat d cat = Some c /\ index_str from (c_attrs c) = None) ->
    copy_item d cat from to = None.
Proof.
  intros d cat from to [H|(c & H & Hi)]; unfold copy_item; rewrite H; [reflexivity|]. rewrite Hi. reflexivity.
Qed.

Theorem copy_frame : forall d cat from to d', copy_item d cat from to = Some d' ->
    length d' = length d /\
    forall k c, nth_error d k = Some c -> str_eqb (c_name c) cat = false -> nth_error d' k = Some c.
Proof.
  intros d cat from to d' H. unfold copy_item in H.
  destruct (find_cat d cat) as [c|] eqn:Ec; [|discriminate].
  destruct (index_str from (c_attrs c)) as [i|]; [|discriminate].
  destruct (index_str to _) as [j|]; [|discriminate]. injection H as <-.
  assert (Hn : c_name c = cat).
  { unfold find_cat in Ec. apply find_some in Ec. destruct Ec as [_ E]. apply str_eqb_eq in E. exact E. }
  split; [rewrite replace_cat_length; reflexivity|]. intros k c0 Hk Hne. apply (replace_cat_frame d _ k c0); [exact Hk|]. cbn [c_name]. rewrite Hn. exact Hne.
Qed.

(* the edited category: same name, attributes kept (the target appended when new), every row rewritten by copy_row *)
Theorem copy_target : forall d cat from to d', copy_item d cat from to = Some d' ->
    exists c i j, find_cat d cat = Some c /\ index_str from (c_attrs c) = Some i /\
      let attrs := match index_str to (c_attrs c) with Some _ => c_attrs c | None => c_attrs c ++ [to] end in
      index_str to attrs = Some j /\
      forall k c0, nth_error d k = Some c0 -> str_eqb (c_name c0) cat = true ->
        nth_error d' k = Some {| c_name := c_name c; c_attrs := attrs; c_rows := map (copy_row i j) (c_rows c) |}.
Proof.
  intros d cat from to d' H. unfold copy_item in H.
  destruct (find_cat d cat) as [c|] eqn:Ec; [|discriminate].
  destruct (index_str from (c_attrs c)) as [i|] eqn:Ei; [|discriminate].
  destruct (index_str to (match index_str to (c_attrs c) with Some _ => c_attrs c | None => c_attrs c ++ [to] end)) as [j|] eqn:Ej; [|discriminate].
  injection H as <-. exists c, i, j. repeat split; try assumption.
  intros k c0 Hk He. apply (replace_cat_target d _ k c0); [exact Hk|]. cbn [c_name].
  assert (Hn : c_name c = cat).
  { unfold find_cat in Ec. apply find_some in Ec. destruct Ec as [_ E]. apply str_eqb_eq in E. exact E. }
  rewrite Hn. exact He.
Qed.

(* ---------------------------------------------------------------- replace *)
(* the mapping returned only grows, is consulted first-seen, and rewrites exactly column i *)
Lemma replace_rows_spec : forall i values rows m rows' mf,
    replace_rows i values m rows = Ok (rows', mf) ->
    length rows' = length rows /\ (exists ext, mf = m ++ ext) /\
    forall k row, nth_error rows k = Some row ->
      exists v img, nth_error row i = Some v /\ assoc_find v mf = Some img /\ nth_error rows' k = Some (set_nth row i img).
Proof.
  intros i values. induction rows as [|row rows IH]; intros m rows' mf H.
  - cbn in H. injection H as <- <-. split; [reflexivity|]. split; [exists []; rewrite app_nil_r; reflexivity|]. intros [|k] r Hk; discriminate.
  - cbn [replace_rows] in H. destruct (nth_error row i) as [v|] eqn:Ev; [|discriminate].
    destruct (assoc_find v m) as [img|] eqn:Ea.
    + destruct (replace_rows i values m rows) as [[rs mf0]|] eqn:Er; [|discriminate]. injection H as <- <-.
      destruct (IH m rs mf0 Er) as (L & [ext Hext] & R). split; [cbn; lia|]. split; [exists ext; exact Hext|].
      intros [|k] r Hk; cbn in Hk.
      * injection Hk as <-. exists v, img. repeat split; try assumption.
        subst mf0. unfold assoc_find in *. destruct (find (fun kv => str_eqb (fst kv) v) m) as [kv|] eqn:Ef; [|discriminate].
        assert (Hf : find (fun kv0 => str_eqb (fst kv0) v) (m ++ ext) = Some kv).
        { clear -Ef. induction m as [|x m IHm]; [discriminate|]. cbn in *. destruct (str_eqb (fst x) v); [exact Ef|apply IHm; exact Ef]. }
        rewrite Hf. exact Ea.
      * apply R. exact Hk.
    + destruct (nth_error values (length m)) as [ch|] eqn:Ec; [|discriminate].
      destruct (replace_rows i values (m ++ [(v, [ch])]) rows) as [[rs mf0]|] eqn:Er; [|discriminate]. injection H as <- <-.
      destruct (IH (m ++ [(v, [ch])]) rs mf0 Er) as (L & [ext Hext] & R). split; [cbn; lia|].
      split; [exists ([(v, [ch])] ++ ext); rewrite app_assoc; exact Hext|].
      intros [|k] r Hk; cbn in Hk.
      * injection Hk as <-. exists v, [ch]. repeat split; try assumption.
        subst mf0. unfold assoc_find in *.
        assert (Hf : find (fun kv0 => str_eqb (fst kv0) v) ((m ++ [(v, [ch])]) ++ ext) = Some (v, [ch])).
        { rewrite <- app_assoc. clear -Ea. induction m as [|x m IHm].
          - cbn. rewrite str_eqb_refl. reflexivity.
          - cbn in *. destruct (str_eqb (fst x) v); [discriminate|]. apply IHm. exact Ea. }
        rewrite Hf. reflexivity.
      * apply R. exact Hk.
Qed.

Theorem replace_absent_untouched : forall d cat col values,
    find_cat d cat = None \/ (exists c, find_cat d cat = Some c /\ index_str col (c_attrs c) = None) ->
    replace_item d cat col values = Ok None.
Proof.
  intros d cat col values [H|(c & H & Hi)]; unfold replace_item; rewrite H; [reflexivity|]. rewrite Hi. reflexivity.
Qed.

Theorem replace_frame : forall d cat col values d' m, replace_item d cat col values = Ok (Some (d', m)) ->
    length d' = length d /\
    forall k c, nth_error d k = Some c -> str_eqb (c_name c) cat = false -> nth_error d' k = Some c.
Proof.
  intros d cat col values d' m H. unfold replace_item in H.
  destruct (find_cat d cat) as [c|] eqn:Ec; [|discriminate].
  destruct (index_str col (c_attrs c)) as [i|]; [|discriminate].
  destruct (replace_rows i values [] (c_rows c)) as [[rows mf]|]; [|discriminate]. injection H as <- <-.
  assert (Hn : c_name c = cat).
  { unfold find_cat in Ec. apply find_some in Ec. destruct Ec as [_ E]. apply str_eqb_eq in E. exact E. }
  split; [rewrite replace_cat_length; reflexivity|]. intros k c0 Hk Hne. apply (replace_cat_frame d _ k c0); [exact Hk|]. cbn [c_name]. rewrite Hn. exact Hne.
Qed.

(* the mapping is injective when the alphabet has no repeated character: keys get the characters values[0], values[1], ... *)
Lemma mapping_images : forall i values rows m rows' mf,
    replace_rows i values m rows = Ok (rows', mf) ->
    (forall k kv, nth_error m k = Some kv -> exists ch, nth_error values k = Some ch /\ snd kv = [ch]) ->
    (forall k kv, nth_error mf k = Some kv -> exists ch, nth_error values k = Some ch /\ snd kv = [ch]).
Proof.
  intros i values. induction rows as [|row rows IH]; intros m rows' mf H Hm.
  - cbn in H. injection H as <- <-. exact Hm.
  - cbn [replace_rows] in H. destruct (nth_error row i) as [v|]; [|discriminate].
    destruct (assoc_find v m).
    + destruct (replace_rows i values m rows) as [[rs mf0]|] eqn:Er; [|discriminate]. injection H as <- <-. eapply IH; eassumption.
    + destruct (nth_error values (length m)) as [ch|] eqn:Ec; [|discriminate].
      destruct (replace_rows i values (m ++ [(v, [ch])]) rows) as [[rs mf0]|] eqn:Er; [|discriminate]. injection H as <- <-.
      eapply IH; [exact Er|]. intros k kv Hk.
      destruct (Nat.lt_ge_cases k (length m)) as [L|G].
      * rewrite nth_error_app1 in Hk by exact L. apply Hm. exact Hk.
      * rewrite nth_error_app2 in Hk by exact G. destruct (k - length m) as [|q] eqn:Eq; [|destruct q; discriminate].
        cbn in Hk. injection Hk as <-. assert (k = length m) by lia. subst k. exists ch. split; [exact Ec|reflexivity].
Qed.

Theorem replace_mapping_injective : forall i values rows rows' mf, NoDup values ->
    replace_rows i values [] rows = Ok (rows', mf) ->
    forall a b kva kvb, nth_error mf a = Some kva -> nth_error mf b = Some kvb -> snd kva = snd kvb -> a = b.
Proof.
  intros i values rows rows' mf Hnd H a b kva kvb Ha Hb E.
  assert (Hm : forall k kv, nth_error (@nil (str * str)) k = Some kv -> exists ch, nth_error values k = Some ch /\ snd kv = [ch]) by (intros [|k] kv Hk; discriminate).
  destruct (mapping_images i values rows [] rows' mf H Hm a kva Ha) as (ca & Hca & Ea).
  destruct (mapping_images i values rows [] rows' mf H Hm b kvb Hb) as (cb & Hcb & Eb).
  rewrite Ea, Eb in E. injection E as ->.
  apply (proj1 (NoDup_nth_error values) Hnd); [apply nth_error_Some; congruence|congruence].
Qed.
