(* C07: no strand is reported twice.  The loop search (chase / loop_step / loops_of) uses every loop candidate at most
   once: the strands of all reported loops are pairwise different members of the candidate list.  With C07Cover this
   gives: every unpaired nucleotide lies in the interior of EXACTLY one single strand, hairpin or loop strand. *)
From Coq Require Import String Ascii ZArith List Bool Arith Lia ZifyBool Sorted Permutation.
From RV Require Import Base.Val Gen.Common Model.Bpseq Model.AllDb Model.Elements Proofs.Stack Proofs.Encode Proofs.Regions
  Proofs.C16Comp Proofs.C07Main Proofs.C07Complete Proofs.C07Cover Proofs.SortStr.
Import ListNotations.

Lemma strand_eqb_eq : forall s t, strand_eqb s t = true <-> s = t.
Proof.
  intros [f1 l1 q1 r1] [f2 l2 q2 r2]. unfold strand_eqb. cbn [s_first s_last s_seq s_str].
  rewrite !andb_true_iff, !Nat.eqb_eq, !seqb_eq. split; [intros [[[-> ->] ->] ->]; reflexivity|intros H; injection H as -> -> -> ->; auto].
Qed.

Lemma existsb_strand : forall s l, existsb (strand_eqb s) l = true <-> In s l.
Proof.
  intros s l. rewrite existsb_exists. split.
  - intros (x & Hx & E). apply strand_eqb_eq in E. subst. exact Hx.
  - intros H. exists s. split; [exact H|apply strand_eqb_eq; reflexivity].
Qed.

Lemma NoDup_app_intro : forall (A : Type) (l l' : list A), NoDup l -> NoDup l' -> (forall x, In x l -> In x l' -> False) -> NoDup (l ++ l').
Proof.
  intros A l l' H H' D. induction H as [|x l Hx _ IH]; [exact H'|]. cbn. constructor.
  - intros Hin. apply in_app_or in Hin. destruct Hin as [Hin|Hin]; [contradiction|]. apply (D x); [left; reflexivity|exact Hin].
  - apply IH. intros y Hy Hy'. apply (D y); [right; exact Hy|exact Hy'].
Qed.

Section Loops.
  Variable b : bpseq.
  Variable lc : list strand.
  Hypothesis Hnd : NoDup (map s_first lc).
  Hypothesis Hnothp : forall s, In s lc -> pair_at b (s_first s) <> s_last s.

  Lemma lc_nodup : NoDup lc.
  Proof. eapply NoDup_map_inv. exact Hnd. Qed.

  Lemma lc_index : forall i j s, nth_error lc i = Some s -> nth_error lc j = Some s -> i = j.
  Proof.
    intros i j s Hi Hj. pose proof lc_nodup as N. rewrite NoDup_nth_error in N. apply N; [|congruence].
    apply nth_error_Some. congruence.
  Qed.

  Definition is_succ (s s' : strand) : Prop := In s' lc /\ s' <> s /\ pair_at b (s_last s) = s_first s'.

  Lemma succs_iff : forall i si j, nth_error lc i = Some si ->
      (In j (succs b lc i) <-> exists sj, nth_error lc j = Some sj /\ is_succ si sj).
  Proof.
    intros i si j Hi. unfold succs. rewrite Hi, filter_In, in_seq. split.
    - intros [_ H]. apply andb_true_iff in H. destruct H as [Hne H]. destruct (nth_error lc j) as [sj|] eqn:Ej; [|discriminate].
      apply Nat.eqb_eq in H. exists sj. split; [reflexivity|]. split; [eapply nth_error_In; exact Ej|]. split; [|exact H].
      intros ->. apply negb_true_iff, Nat.eqb_neq in Hne. apply Hne. eapply lc_index; eassumption.
    - intros (sj & Ej & _ & Hne & Hp). split.
      + split; [lia|]. cbn. apply nth_error_Some. congruence.
      + rewrite Ej. apply andb_true_iff. split; [|apply Nat.eqb_eq; exact Hp].
        apply negb_true_iff, Nat.eqb_neq. intros ->. rewrite Hi in Ej. injection Ej as ->. apply Hne. reflexivity.
  Qed.

  Lemma succ_unique : forall s s1 s2, is_succ s s1 -> is_succ s s2 -> s1 = s2.
  Proof.
    intros s s1 s2 (I1 & _ & P1) (I2 & _ & P2).
    apply In_nth_error in I1, I2. destruct I1 as (j1 & E1). destruct I2 as (j2 & E2).
    assert (j1 = j2).
    { pose proof Hnd as N. rewrite NoDup_nth_error in N. apply N.
      - rewrite map_length. apply nth_error_Some. congruence.
      - rewrite !nth_error_map, E1, E2. cbn. congruence. }
    subst. congruence.
  Qed.

  Section Chase.
    Variable used : list strand.

    Lemma chase_spec : forall fuel loop i si,
        nth_error lc i = Some si -> loop <> [] -> last loop si = si -> NoDup loop -> incl loop lc ->
        length lc < length loop + fuel ->
        exists ext, chase b lc used loop i fuel = loop ++ ext /\ NoDup (loop ++ ext) /\
                    (forall s, In s ext -> ~ In s used /\ In s lc) /\
                    (match ext with [] => True | e :: _ => is_succ si e end) /\
                    (forall s s', In s (si :: ext) -> is_succ s s' -> In s' used \/ In s' (loop ++ ext)).
    Proof.
      induction fuel as [|f IH]; intros loop i si Hi Hne Hl Hnl Hincl Hlen.
      - exfalso. pose proof (NoDup_incl_length Hnl Hincl). lia.
      - cbn [chase].
        destruct (find _ (succs b lc i)) as [j|] eqn:Ef.
        + apply find_some in Ef. destruct Ef as [Hj Hc].
          destruct (proj1 (succs_iff i si j Hi) Hj) as (sj & Ej & Hs). rewrite Ej in Hc |- *.
          apply andb_true_iff in Hc. destruct Hc as [Hu Hlp].
          assert (Nu : ~ In sj used) by (intros H; apply existsb_strand in H; rewrite H in Hu; discriminate).
          assert (Nl : ~ In sj loop) by (intros H; apply existsb_strand in H; rewrite H in Hlp; discriminate).
          destruct (IH (loop ++ [sj]) j sj Ej) as (ext & E & Nd & Hext & Hhd & Hcl).
          * destruct loop; discriminate.
          * apply last_last.
          * apply NoDup_app_intro; [exact Hnl|constructor; [intros []|constructor]|].
            intros x Hx [<-|[]]. contradiction.
          * intros x Hx. apply in_app_or in Hx. destruct Hx as [Hx|[<-|[]]]; [apply Hincl; exact Hx|eapply nth_error_In; exact Ej].
          * rewrite app_length. cbn. lia.
          * exists (sj :: ext). rewrite <- app_assoc in E, Nd, Hcl. cbn [app] in E, Nd, Hcl.
            split; [exact E|]. split; [exact Nd|]. split.
            { intros s [<-|Hs']; [split; [exact Nu|eapply nth_error_In; exact Ej]|apply Hext; exact Hs']. }
            split; [exact Hs|].
            intros s s' [<-|Hin] Hsucc.
            { right. rewrite (succ_unique _ _ _ Hsucc Hs). apply in_or_app. right. left. reflexivity. }
            exact (Hcl s s' Hin Hsucc).
        + exists []. rewrite app_nil_r. split; [reflexivity|]. split; [exact Hnl|]. split; [intros s []|]. split; [exact I|].
          intros s s' [<-|[]] Hsucc. destruct Hsucc as (Hin & Hne' & Hp).
          apply In_nth_error in Hin. destruct Hin as (j & Ej).
          assert (Hj : In j (succs b lc i)).
          { apply (succs_iff i si j Hi). exists s'. split; [exact Ej|]. split; [eapply nth_error_In; exact Ej|]. split; assumption. }
          pose proof (find_none _ _ Ef j Hj) as Hf. cbn beta in Hf. rewrite Ej in Hf.
          apply andb_false_iff in Hf. destruct Hf as [Hf|Hf]; apply negb_false_iff, existsb_strand in Hf; [left|right]; exact Hf.
    Qed.
  End Chase.

  Definition LInv (acc : list (list strand) * list strand) : Prop :=
    NoDup (snd acc) /\ incl (snd acc) lc /\ (forall s s', In s (snd acc) -> is_succ s s' -> In s' (snd acc)).

  Lemma loop_step_inv : forall acc i, LInv acc -> LInv (loop_step b lc acc i).
  Proof.
    intros [loops used] i (Nd & Hincl & Hcl). unfold loop_step. destruct (nth_error lc i) as [s0|] eqn:E0; [|repeat split; assumption].
    cbv zeta.
    destruct (chase_spec used (length lc) [s0] i s0 E0) as (ext & E & Ndr & Hext & Hhd & Hclr);
      [discriminate|reflexivity|constructor; [intros []|constructor]|intros x [<-|[]]; eapply nth_error_In; exact E0|cbn; lia|].
    rewrite E. cbn [app] in *.
    destruct ((pair_of_idx b (s_first s0) =? s_last (last (s0 :: ext) s0)) && negb (forallb (fun s => s_last s - s_first s <=? 1) (s0 :: ext))) eqn:Acc;
      [|repeat split; assumption].
    apply andb_true_iff in Acc. destruct Acc as [Cl _]. apply Nat.eqb_eq in Cl. unfold pair_of_idx in Cl.
    assert (H0 : In s0 lc) by (eapply nth_error_In; exact E0).
    assert (Nu : ~ In s0 used).
    { intros Hu. destruct ext as [|e ext'].
      - cbn in Cl. apply (Hnothp s0 H0). exact Cl.
      - destruct (Hext e (or_introl eq_refl)) as [Ne _]. apply Ne. apply (Hcl s0 e Hu Hhd). }
    cbn [snd]. split; [|split].
    - apply NoDup_app_intro; [exact Nd|exact Ndr|]. intros x Hx [<-|Hx2]; [contradiction|]. destruct (Hext x Hx2) as [Ne _]. contradiction.
    - intros x Hx. apply in_app_or in Hx. destruct Hx as [Hx|[<-|Hx]]; [apply Hincl; exact Hx|exact H0|apply (Hext x Hx)].
    - intros s s' Hs Hsucc. apply in_app_or in Hs. destruct Hs as [Hs|Hs].
      + apply in_or_app. left. apply (Hcl s s' Hs Hsucc).
      + destruct (Hclr s s' Hs Hsucc) as [H|H]; apply in_or_app; [left|right]; exact H.
  Qed.

  Theorem used_once : NoDup (snd (loops_of b lc)) /\ incl (snd (loops_of b lc)) lc.
  Proof.
    assert (G : forall idxs acc, LInv acc -> LInv (fold_left (loop_step b lc) idxs acc)).
    { induction idxs as [|i idxs IH]; intros acc H; [exact H|]. cbn [fold_left]. apply IH. apply loop_step_inv. exact H. }
    destruct (G (seq 0 (length lc)) ([], [])) as (A & B & _).
    - split; [constructor|]. split; [intros x []|intros s s' []].
    - split; assumption.
  Qed.
End Loops.

(* ---------------------------------------------------------------- counting *)

Lemma cnt_app : forall A (f : A -> bool) l l', cnt f (l ++ l') = cnt f l + cnt f l'.
Proof. intros. unfold cnt. rewrite filter_app, app_length. reflexivity. Qed.

Lemma cnt_perm : forall A (f : A -> bool) l l', Permutation l l' -> cnt f l = cnt f l'.
Proof.
  intros A f l l' P. unfold cnt. induction P as [|x l l' _ IH|x y l|l l' l'' _ IH1 _ IH2]; cbn.
  - reflexivity.
  - destruct (f x); cbn; rewrite IH; reflexivity.
  - destruct (f x), (f y); reflexivity.
  - congruence.
Qed.

Lemma cnt_map : forall A B (g : A -> B) (f : B -> bool) l, cnt f (map g l) = cnt (fun x => f (g x)) l.
Proof. intros. unfold cnt. induction l as [|x l IH]; cbn; [reflexivity|]. destruct (f (g x)); cbn; rewrite IH; reflexivity. Qed.

Lemma cnt_filter : forall A (f p : A -> bool) l, cnt f (filter p l) = cnt (fun x => p x && f x) l.
Proof. intros. unfold cnt. induction l as [|x l IH]; cbn; [reflexivity|]. destruct (p x); cbn; [destruct (f x); cbn; rewrite IH; reflexivity|exact IH]. Qed.

Lemma cnt_ext_in : forall A (f g : A -> bool) l, (forall x, In x l -> f x = g x) -> cnt f l = cnt g l.
Proof. intros A f g l H. unfold cnt. rewrite (filter_ext_in f g l H). reflexivity. Qed.

Lemma partition_perm : forall A (f : A -> bool) l, Permutation (filter f l ++ filter (fun x => negb (f x)) l) l.
Proof.
  intros A f l. induction l as [|x l IH]; cbn; [constructor|].
  destruct (f x); cbn; [constructor; exact IH|].
  eapply Permutation_trans; [apply Permutation_sym, Permutation_middle|]. constructor. exact IH.
Qed.

Lemma cnt_partition : forall A (f p : A -> bool) l, cnt f (filter p l) + cnt f (filter (fun x => negb (p x)) l) = cnt f l.
Proof. intros. rewrite <- cnt_app. apply cnt_perm, partition_perm. Qed.

(* neighbouring members of a strictly increasing list *)
Lemma combine_consecutive : forall l a c, StronglySorted lt l -> In (a, c) (combine l (tl l)) ->
    a < c /\ In a l /\ In c l /\ forall y, In y l -> ~ (a < y < c).
Proof.
  induction l as [|h l IH]; intros a c S H; [destruct H|]. inversion S as [|? ? Sl Hh]; subst. rewrite Forall_forall in Hh.
  destruct l as [|h2 l]; [destruct H|]. cbn [tl combine] in H. destruct H as [H|H].
  - injection H as <- <-. split; [apply Hh; left; reflexivity|]. split; [left; reflexivity|]. split; [right; left; reflexivity|].
    intros y [<-|[<-|Hy]]; [lia|lia|]. inversion Sl as [|? ? _ H2]; subst. rewrite Forall_forall in H2. specialize (H2 y Hy). lia.
  - destruct (IH a c Sl H) as (A & B & C & D). split; [exact A|]. split; [right; exact B|]. split; [right; exact C|].
    intros y [<-|Hy]; [|apply D; exact Hy]. specialize (Hh a B). lia.
Qed.

Lemma count_bracket : forall l x, StronglySorted lt l -> ~ In x l ->
    cnt (fun p => (fst p <? x) && (x <? snd p)) (combine l (tl l)) = if (hd 0 l <? x) && (x <? last l 0) then 1 else 0.
Proof.
  induction l as [|h l IH]; intros x S Hn; [cbn; destruct x; reflexivity|]. inversion S as [|? ? Sl Hh]; subst. rewrite Forall_forall in Hh.
  destruct l as [|h2 l].
  - unfold cnt. cbn [tl combine filter length hd last]. destruct (h <? x) eqn:E1, (x <? h) eqn:E2; cbn [andb]; try reflexivity. lia.
  - change (combine (h :: h2 :: l) (tl (h :: h2 :: l))) with ((h, h2) :: combine (h2 :: l) l). unfold cnt in *. cbn [filter fst snd hd].
    assert (Hn' : ~ In x (h2 :: l)) by (intros H; apply Hn; right; exact H).
    specialize (IH x Sl Hn'). cbn [tl hd] in IH.
    assert (x <> h) by (intros ->; apply Hn; left; reflexivity). assert (x <> h2) by (intros ->; apply Hn; right; left; reflexivity).
    specialize (Hh h2 (or_introl eq_refl)).
    assert (Hlast : h2 <= last (h2 :: l) 0).
    { clear -Sl. revert h2 Sl. induction l as [|z l IHl]; intros h2 Sl; [cbn; lia|]. inversion Sl as [|? ? Sl' Hz]; subst. rewrite Forall_forall in Hz.
      specialize (IHl z Sl'). specialize (Hz z (or_introl eq_refl)). cbn [last] in *. lia. }
    change (last (h :: h2 :: l) 0) with (last (h2 :: l) 0).
    set (F := length (filter (fun p : nat * nat => (fst p <? x) && (x <? snd p)) (combine (h2 :: l) l))) in *.
    destruct ((h <? x) && (x <? h2)) eqn:E.
    + cbn [length]. fold F. rewrite IH. assert (H1 : (h2 <? x) = false) by lia. rewrite H1. cbn [andb].
      assert (H2 : (h <? x) && (x <? last (h2 :: l) 0) = true) by lia. rewrite H2. reflexivity.
    + fold F. rewrite IH. destruct ((h2 <? x) && (x <? last (h2 :: l) 0)) eqn:E2.
      * assert (H1 : (h <? x) && (x <? last (h2 :: l) 0) = true) by lia. rewrite H1. reflexivity.
      * assert (H1 : (h <? x) && (x <? last (h2 :: l) 0) = false) by lia. rewrite H1. reflexivity.
Qed.

(* ---------------------------------------------------------------- list helpers *)
Lemma NoDup_map_filter : forall A B (g : A -> B) (p : A -> bool) l, NoDup (map g l) -> NoDup (map g (filter p l)).
Proof.
  intros A B g p l. induction l as [|x l IH]; intros H; [constructor|]. cbn [map] in H. inversion H as [|? ? Hn Hl]; subst.
  cbn [filter]. destruct (p x); [|apply IH; exact Hl]. cbn [map]. constructor; [|apply IH; exact Hl].
  intros Hin. apply Hn. apply in_map_iff in Hin. destruct Hin as (y & E & Hy). apply filter_In in Hy. apply in_map_iff. exists y. split; [exact E|apply Hy].
Qed.

Lemma combine_fst_nodup : forall l, StronglySorted lt l -> NoDup (map fst (combine l (tl l))).
Proof.
  induction l as [|h l IH]; intros S; [constructor|]. inversion S as [|? ? Sl Hh]; subst. rewrite Forall_forall in Hh.
  destruct l as [|h2 l]; [constructor|]. change (combine (h :: h2 :: l) (tl (h :: h2 :: l))) with ((h, h2) :: combine (h2 :: l) (tl (h2 :: l))).
  cbn [map fst]. constructor; [|apply IH; exact Sl].
  intros Hin. apply in_map_iff in Hin. destruct Hin as ([a c] & E & Hac). cbn in E. subst a. apply in_combine_l in Hac. specialize (Hh h Hac). lia.
Qed.

Lemma hd_in : forall (l : list nat), l <> [] -> In (hd 0 l) l.
Proof. intros [|x l] H; [contradiction|left; reflexivity]. Qed.
Lemma last_in : forall (l : list nat), l <> [] -> In (last l 0) l.
Proof. induction l as [|x l IH]; intros H; [contradiction|]. destruct l; [left; reflexivity|right; apply IH; discriminate]. Qed.
Lemma hd_le_last : forall l, StronglySorted lt l -> hd 0 l <= last l 0.
Proof.
  induction l as [|h l IH]; intros S; [cbn; lia|]. inversion S as [|? ? Sl Hh]; subst. rewrite Forall_forall in Hh.
  destruct l as [|h2 l]; [cbn; lia|]. specialize (IH Sl). specialize (Hh h2 (or_introl eq_refl)). cbn [hd last] in *. lia.
Qed.

(* ---------------------------------------------------------------- every unpaired nucleotide: exactly once *)
Section Once.
  Variable b : bpseq.
  Hypothesis Hv : valid b = true.
  Variable db : list ascii.

  Definition cand_of (p : nat * nat) : list entry := slice b (fst p) (snd p + 1).

  Lemma interior_unpaired_intro : forall a c, a < c < length b -> (forall q, a < q - 1 < c -> pair_at b q = 0) ->
      interior_unpaired (slice b a (c + 1)) = true.
  Proof.
    intros a c Hac Hfree. set (cand := slice b a (c + 1)).
    assert (Lc : length cand = c + 1 - a) by (unfold cand, slice; rewrite firstn_length, skipn_length; lia).
    unfold interior_unpaired. apply forallb_forall. intros e He.
    assert (G : forall (l : list entry) x, In x (removelast (tl l)) -> exists q, 1 <= q /\ Datatypes.S q < length l /\ nth_error l q = Some x).
    { clear. intros l x H. destruct l as [|h t]; [destruct H|]. cbn [tl] in H.
      assert (G2 : forall (m : list entry) y, In y (removelast m) -> exists q, q < length m - 1 /\ nth_error m q = Some y).
      { induction m as [|z m IH]; intros y Hy; [destruct Hy|]. destruct m as [|z' m]; [destruct Hy|]. cbn [removelast] in Hy. destruct Hy as [<-|Hy].
        - exists 0. cbn. split; [lia|reflexivity].
        - destruct (IH y Hy) as (q & C & D). exists (Datatypes.S q). cbn [length] in *. split; [lia|exact D]. }
      destruct (G2 t x H) as (q & C & D). exists (Datatypes.S q). cbn [length]. repeat split; [lia|lia|exact D]. }
    destruct (G _ _ He) as (q & Q1 & Q2 & Qn). rewrite Lc in Q2. unfold cand in Qn. rewrite slice_nth in Qn by lia.
    assert (Pq : pair_at b (Datatypes.S (a + q)) = pair e) by (unfold pair_at; rewrite Qn; reflexivity).
    apply Nat.eqb_eq. rewrite <- Pq. apply Hfree. lia.
  Qed.

  Lemma cand_ends : forall a c, a < c < length b ->
      s_first (strand_of (slice b a (c + 1)) db) = Datatypes.S a /\ s_last (strand_of (slice b a (c + 1)) db) = c + 1 /\ slice b a (c + 1) <> [].
  Proof.
    intros a c Hac.
    assert (Lc : length (slice b a (c + 1)) = c + 1 - a) by (unfold slice; rewrite firstn_length, skipn_length; lia).
    destruct (slice b a (c + 1)) as [|e t] eqn:E; [cbn in Lc; lia|].
    destruct (strand_of_ends b Hv db a (c + 1) e t E) as (F & L & _). rewrite E in F, L. rewrite F, L.
    split; [reflexivity|]. split; [cbn [length] in *; lia|discriminate].
  Qed.

  Theorem unpaired_covered_once : stems b <> [] -> forall k, 1 <= k <= length b -> pair_at b k = 0 ->
      times_covered (elements b db) k = 1.
  Proof.
    intros Hne k Hk Hpk. rewrite (elements_nonempty b db Hne). cbv zeta.
    set (n := length b) in *. set (stops := stops_of (map (stem_of b db) (stems b))).
    destruct (stops_spec b db) as [Ss Ms]. fold stops in Ss, Ms.
    assert (StopLt : forall x, In x stops -> x < n /\ pair_at b (Datatypes.S x) <> 0).
    { intros x Hx. apply Ms in Hx. destruct Hx as (st & Hst & Hx). destruct (stop_paired b Hv db st x Hst Hx). split; assumption. }
    assert (Notstop : ~ In (k - 1) stops).
    { intros H. destruct (StopLt _ H) as [_ Hp]. replace (Datatypes.S (k - 1)) with k in Hp by lia. contradiction. }
    assert (Nonempty : stops <> []).
    { destruct (stems b) as [|st1 sts] eqn:E1; [contradiction|].
      assert (In (s_first (fst (stem_of b db st1)) - 1) stops) by (apply Ms; exists st1; split; [left; reflexivity|left; reflexivity]).
      intros E. rewrite E in H. destruct H. }
    pose proof (hd_in stops Nonempty) as H0in. pose proof (last_in stops Nonempty) as Hlin. pose proof (hd_le_last stops Ss) as Hle.
    destruct (StopLt _ H0in) as [H0n _]. destruct (StopLt _ Hlin) as [Hln _].
    set (stop0 := hd 0 stops) in *. set (stopl := last stops 0) in *.
    assert (K0 : k - 1 <> stop0) by (intros E; apply Notstop; rewrite E; exact H0in).
    assert (Kl : k - 1 <> stopl) by (intros E; apply Notstop; rewrite E; exact Hlin).
    set (pairs := combine stops (tl stops)).
    assert (Hpairs : forall a c, In (a, c) pairs -> a < c < n /\ forall q, a < q - 1 < c -> a < k - 1 < c -> pair_at b q = 0).
    { intros a c Hac. destruct (combine_consecutive stops a c Ss Hac) as (Lt & Ia & Ic & Hno). destruct (StopLt c Ic) as [Cn _].
      split; [lia|]. intros q Hq Hkk. apply (gap_unpaired b Hv db a c k Ia Ic Hno); [exact Hkk|exact Hpk|exact Hq]. }
    set (ok := ok_of b stops). set (lc := lc_of b db stops).
    unfold times_covered. cbn [el_single el_hairpins el_loops].
    (* the candidate list *)
    assert (Eok : ok = filter interior_unpaired (map cand_of pairs)) by reflexivity.
    (* lc meets the hypotheses of the loop search *)
    assert (Hcand : forall c, In c ok -> exists a c', In (a, c') pairs /\ c = slice b a (c' + 1)).
    { intros c Hc. rewrite Eok in Hc. apply filter_In in Hc. destruct Hc as [Hc _]. apply in_map_iff in Hc. destruct Hc as ([a c'] & E & Hin).
      exists a, c'. split; [exact Hin|symmetry; exact E]. }
    assert (Hnd : NoDup (map s_first lc)).
    { unfold lc, lc_of. rewrite map_map. fold ok. rewrite Eok. apply NoDup_map_filter, NoDup_map_filter. rewrite map_map.
      rewrite (map_ext_in _ (fun p => Datatypes.S (fst p))).
      - rewrite <- (map_map fst Datatypes.S). apply FinFun.Injective_map_NoDup; [intros x y E; lia|]. apply combine_fst_nodup. exact Ss.
      - intros [a c] Hac. destruct (Hpairs a c Hac) as [Lt _]. unfold cand_of. cbn [fst snd]. apply (cand_ends a c Lt). }
    assert (Hnothp : forall s, In s lc -> pair_at b (s_first s) <> s_last s).
    { intros s Hs. unfold lc, lc_of in Hs. apply in_map_iff in Hs. destruct Hs as (c & <- & Hc). apply filter_In in Hc. destruct Hc as [Hc Hhp].
      destruct (Hcand c Hc) as (a & c' & Hac & ->). destruct (Hpairs a c' Hac) as [Lt _]. destruct (cand_ends a c' Lt) as (_ & _ & Nz).
      intros E. apply (is_hp_closing b Hv db a (c' + 1) Nz) in E. rewrite E in Hhp. discriminate. }
    destruct (used_once b lc Hnd Hnothp) as [Und Uincl]. set (used := snd (loops_of b lc)) in *.
    rewrite <- (used_is_concat b lc). fold used.
    (* count *)
    rewrite !cnt_app.
    assert (Crest : cnt (cov1 k) (map (fun s => (s, false, false)) (filter (fun s => negb (existsb (strand_eqb s) used)) lc)) + cnt (covs k) used = cnt (covs k) lc).
    { rewrite cnt_map. cbn [cov1 fst snd].
      assert (P : Permutation used (filter (fun s => existsb (strand_eqb s) used) lc)).
      { apply NoDup_Permutation; [exact Und|apply NoDup_filter, (lc_nodup lc Hnd)|]. intros x. rewrite filter_In, existsb_strand. split; [intros H; split; [apply Uincl; exact H|exact H]|intros [_ H]; exact H]. }
      rewrite (cnt_perm _ _ _ _ P). rewrite Nat.add_comm. apply (cnt_partition _ (covs k) (fun s => existsb (strand_eqb s) used) lc). }
    assert (Chl : cnt (covs k) (map (fun c => strand_of c db) (filter is_hp ok)) + cnt (covs k) lc = cnt (fun c => covs k (strand_of c db)) ok).
    { unfold lc, lc_of. fold ok. rewrite !cnt_map. apply (cnt_partition _ (fun c => covs k (strand_of c db)) is_hp ok). }
    assert (Cmid : cnt (fun c => covs k (strand_of c db)) ok = if (stop0 <? k - 1) && (k - 1 <? stopl) then 1 else 0).
    { rewrite Eok, cnt_filter, cnt_map. unfold stop0, stopl. rewrite <- (count_bracket stops (k - 1) Ss Notstop). fold pairs. apply cnt_ext_in.
      intros [a c] Hac. destruct (Hpairs a c Hac) as [Lt Hfree]. unfold cand_of. cbn [fst snd].
      destruct (cand_ends a c Lt) as (F & L & _). unfold covs. rewrite F, L.
      destruct ((a <? k - 1) && (k - 1 <? c)) eqn:E.
      - rewrite (interior_unpaired_intro a c Lt); [lia|]. intros q Hq. apply Hfree; [exact Hq|lia].
      - rewrite andb_false_intro2; [reflexivity|lia]. }
    assert (C5 : cnt (cov1 k) (if 0 <? stop0 then [(strand_of (firstn (stop0 + 1) b) db, true, false)] else []) = if k - 1 <? stop0 then 1 else 0).
    { destruct (0 <? stop0) eqn:Z.
      - assert (Hs : slice b 0 (stop0 + 1) = firstn (stop0 + 1) b) by (unfold slice; rewrite Nat.sub_0_r; reflexivity). rewrite <- Hs.
        assert (Len : length (slice b 0 (stop0 + 1)) = stop0 + 1) by (unfold slice; rewrite firstn_length, skipn_length; fold n; lia).
        destruct (slice b 0 (stop0 + 1)) as [|e t] eqn:E; [cbn in Len; lia|].
        destruct (strand_of_ends b Hv db 0 (stop0 + 1) e t E) as (F & L & _). rewrite E in F, L.
        unfold cnt. cbn [filter cov1 fst snd]. rewrite F, L. cbn [length] in Len.
        destruct ((1 <=? k) && (k <? 0 + Datatypes.length (e :: t))) eqn:E2; cbn [length] in *; destruct (k - 1 <? stop0) eqn:E3; try reflexivity; lia.
      - unfold cnt. cbn [filter length]. destruct (k - 1 <? stop0) eqn:E3; [lia|reflexivity]. }
    assert (C3 : cnt (cov1 k) (if stopl <? n - 1 then [(strand_of (skipn stopl b) db, false, true)] else []) = if stopl <? k - 1 then 1 else 0).
    { destruct (stopl <? n - 1) eqn:Z.
      - assert (Hs : slice b stopl (stopl + n) = skipn stopl b) by (unfold slice; apply firstn_all2; rewrite skipn_length; fold n; lia). rewrite <- Hs.
        assert (Len : length (slice b stopl (stopl + n)) = n - stopl) by (unfold slice; rewrite firstn_length, skipn_length; fold n; lia).
        destruct (slice b stopl (stopl + n)) as [|e t] eqn:E; [cbn in Len; lia|].
        destruct (strand_of_ends b Hv db stopl (stopl + n) e t E) as (F & L & _). rewrite E in F, L.
        unfold cnt. cbn [filter cov1 fst snd]. rewrite F, L. cbn [length] in Len.
        destruct ((Datatypes.S stopl <? k) && (k <=? stopl + Datatypes.length (e :: t))) eqn:E2; cbn [length] in *; destruct (stopl <? k - 1) eqn:E3; try reflexivity; lia.
      - unfold cnt. cbn [filter length]. destruct (stopl <? k - 1) eqn:E3; [lia|reflexivity]. }
    rewrite C5, C3.
    set (X := cnt (cov1 k) (map (fun s => (s, false, false)) (filter (fun s => negb (existsb (strand_eqb s) used)) lc))) in *.
    set (Y := cnt (covs k) used) in *. set (H5 := cnt (covs k) (map (fun c => strand_of c db) (filter is_hp ok))) in *.
    set (M := cnt (covs k) lc) in *. set (W := cnt (fun c => covs k (strand_of c db)) ok) in *.
    destruct (k - 1 <? stop0) eqn:E5, (stopl <? k - 1) eqn:E3, ((stop0 <? k - 1) && (k - 1 <? stopl)) eqn:Em; lia.
  Qed.
End Once.
