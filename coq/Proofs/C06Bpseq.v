(* C06: the BPSEQ built from the resolved pairs — numbering 1..N, letters, symmetric matching. *)
From Coq Require Import String Ascii ZArith List Bool Arith Lia.
From RV Require Import Base.Val Base.PyStr Gen.Common Model.Bpseq Model.AllDb Model.Annot Model.Mapping Proofs.C06Main.
Import ListNotations.

(* ---------------------------------------------------------------- numbering *)
Lemma map_add_seq : forall n s i, map (fun k => i + k) (seq s n) = seq (i + s) n.
Proof. induction n as [|n IH]; intros s i; [reflexivity|]. cbn [seq map]. f_equal. rewrite IH. f_equal. lia. Qed.

Lemma number_go_indices : forall fg l prev i,
    map (fun x => fst (fst x)) (number_go fg prev i l) = seq i (length (number_go fg prev i l)).
Proof.
  intros fg. induction l as [|[ri r] l IH]; intros prev i; [reflexivity|].
  cbn [number_go]. set (gap := match prev with Some p => _ | None => 0 end).
  rewrite map_app, app_length, map_length, seq_length, seq_app. f_equal.
  - rewrite map_map. cbn [fst]. rewrite map_add_seq. f_equal. lia.
  - cbn [map fst length seq]. f_equal. rewrite IH. f_equal. lia.
Qed.

(* BPSEQ indices are 1..N *)
Theorem numbering_indices : forall fg rs,
    map (fun x => fst (fst x)) (numbering fg rs) = seq 1 (length (numbering fg rs)).
Proof. intros. apply number_go_indices. Qed.

(* the entries that stand for residues are the nucleotides in file order with their letters; the others are `?` *)
Lemma number_go_residues : forall fg l prev i,
    flat_map (fun x => match snd x with Some ri => [(ri, snd (fst x))] | None => [] end) (number_go fg prev i l)
    = map (fun ir => (fst ir, m_letter (snd ir))) l.
Proof.
  intros fg. induction l as [|[ri r] l IH]; intros prev i; [reflexivity|].
  cbn [number_go]. set (gap := match prev with Some p => _ | None => 0 end).
  rewrite flat_map_app. cbn [flat_map snd fst map app]. rewrite IH.
  replace (flat_map _ (map _ (seq 0 gap))) with (@nil (nat * str)); [reflexivity|].
  generalize 0. induction gap as [|g IHg]; intros s; [reflexivity|]. cbn [seq map flat_map snd app]. apply IHg.
Qed.
Theorem numbering_residues : forall fg rs,
    flat_map (fun x => match snd x with Some ri => [(ri, snd (fst x))] | None => [] end) (numbering fg rs)
    = map (fun ir => (fst ir, m_letter (snd ir))) (nucleotides rs).
Proof. intros. apply number_go_residues. Qed.

Lemma number_go_placeholders : forall fg l prev i x, In x (number_go fg prev i l) -> snd x = None -> snd (fst x) = ["?"%char].
Proof.
  intros fg. induction l as [|[ri r] l IH]; intros prev i x H Hn; [destruct H|].
  cbn [number_go] in H. apply in_app_or in H. destruct H as [H|[<-|H]].
  - apply in_map_iff in H. destruct H as (k & <- & _). reflexivity.
  - discriminate.
  - eapply IH; eassumption.
Qed.

(* ---------------------------------------------------------------- generate_bpseq as a map over the numbering *)
Definition set_pair (j k : nat) (acc : list (nat * str * nat)) : list (nat * str * nat) :=
  map (fun e => match e with (ix, c, pr) => if ix =? j then (ix, c, k) else if ix =? k then (ix, c, j) else e end) acc.

Definition ipairs (num : list (nat * str * option nat)) (pairs : list lpair) : list (nat * nat) :=
  flat_map (fun p => match index_of_res' num (l_i p), index_of_res' num (l_j p) with
                     | Some j, Some k => [(j, k)] | _, _ => [] end) pairs.

Definition pstep (ix : nat) (cur : nat) (jk : nat * nat) : nat :=
  if ix =? fst jk then snd jk else if ix =? snd jk then fst jk else cur.
Definition partner (l : list (nat * nat)) (ix d : nat) : nat := fold_left (pstep ix) l d.

Lemma fold_set_pair : forall l acc,
    fold_left (fun acc jk => set_pair (fst jk) (snd jk) acc) l acc
    = map (fun e => match e with (ix, c, pr) => (ix, c, partner l ix pr) end) acc.
Proof.
  induction l as [|[j k] l IH]; intros acc; cbn [fold_left].
  - rewrite <- (map_id acc) at 1. apply map_ext. intros [[ix c] pr]. reflexivity.
  - rewrite IH. unfold set_pair. rewrite map_map. apply map_ext. intros [[ix c] pr]. cbn [fst snd].
    unfold partner. cbn [fold_left]. replace (pstep ix pr (j, k)) with (if ix =? j then k else if ix =? k then j else pr) by reflexivity.
    destruct (ix =? j) eqn:E1; [reflexivity|]. destruct (ix =? k) eqn:E2; reflexivity.
Qed.

Theorem generate_bpseq_is_map : forall fg rs pairs,
    generate_bpseq fg rs pairs
    = map (fun x => (fst (fst x), snd (fst x), partner (ipairs (numbering fg rs) pairs) (fst (fst x)) 0)) (numbering fg rs).
Proof.
  intros fg rs pairs. unfold generate_bpseq. cbv zeta. set (num := numbering fg rs).
  assert (G : forall pairs acc,
             fold_left (fun acc p => match index_of_res' num (l_i p), index_of_res' num (l_j p) with
                                     | Some j, Some k => map (fun e => match e with (ix, c, pr) => if ix =? j then (ix, c, k) else if ix =? k then (ix, c, j) else e end) acc
                                     | _, _ => acc end) pairs acc
             = fold_left (fun acc jk => set_pair (fst jk) (snd jk) acc) (ipairs num pairs) acc).
  { induction pairs0 as [|p ps IH]; intros acc; [reflexivity|]. cbn [fold_left]. unfold ipairs. cbn [flat_map]. fold (ipairs num ps).
    rewrite IH. destruct (index_of_res' num (l_i p)) as [j|]; [|reflexivity]. destruct (index_of_res' num (l_j p)) as [k|]; reflexivity. }
  rewrite G, fold_set_pair, map_map. apply map_ext. intros [[ix c] r]. reflexivity.
Qed.

(* frame: indices and letters are those of the numbering, whatever the pairs *)
Theorem generate_bpseq_frame : forall fg rs pairs,
    map (fun e => fst e) (generate_bpseq fg rs pairs) = map (fun x => fst x) (numbering fg rs).
Proof. intros. rewrite generate_bpseq_is_map, map_map. apply map_ext. intros [[ix c] r]. reflexivity. Qed.

(* ---------------------------------------------------------------- disjoint index pairs give a symmetric matching *)
Definition Disj (l : list (nat * nat)) : Prop :=
  (forall a, In a l -> fst a <> snd a) /\
  (forall a b, In a l -> In b l -> a = b \/ (fst a <> fst b /\ fst a <> snd b /\ snd a <> fst b /\ snd a <> snd b)).

Lemma partner_app : forall l a ix d, partner (l ++ [a]) ix d = pstep ix (partner l ix d) a.
Proof. intros. unfold partner. rewrite fold_left_app. reflexivity. Qed.

Lemma partner_untouched : forall l ix d, (forall a, In a l -> fst a <> ix /\ snd a <> ix) -> partner l ix d = d.
Proof.
  induction l as [|a l IH] using rev_ind; intros ix d H; [reflexivity|].
  rewrite partner_app, IH by (intros b Hb; apply H; apply in_or_app; left; exact Hb).
  destruct (H a) as [H1 H2]; [apply in_or_app; right; left; reflexivity|].
  unfold pstep. destruct (Nat.eqb_spec ix (fst a)); [congruence|]. destruct (Nat.eqb_spec ix (snd a)); [congruence|]. reflexivity.
Qed.

Lemma partner_of_member : forall l j k d, Disj l -> In (j, k) l -> partner l j d = k /\ partner l k d = j.
Proof.
  induction l as [|a l IH] using rev_ind; intros j k d [D1 D2] Hin; [destruct Hin|].
  rewrite !partner_app.
  assert (Hjk : j <> k) by (apply (D1 (j, k) Hin)).
  destruct (D2 a (j, k)) as [->|(A & B & C & D)]; [apply in_or_app; right; left; reflexivity|exact Hin| |].
  - unfold pstep. cbn [fst snd]. rewrite !Nat.eqb_refl. destruct (Nat.eqb_spec k j); [congruence|]. split; reflexivity.
  - cbn [fst snd] in *. assert (Hl : In (j, k) l).
    { apply in_app_or in Hin. destruct Hin as [H|[H|[]]]; [exact H|]. subst a. cbn in A. congruence. }
    assert (Dl : Disj l).
    { split; [intros b Hb; apply D1; apply in_or_app; left; exact Hb|].
      intros b c Hb Hc. apply D2; apply in_or_app; left; assumption. }
    destruct (IH j k d Dl Hl) as [P1 P2]. rewrite P1, P2. unfold pstep.
    destruct (Nat.eqb_spec j (fst a)); [congruence|]. destruct (Nat.eqb_spec j (snd a)); [congruence|].
    destruct (Nat.eqb_spec k (fst a)); [congruence|]. destruct (Nat.eqb_spec k (snd a)); [congruence|]. split; reflexivity.
Qed.

Lemma touched_dec : forall (l : list (nat * nat)) ix,
    (exists a, In a l /\ (fst a = ix \/ snd a = ix)) \/ (forall a, In a l -> fst a <> ix /\ snd a <> ix).
Proof.
  induction l as [|a l IH]; intros ix; [right; intros a []|].
  destruct (Nat.eq_dec (fst a) ix) as [E|N1]; [left; exists a; split; [left; reflexivity|left; exact E]|].
  destruct (Nat.eq_dec (snd a) ix) as [E|N2]; [left; exists a; split; [left; reflexivity|right; exact E]|].
  destruct (IH ix) as [(b & Hb & Eb)|H]; [left; exists b; split; [right; exact Hb|exact Eb]|].
  right. intros b [<-|Hb]; [split; assumption|apply H; exact Hb].
Qed.

(* the partner column: k <> 0 at ix exactly when a pair joins ix and k *)
Theorem partner_iff : forall l ix k, Disj l -> (forall a, In a l -> fst a <> 0 /\ snd a <> 0) ->
    (partner l ix 0 = k /\ k <> 0) <-> (In (ix, k) l \/ In (k, ix) l).
Proof.
  intros l ix k D Hpos. split.
  - intros [P Hk]. destruct (touched_dec l ix) as [([j' k'] & Ha & [E|E])|H]; try (cbn [fst snd] in E).
    + subst j'. left. destruct (partner_of_member l ix k' 0 D Ha) as [P1 _]. congruence.
    + subst k'. right. destruct (partner_of_member l j' ix 0 D Ha) as [_ P2]. congruence.
    + rewrite (partner_untouched l ix 0 H) in P. congruence.
  - intros [H|H].
    + destruct (partner_of_member l ix k 0 D H) as [P1 _]. split; [exact P1|]. apply (Hpos _ H).
    + destruct (partner_of_member l k ix 0 D H) as [_ P2]. split; [exact P2|]. apply (Hpos _ H).
Qed.

Theorem partner_symmetric : forall l ix k, Disj l -> (forall a, In a l -> fst a <> 0 /\ snd a <> 0) ->
    partner l ix 0 = k -> k <> 0 -> partner l k 0 = ix.
Proof.
  intros l ix k D Hpos P Hk. destruct (proj1 (partner_iff l ix k D Hpos) (conj P Hk)) as [H|H].
  - apply (partner_of_member l ix k 0 D H).
  - apply (partner_of_member l k ix 0 D H).
Qed.

(* ---------------------------------------------------------------- from the resolved list to disjoint index pairs *)
From RV Require Import Proofs.SortStr.

Lemma touched_complete : forall l p, In p l -> In (l_i p) (touched l) /\ In (l_j p) (touched l).
Proof.
  intros l p Hin. unfold touched.
  set (f := fun acc p => let a1 := if existsb (Nat.eqb (l_i p)) acc then acc else acc ++ [l_i p] in
                         if existsb (Nat.eqb (l_j p)) a1 then a1 else a1 ++ [l_j p]).
  assert (Mono : forall l acc x, In x acc -> In x (fold_left f l acc)).
  { induction l0 as [|q l0 IH]; intros acc x Hx; [exact Hx|]. cbn [fold_left]. apply IH. unfold f. cbv zeta.
    assert (A : In x (if existsb (Nat.eqb (l_i q)) acc then acc else acc ++ [l_i q])) by (destruct (existsb (Nat.eqb (l_i q)) acc); [exact Hx|apply in_or_app; left; exact Hx]).
    destruct (existsb (Nat.eqb (l_j q)) _); [exact A|apply in_or_app; left; exact A]. }
  assert (Step : forall acc q, In (l_i q) (f acc q) /\ In (l_j q) (f acc q)).
  { intros acc q. unfold f. cbv zeta.
    assert (A : In (l_i q) (if existsb (Nat.eqb (l_i q)) acc then acc else acc ++ [l_i q])).
    { destruct (existsb (Nat.eqb (l_i q)) acc) eqn:E; [|apply in_or_app; right; left; reflexivity].
      apply existsb_exists in E. destruct E as (x & Hx & Ex). apply Nat.eqb_eq in Ex. subst. exact Hx. }
    set (a1 := if existsb (Nat.eqb (l_i q)) acc then acc else acc ++ [l_i q]) in *.
    destruct (existsb (Nat.eqb (l_j q)) a1) eqn:E.
    - split; [exact A|]. apply existsb_exists in E. destruct E as (x & Hx & Ex). apply Nat.eqb_eq in Ex. subst. exact Hx.
    - split; apply in_or_app; [left; exact A|right; left; reflexivity]. }
  generalize (@nil nat). induction l as [|q l IH]; intros acc; [destruct Hin|]. cbn [fold_left].
  destruct Hin as [->|Hin]; [|apply IH; exact Hin].
  destruct (Step acc p) as [A B]. split; apply Mono; assumption.
Qed.

Lemma conflict_free_pairwise : forall l p q r, conflicted l = None -> In p l -> In q l ->
    touches r p = true -> touches r q = true -> p = q.
Proof.
  intros l p q r H Hp Hq Tp Tq. unfold conflicted in H.
  assert (Hr : In r (touched l)).
  { destruct (touched_complete l p Hp) as [A B]. unfold touches in Tp. apply orb_true_iff in Tp.
    destruct Tp as [E|E]; apply Nat.eqb_eq in E; subst; assumption. }
  pose proof (find_none _ _ H r Hr) as F. cbv beta in F. apply Nat.ltb_ge in F.
  destruct (dedup_pairs_spec (filter (touches r) l)) as [_ M].
  assert (Ip : In p (dedup_pairs (filter (touches r) l))) by (apply M; apply filter_In; split; assumption).
  assert (Iq : In q (dedup_pairs (filter (touches r) l))) by (apply M; apply filter_In; split; assumption).
  destruct (dedup_pairs (filter (touches r) l)) as [|a [|b t]]; [destruct Ip| |cbn in F; lia].
  destruct Ip as [<-|[]]. destruct Iq as [<-|[]]. reflexivity.
Qed.

Lemma nodup_map_inj : forall (A B : Type) (f : A -> B) l x y, NoDup (map f l) -> In x l -> In y l -> f x = f y -> x = y.
Proof.
  intros A B f. induction l as [|a l IH]; intros x y N Hx Hy E; [destruct Hx|].
  cbn [map] in N. inversion N as [|? ? Hn N']; subst.
  destruct Hx as [->|Hx], Hy as [->|Hy]; [reflexivity| | |apply IH; assumption].
  - exfalso. apply Hn. rewrite E. apply in_map. exact Hy.
  - exfalso. apply Hn. rewrite <- E. apply in_map. exact Hx.
Qed.

Lemma index_of_res'_some : forall num ri j, index_of_res' num ri = Some j ->
    exists x, In x num /\ snd x = Some ri /\ fst (fst x) = j.
Proof.
  intros num ri j H. unfold index_of_res' in H. destruct (find _ num) as [x|] eqn:E; [|discriminate].
  injection H as <-. apply find_some in E. destruct E as [Hin Hx]. exists x. split; [exact Hin|]. split; [|reflexivity].
  destruct (snd x) as [r|]; [|discriminate]. apply Nat.eqb_eq in Hx. subst. reflexivity.
Qed.

Lemma index_inj : forall num a b j, NoDup (map (fun x => fst (fst x)) num) ->
    index_of_res' num a = Some j -> index_of_res' num b = Some j -> a = b.
Proof.
  intros num a b j N Ha Hb. apply index_of_res'_some in Ha, Hb.
  destruct Ha as (x & Hx & Sx & Fx). destruct Hb as (y & Hy & Sy & Fy).
  assert (x = y) by (apply (nodup_map_inj _ _ (fun x => fst (fst x)) num); try assumption; congruence).
  subst y. congruence.
Qed.

Lemma numbering_nodup : forall fg rs, NoDup (map (fun x => fst (fst x)) (numbering fg rs)).
Proof. intros. rewrite numbering_indices. apply seq_NoDup. Qed.

Lemma index_pos : forall fg rs a j, index_of_res' (numbering fg rs) a = Some j -> j <> 0.
Proof.
  intros fg rs a j H. apply index_of_res'_some in H. destruct H as (x & Hx & _ & Fx).
  assert (Hin : In j (map (fun x => fst (fst x)) (numbering fg rs))) by (rewrite <- Fx; apply (in_map (fun x => fst (fst x))); exact Hx).
  rewrite numbering_indices in Hin. apply in_seq in Hin. lia.
Qed.

Lemma ipairs_in : forall num l j k, In (j, k) (ipairs num l) <->
    exists p, In p l /\ index_of_res' num (l_i p) = Some j /\ index_of_res' num (l_j p) = Some k.
Proof.
  intros num l j k. unfold ipairs. rewrite in_flat_map. split.
  - intros (p & Hp & H). exists p. split; [exact Hp|].
    destruct (index_of_res' num (l_i p)) as [j'|]; [|destruct H]. destruct (index_of_res' num (l_j p)) as [k'|]; [|destruct H].
    destruct H as [H|[]]. injection H as -> ->. split; reflexivity.
  - intros (p & Hp & A & B). exists p. split; [exact Hp|]. rewrite A, B. left. reflexivity.
Qed.

Theorem ipairs_disjoint : forall fg rs l,
    conflicted l = None -> (forall p, In p l -> l_i p <> l_j p) -> Disj (ipairs (numbering fg rs) l).
Proof.
  intros fg rs l C Hne. pose proof (numbering_nodup fg rs) as N. split.
  - intros [j k] H. apply ipairs_in in H. destruct H as (p & Hp & A & B). cbn [fst snd]. intros ->.
    apply (Hne p Hp). eapply index_inj; eassumption.
  - intros [j k] [j' k'] Ha Hb. apply ipairs_in in Ha, Hb.
    destruct Ha as (p & Hp & A & B). destruct Hb as (q & Hq & A' & B'). cbn [fst snd].
    assert (Sh : forall r, touches r p = true -> touches r q = true -> (j, k) = (j', k')).
    { intros r Tp Tq. assert (p = q) by (eapply conflict_free_pairwise; eassumption). subst q. congruence. }
    destruct (Nat.eq_dec j j') as [E1|N1].
    { left. subst j'. assert (l_i p = l_i q) by (eapply index_inj; eassumption).
      apply (Sh (l_i p)); unfold touches; [rewrite Nat.eqb_refl; reflexivity|]. rewrite <- H, Nat.eqb_refl. reflexivity. }
    destruct (Nat.eq_dec j k') as [E2|N2].
    { left. subst k'. assert (l_i p = l_j q) by (eapply index_inj; eassumption).
      apply (Sh (l_i p)); unfold touches; [rewrite Nat.eqb_refl; reflexivity|]. rewrite <- H, Nat.eqb_refl, orb_true_r. reflexivity. }
    destruct (Nat.eq_dec k j') as [E3|N3].
    { left. subst j'. assert (l_j p = l_i q) by (eapply index_inj; eassumption).
      apply (Sh (l_j p)); unfold touches; [rewrite Nat.eqb_refl, orb_true_r; reflexivity|]. rewrite <- H, Nat.eqb_refl. reflexivity. }
    destruct (Nat.eq_dec k k') as [E4|N4].
    { left. subst k'. assert (l_j p = l_j q) by (eapply index_inj; eassumption).
      apply (Sh (l_j p)); unfold touches; [rewrite Nat.eqb_refl, orb_true_r; reflexivity|]. rewrite <- H, Nat.eqb_refl, orb_true_r. reflexivity. }
    right. repeat split; assumption.
Qed.

Lemma mres_ltb_irrefl : forall a, mres_ltb a a = false.
Proof. intros a. unfold mres_ltb. rewrite !sltb_irrefl, Z.ltb_irrefl. reflexivity. Qed.

Lemma canonical_distinct : forall rs ps p, In p (canonical_pairs rs ps) -> l_i p <> l_j p.
Proof.
  intros rs ps p H. unfold canonical_pairs in H. apply filter_In in H. destruct H as [_ H]. apply andb_true_iff in H. destruct H as [_ H].
  intros E. unfold lt_idx in H. rewrite E in H. destruct (nth_error rs (l_j p)); [|discriminate]. rewrite mres_ltb_irrefl in H. discriminate.
Qed.

(* ---------------------------------------------------------------- the theorem about Mapping2D3D.bpseq *)
Definition symmetric_bpseq (b : list (nat * str * nat)) : Prop :=
  forall ix c pr, In (ix, c, pr) b -> pr <> 0 -> exists c', In (pr, c', ix) b.

Theorem mapping_bpseq_total : forall fg rs ps, exists b, mapping_bpseq fg rs ps = Ok b.
Proof.
  intros fg rs ps. unfold mapping_bpseq. cbv zeta.
  destruct (resolve_terminates rs (length (canonical_pairs rs ps)) (canonical_pairs rs ps) (le_n _)) as [l ->]. eexists. reflexivity.
Qed.

Theorem mapping_bpseq_spec : forall fg rs ps b, mapping_bpseq fg rs ps = Ok b ->
    (* numbered 1..N with the letters of the numbering *)
    map (fun e => fst (fst e)) b = seq 1 (length b) /\
    map (fun e => fst e) b = map (fun x => fst x) (numbering fg rs) /\
    (* symmetric; the partner column has one value per entry, so at most one partner each *)
    symmetric_bpseq b /\
    (* every pair comes from a canonical input pair *)
    (forall ix c pr, In (ix, c, pr) b -> pr <> 0 ->
       exists p, In p (canonical_pairs rs ps) /\
                 ((index_of_res' (numbering fg rs) (l_i p) = Some ix /\ index_of_res' (numbering fg rs) (l_j p) = Some pr) \/
                  (index_of_res' (numbering fg rs) (l_i p) = Some pr /\ index_of_res' (numbering fg rs) (l_j p) = Some ix))) /\
    (* every canonical pair that conflicts with no other is in the matching *)
    (forall p j k, In p (canonical_pairs rs ps) -> unconflicted (canonical_pairs rs ps) p ->
       index_of_res' (numbering fg rs) (l_i p) = Some j -> index_of_res' (numbering fg rs) (l_j p) = Some k ->
       exists cj ck, In (j, cj, k) b /\ In (k, ck, j) b).
Proof.
  intros fg rs ps b H. unfold mapping_bpseq in H. cbv zeta in H.
  destruct (resolve rs (length (canonical_pairs rs ps)) (canonical_pairs rs ps)) as [l|e] eqn:R; [|discriminate]. injection H as <-.
  destruct (resolve_spec _ _ _ _ R) as [Sub CF].
  assert (D : Disj (ipairs (numbering fg rs) l)).
  { apply ipairs_disjoint; [exact CF|]. intros p Hp. eapply canonical_distinct. apply Sub. exact Hp. }
  assert (Pos : forall a, In a (ipairs (numbering fg rs) l) -> fst a <> 0 /\ snd a <> 0).
  { intros [j k] Ha. apply ipairs_in in Ha. destruct Ha as (p & _ & A & B). split; eapply index_pos; eassumption. }
  assert (Frame : map (fun e => fst e) (generate_bpseq fg rs l) = map (fun x => fst x) (numbering fg rs)) by apply generate_bpseq_frame.
  assert (Member : forall ix, In ix (map (fun x => fst (fst x)) (numbering fg rs)) ->
                     exists c, In (ix, c, partner (ipairs (numbering fg rs) l) ix 0) (generate_bpseq fg rs l)).
  { intros ix Hix. apply in_map_iff in Hix. destruct Hix as ([[ix' c] r] & E & Hx). cbn [fst] in E. subst ix'.
    exists c. rewrite generate_bpseq_is_map. apply in_map_iff. exists (ix, c, r). split; [reflexivity|exact Hx]. }
  assert (Entry : forall ix c pr, In (ix, c, pr) (generate_bpseq fg rs l) -> pr = partner (ipairs (numbering fg rs) l) ix 0).
  { intros ix c pr Hin. rewrite generate_bpseq_is_map in Hin. apply in_map_iff in Hin. destruct Hin as ([[ix' c'] r] & E & _).
    cbn [fst snd] in E. injection E as -> -> <-. reflexivity. }
  assert (IdxIn : forall a j, index_of_res' (numbering fg rs) a = Some j -> In j (map (fun x => fst (fst x)) (numbering fg rs))).
  { intros a j Hj. apply index_of_res'_some in Hj. destruct Hj as (x & Hx & _ & <-). apply (in_map (fun x => fst (fst x))). exact Hx. }
  split; [|split; [exact Frame|split; [|split]]].
  - replace (map (fun e => fst (fst e)) (generate_bpseq fg rs l)) with (map (fun x : nat * str => fst x) (map (fun e => fst e) (generate_bpseq fg rs l))) by (rewrite map_map; reflexivity).
    rewrite Frame, map_map. rewrite <- (map_length (fun e => fst e) (generate_bpseq fg rs l)), Frame, map_length. apply numbering_indices.
  - intros ix c pr Hin Hpr. pose proof (Entry _ _ _ Hin) as E.
    assert (P : partner (ipairs (numbering fg rs) l) pr 0 = ix) by (eapply partner_symmetric; eauto).
    destruct (proj1 (partner_iff _ ix pr D Pos) (conj (eq_sym E) Hpr)) as [Hm|Hm]; apply ipairs_in in Hm; destruct Hm as (p & _ & A & B).
    + destruct (Member pr (IdxIn _ _ B)) as [c' Hc]. rewrite P in Hc. exists c'. exact Hc.
    + destruct (Member pr (IdxIn _ _ A)) as [c' Hc]. rewrite P in Hc. exists c'. exact Hc.
  - intros ix c pr Hin Hpr. pose proof (Entry _ _ _ Hin) as E.
    destruct (proj1 (partner_iff _ ix pr D Pos) (conj (eq_sym E) Hpr)) as [Hm|Hm]; apply ipairs_in in Hm; destruct Hm as (p & Hp & A & B);
      exists p; (split; [apply Sub; exact Hp|]); [left|right]; split; assumption.
  - intros p j k Hp Hu Hj Hk.
    assert (Hl : In p l) by (eapply resolve_keeps_unconflicted; eassumption).
    assert (Hm : In (j, k) (ipairs (numbering fg rs) l)) by (apply ipairs_in; exists p; repeat split; assumption).
    destruct (partner_of_member _ j k 0 D Hm) as [P1 P2].
    destruct (Member j (IdxIn _ _ Hj)) as [cj Hcj]. destruct (Member k (IdxIn _ _ Hk)) as [ck Hck].
    rewrite P1 in Hcj. rewrite P2 in Hck. exists cj, ck. split; assumption.
Qed.
