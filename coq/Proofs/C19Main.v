(* C19: the FR3D label language, on the function generated from adapter.unify_classification. *)
From Coq Require Import String Ascii ZArith List Bool Arith Lia.
From RV Require Import Base.Val Base.PyStr Gen.Common Gen.Adapter Model.Fr3d.
Import ListNotations.

Definition LS (s : string) : str := list_ascii_of_string s.

(* the 8 letter-case variants of a three-letter class name *)
Definition case_variants (name : str) : list str :=
  match name with
  | [a; b; c] => flat_map (fun x => flat_map (fun y => map (fun z => [x; y; z]) [lower_char c; upper_char c]) [lower_char b; upper_char b]) [lower_char a; upper_char a]
  | _ => []
  end.
Definition decorations (l : str) : list str := [l; LS "n" ++ l; l ++ LS "a"; LS "n" ++ l ++ LS "a"].

Definition result_is (cat : string) (cls : str) (r : result (str * option str)) : bool :=
  match r with
  | Ok (c, Some v) => str_eqb c (LS cat) && str_eqb v cls
  | _ => false
  end.

(* all 18 classes x 8 case patterns x {"", "n"} x {"", "a"} = 576 labels are base pairs of that class *)
Definition lw_labels : list (str * str) :=
  flat_map (fun m => let cls := LS (snd m) in
                     flat_map (fun v => map (fun l => (l, cls)) (decorations v)) (case_variants (LS (fst m)))) lw_members.

Theorem lw_all_cases : length lw_labels = 576 /\
  forallb (fun lc => result_is "base-pair" (snd lc) (unify (fst lc))) lw_labels = true.
Proof. split; vm_compute; reflexivity. Qed.

Definition stacking_labels : list (str * str) :=
  flat_map (fun p => map (fun l => (l, LS (snd p))) (decorations (LS (fst p))))
           [("s33", "downward"); ("s55", "upward"); ("s35", "outward"); ("s53", "inward")]%string.
Theorem stackings_all : forallb (fun lc => result_is "stacking" (snd lc) (unify (fst lc))) stacking_labels = true.
Proof. vm_compute. reflexivity. Qed.

Definition digit_labels (suffix : string) : list (str * str) :=
  flat_map (fun d => let l := [ascii_of_nat (48 + d)] ++ LS suffix in map (fun x => (x, l)) (decorations l)) (seq 0 10).
Theorem bph_br_digits :
  forallb (fun lc => result_is "base-phosphate" (snd lc) (unify (fst lc))) (digit_labels "BPh") = true /\
  forallb (fun lc => result_is "base-ribose" (snd lc) (unify (fst lc))) (digit_labels "BR") = true.
Proof. split; vm_compute; reflexivity. Qed.

(* a few labels that must NOT be recognised: kept as 'other' *)
Theorem unknown_kept_as_other :
  forallb (fun l => match unify (LS l) with Ok (c, None) => str_eqb c (LS "other") | _ => false end)
          [""; "n"; "a"; "cW"; "cWX"; "s36"; "S35"; "xBPh"; "10BR"; "cWWW"; "hello"; "0bph"; "tsz"; "__doc__"]%string = true.
Proof. vm_compute. reflexivity. Qed.

(* ---------------------------------------------------------------- totality: no label makes unify raise *)
From Coq Require Import ZifyBool.

Ltac crush :=
  repeat (cbn -[Ascii.eqb is_digit_char lower_char upper_char] in *;
          match goal with
          | |- exists r, Ok ?x = Ok r => eexists; reflexivity
          | H : Some _ = None |- _ => discriminate H
          | H : None = Some _ |- _ => discriminate H
          | H : true = false |- _ => discriminate H
          | H : false = true |- _ => discriminate H
          | H : Ok _ = Raise _ |- _ => discriminate H
          | H : Raise _ = Ok _ |- _ => discriminate H
          | H : Raise ?a = Raise ?b |- _ => first [discriminate H | injection H as H; subst]
          | H : enum_lookup stacking_members _ = None |- _ => vm_compute in H; discriminate H
          | H : match ?x with _ => _ end = _ |- _ => destruct x eqn:?
          | |- context [if ?b then _ else _] => destruct b eqn:?
          | |- context [match ?x with _ => _ end] => destruct x eqn:?
          end).

Ltac crush_long :=
  repeat (cbn -[Ascii.eqb is_digit_char lower_char upper_char Z.of_nat Z.eqb Z.geb ends_with removelast length] in *;
          match goal with
          | |- exists r, Ok ?x = Ok r => eexists; reflexivity
          | H : Some _ = None |- _ => discriminate H
          | H : None = Some _ |- _ => discriminate H
          | H : true = false |- _ => discriminate H
          | H : false = true |- _ => discriminate H
          | H : (Z.of_nat (length _) =? _)%Z = true |- _ => exfalso; cbn [length removelast] in H; lia
          | |- context [if ?b then _ else _] => destruct b eqn:?
          | |- context [match ?x with _ => _ end] => destruct x eqn:?
          end).

Theorem unify_total : forall s, exists r, unify s = Ok r.
Proof.
  intros s.
  destruct s as [|c0 [|c1 [|c2 [|c3 [|c4 [|c5 [|c6 tl]]]]]]]; unfold unify.
  - crush.
  - crush.
  - crush.
  - crush.
  - crush.
  - crush.
  - crush.
  - crush_long.
Qed.

(* ---------------------------------------------------------------- lines and listings never raise *)
Lemma parse_int_raises : forall s e, parse_int s = Raise e -> e = ValueError.
Proof.
  intros s e H. unfold parse_int in H.
  destruct (strip s) as [|c r]; [congruence|].
  destruct (Ascii.eqb c "-"%char); [destruct (digits_go r 0 false); congruence|].
  destruct (Ascii.eqb c "+"%char); [destruct (digits_go r 0 false); congruence|].
  destruct (digits_go (c :: r) 0 false); congruence.
Qed.

Lemma parse_unit_id_raises : forall s e, parse_unit_id s = Raise e -> e = IndexError \/ e = ValueError.
Proof.
  intros s e H. unfold parse_unit_id, field in H.
  repeat match type of H with
         | context [match nth_error ?l ?k with _ => _ end] => destruct (nth_error l k)
         end; try (left; congruence).
  all: repeat match type of H with
         | context [match parse_int ?x with _ => _ end] => destruct (parse_int x) eqn:Ep
         end; try congruence; try (left; congruence).
  all: try (injection H as <-; right; eapply parse_int_raises; exact Ep).
Qed.

Lemma caught_index_value : caught IndexError = true /\ caught ValueError = true.
Proof. split; vm_compute; reflexivity. Qed.

Theorem process_line_total : forall line, exists r, process_line line = Ok r.
Proof.
  intros line. unfold process_line.
  destruct (length (split_on (ascii_of_nat 9) line) <? line_min_fields); [eauto|].
  destruct caught_index_value as [CI CV].
  destruct (parse_unit_id (nth 0 (split_on (ascii_of_nat 9) line) [])) as [nt1|e1] eqn:E1.
  - destruct (parse_unit_id (nth 2 (split_on (ascii_of_nat 9) line) [])) as [nt2|e2] eqn:E2.
    + destruct (unify_total (nth 1 (split_on (ascii_of_nat 9) line) [])) as [cc Hc]. rewrite Hc. eauto.
    + destruct (parse_unit_id_raises _ _ E2) as [->| ->]; [rewrite CI|rewrite CV]; eauto.
  - destruct (parse_unit_id_raises _ _ E1) as [->| ->]; [rewrite CI|rewrite CV]; eauto.
Qed.

Theorem import_total : forall lines, exists l, import_lines lines = Ok l.
Proof.
  induction lines as [|line lines IH]; [cbn; eauto|].
  destruct IH as [l Hl]. cbn [import_lines fold_right]. fold (import_lines lines). rewrite Hl.
  destruct (strip line) as [|c r] eqn:Es; [eauto|].
  destruct (Ascii.eqb c hash); [eauto|].
  destruct (process_line_total (c :: r)) as [[i|] Hp]; rewrite Hp; eauto.
Qed.

(* a line with fewer than three tab-separated fields, an empty line or a comment yields nothing;
   a line whose two unit ids parse yields exactly one interaction between exactly those residues *)
Theorem process_line_faithful : forall line nt1 nt2,
    line_min_fields <= length (split_on (ascii_of_nat 9) line) ->
    parse_unit_id (nth 0 (split_on (ascii_of_nat 9) line) []) = Ok nt1 ->
    parse_unit_id (nth 2 (split_on (ascii_of_nat 9) line) []) = Ok nt2 ->
    exists cat cls, unify (nth 1 (split_on (ascii_of_nat 9) line) []) = Ok (cat, cls) /\
                    process_line line = Ok (Some {| i_category := cat; i_nt1 := nt1; i_nt2 := nt2; i_class := cls |}).
Proof.
  intros line nt1 nt2 Hlen H1 H2. unfold process_line.
  replace (length (split_on (ascii_of_nat 9) line) <? line_min_fields) with false by (symmetry; apply Nat.ltb_ge; exact Hlen).
  rewrite H1, H2. destruct (unify_total (nth 1 (split_on (ascii_of_nat 9) line) [])) as [[cat cls] Hc].
  exists cat, cls. rewrite Hc. split; reflexivity.
Qed.

Theorem process_line_skips : forall line,
    (length (split_on (ascii_of_nat 9) line) < line_min_fields \/
     (exists e, parse_unit_id (nth 0 (split_on (ascii_of_nat 9) line) []) = Raise e) \/
     (exists e, parse_unit_id (nth 2 (split_on (ascii_of_nat 9) line) []) = Raise e)) ->
    process_line line = Ok None.
Proof.
  intros line H. unfold process_line. destruct caught_index_value as [CI CV].
  destruct (Nat.ltb_spec (length (split_on (ascii_of_nat 9) line)) line_min_fields) as [L|G]; [reflexivity|].
  destruct H as [H|[[e H]|[e H]]]; [lia| |].
  - rewrite H. destruct (parse_unit_id_raises _ _ H) as [->| ->]; [rewrite CI|rewrite CV]; reflexivity.
  - destruct (parse_unit_id (nth 0 (split_on (ascii_of_nat 9) line) [])) as [nt1|e1] eqn:E1.
    + rewrite H. destruct (parse_unit_id_raises _ _ H) as [->| ->]; [rewrite CI|rewrite CV]; reflexivity.
    + destruct (parse_unit_id_raises _ _ E1) as [->| ->]; [rewrite CI|rewrite CV]; reflexivity.
Qed.

(* DSSR: the class test never raises, and keeps exactly the 18 classes *)
Theorem dssr_lw_total : forall lw, exists r, dssr_lw lw = Ok r.
Proof.
  assert (P : dssr_lw_test_is_membership = true) by reflexivity.
  intros [s|]; unfold dssr_lw; [|eauto]. destruct (enum_lookup lw_members s); [eauto|]. rewrite P. eauto.
Qed.
