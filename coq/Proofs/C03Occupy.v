(* C03, second stage: from counted labels to the chosen pairs — at least min_hbonds contacts, edge-exclusive, maximal. *)
From Coq Require Import String Ascii ZArith QArith List Bool Arith Lia Permutation.
From RV Require Import Base.Val Base.PyStr Gen.Common Gen.Annot Model.Geom Model.AllDb Model.Annot.
Import ListNotations.
Local Close Scope Q_scope.

Definition slot := (nat * ascii)%type.
Definition slots (l : label) : list slot := match l with (i, j, _, ei, ej) => [(i, ei); (j, ej)] end.
Definition ends_differ (l : label) : Prop := match l with (i, j, _, _, _) => i <> j end.

Definition occ_has (occ : list slot) (s : slot) : bool := existsb (fun o => (fst o =? fst s) && Ascii.eqb (snd o) (snd s)) occ.
Lemma occ_has_iff : forall occ s, occ_has occ s = true <-> In s occ.
Proof.
  intros occ [r e]. unfold occ_has. rewrite existsb_exists. cbn [fst snd]. split.
  - intros ([r' e'] & Hin & H). cbn [fst snd] in H. apply andb_true_iff in H. destruct H as [H1 H2].
    apply Nat.eqb_eq in H1. apply Ascii.eqb_eq in H2. subst. exact Hin.
  - intros H. exists (r, e). split; [exact H|]. cbn. rewrite Nat.eqb_refl, Ascii.eqb_refl. reflexivity.
Qed.

Definition occ_step (acc : list slot * list label) (ln : label * nat) : list slot * list label :=
  let '(occ, out) := acc in
  let '((i, j, cis, ei, ej), n) := ln in
  if n <? min_hbonds then acc
  else if existsb (fun o => (fst o =? i) && Ascii.eqb (snd o) ei) occ then acc
  else if existsb (fun o => (fst o =? j) && Ascii.eqb (snd o) ej) occ then acc
  else ((i, ei) :: (j, ej) :: occ, out ++ [(i, j, cis, ei, ej)]).

Lemma occupy_is_fold : forall labels, occupy labels = snd (fold_left occ_step labels ([], [])).
Proof. reflexivity. Qed.

Lemma nodup_app : forall (A : Type) (l1 l2 : list A), NoDup l1 -> NoDup l2 -> (forall x, In x l1 -> ~ In x l2) -> NoDup (l1 ++ l2).
Proof.
  intros A. induction l1 as [|x l1 IH]; intros l2 N1 N2 D; [exact N2|]. inversion N1; subst. cbn. constructor.
  - intros Hin. apply in_app_or in Hin. destruct Hin as [Hin|Hin]; [contradiction|]. apply (D x (or_introl eq_refl)). exact Hin.
  - apply IH; try assumption. intros y Hy. apply D. right. exact Hy.
Qed.

Record occ_inv (seen : list (label * nat)) (acc : list slot * list label) : Prop := {
  oi_occ : forall s, In s (fst acc) <-> In s (flat_map slots (snd acc));
  oi_excl : NoDup (flat_map slots (snd acc));
  oi_from : forall l, In l (snd acc) -> exists n, In (l, n) seen /\ min_hbonds <= n;
  oi_max : forall l n, In (l, n) seen -> min_hbonds <= n -> In l (snd acc) \/ exists s, In s (slots l) /\ In s (fst acc) }.

Lemma occ_step_inv : forall seen acc ln, ends_differ (fst ln) -> occ_inv seen acc -> occ_inv (seen ++ [ln]) (occ_step acc ln).
Proof.
  intros seen [occ out] [[[[[i j] cis] ei] ej] n] Hd [O E F M]. cbn [fst snd] in *. unfold occ_step.
  assert (Keep : forall acc', acc' = (occ, out) ->
                  (min_hbonds <= n -> exists s, In s (slots (i, j, cis, ei, ej)) /\ In s occ) -> occ_inv (seen ++ [(i, j, cis, ei, ej, n)]) acc').
  { intros acc' -> Hc. constructor; cbn [fst snd]; [exact O|exact E| |].
    - intros l Hl. destruct (F l Hl) as (m & Hm & Hle). exists m. split; [apply in_or_app; left; exact Hm|exact Hle].
    - intros l m Hin Hle. apply in_app_or in Hin. destruct Hin as [Hin|[Heq|[]]]; [apply M with (n := m); assumption|].
      injection Heq as <- <-. right. apply Hc. exact Hle. }
  destruct (n <? min_hbonds) eqn:En; [apply Keep; [reflexivity|]; apply Nat.ltb_lt in En; intros; lia|].
  change (existsb (fun o : nat * ascii => (fst o =? i) && Ascii.eqb (snd o) ei) occ) with (occ_has occ (i, ei)).
  change (existsb (fun o : nat * ascii => (fst o =? j) && Ascii.eqb (snd o) ej) occ) with (occ_has occ (j, ej)).
  destruct (occ_has occ (i, ei)) eqn:E1.
  { apply Keep; [reflexivity|]. intros _. exists (i, ei). split; [left; reflexivity|apply occ_has_iff; exact E1]. }
  destruct (occ_has occ (j, ej)) eqn:E2.
  { apply Keep; [reflexivity|]. intros _. exists (j, ej). split; [right; left; reflexivity|apply occ_has_iff; exact E2]. }
  apply Nat.ltb_ge in En.
  assert (N1 : ~ In (i, ei) occ) by (intros H; apply occ_has_iff in H; congruence).
  assert (N2 : ~ In (j, ej) occ) by (intros H; apply occ_has_iff in H; congruence).
  constructor; cbn [fst snd].
  - intros s. rewrite flat_map_app, in_app_iff. cbn [flat_map slots app In]. rewrite <- O. intuition.
  - rewrite flat_map_app. cbn [flat_map slots app]. apply nodup_app; [exact E| |].
    + constructor; [|constructor; [intros []|constructor]]. intros [H|[]]. injection H as H _. cbn in Hd. congruence.
    + intros s Hs [<-|[<-|[]]]; apply O in Hs; contradiction.
  - intros l Hl. apply in_app_or in Hl. destruct Hl as [Hl|[<-|[]]].
    + destruct (F l Hl) as (m & Hm & Hle). exists m. split; [apply in_or_app; left; exact Hm|exact Hle].
    + exists n. split; [apply in_or_app; right; left; reflexivity|exact En].
  - intros l m Hin Hle. apply in_app_or in Hin. destruct Hin as [Hin|[Heq|[]]].
    + destruct (M l m Hin Hle) as [H|(s & Hs & Ho)]; [left; apply in_or_app; left; exact H|right; exists s; split; [exact Hs|right; right; exact Ho]].
    + injection Heq as <- <-. left. apply in_or_app. right. left. reflexivity.
Qed.

Lemma occ_fold_inv : forall todo seen acc, (forall ln, In ln todo -> ends_differ (fst ln)) -> occ_inv seen acc ->
    occ_inv (seen ++ todo) (fold_left occ_step todo acc).
Proof.
  induction todo as [|ln todo IH]; intros seen acc Hd I; cbn [fold_left]; [rewrite app_nil_r; exact I|].
  replace (seen ++ ln :: todo) with ((seen ++ [ln]) ++ todo) by (rewrite <- app_assoc; reflexivity).
  apply IH; [intros x Hx; apply Hd; right; exact Hx|]. apply occ_step_inv; [apply Hd; left; reflexivity|exact I].
Qed.

(* the chosen labels: enough contacts, no (residue, edge) slot twice, and nothing that qualifies is left out unless one of
   its two slots is taken by a chosen label *)
Theorem occupy_spec : forall labels, (forall ln, In ln labels -> ends_differ (fst ln)) ->
    NoDup (flat_map slots (occupy labels)) /\
    (forall l, In l (occupy labels) -> exists n, In (l, n) labels /\ min_hbonds <= n) /\
    (forall l n, In (l, n) labels -> min_hbonds <= n ->
       In l (occupy labels) \/ exists l' s, In l' (occupy labels) /\ In s (slots l) /\ In s (slots l')).
Proof.
  intros labels Hd. rewrite occupy_is_fold.
  assert (I0 : occ_inv [] ([], [])).
  { constructor; cbn [fst snd flat_map]; [intros s; tauto|constructor|intros l []|intros l n []]. }
  destruct (occ_fold_inv labels [] ([], []) Hd I0) as [O E F M]. cbn [app] in *.
  split; [exact E|]. split; [exact F|].
  intros l n Hin Hle. destruct (M l n Hin Hle) as [H|(s & Hs & Ho)]; [left; exact H|right].
  apply O in Ho. apply in_flat_map in Ho. destruct Ho as (l' & Hl' & Hs'). exists l', s. repeat split; assumption.
Qed.

(* ---------------------------------------------------------------- counting *)
Fixpoint count_label (l : label) (ls : list label) : nat :=
  match ls with [] => 0 | k :: t => (if label_eqb k l then 1 else 0) + count_label l t end.

Lemma label_eqb_eq : forall a b, label_eqb a b = true <-> a = b.
Proof.
  intros [[[[i1 j1] c1] e1] f1] [[[[i2 j2] c2] e2] f2]. unfold label_eqb.
  rewrite !andb_true_iff, !Nat.eqb_eq, Bool.eqb_true_iff, !Ascii.eqb_eq. split.
  - intros [[[[-> ->] ->] ->] ->]. reflexivity.
  - intros H. injection H as -> -> -> -> ->. repeat split.
Qed.
Lemma label_eqb_refl : forall a, label_eqb a a = true.
Proof. intros a. apply label_eqb_eq. reflexivity. Qed.
Lemma label_eqb_neq : forall a b, label_eqb a b = false <-> a <> b.
Proof. intros a b. split; [intros H E; apply label_eqb_eq in E; congruence|]. intros H. destruct (label_eqb a b) eqn:E; [apply label_eqb_eq in E; contradiction|reflexivity]. Qed.

Fixpoint get (c : list (label * nat)) (k : label) : nat :=
  match c with [] => 0 | (k0, n0) :: t => if label_eqb k0 k then n0 else get t k end.

Lemma get_count_add : forall l c k, get (count_add l c) k = get c k + (if label_eqb l k then 1 else 0).
Proof.
  intros l. induction c as [|[k0 n0] t IH]; intros k; cbn [count_add get]; [destruct (label_eqb l k); reflexivity|].
  destruct (label_eqb k0 l) eqn:E; cbn [get].
  - apply label_eqb_eq in E. subst k0. destruct (label_eqb l k); lia.
  - destruct (label_eqb k0 k) eqn:E2; [|apply IH]. apply label_eqb_eq in E2. subst k0.
    destruct (label_eqb l k) eqn:E3; [|lia]. apply label_eqb_eq in E3. subst. rewrite label_eqb_refl in E. discriminate.
Qed.

Lemma count_add_keys : forall l c k, In k (map fst (count_add l c)) <-> k = l \/ In k (map fst c).
Proof.
  intros l. induction c as [|[k0 n0] t IH]; intros k; cbn [count_add map fst In]; [intuition|].
  destruct (label_eqb k0 l) eqn:E.
  - apply label_eqb_eq in E. subst k0. cbn [map fst In]. intuition.
  - cbn [map fst In]. rewrite IH. intuition.
Qed.

Lemma count_add_nodup : forall l c, NoDup (map fst c) -> NoDup (map fst (count_add l c)).
Proof.
  intros l. induction c as [|[k0 n0] t IH]; intros N; cbn [count_add]; [constructor; [intros []|constructor]|].
  cbn [map fst] in N. inversion N as [|? ? Hn N']; subst.
  destruct (label_eqb k0 l) eqn:E; cbn [map fst]; [constructor; assumption|].
  constructor; [|apply IH; exact N']. intros H. apply count_add_keys in H. destruct H as [->|H]; [rewrite label_eqb_refl in E; discriminate|contradiction].
Qed.

Lemma count_add_pos : forall l c, (forall k n, In (k, n) c -> 1 <= n) -> forall k n, In (k, n) (count_add l c) -> 1 <= n.
Proof.
  intros l. induction c as [|[k0 n0] t IH]; intros P k n Hin; cbn [count_add] in Hin.
  - destruct Hin as [H|[]]. injection H as <- <-. lia.
  - destruct (label_eqb k0 l).
    + destruct Hin as [H|Hin]; [injection H as <- <-; lia|apply (P k n); right; exact Hin].
    + destruct Hin as [H|Hin]; [injection H as <- <-; apply (P k0 n0); left; reflexivity|].
      apply (IH (fun k n H => P k n (or_intror H)) k n Hin).
Qed.

Lemma in_get : forall c k n, NoDup (map fst c) -> In (k, n) c -> get c k = n.
Proof.
  induction c as [|[k0 n0] t IH]; intros k n N Hin; [destruct Hin|]. cbn [map fst] in N. inversion N as [|? ? Hn N']; subst. cbn [get].
  destruct Hin as [H|Hin].
  - injection H as <- <-. rewrite label_eqb_refl. reflexivity.
  - destruct (label_eqb k0 k) eqn:E; [|apply IH; assumption]. apply label_eqb_eq in E. subst k0.
    exfalso. apply Hn. apply (in_map fst) in Hin. exact Hin.
Qed.

Lemma get_in : forall c k, 1 <= get c k -> In (k, get c k) c.
Proof.
  induction c as [|[k0 n0] t IH]; intros k H; cbn [get] in *; [lia|].
  destruct (label_eqb k0 k) eqn:E; [apply label_eqb_eq in E; subst; left; reflexivity|right; apply IH; exact H].
Qed.

Definition counted_of (labs : list label) : list (label * nat) := fold_left (fun c l => count_add l c) labs [].

Lemma fold_count : forall labs c,
    (forall k, get (fold_left (fun c l => count_add l c) labs c) k = get c k + count_label k labs) /\
    (NoDup (map fst c) -> NoDup (map fst (fold_left (fun c l => count_add l c) labs c))) /\
    ((forall k n, In (k, n) c -> 1 <= n) -> forall k n, In (k, n) (fold_left (fun c l => count_add l c) labs c) -> 1 <= n).
Proof.
  induction labs as [|x labs IH]; intros c; cbn [fold_left count_label]; [repeat split; auto|].
  destruct (IH (count_add x c)) as (A & B & C). repeat split.
  - intros k. rewrite A, get_count_add. lia.
  - intros N. apply B. apply count_add_nodup. exact N.
  - intros P. apply C. apply count_add_pos. exact P.
Qed.

(* the counter holds exactly the labels that occur, each with its number of occurrences *)
Theorem counted_spec : forall labs l n, In (l, n) (counted_of labs) <-> (n = count_label l labs /\ 1 <= n).
Proof.
  intros labs l n. unfold counted_of. destruct (fold_count labs []) as (A0 & B & C).
  assert (A : forall k, get (fold_left (fun c l => count_add l c) labs []) k = count_label k labs) by (intros k; rewrite A0; reflexivity).
  specialize (B (NoDup_nil _)). assert (P : forall k m, In (k, m) (@nil (label * nat)) -> 1 <= m) by (intros k m []). specialize (C P).
  split.
  - intros Hin. split; [|apply (C l n Hin)]. rewrite <- (in_get _ l n B Hin). apply A.
  - intros [-> Hn]. rewrite <- (A l) in Hn |- *. apply get_in. exact Hn.
Qed.

Lemma insert_by_count_perm : forall x l, Permutation (insert_by_count x l) (x :: l).
Proof.
  intros x. induction l as [|y t IH]; cbn [insert_by_count]; [apply Permutation_refl|].
  destruct (snd x <? snd y); [|apply Permutation_refl].
  eapply Permutation_trans; [apply perm_skip; exact IH|apply perm_swap].
Qed.
Lemma most_common_perm : forall c, Permutation (most_common c) c.
Proof.
  induction c as [|x c IH]; [apply Permutation_refl|]. unfold most_common. cbn [fold_right]. fold (most_common c).
  eapply Permutation_trans; [apply insert_by_count_perm|apply perm_skip; exact IH].
Qed.

(* ---------------------------------------------------------------- the chosen pairs of find_pairs *)
Definition chosen_of (labs : list label) : list label := occupy (most_common (counted_of labs)).

Theorem chosen_spec : forall labs, (forall l, In l labs -> ends_differ l) ->
    (* edge-exclusive *)
    NoDup (flat_map slots (chosen_of labs)) /\
    (* supported by at least min_hbonds contacts *)
    (forall l, In l (chosen_of labs) -> min_hbonds <= count_label l labs) /\
    (* maximal *)
    (forall l, min_hbonds <= count_label l labs ->
       In l (chosen_of labs) \/ exists l' s, In l' (chosen_of labs) /\ In s (slots l) /\ In s (slots l')).
Proof.
  intros labs Hd. unfold chosen_of.
  assert (Hd' : forall ln, In ln (most_common (counted_of labs)) -> ends_differ (fst ln)).
  { intros [l n] Hin. apply (Permutation_in _ (most_common_perm _)) in Hin. apply counted_spec in Hin. destruct Hin as [-> Hn]. cbn [fst].
    apply Hd. clear -Hn. induction labs as [|x labs IH]; cbn [count_label] in Hn; [lia|].
    destruct (label_eqb x l) eqn:E; [left; apply label_eqb_eq; exact E|right; apply IH; lia]. }
  destruct (occupy_spec _ Hd') as (A & B & C). split; [exact A|]. split.
  - intros l Hl. destruct (B l Hl) as (n & Hin & Hle). apply (Permutation_in _ (most_common_perm _)) in Hin. apply counted_spec in Hin. lia.
  - intros l Hle. apply (C l (count_label l labs)); [|exact Hle].
    apply (Permutation_in _ (Permutation_sym (most_common_perm _))). apply counted_spec. split; [reflexivity|]. unfold min_hbonds in Hle. lia.
Qed.
